(* C05: cases of the correspondence check.
   - CUser: one DataUser saved and loaded through a whole StateStore: observed getters before the save and
     after the load, against the model and against the property (equal configuration => identical);
   - CWhole: the other registered parts of one state: trainer markers, model versions, nested component
     values, the clock, each as (saved, loaded) pairs of interned values;
   - CRelaunch: a system relaunched from the state saved at shutdown: (end value of run 1, first value of run 2). *)
From Coq Require Import ZArith QArith List Bool Arith.
From Pamiq Require Import Model.Buffers Model.DataPipe Model.Roundtrip.
Import ListNotations.
Local Open Scope Z_scope.

Definition zl_eqb (a b : list Z) : bool := if list_eq_dec Z.eq_dec a b then true else false.
Definition nl_eqb (a b : list nat) : bool := if list_eq_dec Nat.eq_dec a b then true else false.
Definition uobs_eqb (a b : uobs) : bool :=
  zl_eqb (o_items a) (o_items b) && Nat.eqb (o_len a) (o_len b) && nl_eqb (o_counts a) (o_counts b).

Inductive c05case :=
| CUser (c : ucfg) (ids tss probes : list Z) (before after : uobs)
| CMore (c : ucfg) (ids tss probes mids mtss : list Z) (more : uobs)   (* sequential buffers: arrivals after the load *)
| CWhole (pairs : list (Z * Z)) (clock_saved clock_loaded clock_later expect_later : Q)
| CRelaunch (pairs : list (Z * Z)) (clock_end clock_start : Q).

Definition pairs_equal (l : list (Z * Z)) : bool := forallb (fun p => Z.eqb (fst p) (snd p)) l.

Definition same_cfg (c : ucfg) : bool :=
  Nat.eqb (u_cap1 c) (u_cap2 c) &&
  match u_q1 c, u_q2 c with Some a, Some b => Nat.eqb a b | None, None => true | _, _ => false end.

Definition c05_agree (c : c05case) : bool :=
  match c with
  | CUser cfg ids tss probes b a =>
      uobs_eqb (before_save cfg ids tss probes) b && uobs_eqb (after_load cfg ids tss probes) a
  | CMore cfg ids tss probes mids mtss m => uobs_eqb (after_more cfg ids tss probes mids mtss) m
  | _ => true
  end.

(* the property on the implementation *)
Definition c05_prop_ok (c : c05case) : bool :=
  match c with
  | CUser cfg ids tss probes b a =>
      if same_cfg cfg then uobs_eqb a b                           (* exactly what was saved *)
      else (* a smaller buffer keeps what fits, in order, and never more than its capacity; the arrival counts are
              those of the saved window, cut to the new timestamp queue's size *)
        Nat.leb (o_len a) (u_cap2 cfg) && Nat.eqb (o_len a) (length (o_items a)) &&
        zl_eqb (o_items a) (loaded_items cfg (o_items b)) &&
        nl_eqb (o_counts a) (map (fun c => match u_q2 cfg with Some q => Nat.min q c | None => c end) (o_counts b))
  (* a loaded component behaves from then on like a fresh component of its own configuration that had been given
     the retained history: nothing of the configuration it was saved from survives *)
  | CMore cfg ids tss probes mids mtss m => uobs_eqb (after_more cfg ids tss probes mids mtss) m
  | CWhole pairs cs cl later expect => pairs_equal pairs && Qeq_bool cs cl && Qeq_bool later expect
  | CRelaunch pairs ce cs => pairs_equal pairs && Qeq_bool ce cs
  end.
