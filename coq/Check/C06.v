(* C06: cases of the correspondence check for the clock.  The implementation is
   observed on its three channels at once; each case is projected on every channel
   and compared (a) with the model of the code's anchor arithmetic (agree) and
   (b) with the abstract clock of the property (prop_ok). *)
From Coq Require Import QArith List Bool.
From Pamiq Require Import Model.Clock.
Import ListNotations.
Open Scope Q_scope.

Inductive chan := CT | CP | CM.

Inductive op3 :=
| Read3 (c : chan) | SetScale3 (k : Q) | GetScale3 | IsPaused3 | Pause3 | Resume3
| Export3 | Load3 (wt wp wm : Q) | Sleep3 (d : Q) | Advance3 (d : Q).

Inductive out3 :=
| OQ3 (q : Q) | OTri (t p m : Q) | OBool3 (b : bool) | ONone3 | OErr3.

Definition chan_eqb (a b : chan) : bool :=
  match a, b with CT, CT | CP, CP | CM, CM => true | _, _ => false end.

Definition proj_op (c : chan) (o : op3) : op :=
  match o with
  | Read3 c' => if chan_eqb c c' then Read else Skip
  | SetScale3 k => SetScale k
  | GetScale3 => GetScale
  | IsPaused3 => IsPaused
  | Pause3 => Pause
  | Resume3 => Resume
  | Export3 => Export
  | Load3 wt wp wm => Load (match c with CT => wt | CP => wp | CM => wm end)
  | Sleep3 d => Sleep d
  | Advance3 d => Advance d
  end.

(* what channel c sees of an observed output; [None]: the output has the wrong shape *)
Definition proj_out (c : chan) (o : op3) (y : out3) : option out :=
  match o, y with
  | Read3 c', OQ3 q => Some (if chan_eqb c c' then OQ q else ONone)
  | SetScale3 _, ONone3 => Some ONone
  | SetScale3 _, OErr3 => Some OErr
  | GetScale3, OQ3 q => Some (OQ q)
  | IsPaused3, OBool3 b => Some (OBool b)
  | Pause3, ONone3 | Resume3, ONone3 | Load3 _ _ _, ONone3 | Advance3 _, ONone3 => Some ONone
  | Export3, OTri t p m => Some (OQ (match c with CT => t | CP => p | CM => m end))
  | Sleep3 _, OQ3 q => Some (OQ q)
  | _, _ => None
  end.

Fixpoint proj_outs (c : chan) (ops : list op3) (ys : list out3) : option (list out) :=
  match ops, ys with
  | [], [] => Some []
  | o :: ops', y :: ys' =>
      match proj_out c o y, proj_outs c ops' ys' with
      | Some a, Some r => Some (a :: r)
      | _, _ => None
      end
  | _, _ => None
  end.

Record input := { offT : Q; offP : Q; offM : Q; now0 : Q; ops : list op3 }.

Definition off (i : input) (c : chan) : Q := match c with CT => offT i | CP => offP i | CM => offM i end.

Definition chan_agree (orig : bool) (i : input) (ys : list out3) (c : chan) : bool :=
  match proj_outs c (ops i) ys with
  | Some l => outs_eqb (run orig (off i c) (init (off i c) (now0 i)) (now0 i) (map (proj_op c) (ops i))) l
  | None => false
  end.

Definition chan_spec (i : input) (ys : list out3) (c : chan) : bool :=
  match proj_outs c (ops i) ys with
  | Some l => outs_eqb (srun (sinit (off i c) (now0 i)) (map (proj_op c) (ops i))) l
  | None => false
  end.

Definition case := (input * list out3)%type.
Definition agree (c : case) : bool := forallb (chan_agree false (fst c) (snd c)) [CT; CP; CM].
Definition prop_ok (c : case) : bool := forallb (chan_spec (fst c) (snd c)) [CT; CP; CM].
