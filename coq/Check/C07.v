(* C07: black-box oracle over (operation, output) pairs of a collector/user pair. *)
From Coq Require Import ZArith List Bool Arith.
From Pamiq Require Import Model.Buffers Model.DataPipe.
Import ListNotations.

Definition zlist_eqb (a b : list Z) : bool := if list_eq_dec Z.eq_dec a b then true else false.

(* [pending]: samples collected since the last hand-over (with the clock value read
   during their collect); [delivered]: timestamps of everything handed to the buffer *)
Fixpoint spec (q : option nat) (pending : list (Z * Z)) (delivered : list Z)
         (ops : list pop) (outs : list pout) : bool :=
  match ops, outs with
  | [], [] => true
  | o :: ops', y :: outs' =>
      match o, y with
      | Collect x t, PNone => spec q (pending ++ [(x, t)]) delivered ops' outs'
      | Update, PAdds ids | GetData, PAdds ids | SaveState, PAdds ids =>
          (* exactly once, in collection order; only the oldest beyond the queue size are lost *)
          let kept := lastn_opt q pending in
          zlist_eqb ids (map fst kept) && spec q [] (delivered ++ map snd kept) ops' outs'
      | Count ts, PCount n =>
          (* delivered samples collected after ts, within the most recent queue-size deliveries *)
          Nat.eqb n (length (take_while (fun t => Z.ltb ts t) (rev (lastn_opt q delivered))))
          && spec q pending delivered ops' outs'
      | _, _ => false
      end
  | _, _ => false
  end.

Record input := { i_q : option nat; i_ops : list pop }.

Fixpoint pout_eqb (a b : pout) : bool :=
  match a, b with
  | PNone, PNone => true
  | PAdds x, PAdds y => zlist_eqb x y
  | PCount n, PCount m => Nat.eqb n m
  | _, _ => false
  end.

Fixpoint pouts_eqb (a b : list pout) : bool :=
  match a, b with
  | [], [] => true
  | x :: a', y :: b' => pout_eqb x y && pouts_eqb a' b'
  | _, _ => false
  end.

Definition model_outs (i : input) : list pout := prun (pinit (i_q i)) (i_ops i).
Definition agree (c : input * list pout) : bool := pouts_eqb (model_outs (fst c)) (snd c).
Definition prop_ok (c : input * list pout) : bool := spec (i_q (fst c)) [] [] (i_ops (fst c)) (snd c).

(* exclusive acquisition: cases are (names, sequence of requested names, answers) *)
Fixpoint acq_run (names acquired : list nat) (reqs : list nat) : list acq_out :=
  match reqs with
  | [] => []
  | n :: r => let (a', y) := acquire names acquired n in y :: acq_run names a' r
  end.

(* contract: a request succeeds iff the name exists and was not acquired before *)
Fixpoint acq_spec (names seen : list nat) (reqs : list nat) (outs : list acq_out) : bool :=
  match reqs, outs with
  | [], [] => true
  | n :: r, y :: o =>
      let ok := existsb (Nat.eqb n) names && negb (existsb (Nat.eqb n) seen) in
      match y with AcqOk => ok | AcqKeyError => negb ok end
      && acq_spec names (if ok then n :: seen else seen) r o
  | _, _ => false
  end.

Definition acq_out_eqb (a b : acq_out) : bool :=
  match a, b with AcqOk, AcqOk | AcqKeyError, AcqKeyError => true | _, _ => false end.
Fixpoint acq_outs_eqb (a b : list acq_out) : bool :=
  match a, b with
  | [], [] => true
  | x :: a', y :: b' => acq_out_eqb x y && acq_outs_eqb a' b'
  | _, _ => false
  end.

(* a case of the correspondence check is either a pipe history or an acquisition history *)
Inductive case :=
| CPipe (i : input) (outs : list pout)
| CAcq (names reqs : list nat) (outs : list acq_out).

Definition case_agree (c : case) : bool :=
  match c with
  | CPipe i o => agree (i, o)
  | CAcq names reqs o => acq_outs_eqb (acq_run names [] reqs) o
  end.
Definition case_prop_ok (c : case) : bool :=
  match c with
  | CPipe i o => prop_ok (i, o)
  | CAcq names reqs o => acq_spec names [] reqs o
  end.
