(* C08: oracles and agreement tests.
   (1) whole runs: the trace is accepted by the thread model, satisfies the cause monitor [C08_ok], and the
       timeline of clock operations and uptime checks satisfies the uptime arithmetic [timeline_ok];
   (2) bookkeeping: the tick statistics of the inference thread never raise, and log what was collected. *)
From Coq Require Import ZArith QArith List Bool.
From Pamiq Require Import Model.Threads Check.Sys Model.Sched Model.Bookkeep.
Import ListNotations.
Local Open Scope Z_scope.

(* ---- the timeline of one run: raw instants in nanoseconds ---- *)
Inductive tev := TStart (r : Z) | TPause (r : Z) | TResume (r : Z) | TCheck (r : Z) (b : bool)
| TBusy.    (* the tick that follows executes a command or a save: its length is not bounded by the loop period *)

Record tl := { tl_scale : Q; tl_limit : option Z; tl_period : Z; tl_evs : list tev }.

Definition eps : Z := 2000.      (* 2 microseconds: float rounding of the implementation's clock arithmetic *)

Record tst := { t_last : Z; t_paused : bool; t_unp : Z; t_begun : bool; t_reached : bool; t_prevchk : option Z }.

Definition adv (s : tst) (r : Z) : Z := if t_paused s then t_unp s else t_unp s + (r - t_last s).

(* un-paused real time since the control thread started, times the scale, against the limit *)
Definition check_ok (sc : Q) (lim : option Z) (unp : Z) (b : bool) : bool :=
  match lim with
  | None => negb b
  | Some u =>
      let up := (sc * inject_Z unp)%Q in
      if b then Qle_bool (inject_Z (u - eps)) up else Qle_bool up (inject_Z (u + eps))
  end.

Fixpoint tl_ok (sc : Q) (lim : option Z) (per : Z) (s : tst) (evs : list tev) : bool :=
  match evs with
  | [] => true
  | TStart r :: e => negb (t_begun s) && tl_ok sc lim per {| t_last := r; t_paused := t_paused s; t_unp := 0; t_begun := true; t_reached := false; t_prevchk := None |} e
  | TPause r :: e =>
      if t_begun s then tl_ok sc lim per {| t_last := r; t_paused := true; t_unp := adv s r; t_begun := true; t_reached := t_reached s; t_prevchk := None |} e
      else tl_ok sc lim per {| t_last := r; t_paused := true; t_unp := 0; t_begun := false; t_reached := false; t_prevchk := None |} e
  | TResume r :: e =>
      if t_begun s then tl_ok sc lim per {| t_last := r; t_paused := false; t_unp := adv s r; t_begun := true; t_reached := t_reached s; t_prevchk := None |} e
      else tl_ok sc lim per {| t_last := r; t_paused := false; t_unp := 0; t_begun := false; t_reached := false; t_prevchk := None |} e
  | TCheck r b :: e =>
      t_begun s && negb (t_reached s) && check_ok sc lim (adv s r) b &&
      (* an idle tick lasts one loop period: the limit is noticed within one period of its crossing *)
      match t_prevchk s with Some r0 => r - r0 <=? per + eps | None => true end &&
      tl_ok sc lim per {| t_last := r; t_paused := t_paused s; t_unp := adv s r; t_begun := true; t_reached := b; t_prevchk := Some r |} e
  | TBusy :: e => tl_ok sc lim per {| t_last := t_last s; t_paused := t_paused s; t_unp := t_unp s; t_begun := t_begun s; t_reached := t_reached s; t_prevchk := None |} e
  end.

Definition timeline_ok (t : tl) : bool :=
  tl_ok (tl_scale t) (tl_limit t) (tl_period t) {| t_last := 0; t_paused := false; t_unp := 0; t_begun := false; t_reached := false; t_prevchk := None |} (tl_evs t).

(* ---- bookkeeping cases ---- *)
Record binput := { b_strict : bool; b_ivl : Z; b_reads : list Z; b_ticks : nat }.

Definition bout_eqb (a b : bout) : bool :=
  match a, b with
  | BQuiet, BQuiet | BRaise, BRaise => true
  | BLogged n, BLogged m => Nat.eqb n m
  | _, _ => false
  end.
Fixpoint ticks_eqb (a b : list (list ev * bout)) : bool :=
  match a, b with
  | [], [] => true
  | (e1, o1) :: a', (e2, o2) :: b' => evs_eqb e1 e2 && bout_eqb o1 o2 && ticks_eqb a' b'
  | _, _ => false
  end.
Definition btrace := (list ev * list (list ev * bout))%type.
Definition btrace_eqb (a b : btrace) : bool := evs_eqb (fst a) (fst b) && ticks_eqb (snd a) (snd b).

(* the oracle on an observed bookkeeping run: nothing raised, every requested tick happened, and what was
   logged adds up: every collected duration is logged exactly once or still pending *)
Fixpoint logged_sum (l : list (list ev * bout)) : nat :=
  match l with [] => 0 | (_, BLogged n) :: r => n + logged_sum r | _ :: r => logged_sum r end.
Definition no_raise (l : list (list ev * bout)) : bool := forallb (fun x => match snd x with BRaise => false | _ => true end) l.
Definition book_ok (i : binput) (t : btrace) : bool :=
  no_raise (snd t) && Nat.eqb (length (snd t)) (b_ticks i) && Nat.leb (logged_sum (snd t)) (Nat.pred (b_ticks i)).

Inductive c08case :=
| C08Run (i : sysin) (tr : trace) (t : tl)
| C08Book (i : binput) (obs : btrace).

Definition c08_agree (c : c08case) : bool :=
  match c with
  | C08Run i tr _ => accepted i tr
  | C08Book i obs => btrace_eqb (inf_trace false (b_strict i) (b_ivl i) (b_reads i) (b_ticks i)) obs
  end.
Definition c08_prop_ok (c : c08case) : bool :=
  match c with
  | C08Run i tr t => C08_ok tr && timeline_ok t
  | C08Book i obs => book_ok i obs
  end.
