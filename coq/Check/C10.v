(* C10: the check of an observed save (its operation list and what happened at each crash point). *)
From Coq Require Import List Bool Arith.
From Pamiq Require Import Model.Persist.
Import ListNotations.

(* one crash point and what the implementation did with the state it leaves *)
Record crashobs := {
  c_k : nat; c_j : option nat;
  c_rejected : bool;          (* launch(saved_state_path = that state) raised *)
  c_threads : nat;            (* threads started before it raised / at all *)
  c_older_intact : bool       (* every older state directory is byte-for-byte what it was *)
}.

Record case := { root : path; ops : list fop; older : list path; obs : list crashobs }.

(* parents are created before their children, and nothing is created twice *)
Fixpoint parents_ok (seen : list path) (l : list fop) : bool :=
  match l with
  | [] => true
  | o :: r =>
      let p := op_path o in
      negb (existsb (path_eqb p) seen) &&
      existsb (path_eqb (removelast p)) seen &&
      parents_ok (match o with FMkdir q => q :: seen | _ => seen end) r
  end.

(* agreement: the observed operation list has the shape the theorems need; wherever the model says the torn
   state cannot be loaded the implementation rejected it (it may reject more: an earlier loader failed) *)
Definition agree (c : case) : bool :=
  ops_wf (root c) (ops c) &&
  parents_ok [removelast (root c)] (ops c) &&
  forallb (fun o : path => negb (under (root c) o)) (older c) &&
  forallb (fun o => if time_loadable (crash [] (ops c) (c_k o) (c_j o)) (root c) then true else c_rejected o) (obs c).

(* the property on the implementation: every torn state is rejected before any thread is started, the complete
   one is accepted, and older states are untouched at every crash point *)
Definition prop_ok (c : case) : bool :=
  forallb (fun o =>
    c_older_intact o &&
    if complete (ops c) (c_k o) (c_j o) then negb (c_rejected o)
    else c_rejected o && (c_threads o =? 0)) (obs c) &&
  existsb (fun o => complete (ops c) (c_k o) (c_j o)) (obs c).
