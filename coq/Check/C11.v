(* C11: black-box contract of the built-in buffers, as a boolean oracle over
   (operation, output, snapshot of get_data) triples; and the agreement test. *)
From Coq Require Import ZArith QArith List Bool Arith.
From Pamiq Require Import Model.Buffers.
Import ListNotations.

Definition view := list (nat * list Z).

Inductive rout :=
| RAdd (err drew : bool) (bounds : option (Z * Z))
| RGet (v : view)
| RLen (n : nat)
| RSaveLoad.

Definition zlist_eqb (a b : list Z) : bool := if list_eq_dec Z.eq_dec a b then true else false.

Fixpoint view_eqb (a b : view) : bool :=
  match a, b with
  | [], [] => true
  | (k, l) :: a', (k', l') :: b' => Nat.eqb k k' && zlist_eqb l l' && view_eqb a' b'
  | _, _ => false
  end.

(* ids behind a view, provided every key is present and all keys are aligned *)
Definition decode (K : list nat) (v : view) : option (list Z) :=
  match v with
  | (k0, vals) :: _ =>
      let ids := map (fun x => ((x - Z.of_nat k0) / 16)%Z) vals in
      if view_eqb (render K ids) v then Some ids else None
  | [] => None
  end.

Definition Qlt_bool (a b : Q) : bool := negb (Qle_bool b a).

Definition bounds_ok (c : nat) (bounds : option (Z * Z)) : bool :=
  match bounds with
  | None => true
  | Some (a, b) => Z.eqb a 0 && Z.eqb b (Z.of_nat c - 1)
  end.

Definition subset_b (a b : list Z) : bool := forallb (fun x => existsb (Z.eqb x) b) a.

(* one step of the contract.  [c]: capacity now; [prev]: ids before; [ids']: ids after *)
Definition spec_step (k : bkind) (c : nat) (p : Q) (K : list nat)
           (prev : list Z) (o : bop) (out : rout) (ids' : list Z) : bool :=
  match o, out with
  | BAdd id ks r idx, RAdd err drew bounds =>
      if negb (nat_list_eqb ks K) then err && zlist_eqb ids' prev        (* rejected, unchanged *)
      else negb err && bounds_ok c bounds &&
        match k with
        | KSeq => zlist_eqb ids' (lastn c (prev ++ [id]))
        | KRR =>
            if Nat.ltb (length prev) c then zlist_eqb ids' (prev ++ [id])   (* fills in insertion order *)
            else
              let replaced := existsb (fun i => zlist_eqb ids' (upd_nth prev i id)) (seq 0 c) in
              let kept := zlist_eqb ids' prev in
              (kept || replaced)                                            (* at most one slot, to the new sample *)
              && (if Qlt_bool r p then replaced else true)                  (* with the configured probability *)
              && (if Qlt_bool p r then kept else true)
              && (if Qeq_bool p 0 then kept else true)                      (* never for 0.0 *)
        end
  | BGet, RGet v => match decode K v with Some g => zlist_eqb g prev | None => false end && zlist_eqb ids' prev
  | BMutGet, RGet v => match decode K v with Some g => zlist_eqb g prev | None => false end && zlist_eqb ids' prev
  | BLen, RLen n => Nat.eqb n (length prev) && zlist_eqb ids' prev
  | BSaveLoad c2, RSaveLoad =>
      if Nat.leb (length prev) c2 then zlist_eqb ids' prev                  (* survives save/load *)
      else Nat.leb (length ids') c2 && subset_b ids' prev
  | _, _ => false
  end.

Fixpoint spec_run (k : bkind) (c : nat) (p : Q) (K : list nat) (prev : list Z)
         (ops : list bop) (obs : list (rout * view)) : bool :=
  match ops, obs with
  | [], [] => true
  | o :: ops', (out, v) :: obs' =>
      match decode K v with
      | None => false                                       (* a key is missing or keys are misaligned *)
      | Some ids' =>
          Nat.leb (length ids') (match o with BSaveLoad c2 => c2 | _ => c end)   (* never exceeds max_size *)
          && spec_step k c p K prev o out ids'
          && spec_run k (match o with BSaveLoad c2 => c2 | _ => c end) p K ids' ops' obs'
      end
  | _, _ => false
  end.

(* ---- cases ---- *)
Record input := {
  i_kind : bkind; i_cap : nat; i_prob : Q; i_keys : list nat; i_ops : list bop;
  i_qexact : bool   (* false when the probability is an arbitrary double (survival-length constructor):
                       the float division max_size / p may round across an integer, so the queue size
                       is then compared up to 1 *)
}.

Record observed := {
  o_ctor : ctor_res;          (* constructor outcome and max_queue_size *)
  o_obs : list (rout * view)
}.

Definition to_rout (K : list nat) (o : bout) : rout :=
  match o with
  | OAdd e d b => RAdd e d b
  | OGet ids => RGet (render K ids)
  | OLen n => RLen n
  | OSaveLoad => RSaveLoad
  end.

Definition model_obs (orig : bool) (i : input) : list (rout * view) :=
  map (fun x => (to_rout (i_keys i) (fst x), render (i_keys i) (snd x)))
      (run orig (empty (i_kind i) (i_cap i) (i_prob i) (i_keys i)) (i_ops i)).

Definition model_ctor (orig : bool) (i : input) : ctor_res :=
  match i_kind i with KSeq => seq_ctor (i_cap i) | KRR => rr_ctor orig (i_cap i) (i_prob i) end.

Definition ctor_eqb (exact : bool) (a b : ctor_res) : bool :=
  match a, b with
  | CtorOk x, CtorOk y => if exact then Z.eqb x y else Z.leb (Z.abs (x - y)) 1
  | CtorValueError, CtorValueError => true
  | CtorZeroDivision, CtorZeroDivision => true
  | _, _ => false
  end.

Definition rout_eqb (a b : rout) : bool :=
  match a, b with
  | RAdd e d bo, RAdd e' d' bo' =>
      Bool.eqb e e' && Bool.eqb d d' &&
      match bo, bo' with
      | None, None => true
      | Some (x, y), Some (x', y') => Z.eqb x x' && Z.eqb y y'
      | _, _ => false
      end
  | RGet v, RGet v' => view_eqb v v'
  | RLen n, RLen n' => Nat.eqb n n'
  | RSaveLoad, RSaveLoad => true
  | _, _ => false
  end.

Fixpoint obs_eqb (a b : list (rout * view)) : bool :=
  match a, b with
  | [], [] => true
  | (o, v) :: a', (o', v') :: b' => rout_eqb o o' && view_eqb v v' && obs_eqb a' b'
  | _, _ => false
  end.

Definition in_range (p : Q) : bool := Qle_bool 0 p && Qle_bool p 1.

(* the contract on a whole case: the documented parameter range is accepted (and only it),
   and then every step obeys the contract *)
Definition oracle (i : input) (o : observed) : bool :=
  match i_kind i, o_ctor o with
  | KSeq, CtorOk q => Z.eqb q (Z.of_nat (i_cap i)) &&
                      spec_run KSeq (i_cap i) (i_prob i) (i_keys i) [] (i_ops i) (o_obs o)
  | KRR, CtorOk q =>
      in_range (i_prob i) && Z.leb (Z.of_nat (i_cap i)) q &&
      spec_run KRR (i_cap i) (i_prob i) (i_keys i) [] (i_ops i) (o_obs o)
  | KRR, CtorValueError => negb (in_range (i_prob i))
  | _, _ => false
  end.

Definition case := (input * observed)%type.
Definition agree (c : case) : bool :=
  ctor_eqb (i_qexact (fst c)) (model_ctor false (fst c)) (o_ctor (snd c)) &&
  match o_ctor (snd c) with
  | CtorOk _ => obs_eqb (model_obs false (fst c)) (o_obs (snd c))
  | _ => true
  end.
Definition prop_ok (c : case) : bool := oracle (fst c) (snd c).

Definition model_observed (orig : bool) (i : input) : observed :=
  {| o_ctor := model_ctor orig i;
     o_obs := match model_ctor orig i with CtorOk _ => model_obs orig i | _ => [] end |}.
