(* C12: oracle and agreement test for composite component trees. *)
From Coq Require Import List Bool Arith.
From Pamiq Require Import Model.Composite Proofs.CompositeProofs.
Import ListNotations.

Definition count (x : nat) (l : list nat) : nat := length (filter (Nat.eqb x) l).
(* same multiset *)
Definition perm_b (a b : list nat) : bool :=
  Nat.eqb (length a) (length b) && forallb (fun x => Nat.eqb (count x a) (count x b)) (a ++ b).

Definition path_eqb (a b : list nat) : bool := if list_eq_dec Nat.eq_dec a b then true else false.
Definition ip_eqb (a b : nat * list nat) : bool := Nat.eqb (fst a) (fst b) && path_eqb (snd a) (snd b).
Definition ip_count (x : nat * list nat) (l : list (nat * list nat)) : nat := length (filter (ip_eqb x) l).
Definition ip_perm_b (a b : list (nat * list nat)) : bool :=
  Nat.eqb (length a) (length b) && forallb (fun x => Nat.eqb (ip_count x a) (ip_count x b)) (a ++ b).
Fixpoint paths_distinct (l : list (list nat)) : bool :=
  match l with [] => true | p :: r => negb (existsb (path_eqb p) r) && paths_distinct r end.

Fixpoint value_eqb (a b : value) : bool :=
  match a, b with
  | Raw x, Raw y => Nat.eqb x y
  | App w v, App w' v' => Nat.eqb w w' && value_eqb v v'
  | Dict l, Dict l' =>
      (fix go (x y : list (nat * value)) : bool :=
         match x, y with
         | [], [] => true
         | (k, v) :: x', (k', v') :: y' => Nat.eqb k k' && value_eqb v v' && go x' y'
         | _, _ => false
         end) l l'
  | Bad, Bad => true
  | _, _ => false
  end.

Fixpoint deliv_eqb (a b : list (nat * value)) : bool :=
  match a, b with
  | [], [] => true
  | (i, v) :: a', (j, w) :: b' => Nat.eqb i j && value_eqb v w && deliv_eqb a' b'
  | _, _ => false
  end.

Record input := { i_agent : node; i_env : node; i_action : value }.

Record observed := {
  o_events : list (list nat);                (* for each of the six events, in the order of [all_events]: ids in call order *)
  o_saved : list (nat * list nat);           (* (component, path relative to the state root) in call order *)
  o_loaded : list (nat * list nat);
  o_read_back_own : bool;                    (* every component found, at load, what it had written itself *)
  o_no_error : bool;                         (* nothing raised (e.g. for lack of a parent directory) *)
  o_observation : value;
  o_delivered : list (nat * value)
}.

Definition all_events := [EvSetup; EvTeardown; EvPaused; EvResumed; EvAttachModels; EvAttachCollectors].

Definition root (i : input) : node := interaction (i_agent i) (i_env i).

Fixpoint all2 {A B} (f : A -> B -> bool) (a : list A) (b : list B) : bool :=
  match a, b with [], [] => true | x :: a', y :: b' => f x y && all2 f a' b' | _, _ => false end.

Definition oracle (i : input) (o : observed) : bool :=
  o_no_error o && o_read_back_own o &&
  (* every event reaches every component it applies to exactly once *)
  all2 (fun e ids => perm_b ids (targets e (root i))) all_events (o_events o) &&
  (* saved and loaded under the same paths, all distinct *)
  ip_perm_b (o_saved o) (o_loaded o) &&
  perm_b (map fst (o_saved o)) (map snd (members (root i))) &&
  paths_distinct (map snd (o_saved o)) &&
  (* data passes through exactly the transformations on its path *)
  value_eqb (o_observation o) (observe (i_env i)) &&
  deliv_eqb (o_delivered o) (affect (i_env i) (i_action i)).

Definition nat_list_eqb (a b : list nat) : bool := if list_eq_dec Nat.eq_dec a b then true else false.
Fixpoint ips_eqb (a b : list (nat * list nat)) : bool :=
  match a, b with [], [] => true | x :: a', y :: b' => ip_eqb x y && ips_eqb a' b' | _, _ => false end.

Definition model_observed (i : input) : observed :=
  {| o_events := map (fun e => dispatch e (root i)) all_events;
     o_saved := save_paths (save_ops (root i) []);
     o_loaded := load_paths (root i) [];
     o_read_back_own := true; o_no_error := parents_ok [[]] (save_ops (root i) []);
     o_observation := observe (i_env i);
     o_delivered := affect (i_env i) (i_action i) |}.

Definition case := (input * observed)%type.
Definition agree (c : case) : bool :=
  let m := model_observed (fst c) in let o := snd c in
  all2 nat_list_eqb (o_events m) (o_events o) && ips_eqb (o_saved m) (o_saved o) && ips_eqb (o_loaded m) (o_loaded o) &&
  Bool.eqb (o_read_back_own m) (o_read_back_own o) && Bool.eqb (o_no_error m) (o_no_error o) &&
  value_eqb (o_observation m) (o_observation o) && deliv_eqb (o_delivered m) (o_delivered o).
Definition prop_ok (c : case) : bool := oracle (fst c) (snd c).
