(* C13: black-box oracle for the training thread's ticks. *)
From Coq Require Import ZArith List Bool Arith.
From Pamiq Require Import Model.Buffers Model.DataPipe Model.Trainer.
Import ListNotations.

Definition tev_eqb (a b : tev) : bool :=
  match a, b with ESetup, ESetup | ETrain, ETrain | ESync, ESync | ETeardown, ETeardown => true | _, _ => false end.
Fixpoint tevs_eqb (a b : list tev) : bool :=
  match a, b with [], [] => true | x :: a', y :: b' => tev_eqb x y && tevs_eqb a' b' | _, _ => false end.

Definition opt_nat_eqb (a b : option nat) : bool :=
  match a, b with None, None => true | Some x, Some y => Nat.eqb x y | _, _ => false end.

(* oracle state: samples in transit (since the last hand-over), timestamps of everything
   delivered, number delivered, the trainers with their markers, number of ticks so far *)
Fixpoint tspec (incl : bool) (q bc : option nat) (pending delivered : list Z) (nd : nat)
         (trs : list trainer) (ticks : nat) (ops : list top) (outs : list tout) : bool :=
  match ops, outs with
  | [], [] => true
  | TCollect x t :: ops', TNone :: outs' => tspec incl q bc (pending ++ [t]) delivered nd trs ticks ops' outs'
  | TTick t :: ops', TTickOut offered ran evs :: outs' =>
      (* every trainer in turn, whatever the others did *)
      match nth_error trs (Nat.modulo ticks (length trs)) with
      | None =>                                            (* no trainers at all *)
          opt_nat_eqb offered None && negb ran && tevs_eqb evs [] &&
          tspec incl q bc pending delivered nd trs (S ticks) ops' outs'
      | Some tr =>
          let i := Nat.modulo ticks (length trs) in
          opt_nat_eqb offered (Some i) &&
          tevs_eqb evs (if ran then run_evs else []) &&    (* setup, train, sync, teardown in that order *)
          match cond tr with
          | None => ran && tspec incl q bc pending delivered nd trs (S ticks) ops' outs'
          | Some (ms, mn) =>
              let kept := lastn_opt q pending in
              let delivered' := delivered ++ kept in
              let nd' := nd + length kept in
              let len := match bc with None => nd' | Some c => Nat.min c nd' end in
              let fresh := length (take_while (newer incl (marker tr)) (rev (lastn_opt q delivered'))) in
              let due := Nat.leb ms len && Nat.leb mn fresh in
              Bool.eqb ran due &&                          (* runs iff both thresholds hold *)
              tspec incl q bc [] delivered' nd'
                    (if due then upd_nth trs i {| cond := cond tr; marker := Some t |} else trs)
                    (S ticks) ops' outs'
          end
      end
  | _, _ => false
  end.

Record input := {
  i_incl : bool; i_q : option nat; i_bcap : option nat;
  i_conds : list (option (nat * nat)); i_ops : list top
}.

Definition tout_eqb (a b : tout) : bool :=
  match a, b with
  | TNone, TNone => true
  | TTickOut o r e, TTickOut o' r' e' => opt_nat_eqb o o' && Bool.eqb r r' && tevs_eqb e e'
  | _, _ => false
  end.
Fixpoint touts_eqb (a b : list tout) : bool :=
  match a, b with [], [] => true | x :: a', y :: b' => tout_eqb x y && touts_eqb a' b' | _, _ => false end.

Definition case := (input * list tout)%type.
Definition model_outs (i : input) : list tout := trun (i_incl i) (tinit (i_q i) (i_bcap i) (i_conds i)) (i_ops i).
Definition agree (c : case) : bool := touts_eqb (model_outs (fst c)) (snd c).
(* The oracle counts a sample as "arrived since the previous run" only if its timestamp is strictly newer than
   the previous positive decision: a sample stamped at that very instant was already there when the trainer
   ran (with a frozen clock it would otherwise be counted again and again). *)
Definition prop_ok (c : case) : bool :=
  let i := fst c in
  tspec false (i_q i) (i_bcap i) [] [] 0 (map (fun c => {| cond := c; marker := None |}) (i_conds i)) 0 (i_ops i) (snd c).

(* ---- decisions racing with arrivals (two threads): the counting law ----
   events of one run in global order: a sample is handed to the collector; a decision ends, having run or not.
   Every arrival supports at most one run:  min_new * runs <= arrivals so far, at every run. *)
Inductive aev := ACollect | ARun (ran : bool).

Fixpoint count_ok (mn collected runs : nat) (evs : list aev) : bool :=
  match evs with
  | [] => true
  | ACollect :: r => count_ok mn (S collected) runs r
  | ARun true :: r => (mn * S runs <=? collected) && count_ok mn collected (S runs) r
  | ARun false :: r => count_ok mn collected runs r
  end.

Inductive case2 := CSeq (c : case) | CLine (mn : nat) (evs : list aev).
Definition agree2 (c : case2) : bool := match c with CSeq c => agree c | CLine _ _ => true end.
Definition prop_ok2 (c : case2) : bool := match c with CSeq c => prop_ok c | CLine mn evs => count_ok mn 0 0 evs end.
