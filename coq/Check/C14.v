(* C14: black-box oracle for model visibility and synchronisation. *)
From Coq Require Import List Bool Arith.
From Pamiq Require Import Model.Models.
Import ListNotations.

(* the order in which a set of names is synchronised is not part of the contract *)
Definition nat_list_eqb (a b : list nat) : bool :=
  Nat.eqb (length a) (length b) &&
  forallb (fun x => existsb (Nat.eqb x) b) a && forallb (fun x => existsb (Nat.eqb x) a) b.
Definition opt_eqb (a b : option nat) : bool :=
  match a, b with None, None => true | Some x, Some y => Nat.eqb x y | _, _ => false end.
Fixpoint opts_eqb (a b : list (option nat)) : bool :=
  match a, b with [] , [] => true | x :: a', y :: b' => opt_eqb x y && opts_eqb a' b' | _, _ => false end.
Fixpoint bools_eqb (a b : list bool) : bool :=
  match a, b with [] , [] => true | x :: a', y :: b' => Bool.eqb x y && bools_eqb a' b' | _, _ => false end.

(* flags only: what may be fetched, what must be synchronised *)
Definition f_need_sync (f : bool * bool) : bool := fst f && negb (snd f).
Definition f_trainer_can (f : bool * bool) : bool := negb (snd f).

Definition got_of (flags : list (bool * bool)) (reqs : list nat) : list nat :=
  filter (fun n => match nth_error flags n with Some f => f_trainer_can f | None => false end) (nodup Nat.eq_dec reqs).

(* [tv]: the training-side version of every model as the history dictates it *)
Fixpoint ospec (flags : list (bool * bool)) (tv : list nat) (ops : list mop)
         (obs : list (list nat * list (option nat) * bool)) : bool :=
  match ops, obs with
  | [], [] => true
  | o :: ops', (synced, vis, same) :: obs' =>
      let '(tv', expect) :=
        match o with
        | MRun reqs =>
            let got := got_of flags reqs in
            (fold_left (fun acc n => map_at S n acc) got tv,
             (* exactly the retrieved models that have a separate inference model *)
             filter (fun n => match nth_error flags n with Some f => f_need_sync f | None => false end) got)
        | MLoad vs =>
            (zip_with (fun (v _ : nat) => v) vs tv,
             filter (fun n => match nth_error flags n with Some f => f_need_sync f | None => false end) (seq 0 (length flags)))
        end in
      nat_list_eqb synced expect
      && same                                          (* sync writes into the object the agent holds *)
      (* inference shows the latest completed training / the loaded parameters *)
      && opts_eqb vis (map (fun ft : (bool * bool) * nat => if fst (fst ft) then Some (snd ft) else None) (combine flags tv'))
      && ospec flags tv' ops' obs'
  | _, _ => false
  end.

Record input := { i_flags : list (bool * bool); i_ops : list mop }.
Record observed := {
  o_agent_view : list bool;      (* per model: could the agent fetch an inference model *)
  o_trainer_view : list bool;    (* per model: could a trainer fetch the training model *)
  o_ops : list (list nat * list (option nat) * bool)
}.

Definition oracle (i : input) (o : observed) : bool :=
  bools_eqb (o_agent_view o) (map fst (i_flags i)) &&
  bools_eqb (o_trainer_view o) (map f_trainer_can (i_flags i)) &&
  ospec (i_flags i) (map (fun _ => 0) (i_flags i)) (i_ops i) (o_ops o).

Definition model_observed (i : input) : observed :=
  let ms := minit (i_flags i) in
  {| o_agent_view := map agent_can_get ms; o_trainer_view := map trainer_can_get ms;
     o_ops := map (fun y => (fst y, snd y, true)) (mrun ms (i_ops i)) |}.

Fixpoint oobs_eqb (a b : list (list nat * list (option nat) * bool)) : bool :=
  match a, b with
  | [], [] => true
  | (s, v, x) :: a', (s', v', x') :: b' => nat_list_eqb s s' && opts_eqb v v' && Bool.eqb x x' && oobs_eqb a' b'
  | _, _ => false
  end.

Definition case := (input * observed)%type.
Definition agree (c : case) : bool :=
  let m := model_observed (fst c) in
  bools_eqb (o_agent_view m) (o_agent_view (snd c)) && bools_eqb (o_trainer_view m) (o_trainer_view (snd c)) &&
  oobs_eqb (o_ops m) (o_ops (snd c)).
Definition prop_ok (c : case) : bool := oracle (fst c) (snd c).
