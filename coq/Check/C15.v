(* C15: the black-box oracle evaluated on traces (of the model: by theorem; of the
   implementation: by vm_compute in generated cases files) and the agreement test
   of the correspondence check. *)
From Coq Require Import ZArith List Bool.
From Pamiq Require Import Model.Sched.
Import ListNotations.
Open Scope Z_scope.

Definition seg_reads (es : list ev) : list Z :=
  flat_map (fun e => match e with ERead v => [v] | _ => [] end) es.

(* ids of the callbacks that ran in a segment; a save condition answering
   [true] counts as its (single, internal) callback having run *)
Definition seg_cbs (es : list ev) : list nat :=
  flat_map (fun e => match e with ECb i => [i] | ERet true => [0%nat] | _ => [] end) es.

Definition raised (es : list ev) : bool := existsb (fun e => match e with ERaise => true | _ => false end) es.

Definition nat_list_eqb (a b : list nat) : bool :=
  if list_eq_dec Nat.eq_dec a b then true else false.

Fixpoint remove_first_id (i : nat) (l : list nat) : list nat :=
  match l with
  | [] => []
  | k :: r => if Nat.eqb k i then r else k :: remove_first_id i r
  end.

Definition is_nil {A} (l : list A) : bool := match l with [] => true | _ => false end.

(* ---- time-interval schedulers and the periodic save condition ----
   [lo, hi]: the range of clock values read during the last firing update (or
   the constructor): the current interval started somewhere in it.
   [known] becomes false once an update happened with no callback registered
   (firing is then unobservable and nothing more is demanded). *)
Record ost := { lo : Z; hi : Z; reg : list nat; known : bool }.

Definition zmin_l (r : Z) (rs : list Z) := fold_left Z.min rs r.
Definition zmax_l (r : Z) (rs : list Z) := fold_left Z.max rs r.

Definition t_seg_ok (I : Z) (st : ost) (o : op) (es : list ev) : bool * ost :=
  match o with
  | ORegister k =>
      (is_nil es, {| lo := lo st; hi := hi st; reg := reg st ++ [cb_id k]; known := known st |})
  | ORemove i =>
      (is_nil es, {| lo := lo st; hi := hi st; reg := remove_first_id i (reg st); known := known st |})
  | OUpdateRaise _ | OUpdate =>
      if negb (known st) then (true, st) else
      if is_nil (reg st) then (true, {| lo := lo st; hi := hi st; reg := reg st; known := false |}) else
      match seg_reads es with
      | [] => (false, st)                       (* an update looks at the clock *)
      | r1 :: rs =>
          let cs := seg_cbs es in
          let f := negb (is_nil cs) in
          let raised := raised es in
          (* a complete firing runs every registered callback once, in order; a firing cut short by a raising
             callback has run a prefix of them *)
          let order_ok := if f then (if raised then nat_list_eqb cs (firstn (length cs) (reg st)) else nat_list_eqb cs (reg st)) else true in
          (* fires only when at least the interval has elapsed *)
          let only_when := if f then existsb (fun r => I <=? r - lo st) (r1 :: rs) else true in
          (* fires when more than the interval has elapsed at the first look *)
          let when_due := if I <? r1 - hi st then f else true in
          (* the interval restarts only with a complete firing: after a cut-short one it is still due *)
          (order_ok && only_when && when_due,
           if f && negb raised then {| lo := zmin_l r1 rs; hi := zmax_l r1 rs; reg := reg st; known := true |}
           else st)
      end
  end.

Fixpoint t_segs_ok (I : Z) (st : ost) (ops : list op) (segs : list (list ev)) : bool :=
  match ops, segs with
  | [], [] => true
  | o :: ops', es :: segs' =>
      let (b, st') := t_seg_ok I st o es in b && t_segs_ok I st' ops' segs'
  | _, _ => false
  end.

(* whole trace of a time scheduler: constructor segment (exactly one read), then the ops *)
Definition C15_time_ok (I : Z) (l : list cb) (ops : list op) (segs : list (list ev)) : bool :=
  match segs with
  | [ERead v0] :: segs' =>
      t_segs_ok I {| lo := v0; hi := v0; reg := map cb_id l; known := true |} ops segs'
  | _ => false
  end.

Definition C15_cond_ok (I : Z) (n : nat) (segs : list (list ev)) : bool :=
  C15_time_ok I [latch_cb] (repeat OUpdate n) segs.

(* ---- step-interval schedulers: fire on exactly every n-th update ---- *)
Fixpoint s_segs_ok (n : nat) (m : nat) (reg : list nat) (ops : list op) (segs : list (list ev)) : bool :=
  match ops, segs with
  | [], [] => true
  | o :: ops', es :: segs' =>
      match o with
      | ORegister k => is_nil es && s_segs_ok n m (reg ++ [cb_id k]) ops' segs'
      | ORemove i => is_nil es && s_segs_ok n m (remove_first_id i reg) ops' segs'
      | OUpdate | OUpdateRaise _ =>
          let m' := S m in
          let cs := seg_cbs es in
          let expect := if Nat.eqb (Nat.modulo m' n) 0 then reg else [] in
          nat_list_eqb cs expect && s_segs_ok n m' reg ops' segs'
      end
  | _, _ => false
  end.

Definition C15_step_ok (n : nat) (l : list cb) (ops : list op) (segs : list (list ev)) : bool :=
  match segs with
  | [] :: segs' => s_segs_ok n 0 (map cb_id l) ops segs'
  | _ => false
  end.

(* ---- cases of the correspondence check ---- *)
Inductive kind := KTime | KStep | KCond.

Record input := {
  i_kind : kind;
  i_strict : bool;        (* boundary policy probed on the implementation *)
  i_ivl : Z;              (* time interval in ticks (KTime, KCond) *)
  i_n : nat;              (* step interval (KStep) *)
  i_cbs : list cb;
  i_reads : list Z;       (* what the scripted clock returns, read by read *)
  i_ops : list op;        (* KTime, KStep *)
  i_calls : nat           (* KCond *)
}.

Definition clock0 (i : input) : clock := {| last := 0; pending := i_reads i |}.

Definition model_trace (i : input) : list (list ev) :=
  match i_kind i with
  | KTime => t_trace false (i_strict i) (i_ivl i) (i_cbs i) (clock0 i) (i_ops i)
  | KStep => s_trace (i_n i) (i_cbs i) (clock0 i) (i_ops i)
  | KCond => p_trace false (i_strict i) (i_ivl i) (clock0 i) (i_calls i)
  end.

(* the tree as it was pinned (defect D8) *)
Definition model_trace_orig (i : input) : list (list ev) :=
  match i_kind i with
  | KTime => t_trace true (i_strict i) (i_ivl i) (i_cbs i) (clock0 i) (i_ops i)
  | KStep => s_trace (i_n i) (i_cbs i) (clock0 i) (i_ops i)
  | KCond => p_trace true (i_strict i) (i_ivl i) (clock0 i) (i_calls i)
  end.

Definition oracle (i : input) (segs : list (list ev)) : bool :=
  match i_kind i with
  | KTime => C15_time_ok (i_ivl i) (i_cbs i) (i_ops i) segs
  | KStep => C15_step_ok (i_n i) (i_cbs i) (i_ops i) segs
  | KCond => C15_cond_ok (i_ivl i) (i_calls i) segs
  end.

Definition case := (input * list (list ev))%type.
Definition agree (c : case) : bool := segs_eqb (model_trace (fst c)) (snd c).
Definition prop_ok (c : case) : bool := oracle (fst c) (snd c).
