(* C16: the spacing law checked on observed step-start instants. *)
From Coq Require Import QArith List Bool.
From Pamiq Require Import Model.Interval.
Import ListNotations.
Open Scope Q_scope.

(* consecutive starts: T' - T == max(W, k*(eps + dur)) + k*eps' - k*eps, with the frozen real
   time of a pause entering nowhere *)
Fixpoint spacing_ok (k W : Q) (ts : list tick) (Ts : list Q) : bool :=
  match ts, Ts with
  | t :: ((t' :: _) as ts'), T :: ((T' :: _) as Ts') =>
      Qeq_bool (T' - T) (qmax W (k * (eps t + dur t)) + k * eps t' - k * eps t) && spacing_ok k W ts' Ts'
  | [_], [_] => true
  | [], [] => true
  | _, _ => false
  end.

Record input := { i_k : Q; i_W : Q; i_t0 : Q; i_ticks : list tick }.

Fixpoint qs_eqb (a b : list Q) : bool :=
  match a, b with [], [] => true | x :: a', y :: b' => Qeq_bool x y && qs_eqb a' b' | _, _ => false end.

Definition case := (input * list Q)%type.
Definition model_starts (i : input) : list Q := iruns (i_k i) (i_W i) (iinit (i_t0 i)) (i_ticks i).
Definition agree (c : case) : bool := qs_eqb (model_starts (fst c)) (snd c).
Definition first_ok (i : input) (Ts : list Q) : bool :=
  match i_ticks i, Ts with
  | t :: _, T :: _ => Qeq_bool T (i_t0 i + i_k i * eps t)
  | [], [] => true
  | _, _ => false
  end.
Definition prop_ok (c : case) : bool :=
  first_ok (fst c) (snd c) && spacing_ok (i_k (fst c)) (i_W (fst c)) (i_ticks (fst c)) (snd c).
