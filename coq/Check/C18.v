(* C18: black-box oracle for the latest-states keeper. *)
From Coq Require Import List Bool Arith.
From Pamiq Require Import Model.Buffers Model.Keeper.
Import ListNotations.

Definition subset (a b : list nat) : bool := forallb (fun p => mem p b) a.

(* [hist]: every state directory the keeper found at start-up or was given, in age order *)
Fixpoint kspec (mk : nat) (hist : list nat) (fs : list nat) (ops : list kop) (obs : list (list nat * list nat)) : bool :=
  match ops, obs with
  | [], [] => true
  | o :: ops', (rem, fs') :: obs' =>
      match o with
      | KAppend p create =>
          subset fs' (if create then p :: fs else fs) && subset fs fs' && (if create then mem p fs' else true) &&
          kspec mk (hist ++ [p]) fs' ops' obs'
      | KCleanup =>
          let keepers := lastn mk hist in
          subset fs' fs                                                        (* creates nothing *)
          && forallb (fun p => if mem p fs then mem p fs' else true) keepers  (* never deletes one of the max_keep newest *)
          && forallb (fun p => mem p keepers || negb (mem p fs')) hist        (* every older tracked one is gone *)
          && forallb (fun p => mem p hist || mem p fs') fs                     (* touches nothing else *)
          && kspec mk hist fs' ops' obs'
      | KExtRemove p => subset fs' fs && forallb (fun x => Nat.eqb x p || mem x fs') fs && negb (mem p fs') && kspec mk hist fs' ops' obs'
      | KExtCreate p => subset fs' (p :: fs) && subset fs fs' && mem p fs' && kspec mk hist fs' ops' obs'
      end
  | _, _ => false
  end.

Record input := {
  i_mk : nat;
  i_matching : list nat;      (* pre-existing entries matching the pattern *)
  i_mtimes : list (nat * nat);(* their modification times (distinct) *)
  i_foreign : list nat;       (* pre-existing entries that do not match *)
  i_ops : list kop
}.

Definition mtime_of (i : input) (p : nat) : nat :=
  match find (fun e => Nat.eqb (fst e) p) (i_mtimes i) with Some e => snd e | None => 0 end.

Definition fs0 (i : input) : list nat := i_matching i ++ i_foreign i.

Definition nat_list_eqb (a b : list nat) : bool := if list_eq_dec Nat.eq_dec a b then true else false.
Definition set_eqb (a b : list nat) : bool := subset a b && subset b a.

Fixpoint obs_eqb (a b : list (list nat * list nat)) : bool :=
  match a, b with
  | [], [] => true
  | (r, f) :: a', (r', f') :: b' => nat_list_eqb r r' && set_eqb f f' && obs_eqb a' b'
  | _, _ => false
  end.

Definition case := (input * list (list nat * list nat))%type.
Definition model_obs (i : input) := krun (kinit (i_mk i) (i_matching i) (mtime_of i)) (fs0 i) (i_ops i).
Definition agree (c : case) : bool := obs_eqb (model_obs (fst c)) (snd c).
Definition prop_ok (c : case) : bool :=
  let i := fst c in kspec (i_mk i) (sort_by (mtime_of i) (i_matching i)) (fs0 i) (i_ops i) (snd c).
