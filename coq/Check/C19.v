(* C19: trace monitor and the case type of the correspondence check. *)
From Coq Require Import ZArith List Bool Arith.
From Pamiq Require Import Model.TorchSync.
Import ListNotations.

Definition trace := list (who * lab).

(* Inside one locked inference section (between the inference thread's acquire and release): every read names the
   same module, and no training write (a step's update or the copy of a sync) targets that module - so the
   section sees one parameter vector in full, never a module the training thread is modifying. *)
Fixpoint c19_mon (insec : bool) (rd : option nat) (ws : list nat) (tr : trace) : bool :=
  match tr with
  | [] => true
  | (w, l) :: r =>
      match w, l with
      | WInf, LAcq => c19_mon true None [] r
      | WInf, LRead m _ _ =>
          insec && match rd with Some m' => Nat.eqb m m' | None => true end &&
          negb (existsb (Nat.eqb m) ws) && c19_mon insec (Some m) ws r
      | WInf, LRel => c19_mon false None [] r
      | WTrain, (LWrite m _ _ | LCopy m _ _) =>
          (if insec then match rd with Some m' => negb (Nat.eqb m m') | None => true end else true) &&
          c19_mon insec rd (if insec then m :: ws else ws) r
      | _, _ => c19_mon insec rd ws r
      end
  end.
Definition C19_ok (tr : trace) : bool := c19_mon false None [] tr.

(* every section's reads, in order: (module, index, value) *)
Record input := { i_n : nat; i_v0 : list Z }.
Definition v0_of (l : list Z) : nat -> Z := fun i => nth i l 0%Z.

Definition accepted (i : input) (tr : trace) : bool :=
  match run (i_n i) false (init (v0_of (i_v0 i))) tr with Some _ => true | None => false end.

(* what a completed sync leaves: observed final facts against the model's final state *)
Record final := { f_tref : nat; f_iref : nat; f_tparams : list Z; f_iparams : list Z; f_tgrads : list (option Z); f_tmode : bool; f_imode : bool }.

Fixpoint zs_eqb (a b : list Z) : bool :=
  match a, b with [] , [] => true | x :: a', y :: b' => Z.eqb x y && zs_eqb a' b' | _, _ => false end.
Fixpoint ozs_eqb (a b : list (option Z)) : bool :=
  match a, b with [] , [] => true | x :: a', y :: b' => oz_eqb x y && ozs_eqb a' b' | _, _ => false end.

Definition final_agrees (i : input) (tr : trace) (f : final) : bool :=
  match run (i_n i) false (init (v0_of (i_v0 i))) tr with
  | Some s =>
      Nat.eqb (tref s) (f_tref f) && Nat.eqb (iref s) (f_iref f) &&
      zs_eqb (map (pv s (tref s)) (seq 0 (i_n i))) (f_tparams f) && zs_eqb (map (pv s (iref s)) (seq 0 (i_n i))) (f_iparams f) &&
      ozs_eqb (map (gv s (tref s)) (seq 0 (i_n i))) (f_tgrads f) && Bool.eqb (md s (tref s)) (f_tmode f) && Bool.eqb (md s (iref s)) (f_imode f)
  | None => false
  end.

Record case := { c_in : input; c_tr : trace; c_fin : final; c_synced : bool (* the last training operation was a completed sync *);
                 c_syncs : list (list (option Z) * list (option Z)) (* per completed sync: the training model's grads just before / just after it *) }.

Definition agree (c : case) : bool := accepted (c_in c) (c_tr c) && final_agrees (c_in c) (c_tr c) (c_fin c).

(* the property on the implementation: the monitor, and after a completed sync both sides hold equal values, the
   training module is in training mode; every completed sync leaves the training model with the grads it had *)
Definition prop_ok (c : case) : bool :=
  C19_ok (c_tr c) && forallb (fun p => ozs_eqb (fst p) (snd p)) (c_syncs c) &&
  (if c_synced c then zs_eqb (f_tparams (c_fin c)) (f_iparams (c_fin c)) && f_tmode (c_fin c) && negb (Nat.eqb (f_tref (c_fin c)) (f_iref (c_fin c))) else true).
