(* C20: the episode protocol as an automaton over the call log of the stand-in
   gymnasium environment and of the recording agent. *)
From Coq Require Import List Bool Arith.
From Pamiq Require Import Model.Gym.
Import ListNotations.

Inductive eout := QR (r : nat) | QS (s : nat) (t u : bool).

Record ost := {
  started : bool;            (* the setup reset has happened *)
  must_reset : bool;         (* the last env.step ended the episode or a reset was requested *)
  pending : bool;            (* an agent callback asked for a reset that has not been consumed yet *)
  last_ret : option nat;     (* action returned by the latest agent callback *)
  queue : list eout;         (* environment outputs not yet delivered to the agent, oldest first *)
  onr : nat; ons : nat       (* environment outputs produced so far *)
}.

Definition ost0 : ost :=
  {| started := false; must_reset := false; pending := false; last_ret := None; queue := []; onr := 0; ons := 0 |}.

Definition oev (o : ost) (e : gev) : option ost :=
  match e with
  | GReset =>
      (* reset once at setup and exactly once per episode end or request *)
      if negb (started o) || must_reset o then
        Some {| started := true; must_reset := false; pending := pending o; last_ret := last_ret o;
                queue := queue o ++ [QR (onr o)]; onr := S (onr o); ons := ons o |}
      else None
  | GStep a t u =>
      (* never stepped after an episode end without a reset; receives the latest callback's action *)
      if started o && negb (must_reset o) && match last_ret o with Some b => Nat.eqb a b | None => false end then
        Some {| started := true; must_reset := t || u || pending o; pending := pending o; last_ret := last_ret o;
                queue := queue o ++ [QS (ons o) t u]; onr := onr o; ons := S (ons o) |}
      else None
  | AOnReset r =>
      (* deliveries: each output once, in order; a delivered reset consumes the pending request *)
      match queue o with
      | QR r' :: q => if Nat.eqb r r' && negb (must_reset o) then
                        Some {| started := started o; must_reset := false; pending := false; last_ret := last_ret o;
                                queue := q; onr := onr o; ons := ons o |}
                      else None
      | _ => None
      end
  | AOnStep s t u =>
      match queue o with
      | QS s' t' u' :: q => if Nat.eqb s s' && Bool.eqb t t' && Bool.eqb u u' && negb (must_reset o) then
                              Some {| started := started o; must_reset := false; pending := pending o; last_ret := last_ret o;
                                      queue := q; onr := onr o; ons := ons o |}
                            else None
      | _ => None
      end
  | AReq => Some {| started := started o; must_reset := must_reset o; pending := true; last_ret := last_ret o;
                    queue := queue o; onr := onr o; ons := ons o |}
  | ARet a => Some {| started := started o; must_reset := must_reset o; pending := pending o; last_ret := Some a;
                      queue := queue o; onr := onr o; ons := ons o |}
  end.

Fixpoint orun (o : ost) (evs : list gev) : option ost :=
  match evs with
  | [] => Some o
  | e :: r => match oev o e with Some o' => orun o' r | None => None end
  end.

(* a reset that is due must come immediately: the log never ends, nor continues, with it outstanding
   except right after the step that caused it (the run may be cut there) *)
Definition C20_ok (evs : list gev) : bool :=
  match orun ost0 evs with Some _ => true | None => false end.

Definition gev_eqb (a b : gev) : bool :=
  match a, b with
  | GReset, GReset => true
  | GStep x t u, GStep y t' u' => Nat.eqb x y && Bool.eqb t t' && Bool.eqb u u'
  | AOnReset x, AOnReset y => Nat.eqb x y
  | AOnStep x t u, AOnStep y t' u' => Nat.eqb x y && Bool.eqb t t' && Bool.eqb u u'
  | AReq, AReq => true
  | ARet x, ARet y => Nat.eqb x y
  | _, _ => false
  end.
Fixpoint gevs_eqb (a b : list gev) : bool :=
  match a, b with [], [] => true | x :: a', y :: b' => gev_eqb x y && gevs_eqb a' b' | _, _ => false end.

Definition case := (list ginp * list gev)%type.
Definition agree (c : case) : bool := gevs_eqb (glog (fst c)) (snd c).
Definition prop_ok (c : case) : bool := C20_ok (snd c).
