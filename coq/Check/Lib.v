(* Shared by every generated cases file: which cases disagree with the model,
   and on which the property oracle fails. *)
From Coq Require Import List Bool.
Import ListNotations.

Definition verdict {A} (agree prop_ok : A -> bool) (cs : list (nat * A)) : list nat * list nat :=
  (map fst (filter (fun c => negb (agree (snd c))) cs),
   map fst (filter (fun c => negb (prop_ok (snd c))) cs)).

Definition count_true {A} (p : A -> bool) (cs : list (nat * A)) : nat :=
  length (filter (fun c => p (snd c)) cs).
