(* Trace monitors for the system-level properties C01 C02 C03 C04 C09 C17: boolean functions over
   the labelled trace of a whole launch().  They are evaluated on the implementation's traces,
   and Proofs/Threads*.v prove that no trace accepted by the thread model M6 violates them. *)
From Coq Require Import List Bool Arith.
From Pamiq Require Import Model.Threads.
Import ListNotations.

Definition trace := list (tid * label).

Definition is_bg (t : tid) : bool := match t with TBg _ => true | _ => false end.
Definition is_ctl (t : tid) : bool := match t with TCtl => true | _ => false end.

(* what a background thread may do while it is quiescent (blocked in, or re-checking, the pause handshake) *)
Definition quiescent_label (l : label) : bool :=
  match l with
  | LIsSet ERes _ | LWaitNow ERes | LWaitBlock ERes _ | LWaitRet ERes _ | LSet (EPaused _) | LClear (EPaused _) => true
  | _ => false
  end.

(* ---------- C01: from the acknowledgement (the clock is frozen right after the last thread's flag has
   been observed) until a resume or shutdown is issued (both begin by releasing the clock), background
   threads only perform handshake operations; and nobody but the control thread touches the clock ---------- *)
Fixpoint c01_mon (acked : bool) (tr : trace) : bool :=
  match tr with
  | [] => true
  | (t, l) :: r =>
      match t, l with
      | TCtl, LClockPause => negb acked && c01_mon true r
      | TCtl, LClockResume => c01_mon false r
      | TCtl, LSet ERes => c01_mon false r        (* a resume / shutdown has been issued at the latest here *)
      | TBg _, _ => (if acked then quiescent_label l else true) && c01_mon acked r
      | _, LClockPause | _, LClockResume => false
      | _, _ => c01_mon acked r
      end
  end.
Definition C01_quiet (tr : trace) : bool := c01_mon false tr.

(* ---------- C04: a state is written only while every background thread is quiescent or has exited;
   a runtime save happens inside an acknowledged pause with the clock frozen; afterwards the system
   runs again iff it ran before ---------- *)
Definition exited_label (l : label) : bool := match l with LExit _ => true | _ => false end.

(* started / joined: background threads started and joined by the control thread so far *)
Fixpoint c04_mon (acked saving : bool) (started joined : nat) (tr : trace) : bool :=
  match tr with
  | [] => true
  | (t, l) :: r =>
      match t, l with
      | TCtl, LClockPause => c04_mon true saving started joined r
      | TCtl, LClockResume => negb saving && c04_mon false saving started joined r
      | TCtl, LSet ERes => negb saving && c04_mon false saving started joined r
      (* a state is written inside an acknowledged pause, or after every started thread has been joined *)
      | TCtl, LSaveB => (acked || (joined =? started)) && c04_mon acked true started joined r
      | TCtl, LSaveE | TCtl, LSaveRaise => c04_mon acked false started joined r
      | TCtl, LStart (TBg _) => c04_mon acked saving (S started) joined r
      | TCtl, LJoin (TBg _) => c04_mon acked saving started (S joined) r
      (* while it is written, background threads perform handshake operations only *)
      | TBg _, _ => (if saving then quiescent_label l else true) && c04_mon acked saving started joined r
      | _, _ => c04_mon acked saving started joined r
      end
  end.
Definition C04_ok (tr : trace) : bool := c04_mon false false 0 0 tr.

(* C01: quiescence while acknowledged; and the beginning of a runtime save counts as an acknowledgement, so a save
   may only begin inside an acknowledged pause (the C04 rule) *)
Definition C01_ok (tr : trace) : bool := C01_quiet tr && C04_ok tr.

(* ---------- C09: per component protocol and thread affinity ---------- *)
Inductive comp := CompAgent | CompEnv | CompTrainer.
Inductive cbkind := KSetup | KStep | KHookP | KHookR | KTeardown.

Definition comp_of (c : cbn) : comp * cbkind :=
  match c with
  | ASetup => (CompAgent, KSetup) | AStep => (CompAgent, KStep) | AHookP => (CompAgent, KHookP)
  | AHookR => (CompAgent, KHookR) | ATeardown => (CompAgent, KTeardown)
  | ESetup => (CompEnv, KSetup) | EHookP => (CompEnv, KHookP) | EHookR => (CompEnv, KHookR) | ETeardown => (CompEnv, KTeardown)
  | TTrain => (CompTrainer, KStep) | THookP => (CompTrainer, KHookP) | THookR => (CompTrainer, KHookR)
  end.

Definition owner (c : comp) : nat := match c with CompTrainer => 1 | _ => 0 end.

(* protocol state of one component *)
Inductive pst := PNew | PReady | PPaused | PTorn | PBroken.   (* PBroken: a callback of it raised; only teardown may follow *)

Definition needs_setup (c : comp) : bool := match c with CompTrainer => false | _ => true end.

Definition pnext (c : comp) (s : pst) (k : cbkind) : option pst :=
  match s, k with
  | PNew, KSetup => if needs_setup c then Some PReady else None
  | PNew, (KStep | KHookP) => if needs_setup c then None else Some (match k with KStep => PReady | _ => PPaused end)
  | PNew, KTeardown => Some PTorn            (* the other component's setup failed: teardown still runs *)
  | PReady, KStep => Some PReady
  | PReady, KHookP => Some PPaused
  | PReady, KTeardown => Some PTorn
  | PPaused, KHookR => Some PReady
  | PPaused, KTeardown => Some PTorn          (* a hook of the sibling component raised while paused *)
  | PBroken, KTeardown => Some PTorn
  | _, _ => None
  end.

Record c09st := { ag : pst; en : pst; tr_ : pst; busy0 : option cbn; busy1 : option cbn }.

Definition get_p (s : c09st) (c : comp) : pst := match c with CompAgent => ag s | CompEnv => en s | CompTrainer => tr_ s end.
Definition set_p (s : c09st) (c : comp) (p : pst) : c09st :=
  match c with
  | CompAgent => {| ag := p; en := en s; tr_ := tr_ s; busy0 := busy0 s; busy1 := busy1 s |}
  | CompEnv => {| ag := ag s; en := p; tr_ := tr_ s; busy0 := busy0 s; busy1 := busy1 s |}
  | CompTrainer => {| ag := ag s; en := en s; tr_ := p; busy0 := busy0 s; busy1 := busy1 s |}
  end.
Definition get_busy (s : c09st) (i : nat) : option cbn := if i =? 0 then busy0 s else busy1 s.
Definition set_busy (s : c09st) (i : nat) (b : option cbn) : c09st :=
  if i =? 0 then {| ag := ag s; en := en s; tr_ := tr_ s; busy0 := b; busy1 := busy1 s |}
  else {| ag := ag s; en := en s; tr_ := tr_ s; busy0 := busy0 s; busy1 := b |}.

Fixpoint c09_mon (s : c09st) (tr : trace) : bool :=
  match tr with
  | [] => true
  | (t, l) :: r =>
      match t, l with
      | TBg i, LCbB c =>
          let (co, k) := comp_of c in
          (* only on the owning thread; never while another callback of that thread is running *)
          if (owner co =? i) && match get_busy s i with None => true | Some _ => false end then
            match pnext co (get_p s co) k with
            | Some p => c09_mon (set_busy (set_p s co p) i (Some c)) r
            | None => false
            end
          else false
      | TBg i, LCbE c =>
          match get_busy s i with
          | Some c' => cbn_eqb c c' && c09_mon (set_busy s i None) r
          | None => false
          end
      | TBg i, LCbRaise c =>
          match get_busy s i with
          | Some c' =>
              let (co, k) := comp_of c in
              cbn_eqb c c' && c09_mon (set_busy (set_p s co (match k with KTeardown => PTorn | _ => PBroken end)) i None) r
          | None => false
          end
      | _, (LCbB _ | LCbE _ | LCbRaise _) => false      (* no callback outside the background threads *)
      | _, _ => c09_mon s r
      end
  end.
Definition C09_ok (tr : trace) : bool :=
  c09_mon {| ag := PNew; en := PNew; tr_ := PNew; busy0 := None; busy1 := None |} tr.

(* at the end of a complete run: teardown happened exactly once for the components of a started inference thread *)
Fixpoint count_cbb (c : cbn) (tr : trace) : nat :=
  match tr with
  | [] => 0
  | (_, LCbB c') :: r => (if cbn_eqb c c' then 1 else 0) + count_cbb c r
  | _ :: r => count_cbb c r
  end.
Definition started0 (tr : trace) : bool := existsb (fun e => match e with (TCtl, LStart (TBg 0)) => true | _ => false end) tr.
Definition main_exited (tr : trace) : bool := existsb (fun e => match e with (TCtl, LExit _) => true | _ => false end) tr.
Definition C09_complete_ok (tr : trace) : bool :=
  if started0 tr && main_exited tr then (count_cbb ATeardown tr =? 1) && (count_cbb ETeardown tr <=? 1) else true.

(* ---------- C03: after any failure the run still comes to an end, and nothing carries on ---------- *)
Definition is_fault (e : tid * label) : bool :=
  match snd e with LCbRaise _ | LSaveCondRaise | LSaveRaise | LInterrupt => true | _ => false end.
(* number of control ticks (save-condition evaluations) that begin after the first fault of a background thread
   has been flagged *)
Fixpoint ticks_after_flag (flagged : bool) (tr : trace) : nat :=
  match tr with
  | [] => 0
  | (TBg _, LSet (EExc _)) :: r => ticks_after_flag true r
  | (TCtl, LSaveCond _) :: r => (if flagged then 1 else 0) + ticks_after_flag flagged r
  | _ :: r => ticks_after_flag flagged r
  end.
(* ... and the control thread's loop delay is slept at most twice more (the tick in flight may end without having
   seen the flag; the next one sees it, shuts down and ends): nothing carries on with a dead thread *)
Fixpoint sleeps_after_flag (flagged : bool) (tr : trace) : nat :=
  match tr with
  | [] => 0
  | (TBg _, LSet (EExc _)) :: r => sleeps_after_flag true r
  | (TCtl, LSleep) :: r => (if flagged then 1 else 0) + sleeps_after_flag flagged r
  | _ :: r => sleeps_after_flag flagged r
  end.

(* failures of the control loop itself (save condition, state save): no further tick begins, and launch() raises
   exactly when such a failure (or a failing final save) happened - a failure of a background thread or an
   interrupt makes it return normally *)
Fixpoint c03_mon (cfault : bool) (tr : trace) : bool :=
  match tr with
  | [] => true
  | (TCtl, (LSaveCondRaise | LSaveRaise)) :: r => c03_mon true r
  | (TCtl, LSaveCond _) :: r => negb cfault && c03_mon cfault r
  | (TCtl, LLaunchDone raised) :: r => Bool.eqb raised cfault && c03_mon cfault r
  | _ :: r => c03_mon cfault r
  end.
Definition C03_ok (tr : trace) : bool :=
  (* the flag is polled in the tick that is running or in the next one: at most one more tick begins *)
  (ticks_after_flag false tr <=? 1) && (sleeps_after_flag false tr <=? 2) && c03_mon false tr.

(* a background thread whose callback raised anywhere but in its teardown flags the failure before it ends:
   without the flag the control thread never learns of the dead thread.  [owed i]: thread i has raised and not
   flagged yet. *)
Definition is_teardown_cb (c : cbn) : bool := match c with ATeardown | ETeardown => true | _ => false end.
Fixpoint flagged_before_exit (owed : nat -> bool) (tr : trace) : bool :=
  match tr with
  | [] => true
  | (TBg i, LCbRaise c) :: r => flagged_before_exit (if is_teardown_cb c then owed else upd owed i true) r
  | (TBg i, LSet (EExc _)) :: r => flagged_before_exit (upd owed i false) r
  | (TBg i, LExit _) :: r => negb (owed i) && flagged_before_exit owed r
  | _ :: r => flagged_before_exit owed r
  end.
Definition C03_flagged (tr : trace) : bool := flagged_before_exit (fun _ => false) tr.

(* ---------- C08: launch() ends only because of a shutdown command, the uptime limit, an interrupt or an exception
   raised by user code (a callback of a background thread, seen through its flag; the save condition; a component's
   save): the shutdown event is set, the background threads are joined and launch() ends only after such a cause *)
Definition is_cause (t : tid) (l : label) : bool :=
  match t, l with
  | TCtl, (LQGet CmdShutdown | LUptime true | LInterrupt | LIsSet (EExc _) true | LSaveCondRaise | LSaveRaise) => true
  | _, _ => false
  end.
Fixpoint c08_mon (cause : bool) (tr : trace) : bool :=
  match tr with
  | [] => true
  | (t, l) :: r =>
      let cause' := cause || is_cause t l in
      match t, l with
      | TCtl, (LSet EShut | LJoin (TBg _) | LLaunchDone _) => cause && c08_mon cause' r
      | _, _ => c08_mon cause' r
      end
  end.
Definition C08_ok (tr : trace) : bool := c08_mon false tr.

(* ---------- C02: every started background thread is joined before launch() ends, a joined thread does
   nothing any more, and the state written after the joins (the final one) comes after all of them ---------- *)
Fixpoint c02_mon (started joined : nat) (tr : trace) : bool :=
  match tr with
  | [] => true
  | (t, l) :: r =>
      match t, l with
      | TCtl, LStart (TBg _) => c02_mon (S started) joined r
      | TCtl, LJoin (TBg _) => c02_mon started (S joined) r
      | TBg _, _ => (joined <? started) && c02_mon started joined r       (* only not-yet-joined threads act *)
      | TCtl, LExit _ => (joined =? started) && c02_mon started joined r   (* launch() is over: everybody has been joined *)
      | _, _ => c02_mon started joined r
      end
  end.
Definition C02_ok (complete : bool) (tr : trace) : bool :=
  c02_mon 0 0 tr && (if complete then main_exited tr else true).

(* ... and a pause that was given up is withdrawn ("pause and resume make progress"): whenever a control tick begins,
   the resume event is set or the pause has been acknowledged (the clock is paused) - no thread is left waiting for a
   resume on behalf of a pause request the control thread has abandoned.  The monitor follows the control thread's
   operations on the resume event and on the clock. *)
Definition wd_res (t : tid) (l : label) (r : bool) : bool :=
  match t, l with TCtl, LClear ERes => false | TCtl, LSet ERes => true | _, _ => r end.
Definition wd_ack (t : tid) (l : label) (a : bool) : bool :=
  match t, l with TCtl, LClockPause => true | TCtl, LClockResume => false | _, _ => a end.
Definition wd_tick (t : tid) (l : label) : bool := match t, l with TCtl, LSaveCond _ => true | _, _ => false end.
Fixpoint c02_wd (res ack : bool) (tr : trace) : bool :=
  match tr with
  | [] => true
  | (t, l) :: r => (if wd_tick t l then res || ack else true) && c02_wd (wd_res t l res) (wd_ack t l ack) r
  end.
Definition C02_withdrawn (tr : trace) : bool := c02_wd false false tr.

(* ---------- C17: commands accepted by the web API are executed once, in acceptance order, up to a shutdown ---------- *)
Definition cmd_eqb (a b : cmd) : bool :=
  match a, b with CmdPause, CmdPause | CmdResume, CmdResume | CmdSave, CmdSave | CmdShutdown, CmdShutdown => true | _, _ => false end.

(* pending: accepted and not yet taken, oldest first *)
Fixpoint c17_mon (pending : list cmd) (stopped : bool) (tr : trace) : bool :=
  match tr with
  | [] => true
  | (t, l) :: r =>
      match l with
      | LQPut c ok => c17_mon (if ok then pending ++ [c] else pending) stopped r
      | LQGet c =>
          match pending with
          | c' :: p => negb stopped && cmd_eqb c c' && c17_mon p (match c with CmdShutdown => true | _ => stopped end) r
          | [] => false
          end
      | _ => c17_mon pending stopped r
      end
  end.
Definition C17_ok (tr : trace) : bool := c17_mon [] false tr.

(* ... and it is taken soon: the control loop drains the whole queue in every tick, so no accepted command is still
   waiting when the second tick after its acceptance begins.  [ages]: for every waiting command, the number of ticks
   that have begun since it was accepted. *)
Fixpoint c17_live (ages : list nat) (tr : trace) : bool :=
  match tr with
  | [] => true
  | (t, l) :: r =>
      match t, l with
      | _, LQPut _ true => c17_live (ages ++ [0]) r
      | TCtl, LQGet _ => c17_live (tl ages) r
      | TCtl, LSaveCond _ => forallb (fun a => a <? 2) ages && c17_live (map S ages) r
      | _, _ => c17_live ages r
      end
  end.
Definition C17_live (tr : trace) : bool := c17_live [] tr.

(* the status decision table, for any number of threads *)
Inductive status := StActive | StPausing | StPaused | StResuming | StShuttingDown.
Definition status_of (shutdown resume : bool) (flags : list bool) : status :=
  if shutdown then StShuttingDown
  else if negb resume then (if forallb (fun b => b) flags then StPaused else StPausing)
  else if existsb (fun b => b) flags then StResuming else StActive.

Definition status_eqb (a b : status) : bool :=
  match a, b with
  | StActive, StActive | StPausing, StPausing | StPaused, StPaused | StResuming, StResuming | StShuttingDown, StShuttingDown => true
  | _, _ => false
  end.

(* ---------- a status request as reads interleaved with the other threads' writes ----------
   The flags the status provider consults: the controller's shutdown and resume events and every thread's
   paused event.  A history lists, in the order they happened, the writes of all threads and the reads and
   answers of status requests.  [truthful] demands of every request that its answer was TRUE at some instant
   between its beginning and its end: it follows the flags through the writes and collects every status the
   system had during the request. *)
Inductive flag := FShutdown | FResume | FPaused (i : nat).
Record flags := { f_sh : bool; f_rs : bool; f_p : list bool }.
Inductive sev :=
| SWrite (f : flag) (v : bool)
| SBegin
| SRead (f : flag) (v : bool)
| SEnd (answer : status).

Fixpoint set_nth (i : nat) (v : bool) (l : list bool) : list bool :=
  match l, i with
  | [], _ => []
  | _ :: r, 0 => v :: r
  | x :: r, S j => x :: set_nth j v r
  end.
Definition set_flag (s : flags) (f : flag) (v : bool) : flags :=
  match f with
  | FShutdown => {| f_sh := v; f_rs := f_rs s; f_p := f_p s |}
  | FResume => {| f_sh := f_sh s; f_rs := v; f_p := f_p s |}
  | FPaused i => {| f_sh := f_sh s; f_rs := f_rs s; f_p := set_nth i v (f_p s) |}
  end.
Definition get_flag (s : flags) (f : flag) : bool :=
  match f with FShutdown => f_sh s | FResume => f_rs s | FPaused i => nth i (f_p s) false end.
Definition status_at (s : flags) : status := status_of (f_sh s) (f_rs s) (f_p s).
Definition flags0 (n : nat) : flags := {| f_sh := false; f_rs := true; f_p := repeat false n |}.

(* [cur]: None outside a request; inside, every status the system has had since the request began *)
Fixpoint truthful_from (s : flags) (cur : option (list status)) (h : list sev) : bool :=
  match h with
  | [] => true
  | SWrite f v :: r => let s' := set_flag s f v in truthful_from s' (option_map (cons (status_at s')) cur) r
  | SBegin :: r => truthful_from s (Some [status_at s]) r
  | SRead _ _ :: r => truthful_from s cur r
  | SEnd a :: r => match cur with Some l => existsb (status_eqb a) l && truthful_from s None r | None => false end
  end.
Definition truthful (n : nat) (h : list sev) : bool := truthful_from (flags0 n) None h.

(* what a read returns is the current value of the flag (a sanity condition on the recorded history) *)
Fixpoint reads_current (s : flags) (h : list sev) : bool :=
  match h with
  | [] => true
  | SWrite f v :: r => reads_current (set_flag s f v) r
  | SRead f v :: r => Bool.eqb (get_flag s f) v && reads_current s r
  | _ :: r => reads_current s r
  end.

(* ---------- the verdict on one observed run ---------- *)
Record sysin := { s_attempts : nat; s_qmax : nat; s_complete : bool (* launch() came back and the harness finished *) }.

Definition kind2 (i : nat) : bkind := if i =? 0 then KInf else KTrain.

Definition accepted (i : sysin) (tr : trace) : bool :=
  match run 2 kind2 (s_attempts i) (s_qmax i) true init tr with Some _ => true | None => false end.

(* ---------- C17 cases: a whole run, or one row of the status decision table ---------- *)
Inductive c17case :=
| C17Run (i : sysin) (tr : trace)
| C17Table (sh rs : bool) (flags : list bool) (obs : status)
| C17Status (n : nat) (h : list sev).       (* the flag writes and status requests of one whole run *)

Definition c17_agree (c : c17case) : bool :=
  match c with
  | C17Run i tr => accepted i tr
  | C17Table sh rs flags obs => status_eqb (status_of sh rs flags) obs
  | C17Status n h => reads_current (flags0 n) h
  end.
Definition c17_prop_ok (c : c17case) : bool :=
  match c with
  | C17Run i tr => C17_ok tr && C17_live tr
  | C17Table sh rs flags obs => status_eqb (status_of sh rs flags) obs
  | C17Status n h => truthful n h
  end.
