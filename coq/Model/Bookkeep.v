(* Model of the bookkeeping of InferenceThread.on_tick (thread/threads/inference.py): the list of tick
   durations, the time-interval scheduler that logs their statistics, and statistics.mean / stdev, which
   raise StatisticsError on too few samples.  The DURATIONS themselves never matter for whether something
   raises - only how many there are - so the model keeps their number.  The scheduler is Model/Sched.v's
   (the real object is a TimeIntervalScheduler); clock reads (time.fixed_time and time.time) come from one
   adversarial stream. *)
From Coq Require Import ZArith List Bool.
From Pamiq Require Import Model.Sched.
Import ListNotations.
Open Scope Z_scope.

Inductive bout := BQuiet | BLogged (n : nat) | BRaise.

(* log_tick_time_statistics over n collected durations.  [orig]: the tree as pinned (defect D6) calls
   statistics.stdev whenever there is at least one sample; stdev needs two. *)
Definition log_stats (orig : bool) (n : nat) : bout :=
  match n with
  | O => BQuiet
  | S O => if orig then BRaise else BLogged 1
  | _ => BLogged n
  end.

Record inf := { nt : nat; started : bool; sc : tsched }.

Definition stats_cb : cb := {| cb_id := 0; cb_reads := 0 |}.

Definition inf_init (I : Z) (c : clock) : inf * list ev * clock :=
  let '(s, es, c1) := t_init I [stats_cb] c in ({| nt := 0; started := false; sc := s |}, es, c1).

Definition fired (es : list ev) : bool := existsb (fun e => match e with ECb _ => true | _ => false end) es.

(* one on_tick after interaction.step() *)
Definition inf_tick (orig strict : bool) (s : inf) (c : clock) : inf * list ev * bout * clock :=
  let '(e1, c1, n1) :=
    if started s then let (v, c') := read c in ([ERead v], c', S (nt s)) else ([], c, nt s) in
  let (v2, c2) := read c1 in
  let out := log_stats orig n1 in
  let bad := match out with BRaise => 0%nat | _ => 1%nat end in
  let '(sc', es, c3) := t_update_raise strict bad (sc s) c2 in
  if fired es then
    match out with
    | BRaise => ({| nt := n1; started := true; sc := sc' |}, e1 ++ ERead v2 :: es, BRaise, c3)
    | _ => ({| nt := 0; started := true; sc := sc' |}, e1 ++ ERead v2 :: es, out, c3)
    end
  else ({| nt := n1; started := true; sc := sc' |}, e1 ++ ERead v2 :: es, BQuiet, c3).

(* the thread dies with the first raise: no further ticks *)
Fixpoint inf_run (orig strict : bool) (k : nat) (s : inf) (c : clock) : list (list ev * bout) :=
  match k with
  | O => []
  | S k' =>
      let '(s', es, o, c') := inf_tick orig strict s c in
      (es, o) :: match o with BRaise => [] | _ => inf_run orig strict k' s' c' end
  end.

Definition inf_trace (orig strict : bool) (I : Z) (reads : list Z) (k : nat) : list ev * list (list ev * bout) :=
  let '(s, es, c) := inf_init I {| last := 0; pending := reads |} in
  (es, inf_run orig strict k s c).
