(* Model of data/buffer.py (constructor check), data/impls/sequential_buffer.py and
   data/impls/random_replacement_buffer.py (plain and dict variants).

   A sample is identified by an integer id.  A dict sample with key set ks carries,
   for key k, the value id*16+k; a plain buffer is observed as a dict buffer with
   the single pseudo key 0 (the harness wraps it), so one model serves the four
   classes.  Random draws are oracle arguments of the add operation. *)
From Coq Require Import ZArith QArith List Bool Arith.
Import ListNotations.

Definition lastn {A} (n : nat) (l : list A) : list A := skipn (length l - n) l.

Fixpoint upd_nth {A} (l : list A) (i : nat) (x : A) : list A :=
  match l, i with
  | [], _ => []
  | _ :: r, O => x :: r
  | y :: r, S i' => y :: upd_nth r i' x
  end.

Inductive bkind := KSeq | KRR.

Record buf := {
  kind : bkind;
  cap : nat;             (* max_size *)
  prob : Q;              (* replace probability (KRR) *)
  keys : list nat;       (* required key set, sorted, no duplicates *)
  items : list Z         (* ids of the stored samples, in storage order *)
}.

Definition with_items (b : buf) (l : list Z) : buf :=
  {| kind := kind b; cap := cap b; prob := prob b; keys := keys b; items := l |}.

Definition nat_list_eqb (a b : list nat) : bool :=
  if list_eq_dec Nat.eq_dec a b then true else false.

(* ---- constructor: which (max_size, probability) are accepted, and the queue size ---- *)
(* the tree as pinned divides by the probability unconditionally (defect D7b) *)
Inductive ctor_res := CtorOk (qsize : Z) | CtorValueError | CtorZeroDivision.

Definition qfloor (q : Q) : Z := (Qnum q / Zpos (Qden q))%Z.

Definition rr_ctor (orig : bool) (c : nat) (p : Q) : ctor_res :=
  if negb (Qle_bool 0 p && Qle_bool p 1) then CtorValueError
  else if Qeq_bool p 0 then (if orig then CtorZeroDivision else CtorOk (Z.of_nat c))
  else CtorOk (qfloor (inject_Z (Z.of_nat c) / p)).

Definition seq_ctor (c : nat) : ctor_res := CtorOk (Z.of_nat c).

(* ---- operations ---- *)
Inductive bop :=
| BAdd (id : Z) (ks : list nat) (r : Q) (idx : nat)  (* sample, its key set, random() and randint() answers *)
| BGet
| BLen
| BMutGet                 (* mutate what get_data returned, then get again *)
| BSaveLoad (c2 : nat).   (* save, then load into a fresh buffer of capacity c2 and continue with it *)

Inductive bout :=
| OAdd (err drew : bool) (bounds : option (Z * Z))  (* ValueError raised; random() called; randint(a, b) called *)
| OGet (ids : list Z)
| OLen (n : nat)
| OSaveLoad.

(* [orig]: the pinned comparison [random() > p] (defect D7a) instead of [>=] *)
Definition skip_replace (orig : bool) (p r : Q) : bool :=
  if orig then negb (Qle_bool r p) else Qle_bool p r.

Definition step (orig : bool) (b : buf) (o : bop) : buf * bout :=
  match o with
  | BAdd id ks r idx =>
      if negb (nat_list_eqb ks (keys b)) then (b, OAdd true false None) else
      match kind b with
      | KSeq => (with_items b (lastn (cap b) (items b ++ [id])), OAdd false false None)
      | KRR =>
          if Nat.leb (cap b) (length (items b)) then
            if skip_replace orig (prob b) r then (b, OAdd false true None)
            else (with_items b (upd_nth (items b) idx id),
                  OAdd false true (Some (0%Z, (Z.of_nat (cap b) - 1)%Z)))
          else (with_items b (items b ++ [id]), OAdd false false None)
      end
  | BGet => (b, OGet (items b))
  | BLen => (b, OLen (length (items b)))
  | BMutGet => (b, OGet (items b))
  | BSaveLoad c2 =>
      ({| kind := kind b; cap := c2; prob := prob b; keys := keys b;
          items := match kind b with KSeq => lastn c2 (items b) | KRR => firstn c2 (items b) end |},
       OSaveLoad)
  end.

(* the observation after every operation: the output and a snapshot of get_data *)
Fixpoint run (orig : bool) (b : buf) (ops : list bop) : list (bout * list Z) :=
  match ops with
  | [] => []
  | o :: r => let (b', out) := step orig b o in (out, items b') :: run orig b' r
  end.

Definition empty (k : bkind) (c : nat) (p : Q) (ks : list nat) : buf :=
  {| kind := k; cap := c; prob := p; keys := ks; items := [] |}.

(* what get_data returns for the dict view: for every key, the values in order *)
Definition render (ks : list nat) (ids : list Z) : list (nat * list Z) :=
  map (fun k => (k, map (fun id => (id * 16 + Z.of_nat k)%Z) ids)) ks.
