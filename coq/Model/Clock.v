(* Model of pamiq_core/time.py: TimeController.

   The three clocks (time, perf_counter, monotonic) have the same code and share
   only the scale and the paused flag, which every operation updates identically
   for the three; so the model is ONE channel whose raw clock is [now + off], and
   a case of the correspondence check is run once per channel (Check/C06.v
   projects the operations and the observed outputs on each channel).

   Exact arithmetic over Q (the correspondence uses dyadic values on which float
   arithmetic is exact).  Real time advances only BETWEEN operations ([Advance d]
   or a [Sleep]); the few hundred nanoseconds between two raw reads inside one
   operation are outside the property's quantifier and are not modelled. *)
From Coq Require Import QArith List Bool.
Import ListNotations.
Open Scope Q_scope.

Record clk := { anc : Q; sanc : Q; scale : Q; paused : bool }.

Inductive op :=
| Read                (* time() / perf_counter() / monotonic() of this channel *)
| Skip                (* a read of another channel: nothing happens to this one *)
| SetScale (k : Q)
| GetScale
| IsPaused
| Pause
| Resume
| Export              (* state_dict(): this channel's component *)
| Load (w : Q)        (* load_state_dict() *)
| Sleep (d : Q)
| Advance (d : Q).    (* real time passes between two operations *)

Inductive out :=
| OQ (q : Q)
| OBool (b : bool)
| ONone
| OErr.               (* AssertionError: scale must be > 0 *)

Definition read (raw : Q) (c : clk) : Q :=
  if paused c then sanc c else sanc c + (raw - anc c) * scale c.

Definition lt0 (k : Q) : bool := negb (Qle_bool k 0).

(* [orig = true]: state_dict() as pinned re-anchors only the scaled anchor (defect D5) *)
Definition step (orig : bool) (off : Q) (c : clk) (now : Q) (o : op) : clk * Q * out :=
  let raw := now + off in
  match o with
  | Read => (c, now, OQ (read raw c))
  | Skip => (c, now, ONone)
  | SetScale k =>
      if lt0 k then ({| anc := raw; sanc := read raw c; scale := k; paused := paused c |}, now, ONone)
      else (c, now, OErr)
  | GetScale => (c, now, OQ (scale c))
  | IsPaused => (c, now, OBool (paused c))
  | Pause =>
      if paused c then (c, now, ONone)
      else ({| anc := anc c; sanc := read raw c; scale := scale c; paused := true |}, now, ONone)
  | Resume =>
      if paused c then ({| anc := raw; sanc := sanc c; scale := scale c; paused := false |}, now, ONone)
      else (c, now, ONone)
  | Export =>
      ({| anc := if orig then anc c else raw; sanc := read raw c; scale := scale c; paused := paused c |},
       now, OQ (read raw c))
  | Load w => ({| anc := raw; sanc := w; scale := scale c; paused := paused c |}, now, ONone)
  | Sleep d =>
      (* returns at once while paused; otherwise the raw sleep lasts d / scale *)
      let dur := if paused c then 0 else d / scale c in
      (c, now + dur, OQ dur)
  | Advance d => (c, now + d, ONone)
  end.

Fixpoint run (orig : bool) (off : Q) (c : clk) (now : Q) (ops : list op) : list out :=
  match ops with
  | [] => []
  | o :: r => let '(c', now', x) := step orig off c now o in x :: run orig off c' now' r
  end.

(* TimeController(): constructed at instant [now] *)
Definition init (off now : Q) : clk :=
  {| anc := now + off; sanc := now + off; scale := 1; paused := false |}.

(* ---------- the abstract clock of the property ----------
   a value that grows at rate [sk] per unit of real time while not paused *)
Record spec := { v : Q; sk : Q; sp : bool }.

Definition sstep (x : spec) (o : op) : spec * out :=
  match o with
  | Read => (x, OQ (v x))
  | Skip => (x, ONone)
  | SetScale k => if lt0 k then ({| v := v x; sk := k; sp := sp x |}, ONone) else (x, OErr)
  | GetScale => (x, OQ (sk x))
  | IsPaused => (x, OBool (sp x))
  | Pause => ({| v := v x; sk := sk x; sp := true |}, ONone)
  | Resume => ({| v := v x; sk := sk x; sp := false |}, ONone)
  | Export => (x, OQ (v x))
  | Load w => ({| v := w; sk := sk x; sp := sp x |}, ONone)
  | Sleep d =>
      (* lasts d / scale of real time, i.e. exactly d of system time; nothing while paused *)
      if sp x then (x, OQ 0) else ({| v := v x + d; sk := sk x; sp := sp x |}, OQ (d / sk x))
  | Advance d => ({| v := if sp x then v x else v x + sk x * d; sk := sk x; sp := sp x |}, ONone)
  end.

Fixpoint srun (x : spec) (ops : list op) : list out :=
  match ops with
  | [] => []
  | o :: r => let (x', y) := sstep x o in y :: srun x' r
  end.

Definition sinit (off now : Q) : spec := {| v := now + off; sk := 1; sp := false |}.

Definition out_eqb (a b : out) : bool :=
  match a, b with
  | OQ x, OQ y => Qeq_bool x y
  | OBool x, OBool y => Bool.eqb x y
  | ONone, ONone => true
  | OErr, OErr => true
  | _, _ => false
  end.

Fixpoint outs_eqb (a b : list out) : bool :=
  match a, b with
  | [], [] => true
  | x :: a', y :: b' => out_eqb x y && outs_eqb a' b'
  | _, _ => false
  end.
