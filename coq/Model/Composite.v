(* Model of the composite components: interaction/agent.py (child agents), interactions.py
   (Interaction), modular_env.py (ModularEnvironment, SensorsDict, ActuatorsDict),
   wrappers.py (EnvironmentWrapper, SensorWrapper, ActuatorWrapper, LambdaWrapper) and the
   attachment lines of launcher.py.

   Every composite forwards every event to itself-if-user-code and then to its named
   children in a fixed order, so one rose tree with a kind per node models them all. *)
From Coq Require Import List Bool Arith.
Import ListNotations.

(* LSelf: the callbacks and the state that a user subclass of a dictionary composite has of its own; it sits in the
   composite as a pseudo-child under the reserved name [n_self] *)
Inductive lkind := LSensor | LActuator | LEnv | LWrapObj | LWrapFn | LSelf.
Inductive nkind := NInteraction | NAgent | NModEnv | NSensorsDict | NActuatorsDict | NSensorWrap | NActWrap | NEnvWrap.

Inductive node :=
| Leaf (k : lkind) (id : nat)
| Node (k : nkind) (id : nat) (cs : list (nat * node)).   (* id: the agent's own id for NAgent, unused otherwise *)

(* names of the fixed children (numbers >= 1000); dict keys and child-agent names are < 1000 *)
Definition n_agent := 1000. Definition n_environment := 1001. Definition n_sensor := 1002.
Definition n_actuator := 1003. Definition n_wrapper := 1004. Definition n_env := 1005.
Definition n_obs_wrapper := 1006. Definition n_act_wrapper := 1007. Definition n_self := 1008.

Inductive event := EvSetup | EvTeardown | EvPaused | EvResumed | EvAttachModels | EvAttachCollectors.

Definition leaf_gets (k : lkind) (e : event) : bool :=
  match k, e with
  | LWrapFn, _ => false                          (* a plain function has no callbacks *)
  | _, (EvAttachModels | EvAttachCollectors) => false
  | _, _ => true
  end.

(* which components receive the event, in call order *)
Fixpoint dispatch (e : event) (n : node) : list nat :=
  match n with
  | Leaf k id => if leaf_gets k e then [id] else []
  | Node k id cs =>
      let below := flat_map (fun c => dispatch e (snd c)) cs in
      match k, e with
      | NAgent, _ => id :: below
      | NInteraction, (EvAttachModels | EvAttachCollectors) =>
          (* launcher: interaction.agent.attach_*: only the agent subtree *)
          flat_map (fun c => if Nat.eqb (fst c) n_agent then dispatch e (snd c) else []) cs
      | _, (EvAttachModels | EvAttachCollectors) => []
      | _, _ => below
      end
  end.

(* file-system operations of save_state(path) and the paths visited by load_state(path) *)
Inductive fsop := Mkdir (p : list nat) (exist_ok : bool) | Save (id : nat) (p : list nat).

Definition leaf_has_state (k : lkind) : bool := match k with LWrapFn => false | _ => true end.

Fixpoint save_ops (n : node) (p : list nat) : list fsop :=
  match n with
  | Leaf k id => if leaf_has_state k then [Save id p] else []
  | Node k id cs =>
      let below := flat_map (fun c => save_ops (snd c) (p ++ [fst c])) cs in
      match k with
      | NAgent => Save id p :: match cs with [] => [] | _ => Mkdir p true :: below end
      | _ => Mkdir p false :: below
      end
  end.

Fixpoint load_paths (n : node) (p : list nat) : list (nat * list nat) :=
  match n with
  | Leaf k id => if leaf_has_state k then [(id, p)] else []
  | Node k id cs =>
      let below := flat_map (fun c => load_paths (snd c) (p ++ [fst c])) cs in
      match k with NAgent => (id, p) :: below | _ => below end
  end.

Definition save_paths (ops : list fsop) : list (nat * list nat) :=
  flat_map (fun o => match o with Save id p => [(id, p)] | _ => [] end) ops.

(* ---------- data: observations and actions as symbolic values ---------- *)
Inductive value :=
| Raw (id : nat)                       (* what leaf sensor / leaf environment [id] produced, or the agent's action for a leaf *)
| App (w : nat) (v : value)            (* wrapper w applied to v *)
| Dict (kvs : list (nat * value))
| Bad.                                 (* a lookup failed / shape mismatch *)

Definition child (name : nat) (cs : list (nat * node)) : option node :=
  match find (fun c => Nat.eqb (fst c) name) cs with Some c => Some (snd c) | None => None end.

Definition wrapper_id (n : option node) : option nat :=
  match n with Some (Leaf (LWrapObj | LWrapFn) id) => Some id | _ => None end.

Fixpoint observe (n : node) : value :=
  match n with
  | Leaf (LSensor | LEnv) id => Raw id
  | Leaf _ _ => Bad
  | Node k _ cs =>
      let subs := map (fun c => (fst c, observe (snd c))) cs in
      let sub name := match find (fun kv : nat * value => Nat.eqb (fst kv) name) subs with Some kv => snd kv | None => Bad end in
      let wid name := wrapper_id (child name cs) in
      match k with
      | NModEnv => sub n_sensor
      | NSensorsDict => Dict (filter (fun kv => negb (Nat.eqb (fst kv) n_self)) subs)   (* the composite's own part carries no data *)
      | NSensorWrap => match wid n_wrapper with Some w => App w (sub n_sensor) | None => Bad end
      | NEnvWrap => match wid n_obs_wrapper with Some w => App w (sub n_env) | None => Bad end
      | _ => Bad
      end
  end.

(* action[k]: a wrapped value is indexed through its wrapper (the harness wrappers are symbolic and
   commute with indexing), a dictionary by key *)
Fixpoint lookup (k : nat) (v : value) : value :=
  match v with
  | Dict kvs => match find (fun kv => Nat.eqb (fst kv) k) kvs with Some kv => snd kv | None => Bad end
  | App w v' => App w (lookup k v')
  | _ => Bad
  end.

(* what every leaf actuator / leaf environment receives, in call order *)
Fixpoint affect (n : node) (v : value) : list (nat * value) :=
  match n with
  | Leaf (LActuator | LEnv) id => [(id, v)]
  | Leaf _ _ => []
  | Node k _ cs =>
      let wid name := wrapper_id (child name cs) in
      match k with
      | NModEnv => flat_map (fun c => if Nat.eqb (fst c) n_actuator then affect (snd c) v else []) cs
      | NActuatorsDict => flat_map (fun c => affect (snd c) (lookup (fst c) v)) cs
      | NActWrap =>
          match wid n_wrapper with
          | Some w => flat_map (fun c => if Nat.eqb (fst c) n_actuator then affect (snd c) (App w v) else []) cs
          | None => []
          end
      | NEnvWrap =>
          match wid n_act_wrapper with
          | Some w => flat_map (fun c => if Nat.eqb (fst c) n_env then affect (snd c) (App w v) else []) cs
          | None => []
          end
      | _ => []
      end
  end.
