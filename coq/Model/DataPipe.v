(* Model of data/interface.py (TimestampingQueue, DataCollector, DataUser) and the
   exclusive acquisition of data/container.py DataCollectorsDict.

   A sample is an integer id; timestamps are clock reads in integer ticks, supplied
   by the environment with each collect.  The buffer behind the DataUser is
   external: the model outputs the sequence of add() calls it receives. *)
From Coq Require Import ZArith List Bool Arith.
From Pamiq Require Import Model.Buffers.
Import ListNotations.

(* deque(maxlen=q).append *)
Definition bapp {A} (q : option nat) (l : list A) (x : A) : list A :=
  match q with None => l ++ [x] | Some n => lastn n (l ++ [x]) end.

Definition lastn_opt {A} (q : option nat) (l : list A) : list A :=
  match q with None => l | Some n => lastn n l end.

Record pipe := {
  qsz : option nat;          (* buffer.max_queue_size *)
  cq : list (Z * Z);         (* collector queue: (sample, timestamp), oldest first *)
  tss : list Z               (* DataUser._timestamps, oldest first *)
}.

Inductive pop :=
| Collect (x t : Z)          (* collector.collect(x) while the clock reads t *)
| Update                     (* user.update() *)
| GetData                    (* user.get_data(): update, then read the buffer *)
| Count (ts : Z)             (* user.count_data_added_since(ts) *)
| SaveState.                 (* user.save_state(): update, then write *)

Inductive pout :=
| PNone
| PAdds (ids : list Z)       (* add() calls received by the buffer during the call, in order *)
| PCount (n : nat).

Fixpoint take_while {A} (f : A -> bool) (l : list A) : list A :=
  match l with [] => [] | x :: r => if f x then x :: take_while f r else [] end.

(* reversed(timestamps): index of the first one <= ts, else the length *)
Definition count_since (tss : list Z) (ts : Z) : nat :=
  length (take_while (fun t => Z.ltb ts t) (rev tss)).

Definition handover (p : pipe) : pipe * pout :=
  ({| qsz := qsz p; cq := []; tss := fold_left (bapp (qsz p)) (map snd (cq p)) (tss p) |},
   PAdds (map fst (cq p))).

Definition pstep (p : pipe) (o : pop) : pipe * pout :=
  match o with
  | Collect x t => ({| qsz := qsz p; cq := bapp (qsz p) (cq p) (x, t); tss := tss p |}, PNone)
  | Update | GetData | SaveState => handover p
  | Count ts => (p, PCount (count_since (tss p) ts))
  end.

Fixpoint prun (p : pipe) (ops : list pop) : list pout :=
  match ops with
  | [] => []
  | o :: r => let (p', y) := pstep p o in y :: prun p' r
  end.

Definition pinit (q : option nat) : pipe := {| qsz := q; cq := []; tss := [] |}.

(* load_state: timestamps := deque(saved, maxlen=q) *)
Definition load_tss (q : option nat) (saved : list Z) : list Z := lastn_opt q saved.

(* ---------- DataCollectorsDict.acquire ---------- *)
Inductive acq_out := AcqOk | AcqKeyError.

Definition acquire (names acquired : list nat) (n : nat) : list nat * acq_out :=
  if existsb (Nat.eqb n) acquired then (acquired, AcqKeyError)
  else if existsb (Nat.eqb n) names then (n :: acquired, AcqOk)
  else (acquired, AcqKeyError).
