(* Model of gym/env.py GymEnvironment, gym/agent.py GymAgent, gym/types.py and the
   Interaction.step that connects them (observe; agent.step; affect).

   The wrapped gymnasium environment and the user's agent are oracles: for every
   interaction step the input says whether on_step / on_reset (if called) request a
   reset and which (terminated, truncated) flags env.step returns.  Environment outputs
   are identified by counters; the action an agent callback returns is identified by
   the index of the callback. *)
From Coq Require Import List Bool Arith.
Import ListNotations.

Inductive gev :=
| GReset                                   (* env.reset() *)
| GStep (a : nat) (term trunc : bool)      (* env.step(action a) returned these flags *)
| AOnReset (r : nat)                       (* agent.on_reset begins, with the obs of reset #r *)
| AOnStep (s : nat) (term trunc : bool)    (* agent.on_step begins, with the result of step #s *)
| AReq                                     (* the running callback sets need_reset = True *)
| ARet (a : nat).                          (* the running callback returns action a *)

Inductive gobs :=
| OR (r : nat)
| OS (s : nat) (term trunc : bool)
| OB (s : nat) (term trunc : bool) (r : nat).

Record gstate := {
  cur : gobs;        (* GymEnvironment._obs *)
  flag : bool;       (* GymAgent.need_reset *)
  nr : nat; ns : nat; na : nat   (* counters: next reset, next step, next callback *)
}.

Record ginp := { step_req : bool; reset_req : bool; e_term : bool; e_trunc : bool }.

(* Interaction.setup: agent.setup (flag := False), environment.setup (reset) *)
Definition ginit : gstate * list gev :=
  ({| cur := OR 0; flag := false; nr := 1; ns := 0; na := 0 |}, [GReset]).

Definition req (b : bool) : list gev := if b then [AReq] else [].

Definition gstep (g : gstate) (i : ginp) : gstate * list gev :=
  (* action = agent.step(observe()) *)
  let '(evs, fl, act, na') :=
    match cur g with
    | OR r => ([AOnReset r] ++ req (reset_req i) ++ [ARet (na g)], reset_req i, na g, S (na g))
    | OS s t u => ([AOnStep s t u] ++ req (step_req i) ++ [ARet (na g)], flag g || step_req i, na g, S (na g))
    | OB s t u r =>
        ([AOnStep s t u] ++ req (step_req i) ++ [ARet (na g)] ++
         [AOnReset r] ++ req (reset_req i) ++ [ARet (S (na g))], reset_req i, S (na g), S (S (na g)))
    end in
  (* environment.affect(GymAction(action, need_reset)) *)
  let done := e_term i || e_trunc i in
  if done || fl then
    ({| cur := OB (ns g) (e_term i) (e_trunc i) (nr g); flag := fl; nr := S (nr g); ns := S (ns g); na := na' |},
     evs ++ [GStep act (e_term i) (e_trunc i); GReset])
  else
    ({| cur := OS (ns g) (e_term i) (e_trunc i); flag := fl; nr := nr g; ns := S (ns g); na := na' |},
     evs ++ [GStep act (e_term i) (e_trunc i)]).

Fixpoint gsteps (g : gstate) (inps : list ginp) : list gev :=
  match inps with
  | [] => []
  | i :: r => let (g', evs) := gstep g i in evs ++ gsteps g' r
  end.

Definition glog (inps : list ginp) : list gev :=
  let (g, evs) := ginit in evs ++ gsteps g inps.
