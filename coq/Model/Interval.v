(* Model of interaction/interval_adjustors.py (IntervalAdjustor, SleepIntervalAdjustor) and
   FixedIntervalInteraction.setup/step, on the abstract system clock of Model/Clock.v
   (value grows at rate [k] per unit of real time while not paused; C06 proves that
   TimeController refines it).

   One tick of the inference thread, as seen by the interaction:
     [the system may be paused at the loop guard for any real length: the clock stands still]
     overhead eps (loop delay, guard) passes in real time
     the step body starts (instant T, in system time) and lasts d in real time
     adjust(): remaining = last + W - perf_counter(); if remaining > 0: sleep(remaining)
     reset(): last = perf_counter()                                                        *)
From Coq Require Import QArith List.
Import ListNotations.
Open Scope Q_scope.

Record tick := { pause_len : Q; eps : Q; dur : Q }.   (* real-time lengths, all >= 0 *)

Record ist := { now : Q; last : Q }.                    (* system perf_counter now; last reset instant *)

Definition qmax (a b : Q) : Q := if Qle_bool a b then b else a.

(* W = interval - offset; k = time scale.  Returns the new state and the step's start instant. *)
Definition istep (k W : Q) (s : ist) (t : tick) : ist * Q :=
  (* Qred only normalises the fraction (Qred q == q); without it the representation grows at every step *)
  let n1 := Qred (now s + k * eps t) in                 (* paused time adds nothing *)
  let n2 := Qred (n1 + k * dur t) in
  let remaining := last s + W - n2 in
  let n3 := if Qle_bool remaining 0 then n2 else Qred (n2 + remaining) in   (* sleep(remaining) = remaining of system time *)
  ({| now := n3; last := n3 |}, n1).

Fixpoint iruns (k W : Q) (s : ist) (ts : list tick) : list Q :=
  match ts with
  | [] => []
  | t :: r => let (s', T) := istep k W s t in T :: iruns k W s' r
  end.

(* setup(): adjustor.reset() at system instant t0 *)
Definition iinit (t0 : Q) : ist := {| now := t0; last := t0 |}.
