(* Model of state_persistence.py StatesKeeper.cleanup / LatestStatesKeeper and its use by
   the control thread (append after each runtime save, cleanup every tick).

   Paths are natural numbers.  The file system is the list of entries of the states
   directory (state directories and anything else).  *)
From Coq Require Import List Bool Arith.
From Pamiq Require Import Model.Buffers.
Import ListNotations.

Definition mem (p : nat) (l : list nat) : bool := existsb (Nat.eqb p) l.
Definition remove_all (ps : list nat) (fs : list nat) : list nat := filter (fun p => negb (mem p ps)) fs.

Record keeper := { max_keep : nat; tracked : list nat (* oldest first *) }.

Inductive kop :=
| KAppend (p : nat) (create : bool)   (* a save: the directory is created (or not: removed again by someone else), then append(p) *)
| KCleanup
| KExtRemove (p : nat)                (* somebody else removes an entry *)
| KExtCreate (p : nat).               (* somebody else creates an unrelated entry *)

(* output of every step: the paths cleanup() returned, and the directory listing afterwards *)
Definition kstep (k : keeper) (fs : list nat) (o : kop) : keeper * list nat * list nat :=
  match o with
  | KAppend p create =>
      ({| max_keep := max_keep k; tracked := tracked k ++ [p] |}, (if create && negb (mem p fs) then fs ++ [p] else fs), [])
  | KCleanup =>
      if Nat.leb (length (tracked k)) (max_keep k) then (k, fs, [])
      else
        let n := length (tracked k) - max_keep k in
        let sel := firstn n (tracked k) in
        let removed := filter (fun p => mem p fs) sel in
        ({| max_keep := max_keep k; tracked := skipn n (tracked k) |}, remove_all removed fs, removed)
  | KExtRemove p => (k, remove_all [p] fs, [])
  | KExtCreate p => (k, (if mem p fs then fs else fs ++ [p]), [])
  end.

Fixpoint krun (k : keeper) (fs : list nat) (ops : list kop) : list (list nat * list nat) :=
  match ops with
  | [] => []
  | o :: r => let '(k', fs', rem) := kstep k fs o in (rem, fs') :: krun k' fs' r
  end.

(* initial scan: the entries matching the pattern, sorted by modification time *)
Fixpoint insert_by (key : nat -> nat) (x : nat) (l : list nat) : list nat :=
  match l with
  | [] => [x]
  | y :: r => if Nat.leb (key x) (key y) then x :: l else y :: insert_by key x r
  end.
Definition sort_by (key : nat -> nat) (l : list nat) : list nat := fold_right (insert_by key) [] l.

Definition kinit (mk : nat) (matching : list nat) (mtime : nat -> nat) : keeper :=
  {| max_keep := mk; tracked := sort_by mtime matching |}.
