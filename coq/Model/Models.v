(* Model of model/interface.py (TrainingModel flags, lazy single inference instance, sync),
   model/container.py (TrainingModelsDict / InferenceModelsDict), Trainer.get_training_model /
   sync_models and Agent.get_inference_model.

   A model is its two flags plus a version counter on the training side and one on the
   inference side (the harness models carry such counters).  An inference-thread-only model
   shares its parameters with its inference model, so the agent sees the training version. *)
From Coq Require Import List Bool Arith.
Import ListNotations.

Record mdl := { has_inf : bool; inf_only : bool; tver : nat; iver : nat }.

Definition ctor_ok (hi io : bool) : bool := negb (negb hi && io).     (* else ValueError *)
Definition need_sync (m : mdl) : bool := has_inf m && negb (inf_only m).
(* what the agent gets: an inference model exists iff has_inf *)
Definition agent_can_get (m : mdl) : bool := has_inf m.
(* TrainingModelsDict.__getitem__ hides inference-thread-only models *)
Definition trainer_can_get (m : mdl) : bool := negb (inf_only m).
(* version seen through the agent's inference model *)
Definition visible (m : mdl) : option nat :=
  if has_inf m then Some (if inf_only m then tver m else iver m) else None.

Definition sync (m : mdl) : mdl :=
  if need_sync m then {| has_inf := has_inf m; inf_only := inf_only m; tver := tver m; iver := tver m |} else m.
Definition bump (m : mdl) : mdl :=
  {| has_inf := has_inf m; inf_only := inf_only m; tver := S (tver m); iver := iver m |}.
Definition setv (v : nat) (m : mdl) : mdl :=
  {| has_inf := has_inf m; inf_only := inf_only m; tver := v; iver := iver m |}.

Fixpoint map_at {A} (f : A -> A) (i : nat) (l : list A) : list A :=
  match l, i with
  | [], _ => []
  | x :: r, O => f x :: r
  | x :: r, S i' => x :: map_at f i' r
  end.

(* names a trainer asked for and was given (requests for hidden or unknown models raise KeyError) *)
Definition retrieved (ms : list mdl) (reqs : list nat) : list nat :=
  filter (fun n => match nth_error ms n with Some m => trainer_can_get m | None => false end) (nodup Nat.eq_dec reqs).

Inductive mop :=
| MRun (reqs : list nat)        (* a trainer that requested these names trains, then sync_models() *)
| MLoad (vs : list nat).        (* TrainingModelsDict.load_state: every model loads its value, then sync() *)

Fixpoint zip_with {A B} (f : A -> B -> B) (xs : list A) (ys : list B) : list B :=
  match xs, ys with
  | x :: xs', y :: ys' => f x y :: zip_with f xs' ys'
  | _, _ => ys
  end.

(* output: names whose sync_impl ran (sorted), and the version visible to the agent for each model *)
Definition mstep (ms : list mdl) (o : mop) : list mdl * (list nat * list (option nat)) :=
  match o with
  | MRun reqs =>
      let got := retrieved ms reqs in
      let ms1 := fold_left (fun acc n => map_at bump n acc) got ms in
      let ms2 := fold_left (fun acc n => map_at sync n acc) got ms1 in
      let synced := filter (fun n => match nth_error ms n with Some m => need_sync m | None => false end) got in
      (ms2, (synced, map visible ms2))
  | MLoad vs =>
      let ms1 := zip_with setv vs ms in
      let ms2 := map sync ms1 in
      let synced := filter (fun n => match nth_error ms n with Some m => need_sync m | None => false end) (seq 0 (length ms)) in
      (ms2, (synced, map visible ms2))
  end.

Fixpoint mrun (ms : list mdl) (ops : list mop) : list (list nat * list (option nat)) :=
  match ops with
  | [] => []
  | o :: r => let (ms', y) := mstep ms o in y :: mrun ms' r
  end.

Definition minit (flags : list (bool * bool)) : list mdl :=
  map (fun f => {| has_inf := fst f; inf_only := snd f; tver := 0; iver := 0 |}) flags.
