(* Model of what a state save does to the file system (state_persistence.StateStore.save_state and the
   save_state methods it calls) and of a crash in the middle of it.

   A save is a list of file-system operations: [FMkdir p] and [FWrite p len] (open for writing = create,
   write [len] bytes, close).  A crash leaves the first k operations done and, if the next one is a write,
   possibly the file created with only the first j < len bytes (j = 0: created, nothing flushed).
   Paths are lists of names (numbers); the name of the clock file "time.pkl" is [n_time].

   A layout tree generates the operation list of a save whose components write nested directories and files
   in registration order (launcher: interaction, models, data, trainers, time). *)
From Coq Require Import List Bool Arith.
Import ListNotations.

Definition path := list nat.
Definition n_time : nat := 0.

Inductive fop := FMkdir (p : path) | FWrite (p : path) (len : nat).
Inductive fent := EDir | EFile (written total : nat).
Definition fs := list (path * fent).           (* the first binding of a path is the current one *)

Definition path_eqb (a b : path) : bool := if list_eq_dec Nat.eq_dec a b then true else false.

Fixpoint lookup (f : fs) (p : path) : option fent :=
  match f with
  | [] => None
  | (q, e) :: r => if path_eqb q p then Some e else lookup r p
  end.

Definition op_path (o : fop) : path := match o with FMkdir p | FWrite p _ => p end.

Definition apply (f : fs) (o : fop) : fs :=
  match o with
  | FMkdir p => (p, EDir) :: f
  | FWrite p n => (p, EFile n n) :: f
  end.
Definition apply_all (f : fs) (ops : list fop) : fs := fold_left apply ops f.

(* the state after a crash: k operations done; [j = Some b]: the next operation, a write, got as far as b bytes *)
Definition crash (f : fs) (ops : list fop) (k : nat) (j : option nat) : fs :=
  let f' := apply_all f (firstn k ops) in
  match j, nth_error ops k with
  | Some b, Some (FWrite p n) => (p, EFile (Nat.min b n) n) :: f'
  | _, _ => f'
  end.

(* is this crash state a torn one?  (everything but: all operations done, or the last write got all its bytes) *)
Definition complete (ops : list fop) (k : nat) (j : option nat) : bool :=
  (length ops <=? k) ||
  match j, nth_error ops k with
  | Some b, Some (FWrite _ n) => (S k =? length ops) && (n <=? b)
  | _, _ => false
  end.

(* [p] lies under [root] *)
Fixpoint under (root p : path) : bool :=
  match root, p with
  | [], _ => true
  | r :: root', x :: p' => Nat.eqb r x && under root' p'
  | _ :: _, [] => false
  end.

(* the shape of a save: creates the fresh directory [root] first, stays under it, and writes the clock file
   [root/time] as its very last operation, exactly once *)
Definition time_path (root : path) : path := root ++ [n_time].
Definition ops_wf (root : path) (ops : list fop) : bool :=
  match ops with
  | FMkdir r :: rest =>
      path_eqb r root &&
      forallb (fun o => under root (op_path o)) rest &&
      match rev rest with
      | FWrite p n :: before => path_eqb p (time_path root) && (0 <? n) &&
                                forallb (fun o => negb (path_eqb (op_path o) (time_path root))) before
      | _ => false
      end
  | _ => false
  end.

(* what load_state needs from the clock file: it exists and is whole.  (A strict prefix of a pickle stream
   is rejected by pickle.load: assumption, measured on every crash state of every run.) *)
Definition time_loadable (f : fs) (root : path) : bool :=
  match lookup f (time_path root) with
  | Some (EFile w t) => Nat.eqb w t
  | _ => false
  end.

(* StateStore.load_state: every registered loader in turn, the clock's last; any failure propagates *)
Definition store_load (others : list (fs -> bool)) (f : fs) (root : path) : bool :=
  forallb (fun l => l f) others && time_loadable f root.

(* ---------- a generator of saves: layouts ---------- *)
Inductive lay := LFile (len : nat) | LDir (cs : list (nat * lay)).

Fixpoint lay_ops (l : lay) (p : path) : list fop :=
  match l with
  | LFile n => [FWrite p n]
  | LDir cs => FMkdir p :: flat_map (fun c => lay_ops (snd c) (p ++ [fst c])) cs
  end.

(* a whole state: the registered components' layouts under their names (all different from [n_time]),
   then the clock file *)
Definition state_ops (root : path) (comps : list (nat * lay)) (tlen : nat) : list fop :=
  lay_ops (LDir (comps ++ [(n_time, LFile tlen)])) root.
