(* What loading a saved state into freshly constructed components gives (C05), composed from the models of
   the parts: the buffer contents (Model/Buffers.v [BSaveLoad]), the DataUser's timestamps
   (Model/DataPipe.v [load_tss], [count_since]), trainer markers, model versions (Model/Models.v [MLoad]),
   nested component values (each leaf reads the path it wrote: Model/Composite.v) and the clock
   (Model/Clock.v [Load]).

   One data user: a history of collects (sample id, timestamp), all handed over, saved from a buffer of
   capacity cap1 / queue size q1, loaded into a fresh one of capacity cap2 / queue size q2. *)
From Coq Require Import ZArith List Bool Arith.
From Pamiq Require Import Model.Buffers Model.DataPipe.
Import ListNotations.

Record ucfg := { u_kind : bkind; u_cap1 : nat; u_cap2 : nat; u_q1 : option nat; u_q2 : option nat }.

(* what the components hold at the save: the buffer's samples (a random-replacement buffer that never had to
   replace keeps them all, in order) and the timestamps deque *)
Definition saved_items (c : ucfg) (ids : list Z) : list Z :=
  match u_kind c with KSeq => lastn (u_cap1 c) ids | KRR => firstn (u_cap1 c) ids end.
Definition saved_tss (c : ucfg) (tss : list Z) : list Z := lastn_opt (u_q1 c) tss.

(* load_state into the fresh components *)
Definition loaded_items (c : ucfg) (items : list Z) : list Z :=
  match u_kind c with KSeq => lastn (u_cap2 c) items | KRR => firstn (u_cap2 c) items end.
Definition loaded_tss (c : ucfg) (tss : list Z) : list Z := load_tss (u_q2 c) tss.

(* what the public getters show: get_data, len, count_data_added_since for some probes *)
Record uobs := { o_items : list Z; o_len : nat; o_counts : list nat }.
Definition observe (items tss probes : list Z) : uobs :=
  {| o_items := items; o_len := length items; o_counts := map (count_since tss) probes |}.

Definition before_save (c : ucfg) (ids tss probes : list Z) : uobs :=
  observe (saved_items c ids) (saved_tss c tss) probes.
Definition after_load (c : ucfg) (ids tss probes : list Z) : uobs :=
  observe (loaded_items c (saved_items c ids)) (loaded_tss c (saved_tss c tss)) probes.

(* the loaded components go on living: further samples (sequential buffers) arrive after the load *)
Definition after_more (c : ucfg) (ids tss probes mids mtss : list Z) : uobs :=
  observe (lastn (u_cap2 c) (loaded_items c (saved_items c ids) ++ mids))
          (lastn_opt (u_q2 c) (loaded_tss c (saved_tss c tss) ++ mtss)) probes.
