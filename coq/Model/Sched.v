(* Model of pamiq_core/utils/schedulers.py (Scheduler, TimeIntervalScheduler,
   StepIntervalScheduler) and state_persistence.PeriodicSaveCondition.

   Executable, no proofs.  Clock reads are an adversarial input stream: every
   call of pamiq_core.time.time() consumes the next value of a list (when the
   list is exhausted the clock stands still at the last value).  Callbacks are
   labels; a callback may itself read the clock [k] times.  Time is counted in
   integer ticks (the correspondence uses floats that are exact multiples of
   2^-6, so float arithmetic on them is exact). *)
From Coq Require Import ZArith List Bool.
Import ListNotations.
Open Scope Z_scope.

(* ---------- the adversarial clock ---------- *)
Record clock := { last : Z; pending : list Z }.

Definition read (c : clock) : Z * clock :=
  match pending c with
  | [] => (last c, c)
  | v :: p => (v, {| last := v; pending := p |})
  end.

(* ---------- events of the observable trace ---------- *)
(* The observable trace is a list of segments: one for the constructor, then one
   per operation (the harness knows where each call begins and ends). *)
Inductive ev :=
| ERead (v : Z)        (* pamiq_core.time.time() returned v *)
| ECb (i : nat)        (* registered callback i begins *)
| ERet (b : bool)      (* PeriodicSaveCondition.__call__ returned b *)
| ERaise.              (* the running callback raised: the exception leaves update() *)

Definition ev_eqb (a b : ev) : bool :=
  match a, b with
  | ERead x, ERead y => Z.eqb x y
  | ECb i, ECb j => Nat.eqb i j
  | ERet x, ERet y => Bool.eqb x y
  | ERaise, ERaise => true
  | _, _ => false
  end.

Fixpoint evs_eqb (a b : list ev) : bool :=
  match a, b with
  | [], [] => true
  | x :: a', y :: b' => ev_eqb x y && evs_eqb a' b'
  | _, _ => false
  end.

Fixpoint segs_eqb (a b : list (list ev)) : bool :=
  match a, b with
  | [], [] => true
  | x :: a', y :: b' => evs_eqb x y && segs_eqb a' b'
  | _, _ => false
  end.

(* a registered callback: its identity and the number of clock reads it makes *)
Record cb := { cb_id : nat; cb_reads : nat }.

Fixpoint reads_n (n : nat) (c : clock) : list ev * clock :=
  match n with
  | O => ([], c)
  | S n' => let (v, c1) := read c in
            let (es, c2) := reads_n n' c1 in (ERead v :: es, c2)
  end.

Fixpoint run_cbs (cbs : list cb) (c : clock) : list ev * clock :=
  match cbs with
  | [] => ([], c)
  | k :: r => let (es1, c1) := reads_n (cb_reads k) c in
              let (es2, c2) := run_cbs r c1 in
              (ECb (cb_id k) :: es1 ++ es2, c2)
  end.

(* the same, but callback [bad] raises as soon as it is entered: nothing after it runs *)
Fixpoint run_cbs_until (bad : nat) (cbs : list cb) (c : clock) : list ev * clock * bool :=
  match cbs with
  | [] => ([], c, true)
  | k :: r =>
      if Nat.eqb (cb_id k) bad then ([ECb (cb_id k); ERaise], c, false)
      else let (es1, c1) := reads_n (cb_reads k) c in
           let '(es2, c2, ok) := run_cbs_until bad r c1 in
           (ECb (cb_id k) :: es1 ++ es2, c2, ok)
  end.

(* ---------- TimeIntervalScheduler ---------- *)
Record tsched := { ivl : Z; prev : Z; cbs : list cb }.

Definition t_init (i : Z) (l : list cb) (c : clock) : tsched * list ev * clock :=
  let (v, c1) := read c in ({| ivl := i; prev := v; cbs := l |}, [ERead v], c1).

(* [strict]: policy parameter for the boundary elapsed == interval, which the
   property leaves open (the code uses [>]). *)
Definition due (strict : bool) (t p i : Z) : bool :=
  if strict then i <? t - p else i <=? t - p.

(* the current tree: decide once, fire, then restart the interval *)
Definition t_update (strict : bool) (s : tsched) (c : clock) : tsched * list ev * clock :=
  let (t1, c1) := read c in
  if due strict t1 (prev s) (ivl s) then
    let (es, c2) := run_cbs (cbs s) c1 in
    let (t2, c3) := read c2 in
    ({| ivl := ivl s; prev := t2; cbs := cbs s |}, ERead t1 :: es ++ [ERead t2], c3)
  else (s, [ERead t1], c1).

(* an update during which callback [bad] raises: the exception propagates, the interval is NOT restarted *)
Definition t_update_raise (strict : bool) (bad : nat) (s : tsched) (c : clock) : tsched * list ev * clock :=
  let (t1, c1) := read c in
  if due strict t1 (prev s) (ivl s) then
    let '(es, c2, ok) := run_cbs_until bad (cbs s) c1 in
    if ok then
      let (t2, c3) := read c2 in
      ({| ivl := ivl s; prev := t2; cbs := cbs s |}, ERead t1 :: es ++ [ERead t2], c3)
    else (s, ERead t1 :: es, c2)
  else (s, [ERead t1], c1).

(* the tree as pinned (defect D8): the availability test is evaluated twice *)
Definition t_update_orig (strict : bool) (s : tsched) (c : clock) : tsched * list ev * clock :=
  let (t1, c1) := read c in
  let '(es, c2) := if due strict t1 (prev s) (ivl s) then run_cbs (cbs s) c1 else ([], c1) in
  let (t2, c3) := read c2 in
  if due strict t2 (prev s) (ivl s) then
    let (t3, c4) := read c3 in
    ({| ivl := ivl s; prev := t3; cbs := cbs s |}, ERead t1 :: es ++ [ERead t2; ERead t3], c4)
  else (s, ERead t1 :: es ++ [ERead t2], c3).

(* ---------- StepIntervalScheduler ---------- *)
Record ssched := { sivl : nat; steps : nat; scbs : list cb }.

Definition s_init (n : nat) (l : list cb) : ssched := {| sivl := n; steps := 0; scbs := l |}.

Definition s_update (s : ssched) (c : clock) : ssched * list ev * clock :=
  let k := S (steps s) in
  if Nat.leb (sivl s) k then
    let (es, c1) := run_cbs (scbs s) c in
    ({| sivl := sivl s; steps := 0; scbs := scbs s |}, es, c1)
  else ({| sivl := sivl s; steps := k; scbs := scbs s |}, [], c).

(* ---------- operations on a scheduler object ---------- *)
Inductive op :=
| OUpdate
| OUpdateRaise (bad : nat)    (* update() during which callback [bad], if it is called, raises *)
| ORegister (k : cb)
| ORemove (i : nat).

Fixpoint remove_first (i : nat) (l : list cb) : list cb :=
  match l with
  | [] => []
  | k :: r => if Nat.eqb (cb_id k) i then r else k :: remove_first i r
  end.

Definition t_step (orig strict : bool) (s : tsched) (c : clock) (o : op) : tsched * list ev * clock :=
  match o with
  | OUpdate => (if orig then t_update_orig else t_update) strict s c
  | OUpdateRaise bad => t_update_raise strict bad s c
  | ORegister k => ({| ivl := ivl s; prev := prev s; cbs := cbs s ++ [k] |}, [], c)
  | ORemove i => ({| ivl := ivl s; prev := prev s; cbs := remove_first i (cbs s) |}, [], c)
  end.

Fixpoint t_run (orig strict : bool) (s : tsched) (c : clock) (ops : list op) : list (list ev) :=
  match ops with
  | [] => []
  | o :: r => let '(s', es, c') := t_step orig strict s c o in es :: t_run orig strict s' c' r
  end.

Definition t_trace (orig strict : bool) (i : Z) (l : list cb) (c : clock) (ops : list op) : list (list ev) :=
  let '(s, es, c1) := t_init i l c in es :: t_run orig strict s c1 ops.

Definition s_step (s : ssched) (c : clock) (o : op) : ssched * list ev * clock :=
  match o with
  | OUpdate | OUpdateRaise _ => s_update s c      (* raising callbacks are not modelled for step schedulers *)
  | ORegister k => ({| sivl := sivl s; steps := steps s; scbs := scbs s ++ [k] |}, [], c)
  | ORemove i => ({| sivl := sivl s; steps := steps s; scbs := remove_first i (scbs s) |}, [], c)
  end.

Fixpoint s_run (s : ssched) (c : clock) (ops : list op) : list (list ev) :=
  match ops with
  | [] => []
  | o :: r => let '(s', es, c') := s_step s c o in es :: s_run s' c' r
  end.

Definition s_trace (n : nat) (l : list cb) (c : clock) (ops : list op) : list (list ev) :=
  [] :: s_run (s_init n l) c ops.

(* ---------- PeriodicSaveCondition: a latch around a TimeIntervalScheduler ---------- *)
(* the single registered callback is [set_true]; it is internal, so the trace
   shows only the clock reads and the returned flag *)
Definition latch_cb : cb := {| cb_id := 0; cb_reads := 0 |}.

Definition fired (es : list ev) : bool :=
  existsb (fun e => match e with ECb _ => true | _ => false end) es.

Definition strip_cb (es : list ev) : list ev :=
  filter (fun e => match e with ECb _ => false | _ => true end) es.

Fixpoint p_run (orig strict : bool) (s : tsched) (c : clock) (n : nat) : list (list ev) :=
  match n with
  | O => []
  | S n' => let '(s', es, c') := (if orig then t_update_orig else t_update) strict s c in
            (strip_cb es ++ [ERet (fired es)]) :: p_run orig strict s' c' n'
  end.

Definition p_trace (orig strict : bool) (i : Z) (c : clock) (n : nat) : list (list ev) :=
  let '(s, es, c1) := t_init i [latch_cb] c in es :: p_run orig strict s c1 n.
