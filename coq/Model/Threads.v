(* M6 — the thread protocol of pamiq_core as an ACCEPTOR of labelled traces.

   Mirrors (as of the current /repo tree): thread/thread_control.py (ThreadController,
   ControllerCommandHandler.stop_if_pause / manage_loop, ThreadStatus, ThreadStatusesMonitor),
   thread/threads/base.py (Thread.run, BackgroundThread), inference.py, training.py,
   control.py (all methods) and launcher.launch (start, join, final save).

   A trace is the global sequence of atomic operations on the synchronisation primitives
   (events, queue, thread start/join, sleep) and of callback boundaries, each tagged with the
   thread that performed it - exactly what the deterministic harness records from the real
   code.  [step s t l] says whether thread [t] may perform the operation labelled [l] in
   state [s], and gives the next state.  Every source of nondeterminism is resolved by the
   label: the scheduler (which thread), timeouts ([LWaitRet _ false]), the user's callbacks
   (end / raise, any duration = any number of [LSleep] inside), oracles (save condition,
   uptime) and the client's requests.  Time is abstracted away.

   The number of background threads [n] and their kinds are parameters. *)
From Coq Require Import List Bool Arith.
Import ListNotations.

Inductive tid := TCtl | TBg (i : nat) | TPool (i : nat) | TClient | TWeb.
Inductive evn := ERes | EShut | EPaused (i : nat) | EExc (i : nat).
Inductive cmd := CmdPause | CmdResume | CmdSave | CmdShutdown.
Inductive cbn :=
| ASetup | ESetup | AStep | AHookP | EHookP | AHookR | EHookR | ATeardown | ETeardown
| TTrain | THookP | THookR.

Inductive label :=
| LIsSet (e : evn) (b : bool) | LSet (e : evn) | LClear (e : evn)
| LWaitNow (e : evn) | LWaitBlock (e : evn) (timed : bool) | LWaitRet (e : evn) (b : bool)
| LSleep | LStart (t : tid) | LJoin (t : tid) | LExit (raised : bool)
| LCbB (c : cbn) | LCbE (c : cbn) | LCbRaise (c : cbn)
| LQPut (c : cmd) (ok : bool) | LQEmpty (b : bool) | LQGet (c : cmd)
| LClockPause | LClockResume | LClockScale
| LSaveCond (b : bool) | LSaveCondRaise | LSaveB | LSaveE | LSaveRaise
| LInterrupt
| LUptime (reached : bool)     (* the control tick's uptime check (an oracle here; its arithmetic is C08's) *)
| LLaunchDone (raised : bool)   (* launch() is over: it returned, or it raised *)
| LOther.     (* bookkeeping marks of the harness (http answers, component save marks): no effect *)

Inductive bkind := KInf | KTrain.
Inductive phase := PSetup | PStep | PHookP | PHookR | PTeardown.

Definition cbs_of (k : bkind) (ph : phase) : list cbn :=
  match k, ph with
  | KInf, PSetup => [ASetup; ESetup]
  | KInf, PStep => [AStep]
  | KInf, PHookP => [AHookP; EHookP]
  | KInf, PHookR => [AHookR; EHookR]
  | KInf, PTeardown => [ATeardown; ETeardown]
  | KTrain, PHookP => [THookP]
  | KTrain, PHookR => [THookR]
  | KTrain, _ => []
  end.

(* program counter of a background thread *)
Inductive bpc :=
| BNotStarted
| BRun (ph : phase) (rest : list cbn) (inside : option cbn) (* running the callbacks of a phase *)
| BGuard      (* stop_if_pause: about to read the resume event *)
| BSetFlag    (* hooks done: about to set the paused flag *)
| BChk        (* while is_pause(): about to read the resume event *)
| BWaitCall   (* about to call wait_for_resume(1.0) *)
| BWaiting (notified : bool)
| BClr        (* about to withdraw the acknowledgement *)
| BRechk      (* about to re-read the resume event *)
| BReSet      (* a new pause came: about to acknowledge again *)
| BClr2       (* on_resumed: clears the flag (again), then the resume hooks *)
| BAct        (* manage_loop: about to read the shutdown event *)
| BTickTrain  (* training tick: a trainer may run, or not *)
| BSleep      (* loop delay *)
| BSetExc     (* on_exception: about to set the exception flag *)
| BExit
| BDone.

Inductive ppc := PIdle | PCall | PWaiting (notified : bool) | PExit | PDone.

(* where a sub-procedure of the control thread returns to *)
Inductive cont :=
| KDrain                  (* back to the command loop *)
| KCond                   (* after a save triggered by the save condition: on to the commands *)
| KAfterDrain             (* shutdown command: return from the command loop, on to the polls *)
| KAfterPoll              (* shutdown by an exception flag: on to the uptime check *)
| KAfterUptime            (* shutdown by the uptime limit: on to the loop delay *)
| KFinally.               (* on_finally: on to the epilogue of launch() *)

Inductive cpc :=
| CInit0 | CInit1 | CInit2 | CScale | CStart (k : nat) | CStartWeb
| CTickCond | CDrain | CGet | CPoll (k : nat) (any : bool) | CAfterPoll | CAfterUptime
| CSave0 (k : cont)                                   (* save_state: reads already_paused *)
| CTp0 (ret : option bool) (k : cont)                 (* try_pause: reads the resume event; ret = Some ap when called from save_state *)
| CTp1 (a : nat) (ret : option bool) (k : cont)       (* pause(): reads shutdown *)
| CTp2 (a : nat) (ret : option bool) (k : cont)       (* clears resume *)
| CTp3 (a j : nat) (ret : option bool) (k : cont)     (* submits worker j *)
| CTp4 (a j : nat) (ret : option bool) (k : cont)     (* joins worker j *)
| CTp5 (ret : option bool) (k : cont)                 (* all acknowledged: pauses the clock *)
| CTp6 (a : nat) (ret : option bool) (k : cont)       (* failed attempt: resume(): reads shutdown *)
| CTp7 (a : nat) (ret : option bool) (k : cont)       (* sets resume *)
| CSave1 (ap : bool) (k : cont) | CSave2 (ap : bool) (k : cont)
| CRes0 (k : cont) | CRes1 (k : cont) | CRes2 (k : cont)
| CShut0 (k : cont) | CShut1 (k : cont) | CShut2 (k : cont) | CShut3 (k : cont) | CShut4 (k : cont)
| CJoin (k : nat) | CFinScale | CFinSave0 | CFinSave1 | CDone | CJoinClient | CMainExit | CMainDone.

Record st := {
  res : bool; shut : bool; pf : nat -> bool; ex : nat -> bool;
  clk : bool;                          (* system clock paused *)
  bp : nat -> bpc; failed : nat -> bool;
  pp : nat -> ppc; pres : nat -> bool; (* pool workers and their results *)
  cp : cpc;
  running : bool;                      (* ControlThread._running *)
  craised : bool;                      (* the control loop or the final save raised: launch() will re-raise *)
  queue : list cmd;
  acked : bool;                        (* ghost: a pause has been acknowledged and no resume/shutdown issued since *)
  saving : bool;                       (* ghost: inside StateStore.save_state *)
  client_done : bool; web : nat        (* web: 0 not started, 1 running, 2 exited *)
}.

Definition upd {A} (f : nat -> A) (i : nat) (v : A) : nat -> A := fun j => if Nat.eqb j i then v else f j.

Section M.
Variable n : nat.                   (* number of background threads *)
Variable kind : nat -> bkind.
Variable max_attempts : nat.
Variable qmax : nat.                (* web API queue size; 0 = unbounded *)
Variable with_web : bool.

Definition init : st :=
  {| res := false; shut := false; pf := fun _ => false; ex := fun _ => false; clk := false;
     bp := fun _ => BNotStarted; failed := fun _ => false; pp := fun _ => PIdle; pres := fun _ => false;
     cp := CInit0; running := true; craised := false; queue := []; acked := false; saving := false;
     client_done := false; web := 0 |}.

(* ---- small setters ---- *)
Definition set_cp (s : st) (c : cpc) : st :=
  {| res := res s; shut := shut s; pf := pf s; ex := ex s; clk := clk s; bp := bp s; failed := failed s; pp := pp s;
     pres := pres s; cp := c; running := running s; craised := craised s; queue := queue s; acked := acked s;
     saving := saving s; client_done := client_done s; web := web s |}.
Definition set_bp (s : st) (i : nat) (p : bpc) : st :=
  {| res := res s; shut := shut s; pf := pf s; ex := ex s; clk := clk s; bp := upd (bp s) i p; failed := failed s; pp := pp s;
     pres := pres s; cp := cp s; running := running s; craised := craised s; queue := queue s; acked := acked s;
     saving := saving s; client_done := client_done s; web := web s |}.
Definition set_pp (s : st) (i : nat) (p : ppc) (r : bool) : st :=
  {| res := res s; shut := shut s; pf := pf s; ex := ex s; clk := clk s; bp := bp s; failed := failed s; pp := upd (pp s) i p;
     pres := upd (pres s) i r; cp := cp s; running := running s; craised := craised s; queue := queue s; acked := acked s;
     saving := saving s; client_done := client_done s; web := web s |}.

(* first pc of a phase for thread i, or the continuation when the phase has no callbacks *)
Definition after_phase (ph : phase) : bpc :=
  match ph with
  | PSetup => BGuard
  | PStep => BSleep
  | PHookP => BSetFlag
  | PHookR => BAct
  | PTeardown => BExit
  end.

Definition enter (i : nat) (ph : phase) : bpc :=
  match cbs_of (kind i) ph with
  | [] => after_phase ph
  | l => BRun ph l None
  end.

Definition cbn_eqb (a b : cbn) : bool :=
  match a, b with
  | ASetup, ASetup | ESetup, ESetup | AStep, AStep | AHookP, AHookP | EHookP, EHookP | AHookR, AHookR | EHookR, EHookR
  | ATeardown, ATeardown | ETeardown, ETeardown | TTrain, TTrain | THookP, THookP | THookR, THookR => true
  | _, _ => false
  end.

(* Set(resume): every thread blocked in wait_for_resume is notified *)
Definition notify_bg (f : nat -> bpc) : nat -> bpc :=
  fun j => match f j with BWaiting _ => BWaiting true | p => p end.

Definition set_res (s : st) (b : bool) (c : cpc) : st :=
  {| res := b; shut := shut s; pf := pf s; ex := ex s; clk := clk s;
     bp := if b then notify_bg (bp s) else bp s; failed := failed s; pp := pp s;
     pres := pres s; cp := c; running := running s; craised := craised s; queue := queue s; acked := acked s;
     saving := saving s; client_done := client_done s; web := web s |}.

(* Set(paused_i) by thread i: worker i, if blocked, is notified *)
Definition set_pf (s : st) (i : nat) (b : bool) (p : bpc) : st :=
  {| res := res s; shut := shut s; pf := upd (pf s) i b; ex := ex s; clk := clk s; bp := upd (bp s) i p; failed := failed s;
     pp := if b then (fun j => if Nat.eqb j i then match pp s j with PWaiting _ => PWaiting true | q => q end else pp s j) else pp s;
     pres := pres s; cp := cp s; running := running s; craised := craised s; queue := queue s; acked := acked s;
     saving := saving s; client_done := client_done s; web := web s |}.

Definition set_ex (s : st) (i : nat) (p : bpc) : st :=
  {| res := res s; shut := shut s; pf := pf s; ex := upd (ex s) i true; clk := clk s; bp := upd (bp s) i p; failed := upd (failed s) i true;
     pp := pp s; pres := pres s; cp := cp s; running := running s; craised := craised s; queue := queue s; acked := acked s;
     saving := saving s; client_done := client_done s; web := web s |}.

Definition set_misc (s : st) (c : cpc) (k a sv run cr sh : bool) (q : list cmd) : st :=
  {| res := res s; shut := sh; pf := pf s; ex := ex s; clk := k; bp := bp s; failed := failed s; pp := pp s;
     pres := pres s; cp := c; running := run; craised := cr; queue := q; acked := a;
     saving := sv; client_done := client_done s; web := web s |}.

Definition ctl (s : st) (c : cpc) : st := set_cp s c.

(* ---------- background thread i ---------- *)
Definition fault (s : st) (i : nat) (ph : phase) : st :=
  match ph with
  | PTeardown =>                          (* the teardown itself raised: nothing more runs *)
      {| res := res s; shut := shut s; pf := pf s; ex := ex s; clk := clk s; bp := upd (bp s) i BExit;
         failed := upd (failed s) i true; pp := pp s; pres := pres s; cp := cp s; running := running s;
         craised := craised s; queue := queue s; acked := acked s; saving := saving s;
         client_done := client_done s; web := web s |}
  | _ => set_bp s i BSetExc
  end.

Definition bg_step (s : st) (i : nat) (l : label) : option st :=
  match bp s i, l with
  | BRun ph (c :: r) None, LCbB c' => if cbn_eqb c c' then Some (set_bp s i (BRun ph r (Some c))) else None
  | BRun ph r (Some c), LSleep => Some s
  | BRun ph r (Some c), LCbE c' =>
      if cbn_eqb c c' then Some (set_bp s i (match r with [] => after_phase ph | _ => BRun ph r None end)) else None
  | BRun ph r (Some c), LCbRaise c' => if cbn_eqb c c' then Some (fault s i ph) else None
  | BGuard, LIsSet ERes b =>
      if Bool.eqb b (res s) then Some (set_bp s i (if b then BAct else enter i PHookP)) else None
  | BSetFlag, LSet (EPaused j) => if Nat.eqb i j then Some (set_pf s i true BChk) else None
  | BChk, LIsSet ERes b => if Bool.eqb b (res s) then Some (set_bp s i (if b then BClr else BWaitCall)) else None
  | BWaitCall, LWaitNow ERes => if res s then Some (set_bp s i BChk) else None
  | BWaitCall, LWaitBlock ERes true => if res s then None else Some (set_bp s i (BWaiting false))
  (* a timed wait may report a timeout that fired before a notification arrived *)
  | BWaiting nt, LWaitRet ERes b => if implb b nt then Some (set_bp s i BChk) else None
  | BClr, LClear (EPaused j) => if Nat.eqb i j then Some (set_pf s i false BRechk) else None
  | BRechk, LIsSet ERes b => if Bool.eqb b (res s) then Some (set_bp s i (if b then BClr2 else BReSet)) else None
  | BReSet, LSet (EPaused j) => if Nat.eqb i j then Some (set_pf s i true BChk) else None
  | BClr2, LClear (EPaused j) => if Nat.eqb i j then Some (set_pf s i false (enter i PHookR)) else None
  | BAct, LIsSet EShut b =>
      if Bool.eqb b (shut s) then
        Some (set_bp s i (if b then enter i PTeardown
                          else match kind i with KInf => enter i PStep | KTrain => BTickTrain end))
      else None
  | BTickTrain, LCbB TTrain => Some (set_bp s i (BRun PStep [] (Some TTrain)))
  | BTickTrain, LSleep => Some (set_bp s i BGuard)
  | BSleep, LSleep => Some (set_bp s i BGuard)
  | BSetExc, LSet (EExc j) => if Nat.eqb i j then Some (set_ex s i (enter i PTeardown)) else None
  | BExit, LExit r => if Bool.eqb r (failed s i) then Some (set_bp s i BDone) else None
  | _, _ => None
  end.

(* ---------- pool worker j: stat.wait_for_pause(timeout) ---------- *)
Definition pool_step (s : st) (j : nat) (l : label) : option st :=
  match pp s j, l with
  | PCall, LWaitNow (EPaused k) => if Nat.eqb j k && pf s j then Some (set_pp s j PExit true) else None
  | PCall, LWaitBlock (EPaused k) true => if Nat.eqb j k && negb (pf s j) then Some (set_pp s j (PWaiting false) false) else None
  | PWaiting nt, LWaitRet (EPaused k) b => if Nat.eqb j k && implb b nt then Some (set_pp s j PExit b) else None
  | PExit, LExit false => Some (set_pp s j PDone (pres s j))
  | _, _ => None
  end.

(* ---------- the client: an unconstrained actor, its reads must still be true ---------- *)
Definition flag_of (s : st) (e : evn) : bool :=
  match e with ERes => res s | EShut => shut s | EPaused i => pf s i | EExc i => ex s i end.

Definition q_has_room (s : st) : bool := (qmax =? 0) || (length (queue s) <? qmax).

Definition client_step (s : st) (l : label) : option st :=
  if client_done s then None else
  match l with
  | LQPut c ok =>
      if Bool.eqb ok (q_has_room s) then
        Some (set_misc s (cp s) (clk s) (acked s) (saving s) (running s) (craised s) (shut s) (if ok then queue s ++ [c] else queue s))
      else None
  | LIsSet e b => if Bool.eqb b (flag_of s e) then Some s else None
  | LSleep | LOther => Some s
  | LExit _ =>
      Some {| res := res s; shut := shut s; pf := pf s; ex := ex s; clk := clk s; bp := bp s; failed := failed s; pp := pp s;
              pres := pres s; cp := cp s; running := running s; craised := craised s; queue := queue s; acked := acked s;
              saving := saving s; client_done := true; web := web s |}
  | _ => None
  end.

(* ---------- the control thread ---------- *)
Definition all_pres (s : st) : bool := forallb (pres s) (seq 0 n).

Definition poll_pc : cpc := if n =? 0 then CAfterPoll else CPoll 0 false.
Definition drain_pc : cpc := if with_web then CDrain else poll_pc.
Definition join_pc : cpc := if n =? 0 then CFinScale else CJoin 0.

(* where a sub-procedure returns *)
Definition ret_cont (k : cont) : cpc :=
  match k with
  | KDrain => drain_pc
  | KCond => drain_pc
  | KAfterDrain => poll_pc
  | KAfterPoll => CAfterPoll
  | KAfterUptime => CAfterUptime
  | KFinally => join_pc
  end.

(* try_pause returned [ok]; ret = Some ap: we are inside save_state *)
Definition tp_return (ok : bool) (ret : option bool) (k : cont) : cpc :=
  match ret with
  | None => ret_cont k
  | Some ap => if ok then CSave1 ap k else ret_cont k
  end.

(* next pc after the pool has been joined *)
Definition after_pool (s : st) (a : nat) (ret : option bool) (k : cont) : cpc :=
  if all_pres s then CTp5 ret k else CTp6 a ret k.

Definition start_pool (s : st) (a : nat) (ret : option bool) (k : cont) : cpc :=
  if n =? 0 then CTp5 ret k else CTp3 a 0 ret k.

Definition exc_goto (s : st) : st :=
  (* an exception in the control loop body: on_finally, then the epilogue re-raises *)
  set_misc s (CShut0 KFinally) (clk s) (acked s) false (running s) true (shut s) (queue s).

Definition ctl_step (s : st) (l : label) : option st :=
  match cp s, l with
  (* ThreadController.__init__ and launch() *)
  | CInit0, LIsSet EShut false => if shut s then None else Some (ctl s CInit1)
  | CInit1, LSet ERes => Some (set_res s true CInit2)
  | CInit2, LClear EShut => Some (ctl s CScale)
  | CScale, LClockScale => Some (ctl s (if n =? 0 then (if with_web then CStartWeb else CTickCond) else CStart 0))
  | CStart k, LStart (TBg j) =>
      if Nat.eqb k j then
        Some (set_cp (set_bp s k (enter k PSetup)) (if S k =? n then (if with_web then CStartWeb else CTickCond) else CStart (S k)))
      else None
  | CStartWeb, LStart TWeb =>
      Some {| res := res s; shut := shut s; pf := pf s; ex := ex s; clk := clk s; bp := bp s; failed := failed s; pp := pp s;
              pres := pres s; cp := CTickCond; running := running s; craised := craised s; queue := queue s; acked := acked s;
              saving := saving s; client_done := client_done s; web := 1 |}
  (* on_tick *)
  | CTickCond, LSaveCond b => Some (ctl s (if b then CSave0 KCond else drain_pc))
  (* a KeyboardInterrupt: the same way out, but launch() swallows it *)
  | CTickCond, LInterrupt => Some (set_misc s (CShut0 KFinally) (clk s) (acked s) false (running s) (craised s) (shut s) (queue s))
  | CTickCond, LSaveCondRaise => Some (exc_goto s)
  | CDrain, LQEmpty b =>
      if Bool.eqb b (match queue s with [] => true | _ => false end) then Some (ctl s (if b then poll_pc else CGet)) else None
  | CGet, LQGet c =>
      match queue s with
      | c' :: q =>
          match c, c' with
          | CmdPause, CmdPause => Some (set_misc s (CTp0 None KDrain) (clk s) (acked s) (saving s) (running s) (craised s) (shut s) q)
          | CmdResume, CmdResume => Some (set_misc s (CRes0 KDrain) (clk s) (acked s) (saving s) (running s) (craised s) (shut s) q)
          | CmdSave, CmdSave => Some (set_misc s (CSave0 KDrain) (clk s) (acked s) (saving s) (running s) (craised s) (shut s) q)
          | CmdShutdown, CmdShutdown => Some (set_misc s (CShut0 KAfterDrain) (clk s) (acked s) (saving s) (running s) (craised s) (shut s) q)
          | _, _ => None
          end
      | [] => None
      end
  | CPoll k any, LIsSet (EExc j) b =>
      if Nat.eqb k j && Bool.eqb b (ex s j) then
        Some (ctl s (if S k =? n then (if any || b then CShut0 KAfterPoll else CAfterPoll) else CPoll (S k) (any || b)))
      else None
  (* after the polls: the uptime check may start a shutdown; then the loop delay *)
  | CAfterPoll, LUptime b => Some (ctl s (if b then CShut0 KAfterUptime else CAfterUptime))
  | CAfterUptime, LSleep => Some (ctl s (if running s then CTickCond else CShut0 KFinally))
  (* save_state *)
  | CSave0 k, LIsSet ERes b => if Bool.eqb b (res s) then Some (ctl s (CTp0 (Some (negb b)) k)) else None
  | CSave1 ap k, LSaveB => Some (set_misc s (CSave2 ap k) (clk s) (acked s) true (running s) (craised s) (shut s) (queue s))
  | CSave2 ap k, LSaveE => Some (set_misc s (if ap then ret_cont k else CRes0 k) (clk s) (acked s) false (running s) (craised s) (shut s) (queue s))
  | CSave2 ap k, LSaveRaise => Some (exc_goto s)
  | CSave2 ap k, LOther => Some s
  (* try_pause *)
  | CTp0 ret k, LIsSet ERes b =>
      if Bool.eqb b (res s) then
        Some (ctl s (if b then (if max_attempts =? 0 then tp_return false ret k else CTp1 0 ret k) else tp_return true ret k))
      else None
  | CTp1 a ret k, LIsSet EShut false => if shut s then None else Some (ctl s (CTp2 a ret k))
  | CTp2 a ret k, LClear ERes => Some (set_res s false (start_pool s a ret k))
  | CTp3 a j ret k, LStart (TPool j') =>
      if Nat.eqb j j' then
        Some (set_cp (set_pp s j PCall false) (if S j =? n then CTp4 a 0 ret k else CTp3 a (S j) ret k))
      else None
  | CTp4 a j ret k, LJoin (TPool j') =>
      if Nat.eqb j j' && match pp s j with PDone => true | _ => false end then
        Some (ctl s (if S j =? n then after_pool s a ret k else CTp4 a (S j) ret k))
      else None
  | CTp5 ret k, LClockPause => Some (set_misc s (tp_return true ret k) true true (saving s) (running s) (craised s) (shut s) (queue s))
  | CTp6 a ret k, LIsSet EShut false => if shut s then None else Some (ctl s (CTp7 a ret k))
  | CTp7 a ret k, LSet ERes =>
      Some (set_res s true (if S a <? max_attempts then CTp1 (S a) ret k else tp_return false ret k))
  (* resume *)
  | CRes0 k, LClockResume => Some (set_misc s (CRes1 k) false false (saving s) (running s) (craised s) (shut s) (queue s))
  | CRes1 k, LIsSet EShut false => if shut s then None else Some (ctl s (CRes2 k))
  | CRes2 k, LSet ERes => Some (set_res s true (ret_cont k))
  (* shutdown *)
  | CShut0 k, LClockResume => Some (set_misc s (CShut1 k) false false (saving s) (running s) (craised s) (shut s) (queue s))
  | CShut1 k, LIsSet EShut b =>
      if Bool.eqb b (shut s) then
        Some (if b then set_misc s (ret_cont k) (clk s) (acked s) (saving s) false (craised s) (shut s) (queue s)
              else ctl s (CShut2 k))
      else None
  | CShut2 k, LIsSet EShut false => if shut s then None else Some (ctl s (CShut3 k))
  | CShut3 k, LSet ERes => Some (set_res s true (CShut4 k))
  | CShut4 k, LSet EShut => Some (set_misc s (ret_cont k) (clk s) (acked s) (saving s) false (craised s) true (queue s))
  (* a KeyboardInterrupt that arrives while a shutdown requested otherwise is in progress (before the clock
     is resumed, or before one of the events is read or set): the finally-shutdown starts it again from the beginning *)
  | CShut0 k, LInterrupt | CShut1 k, LInterrupt | CShut2 k, LInterrupt | CShut3 k, LInterrupt | CShut4 k, LInterrupt =>
      match k with
      | KFinally => None
      | _ => Some (set_misc s (CShut0 KFinally) (clk s) (acked s) false (running s) (craised s) (shut s) (queue s))
      end
  (* ... or anywhere else in the control tick outside the pool section of try_pause and outside a state save: the
     exception leaves on_tick, the finally clause shuts down *)
  | CDrain, LInterrupt | CGet, LInterrupt | CPoll _ _, LInterrupt | CAfterPoll, LInterrupt | CAfterUptime, LInterrupt =>
      Some (set_misc s (CShut0 KFinally) (clk s) (acked s) false (running s) (craised s) (shut s) (queue s))
  | CSave0 k, LInterrupt | CSave1 _ k, LInterrupt | CTp0 _ k, LInterrupt | CTp1 _ _ k, LInterrupt | CTp2 _ _ k, LInterrupt
  | CTp5 _ k, LInterrupt | CTp6 _ _ k, LInterrupt | CTp7 _ _ k, LInterrupt | CRes0 k, LInterrupt | CRes1 k, LInterrupt | CRes2 k, LInterrupt =>
      Some (set_misc s (CShut0 KFinally) (clk s) (acked s) false (running s) (craised s) (shut s) (queue s))
  (* epilogue of launch() *)
  | CJoin k, LJoin (TBg j) =>
      if Nat.eqb k j && match bp s j with BDone => true | _ => false end then Some (ctl s (if S k =? n then CFinScale else CJoin (S k))) else None
  | CFinScale, LClockScale => Some (ctl s CFinSave0)
  | CFinSave0, LSaveB => Some (set_misc s CFinSave1 (clk s) (acked s) true (running s) (craised s) (shut s) (queue s))
  | CFinSave1, LSaveE => Some (set_misc s CDone (clk s) (acked s) false (running s) (craised s) (shut s) (queue s))
  | CFinSave1, LSaveRaise => Some (set_misc s CDone (clk s) (acked s) false (running s) true (shut s) (queue s))
  | CFinSave1, LOther => Some s
  (* launch() re-raises exactly the failures of the control loop and of the final save *)
  | CDone, LLaunchDone r => if Bool.eqb r (craised s) then Some (ctl s CJoinClient) else None
  | CJoinClient, LJoin TClient => if client_done s then Some (ctl s CMainExit) else None
  | CMainExit, LExit _ => Some (ctl s CMainDone)
  | _, _ => None
  end.

Definition web_step (s : st) (l : label) : option st :=
  match web s, l with
  | 1, LExit false =>
      Some {| res := res s; shut := shut s; pf := pf s; ex := ex s; clk := clk s; bp := bp s; failed := failed s; pp := pp s;
              pres := pres s; cp := cp s; running := running s; craised := craised s; queue := queue s; acked := acked s;
              saving := saving s; client_done := client_done s; web := 2 |}
  | _, _ => None
  end.

Definition step (s : st) (t : tid) (l : label) : option st :=
  match t with
  | TCtl => ctl_step s l
  | TBg i => if i <? n then bg_step s i l else None
  | TPool j => if j <? n then pool_step s j l else None
  | TClient => client_step s l
  | TWeb => web_step s l
  end.

(* run: None as soon as a label is not accepted *)
Fixpoint run (s : st) (tr : list (tid * label)) : option st :=
  match tr with
  | [] => Some s
  | (t, l) :: r => match step s t l with Some s' => run s' r | None => None end
  end.

(* index of the first label that is not accepted (for reports) *)
Fixpoint first_reject (s : st) (tr : list (tid * label)) (k : nat) : option nat :=
  match tr with
  | [] => None
  | (t, l) :: r => match step s t l with Some s' => first_reject s' r (S k) | None => Some k end
  end.

End M.
