(* M7 - the synchronisation protocol of pamiq_core/torch/model.py as an ACCEPTOR of observed events.

   Two module objects (ids 0 and 1) are referenced by the training side ([tref]: TorchTrainingModel.model)
   and by the inference side ([iref]: TorchInferenceModel._model); one re-entrant lock guards the inference
   reference.  The inference thread runs sections - infer() or unwrap() - which take the lock, read the
   parameters of a module one by one and release it.  The training thread updates the parameters of its
   module in place at any time (any values: the model quantifies over every parameter content) and runs
   sync_impl: eval(); stash the grads and clear them; swap the references (the inference reference under
   the lock); copy the state parameter by parameter from the new inference module into the new training
   module; restore the grads; train().

   [orig = true] models unwrap() as pinned: the module reference is read when unwrap() is CALLED, before
   the lock is taken (defect D9).  Everything the two threads do is an event of the trace, so the real code
   is compared with this model by trace inclusion, and the theorems speak about every accepted trace, i.e.
   every interleaving at the granularity of single parameter reads and writes. *)
From Coq Require Import ZArith List Bool Arith.
Import ListNotations.

Inductive who := WInf | WTrain.

Inductive lab :=
| LSecB (unwrap : bool)                 (* the inference thread begins infer() / "with unwrap() as m" *)
| LAcq | LRel                           (* lock operations, by either thread *)
| LRead (m i : nat) (v : Z)             (* inference reads parameter i of module m *)
| LSecE
| LWrite (m i : nat) (v : Z)            (* a training step updates parameter i of module m in place *)
| LMode (m : nat) (training : bool)     (* eval() / train() *)
| LGrad (m i : nat) (g : option Z)      (* p.grad = g *)
| LCopy (m i : nat) (v : Z).            (* load_state_dict: parameter i of module m := v *)

Inductive isec :=
| INone
| IWant (chosen : option nat)           (* section begun; the module is already chosen (pinned unwrap) or not *)
| IIn (m : nat)                         (* holds the lock, reads module m *)
| IOut.                                 (* released, section not yet closed *)

Inductive tph :=
| TFree
| TStash (k : nat)                      (* eval() done; grads 0..k-1 stashed and cleared *)
| THold                                 (* holds the lock: the references are being swapped *)
| TCopy (k : nat)                       (* parameters 0..k-1 copied *)
| TRestore (k : nat).                   (* grads 0..k-1 restored *)

Record st := {
  pv : nat -> nat -> Z;                 (* module -> parameter index -> value *)
  gv : nat -> nat -> option Z;          (* grads *)
  md : nat -> bool;                     (* training mode *)
  tref : nat; iref : nat;
  lk : option who;
  isc : isec; tp : tph;
  stash : nat -> option Z
}.

Definition upd2 {A} (f : nat -> nat -> A) (m i : nat) (x : A) : nat -> nat -> A :=
  fun m' i' => if Nat.eqb m' m && Nat.eqb i' i then x else f m' i'.
Definition upd1 {A} (f : nat -> A) (i : nat) (x : A) : nat -> A := fun i' => if Nat.eqb i' i then x else f i'.

Definition oz_eqb (a b : option Z) : bool :=
  match a, b with Some x, Some y => Z.eqb x y | None, None => true | _, _ => false end.

Section M7.
Variable n : nat.            (* number of parameters of the module *)
Variable orig : bool.

Definition init (v0 : nat -> Z) : st :=
  {| pv := fun _ i => v0 i; gv := fun _ _ => None; md := fun _ => true; tref := 0; iref := 1;
     lk := None; isc := INone; tp := TFree; stash := fun _ => None |}.

Definition set_i (s : st) (x : isec) (l : option who) : st :=
  {| pv := pv s; gv := gv s; md := md s; tref := tref s; iref := iref s; lk := l; isc := x; tp := tp s; stash := stash s |}.
Definition set_t (s : st) (x : tph) : st :=
  {| pv := pv s; gv := gv s; md := md s; tref := tref s; iref := iref s; lk := lk s; isc := isc s; tp := x; stash := stash s |}.

Definition istep (s : st) (l : lab) : option st :=
  match isc s, l with
  | INone, LSecB uw => Some (set_i s (IWant (if orig && uw then Some (iref s) else None)) (lk s))
  | IWant ch, LAcq =>
      match lk s with
      | None => Some (set_i s (IIn (match ch with Some m => m | None => iref s end)) (Some WInf))
      | Some _ => None
      end
  | IIn m, LRead m' i v =>
      if Nat.eqb m m' && (i <? n) && Z.eqb v (pv s m i) then Some s else None
  (* inside "with unwrap(inference_mode=False)": the inference thread may back-propagate through the module it holds *)
  | IIn m, LGrad m' i g =>
      if Nat.eqb m m' && (i <? n) then
        Some {| pv := pv s; gv := upd2 (gv s) m i g; md := md s; tref := tref s; iref := iref s; lk := lk s; isc := isc s; tp := tp s; stash := stash s |}
      else None
  | IIn m, LRel => Some (set_i s IOut None)
  | IOut, LSecE => Some (set_i s INone (lk s))
  | _, _ => None
  end.

Definition tstep (s : st) (l : lab) : option st :=
  match tp s, l with
  (* a training step: any in-place update of the training module, any grads *)
  | TFree, LWrite m i v =>
      if Nat.eqb m (tref s) && (i <? n) then
        Some {| pv := upd2 (pv s) m i v; gv := gv s; md := md s; tref := tref s; iref := iref s; lk := lk s; isc := isc s; tp := TFree; stash := stash s |}
      else None
  | TFree, LGrad m i g =>
      if Nat.eqb m (tref s) && (i <? n) then
        Some {| pv := pv s; gv := upd2 (gv s) m i g; md := md s; tref := tref s; iref := iref s; lk := lk s; isc := isc s; tp := TFree; stash := stash s |}
      else None
  (* sync_impl *)
  | TFree, LMode m false =>
      if Nat.eqb m (tref s) then
        Some {| pv := pv s; gv := gv s; md := upd1 (md s) m false; tref := tref s; iref := iref s; lk := lk s; isc := isc s;
                tp := TStash 0; stash := stash s |}
      else None
  | TStash k, LGrad m i None =>
      if Nat.eqb m (tref s) && Nat.eqb i k && (k <? n) then
        Some {| pv := pv s; gv := upd2 (gv s) m i None; md := md s; tref := tref s; iref := iref s; lk := lk s; isc := isc s;
                tp := TStash (S k); stash := upd1 (stash s) k (gv s m k) |}
      else None
  | TStash k, LAcq =>
      (* the tuple assignment: self.model := old inference module; then the setter takes the lock *)
      if Nat.eqb k n then
        match lk s with
        | None => Some {| pv := pv s; gv := gv s; md := md s; tref := iref s; iref := iref s; lk := Some WTrain; isc := isc s;
                          tp := THold; stash := upd1 (stash s) n (Some (Z.of_nat (tref s))) |}   (* slot n remembers the old training module *)
        | Some _ => None
        end
      else None
  | THold, LRel =>
      match stash s n with
      | Some b => Some {| pv := pv s; gv := gv s; md := md s; tref := tref s; iref := Z.to_nat b; lk := None; isc := isc s;
                          tp := (if Nat.eqb n 0 then TRestore 0 else TCopy 0); stash := stash s |}
      | None => None
      end
  | TCopy k, LCopy m i v =>
      if Nat.eqb m (tref s) && Nat.eqb i k && (k <? n) && Z.eqb v (pv s (iref s) k) then
        Some {| pv := upd2 (pv s) m k v; gv := gv s; md := md s; tref := tref s; iref := iref s; lk := lk s; isc := isc s;
                tp := (if Nat.eqb (S k) n then TRestore 0 else TCopy (S k)); stash := stash s |}
      else None
  | TRestore k, LGrad m i g =>
      if Nat.eqb m (tref s) && Nat.eqb i k && (k <? n) && oz_eqb g (stash s k) then
        Some {| pv := pv s; gv := upd2 (gv s) m k g; md := md s; tref := tref s; iref := iref s; lk := lk s; isc := isc s;
                tp := TRestore (S k); stash := stash s |}
      else None
  | TRestore k, LMode m true =>
      if Nat.eqb m (tref s) && Nat.eqb k n then
        Some {| pv := pv s; gv := gv s; md := upd1 (md s) m true; tref := tref s; iref := iref s; lk := lk s; isc := isc s;
                tp := TFree; stash := stash s |}
      else None
  | _, _ => None
  end.

Definition step (s : st) (w : who) (l : lab) : option st :=
  match w with WInf => istep s l | WTrain => tstep s l end.

Fixpoint run (s : st) (tr : list (who * lab)) : option st :=
  match tr with
  | [] => Some s
  | (w, l) :: r => match step s w l with Some s' => run s' r | None => None end
  end.

Fixpoint first_reject (s : st) (tr : list (who * lab)) (k : nat) : option nat :=
  match tr with
  | [] => None
  | (w, l) :: r => match step s w l with Some s' => first_reject s' r (S k) | None => Some k end
  end.

End M7.
