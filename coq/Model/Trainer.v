(* Model of trainer/base.py (is_trainable, run), threads/training.py on_tick (round-robin
   cursor) over the data path of Model/DataPipe.v.

   One data user (queue size q, a buffer whose len saturates at an optional capacity)
   serves all trainers; each trainer has its own optional condition (min buffer size,
   min new data) and its own previous-training-time marker.  Clock values are inputs:
   the timestamp of each collect, and the time read at a positive decision. *)
From Coq Require Import ZArith List Bool Arith.
From Pamiq Require Import Model.Buffers Model.DataPipe.
Import ListNotations.

Record trainer := {
  cond : option (nat * nat);     (* Some (min_buffer_size, min_new_data_count) | no condition *)
  marker : option Z              (* previous training time; None = -inf *)
}.

Record tsys := {
  pipe_ : pipe;
  nadds : nat;                   (* add() calls received by the buffer so far *)
  bcap : option nat;             (* len(buffer) = min(bcap, nadds) *)
  trs : list trainer;
  cursor : nat
}.

Inductive top :=
| TCollect (x t : Z)
| TTick (t : Z).                 (* one on_tick of the training thread; t = clock value if it is read *)

Inductive tev := ESetup | ETrain | ESync | ETeardown.

Inductive tout :=
| TNone
| TTickOut (offered : option nat) (ran : bool) (evs : list tev).

Definition buf_len (s : tsys) : nat :=
  match bcap s with None => nadds s | Some c => Nat.min c (nadds s) end.

(* count_data_added_since(marker); [incl]: boundary policy for a timestamp equal to the
   marker (the code uses t <= marker => not counted, i.e. incl = false) *)
Definition newer (incl : bool) (m : option Z) (t : Z) : bool :=
  match m with None => true | Some ts => if incl then Z.leb ts t else Z.ltb ts t end.

Definition count_new (incl : bool) (tss : list Z) (m : option Z) : nat :=
  length (take_while (newer incl m) (rev tss)).

Definition run_evs : list tev := [ESetup; ETrain; ESync; ETeardown].

Definition tstep (incl : bool) (s : tsys) (o : top) : tsys * tout :=
  match o with
  | TCollect x t =>
      ({| pipe_ := fst (pstep (pipe_ s) (Collect x t)); nadds := nadds s; bcap := bcap s;
          trs := trs s; cursor := cursor s |}, TNone)
  | TTick t =>
      match nth_error (trs s) (cursor s) with
      | None => (s, TTickOut None false [])            (* no trainers *)
      | Some tr =>
          let next := Nat.modulo (S (cursor s)) (length (trs s)) in
          match cond tr with
          | None =>
              ({| pipe_ := pipe_ s; nadds := nadds s; bcap := bcap s; trs := trs s; cursor := next |},
               TTickOut (Some (cursor s)) true run_evs)
          | Some (ms, mn) =>
              (* is_trainable: update first *)
              let moved := length (cq (pipe_ s)) in
              let p' := fst (handover (pipe_ s)) in
              let s1 := {| pipe_ := p'; nadds := nadds s + moved; bcap := bcap s; trs := trs s; cursor := cursor s |} in
              let ok := Nat.leb ms (buf_len s1) && Nat.leb mn (count_new incl (tss p') (marker tr)) in
              let trs' := if ok then upd_nth (trs s) (cursor s) {| cond := cond tr; marker := Some t |} else trs s in
              ({| pipe_ := p'; nadds := nadds s1; bcap := bcap s; trs := trs'; cursor := next |},
               TTickOut (Some (cursor s)) ok (if ok then run_evs else []))
          end
      end
  end.

Fixpoint trun (incl : bool) (s : tsys) (ops : list top) : list tout :=
  match ops with
  | [] => []
  | o :: r => let (s', y) := tstep incl s o in y :: trun incl s' r
  end.

Definition tinit (q bc : option nat) (conds : list (option (nat * nat))) : tsys :=
  {| pipe_ := pinit q; nadds := 0; bcap := bc;
     trs := map (fun c => {| cond := c; marker := None |}) conds; cursor := 0 |}.
