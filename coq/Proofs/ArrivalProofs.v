(* C13, the counting law: every arrival supports at most one training run.

   For one conditional trainer (min_new_data_count = mn) over the data path of Model/Trainer.v, any queue size and
   buffer capacity, and any history in which the clock does not run backwards (a decision's clock value is not
   smaller than the timestamp of any sample collected before it):   mn * (number of runs) <= number of collected
   samples, at every moment.  A run moves the trainer's marker to the decision's clock value, so nothing that was
   counted for it is counted again. *)
From Coq Require Import ZArith List Bool Arith Lia.
From Pamiq Require Import Model.Buffers Model.DataPipe Model.Trainer.
Import ListNotations.

(* ---- subsequences ---- *)
Inductive subseq {A} : list A -> list A -> Prop :=
| ss_nil : subseq [] []
| ss_skip x l m : subseq l m -> subseq l (x :: m)
| ss_keep x l m : subseq l m -> subseq (x :: l) (x :: m).

Lemma subseq_refl {A} (l : list A) : subseq l l.
Proof. induction l; [constructor|apply ss_keep; assumption]. Qed.
Lemma subseq_nil_l {A} (l : list A) : subseq [] l.
Proof. induction l; [constructor|apply ss_skip; assumption]. Qed.
Lemma subseq_trans {A} : forall (b c : list A), subseq b c -> forall a, subseq a b -> subseq a c.
Proof.
  intros b c H. induction H; intros a Ha.
  - exact Ha.
  - apply ss_skip. apply IHsubseq. exact Ha.
  - inversion Ha; subst; [apply ss_skip; apply IHsubseq; assumption|apply ss_keep; apply IHsubseq; assumption].
Qed.
Lemma subseq_app {A} : forall (a b c d : list A), subseq a b -> subseq c d -> subseq (a ++ c) (b ++ d).
Proof. intros a b c d H. induction H; intros Hc; cbn; [exact Hc|apply ss_skip; auto|apply ss_keep; auto]. Qed.
Lemma subseq_skipn {A} n : forall (l : list A), subseq (skipn n l) l.
Proof. induction n as [|n IH]; intros [|x l]; cbn; try apply subseq_refl. apply ss_skip. apply IH. Qed.
Lemma subseq_lastn {A} n (l : list A) : subseq (lastn n l) l.
Proof. apply subseq_skipn. Qed.
Lemma subseq_lastn_opt {A} q (l : list A) : subseq (lastn_opt q l) l.
Proof. destruct q; [apply subseq_lastn|apply subseq_refl]. Qed.
Lemma subseq_bapp {A} q (l : list A) x : subseq (bapp q l x) (l ++ [x]).
Proof. destruct q; [apply subseq_lastn|apply subseq_refl]. Qed.

Lemma subseq_fold_bapp {A} q : forall (xs l : list A), subseq (fold_left (bapp q) xs l) (l ++ xs).
Proof.
  induction xs as [|x xs IH]; intros l; cbn; [rewrite app_nil_r; apply subseq_refl|].
  eapply subseq_trans; [|apply IH]. replace (l ++ x :: xs) with ((l ++ [x]) ++ xs) by (rewrite <- app_assoc; reflexivity).
  apply subseq_app; [apply subseq_bapp|apply subseq_refl].
Qed.

(* ---- counting timestamps newer than a marker ---- *)
Definition cnt (m : option Z) (l : list Z) : nat := length (filter (newer false m) l).

Lemma cnt_app m a b : cnt m (a ++ b) = cnt m a + cnt m b.
Proof. unfold cnt. rewrite filter_app, app_length. reflexivity. Qed.
Lemma cnt_subseq m : forall a b, subseq a b -> cnt m a <= cnt m b.
Proof. intros a b H. induction H; unfold cnt in *; cbn; try lia; destruct (newer false m x); cbn; lia. Qed.
Lemma take_while_le_filter {A} (f : A -> bool) : forall l, length (take_while f l) <= length (filter f l).
Proof. induction l as [|x l IH]; cbn; [lia|]. destruct (f x); cbn; lia. Qed.
Lemma filter_rev_length {A} (f : A -> bool) (l : list A) : length (filter f (rev l)) = length (filter f l).
Proof. induction l as [|x l IH]; cbn; [reflexivity|]. rewrite filter_app, app_length, IH. cbn. destruct (f x); cbn; lia. Qed.
Lemma count_new_le_cnt m l : count_new false l m <= cnt m l.
Proof. unfold count_new, cnt. rewrite <- (filter_rev_length _ l). apply take_while_le_filter. Qed.

Lemma cnt_none_all l : cnt None l = length l.
Proof. unfold cnt. induction l; cbn; lia. Qed.
Lemma cnt_zero_if_all_le t l : (forall x, In x l -> (x <= t)%Z) -> cnt (Some t) l = 0.
Proof.
  unfold cnt. induction l as [|x l IH]; intros H; [reflexivity|]. cbn.
  destruct (Z.ltb_spec t x) as [L|L]; [specialize (H x (or_introl eq_refl)); lia|apply IH; intros y Hy; apply H; right; exact Hy].
Qed.

(* ---- one trainer with a condition ---- *)
Definition collected (ops : list top) : list Z := flat_map (fun o => match o with TCollect _ t => [t] | _ => [] end) ops.
Definition runs (outs : list tout) : nat := length (filter (fun y => match y with TTickOut _ true _ => true | _ => false end) outs).

(* the clock does not run backwards: a tick's clock value is at least every timestamp collected before it *)
Fixpoint monotone (seen : list Z) (ops : list top) : Prop :=
  match ops with
  | [] => True
  | TCollect _ t :: r => monotone (seen ++ [t]) r
  | TTick t :: r => (forall x, In x seen -> (x <= t)%Z) /\ monotone seen r
  end.

Definition the_marker (s : tsys) : option Z := match trs s with [tr] => marker tr | _ => None end.

(* everything the data path still knows about is a subsequence of what was collected *)
Definition known (s : tsys) : list Z := tss (pipe_ s) ++ map snd (cq (pipe_ s)).

(* one decision of the only trainer *)
Lemma tick_single s t ms mn m :
  trs s = [{| cond := Some (ms, mn); marker := m |}] -> cursor s = 0 ->
  exists (ok : bool) evs nad,
    tstep false s (TTick t) =
      ({| pipe_ := fst (handover (pipe_ s)); nadds := nad; bcap := bcap s;
          trs := [{| cond := Some (ms, mn); marker := if ok then Some t else m |}]; cursor := 0 |},
       TTickOut (Some 0) ok evs) /\
    (ok = true -> mn <= count_new false (tss (fst (handover (pipe_ s)))) m).
Proof.
  intros Ht Hc. unfold tstep. rewrite Ht, Hc. cbn [nth_error cond marker length].
  set (ok := Nat.leb ms _ && Nat.leb mn _).
  exists ok, (if ok then run_evs else []), (nadds s + length (cq (pipe_ s))).
  split.
  - destruct ok; reflexivity.
  - intros E. unfold ok in E. apply andb_true_iff in E as [_ E]. apply Nat.leb_le in E. exact E.
Qed.

Lemma known_after_handover s seen : subseq (known s) seen ->
  subseq (tss (fst (handover (pipe_ s))) ++ map snd (cq (fst (handover (pipe_ s))))) seen.
Proof.
  intros Hk. unfold handover. cbn. rewrite app_nil_r. eapply subseq_trans; [exact Hk|]. unfold known. apply subseq_fold_bapp.
Qed.

Lemma counting_law ms mn : forall ops s seen m,
  trs s = [{| cond := Some (ms, mn); marker := m |}] -> cursor s = 0 ->
  subseq (known s) seen -> monotone seen ops ->
  forall R, mn * R + cnt m seen <= length seen ->
  mn * (R + runs (trun false s ops)) <= length (seen ++ collected ops).
Proof.
  induction ops as [|o ops IH]; intros s seen m Ht Hc Hk Hm R HI.
  - cbn. rewrite app_nil_r, Nat.add_0_r. lia.
  - destruct o as [x t|t].
    + (* a sample is collected *)
      cbn [trun tstep]. cbn [collected flat_map]. cbn [runs filter]. fold (collected ops).
      replace (seen ++ [t] ++ collected ops) with ((seen ++ [t]) ++ collected ops) by (rewrite <- app_assoc; reflexivity).
      match goal with |- context [trun false ?s1 ops] => fold (runs (trun false s1 ops)); apply (IH s1 (seen ++ [t]) m) end.
      * exact Ht.
      * exact Hc.
      * unfold known. cbn [pipe_ pstep fst tss cq].
        assert (E : subseq (map snd (bapp (qsz (pipe_ s)) (cq (pipe_ s)) (x, t))) (map snd (cq (pipe_ s)) ++ [t])).
        { destruct (qsz (pipe_ s)) as [k|]; cbn [bapp].
          - change (map snd (cq (pipe_ s)) ++ [t]) with (map snd (cq (pipe_ s)) ++ map snd [(x, t)]).
            rewrite <- map_app. unfold lastn. rewrite <- skipn_map. apply subseq_skipn.
          - rewrite map_app. apply subseq_refl. }
        eapply subseq_trans; [|apply subseq_app; [apply subseq_refl|exact E]].
        rewrite app_assoc. apply subseq_app; [exact Hk|apply subseq_refl].
      * exact Hm.
      * rewrite cnt_app, app_length. cbn [length].
        assert (C1 : cnt m [t] <= 1) by (unfold cnt; cbn; destruct (newer _ _ _); cbn; lia).
        lia.
    + (* a decision *)
      destruct Hm as [Hle Hm].
      destruct (tick_single s t ms mn m Ht Hc) as (ok & evs & nad & Estep & Hok).
      cbn [trun]. rewrite Estep. cbn [collected flat_map app]. fold (collected ops).
      pose proof (known_after_handover s seen Hk) as Hk'.
      destruct ok.
      * (* it runs: the marker moves to t, and nothing collected so far is newer than t *)
        cbn [runs filter length].
        match goal with |- context [trun false ?s1 ops] => fold (runs (trun false s1 ops));
          replace (R + S (runs (trun false s1 ops))) with (S R + runs (trun false s1 ops)) by lia;
          apply (IH s1 seen (Some t)) end; try reflexivity; try assumption.
        rewrite (cnt_zero_if_all_le t seen Hle).
        specialize (Hok eq_refl).
        assert (C1 : count_new false (tss (fst (handover (pipe_ s)))) m <= cnt m seen).
        { eapply Nat.le_trans; [apply count_new_le_cnt|]. apply cnt_subseq. eapply subseq_trans; [exact Hk'|].
          rewrite <- (app_nil_r (tss _)) at 1. apply subseq_app; [apply subseq_refl|apply subseq_nil_l]. }
        lia.
      * cbn [runs filter].
        match goal with |- context [trun false ?s1 ops] => fold (runs (trun false s1 ops)); apply (IH s1 seen m) end;
          try reflexivity; assumption.
Qed.

Theorem each_arrival_counts_once q bc ms mn ops : monotone [] ops ->
  mn * runs (trun false (tinit q bc [Some (ms, mn)]) ops) <= length (collected ops).
Proof.
  intros Hm. pose proof (counting_law ms mn ops (tinit q bc [Some (ms, mn)]) [] None eq_refl eq_refl) as H.
  cbn in H. apply (H (ss_nil) Hm 0). lia.
Qed.
