(* C08, bookkeeping part: the statistics of the inference thread never raise, for any clock readings (any
   step durations), any logging interval (zero, shorter than two steps, ...) and any boundary policy. *)
From Coq Require Import ZArith List Bool Lia.
From Pamiq Require Import Model.Sched Model.Bookkeep Check.C08.
Import ListNotations.
Open Scope Z_scope.

Lemma log_stats_total n : log_stats false n <> BRaise.
Proof. destruct n as [|[|n]]; discriminate. Qed.

Lemma inf_tick_no_raise strict s c : snd (fst (inf_tick false strict s c)) <> BRaise.
Proof.
  unfold inf_tick.
  destruct (started s); [destruct (read c) as [v c']|]; destruct (read _) as [v2 c2];
    match goal with |- context [log_stats false ?n] => pose proof (log_stats_total n) as L; destruct (log_stats false n) end;
    try congruence; destruct (t_update_raise _ _ _ _) as [[sc' es] c3]; destruct (fired es); cbn; discriminate.
Qed.

Theorem never_raises strict : forall k s c, no_raise (inf_run false strict k s c) = true.
Proof.
  induction k as [|k IH]; intros s c; [reflexivity|].
  cbn [inf_run]. pose proof (inf_tick_no_raise strict s c) as N.
  destruct (inf_tick false strict s c) as [[[s' es] o] c']. cbn in N.
  destruct o; try congruence; cbn; apply IH.
Qed.

Lemma inf_run_length strict : forall k s c, length (inf_run false strict k s c) = k.
Proof.
  induction k as [|k IH]; intros s c; [reflexivity|].
  cbn [inf_run]. pose proof (inf_tick_no_raise strict s c) as N.
  destruct (inf_tick false strict s c) as [[[s' es] o] c']. cbn in N.
  destruct o; try congruence; cbn; rewrite IH; reflexivity.
Qed.

(* conservation: every collected duration is logged exactly once or still pending *)
Definition ticks_of (s : inf) : nat := if started s then 1%nat else 0%nat.

Lemma inf_tick_counts strict s c :
  let '(s', es, o, c') := inf_tick false strict s c in
  started s' = true /\
  (match o with BLogged n => n | _ => 0 end + nt s' = nt s + ticks_of s)%nat.
Proof.
  unfold inf_tick, ticks_of.
  destruct (started s); [destruct (read c) as [v c']|];
    destruct (read _) as [v2 c2];
    destruct (t_update_raise _ _ _ _) as [[sc' es] c3]; destruct (fired es).
  all: try (destruct (nt s) as [|[|m]]; cbn; split; auto; lia).
  all: cbn; split; auto; lia.
Qed.

Lemma inf_run_sum strict : forall k s c,
  (logged_sum (inf_run false strict k s c) <= nt s + (if started s then k else Nat.pred k))%nat.
Proof.
  induction k as [|k IH]; intros s c; [cbn; lia|].
  cbn [inf_run]. pose proof (inf_tick_no_raise strict s c) as N. pose proof (inf_tick_counts strict s c) as C.
  destruct (inf_tick false strict s c) as [[[s' es] o] c']. cbn in N. destruct C as (St & Cn).
  specialize (IH s' c'). rewrite St in IH. unfold ticks_of in Cn.
  destruct o; try congruence; cbn [logged_sum]; destruct (started s); cbn [Nat.pred]; lia.
Qed.

Theorem model_ok i : book_ok i (inf_trace false (b_strict i) (b_ivl i) (b_reads i) (b_ticks i)) = true.
Proof.
  unfold book_ok, inf_trace, inf_init, t_init. destruct (read _) as [v c1]. cbn [snd].
  rewrite never_raises, inf_run_length, Nat.eqb_refl. cbn [andb].
  apply Nat.leb_le. pose proof (inf_run_sum (b_strict i) (b_ticks i) {| nt := 0; started := false; sc := {| ivl := b_ivl i; prev := v; cbs := [stats_cb] |} |} c1) as H.
  cbn in H. exact H.
Qed.

(* the tree as pinned (D6): a logging interval that contains exactly one step kills the inference thread *)
Definition d6_reads : list Z := [0; 1; 2; 3; 10].
Theorem orig_refuted : no_raise (snd (inf_trace true true 5 d6_reads 2)) = false.
Proof. vm_compute. reflexivity. Qed.
(* ... and the same input is harmless now, and logs that one step *)
Example fixed_on_d6 : map snd (snd (inf_trace false true 5 d6_reads 2)) = [BQuiet; BLogged 1].
Proof. vm_compute. reflexivity. Qed.
