From Coq Require Import ZArith QArith List Bool Arith Lia.
From Pamiq Require Import Model.Buffers Check.C11.
Import ListNotations.
Local Close Scope Q_scope.

(* ---------- list facts ---------- *)
Lemma zlist_eqb_refl l : zlist_eqb l l = true.
Proof. unfold zlist_eqb. destruct (list_eq_dec Z.eq_dec l l); congruence. Qed.
Lemma zlist_eqb_eq a b : zlist_eqb a b = true -> a = b.
Proof. unfold zlist_eqb. destruct (list_eq_dec Z.eq_dec a b); congruence. Qed.
Lemma nat_list_eqb_eq a b : nat_list_eqb a b = true -> a = b.
Proof. unfold nat_list_eqb. destruct (list_eq_dec Nat.eq_dec a b); congruence. Qed.
Lemma nat_list_eqb_refl a : nat_list_eqb a a = true.
Proof. unfold nat_list_eqb. destruct (list_eq_dec Nat.eq_dec a a); congruence. Qed.

Lemma view_eqb_refl v : view_eqb v v = true.
Proof. induction v as [|[k l] v IH]; simpl; [reflexivity|]. now rewrite Nat.eqb_refl, zlist_eqb_refl, IH. Qed.

Lemma lastn_length {A} n (l : list A) : length (lastn n l) <= n.
Proof. unfold lastn. rewrite skipn_length. lia. Qed.
Lemma lastn_all {A} n (l : list A) : length l <= n -> lastn n l = l.
Proof. unfold lastn. intros H. replace (length l - n) with 0 by lia. reflexivity. Qed.
Lemma upd_nth_length {A} (l : list A) i x : length (upd_nth l i x) = length l.
Proof. revert i; induction l as [|y r IH]; intros [|i]; simpl; auto. Qed.

Lemma subset_b_spec a b : (forall x, In x a -> In x b) -> subset_b a b = true.
Proof.
  intros H. unfold subset_b. apply forallb_forall. intros x Hx. apply existsb_exists.
  exists x. split; [auto|apply Z.eqb_refl].
Qed.
Lemma in_skipn {A} n (l : list A) x : In x (skipn n l) -> In x l.
Proof. intros H. rewrite <- (firstn_skipn n l). apply in_or_app. now right. Qed.
Lemma in_firstn {A} n (l : list A) x : In x (firstn n l) -> In x l.
Proof. intros H. rewrite <- (firstn_skipn n l). apply in_or_app. now left. Qed.

(* ---------- decoding a rendered view ---------- *)
Lemma decode_render K ids : K <> [] -> decode K (render K ids) = Some ids.
Proof.
  destruct K as [|k0 K]; [congruence|]. intros _. unfold decode. cbn [render map].
  assert (E : map (fun x => ((x - Z.of_nat k0) / 16)%Z) (map (fun id => (id * 16 + Z.of_nat k0)%Z) ids) = ids).
  { rewrite map_map. rewrite <- (map_id ids) at 2. apply map_ext. intros a.
    replace (a * 16 + Z.of_nat k0 - Z.of_nat k0)%Z with (a * 16)%Z by lia. apply Z.div_mul. lia. }
  rewrite E.
  change ((k0, map (fun id => (id * 16 + Z.of_nat k0)%Z) ids) :: map (fun k => (k, map (fun id => (id * 16 + Z.of_nat k)%Z) ids)) K)
    with (render (k0 :: K) ids).
  now rewrite view_eqb_refl.
Qed.

(* ---------- validity of the oracle arguments (what Python's random module guarantees) ---------- *)
Fixpoint ops_ok (c : nat) (ops : list bop) : Prop :=
  match ops with
  | [] => True
  | BAdd _ _ r idx :: rest => idx < c /\ (0 <= r)%Q /\ ops_ok c rest     (* randint(0, c-1), random() >= 0 *)
  | BSaveLoad c2 :: rest => ops_ok c2 rest
  | _ :: rest => ops_ok c rest
  end.

Lemma existsb_seq_hit (f : nat -> bool) c i : i < c -> f i = true -> existsb f (seq 0 c) = true.
Proof. intros Hi Hf. apply existsb_exists. exists i. split; [apply in_seq; lia|assumption]. Qed.

(* ---------- every run of the model obeys the contract ---------- *)
Lemma spec_run_model K : K <> [] -> forall ops b,
  keys b = K -> length (items b) <= cap b -> ops_ok (cap b) ops ->
  spec_run (kind b) (cap b) (prob b) K (items b) ops
    (map (fun x => (to_rout K (fst x), render K (snd x))) (run false b ops)) = true.
Proof.
  intros HK. induction ops as [|o ops IH]; intros b Hkeys Hlen Hok; [reflexivity|].
  cbn [run]. destruct (step false b o) as [b' out] eqn:Hstep. cbn [map fst snd spec_run].
  rewrite decode_render by assumption.
  destruct o as [id ks r idx| | | |c2]; cbn [step] in Hstep.
  - (* add *)
    destruct Hok as (Hidx & Hr & Hok).
    destruct (nat_list_eqb ks (keys b)) eqn:Hks; cbn [negb] in Hstep;
      pose proof Hks as Hks'; rewrite Hkeys in Hks'.
    2:{ inversion Hstep; subst b' out. cbn [to_rout spec_step]. rewrite Hks'. cbn [negb andb].
        rewrite zlist_eqb_refl. apply Nat.leb_le in Hlen as Hl. rewrite Hl. cbn [andb].
        apply IH; assumption. }
    destruct (kind b) eqn:Hkind.
    + inversion Hstep; subst b' out. cbn [to_rout spec_step items with_items cap kind prob keys].
      rewrite Hks'. cbn [negb andb bounds_ok]. rewrite zlist_eqb_refl.
      pose proof (lastn_length (cap b) (items b ++ [id])) as Hl. apply Nat.leb_le in Hl. rewrite Hl. cbn [andb].
      specialize (IH (with_items b (lastn (cap b) (items b ++ [id])))).
      cbn [with_items kind cap prob keys items] in IH. rewrite Hkind in IH.
      apply IH; [assumption| apply lastn_length | assumption].
    + destruct (Nat.leb (cap b) (length (items b))) eqn:Hfull.
      * apply Nat.leb_le in Hfull.
        assert (Hnlt : Nat.ltb (length (items b)) (cap b) = false) by (apply Nat.ltb_ge; lia).
        destruct (skip_replace false (prob b) r) eqn:Hskip; inversion Hstep; subst b' out;
          cbn [to_rout spec_step items with_items cap kind prob keys]; rewrite Hks'; cbn [negb andb bounds_ok];
          rewrite Hnlt.
        -- (* kept *)
           cbn [skip_replace] in Hskip. rewrite zlist_eqb_refl. cbn [orb andb].
           unfold Qlt_bool. rewrite Hskip. cbn [negb].
           assert (Hl : Nat.leb (length (items b)) (cap b) = true) by (apply Nat.leb_le; lia). rewrite Hl. cbn [andb].
           destruct (Qle_bool r (prob b)); cbn [negb]; destruct (Qeq_bool (prob b) 0); cbn [andb];
             rewrite <- Hkind; apply IH; assumption.
        -- (* replaced at idx *)
           cbn [skip_replace] in Hskip.
           assert (Hrep : existsb (fun i => zlist_eqb (upd_nth (items b) idx id) (upd_nth (items b) i id)) (seq 0 (cap b)) = true).
           { apply existsb_seq_hit with idx; [assumption|apply zlist_eqb_refl]. }
           rewrite Hrep, Z.eqb_refl, Z.eqb_refl. rewrite orb_true_r. cbn [andb].
           assert (Hrp : Qle_bool r (prob b) = true).
           { apply Qle_bool_iff. apply Qlt_le_weak. apply Qnot_le_lt. intros Hc.
             apply Qle_bool_iff in Hc. congruence. }
           unfold Qlt_bool. rewrite Hskip, Hrp. cbn [negb].
           assert (Hp0 : Qeq_bool (prob b) 0 = false).
           { destruct (Qeq_bool (prob b) 0) eqn:E; [|reflexivity]. apply Qeq_bool_iff in E.
             assert (Qle_bool (prob b) r = true) by (apply Qle_bool_iff; rewrite E; assumption). congruence. }
           rewrite Hp0. rewrite upd_nth_length.
           assert (Hl : Nat.leb (length (items b)) (cap b) = true) by (apply Nat.leb_le; lia). rewrite Hl.
           cbn [andb].
           specialize (IH (with_items b (upd_nth (items b) idx id))).
           cbn [with_items kind cap prob keys items] in IH. rewrite Hkind in IH.
           apply IH; [assumption | rewrite upd_nth_length; assumption | assumption].
      * apply Nat.leb_gt in Hfull.
        assert (Hlt : Nat.ltb (length (items b)) (cap b) = true) by (apply Nat.ltb_lt; lia).
        inversion Hstep; subst b' out. cbn [to_rout spec_step items with_items cap kind prob keys].
        rewrite Hks'. cbn [negb andb bounds_ok]. rewrite Hlt, zlist_eqb_refl.
        assert (Hl : Nat.leb (length (items b ++ [id])) (cap b) = true) by (apply Nat.leb_le; rewrite app_length; simpl; lia).
        rewrite Hl. cbn [andb].
        specialize (IH (with_items b (items b ++ [id]))).
        cbn [with_items kind cap prob keys items] in IH. rewrite Hkind in IH.
        apply IH; [assumption | rewrite app_length; simpl; lia | assumption].
  - inversion Hstep; subst b' out. cbn [to_rout spec_step]. rewrite decode_render by assumption.
    rewrite zlist_eqb_refl. apply Nat.leb_le in Hlen as Hl. rewrite Hl. cbn [andb]. apply IH; assumption.
  - inversion Hstep; subst b' out. cbn [to_rout spec_step]. rewrite Nat.eqb_refl, zlist_eqb_refl.
    apply Nat.leb_le in Hlen as Hl. rewrite Hl. cbn [andb]. apply IH; assumption.
  - inversion Hstep; subst b' out. cbn [to_rout spec_step]. rewrite decode_render by assumption.
    rewrite zlist_eqb_refl. apply Nat.leb_le in Hlen as Hl. rewrite Hl. cbn [andb]. apply IH; assumption.
  - (* save / load into capacity c2 *)
    inversion Hstep; subst b' out. cbn [to_rout spec_step items cap kind prob keys].
    set (it := match kind b with KSeq => lastn c2 (items b) | KRR => firstn c2 (items b) end).
    assert (Hl2 : length it <= c2).
    { unfold it. destruct (kind b); [apply lastn_length | rewrite firstn_length; lia]. }
    apply Nat.leb_le in Hl2 as Hl2b. rewrite Hl2b. cbn [andb].
    assert (Hspec : (if Nat.leb (length (items b)) c2 then zlist_eqb it (items b)
                     else subset_b it (items b)) = true).
    { destruct (Nat.leb (length (items b)) c2) eqn:Hc.
      - apply Nat.leb_le in Hc. unfold it. destruct (kind b);
          [rewrite lastn_all by assumption | rewrite firstn_all2 by assumption]; apply zlist_eqb_refl.
      - apply subset_b_spec. intros x. unfold it, lastn.
        destruct (kind b); [apply in_skipn | apply in_firstn]. }
    rewrite Hspec. cbn [andb].
    specialize (IH {| kind := kind b; cap := c2; prob := prob b; keys := keys b; items := it |}).
    cbn [kind cap prob keys items] in IH. apply IH; assumption.
Qed.

(* ---------- constructors: the whole documented range is accepted ---------- *)
Lemma rr_ctor_total c p : (0 <= p)%Q -> (p <= 1)%Q -> 1 <= c ->
  exists q, rr_ctor false c p = CtorOk q /\ (Z.of_nat c <= q)%Z.
Proof.
  intros H0 H1 Hc. unfold rr_ctor.
  assert (E0 : Qle_bool 0 p = true) by (apply Qle_bool_iff; assumption).
  assert (E1 : Qle_bool p 1 = true) by (apply Qle_bool_iff; assumption).
  rewrite E0, E1. cbn [andb negb].
  destruct (Qeq_bool p 0) eqn:Ez; [eexists; split; [reflexivity|lia]|].
  eexists; split; [reflexivity|].
  assert (Hp : (0 < p)%Q).
  { apply Qle_lteq in H0 as [H|H]; [assumption|]. symmetry in H. apply Qeq_bool_iff in H. congruence. }
  unfold qfloor. destruct p as [pn pd]. unfold Qlt, Qle in *. simpl in *.
  assert (0 < pn)%Z by lia. destruct pn as [|pn|pn]; try lia.
  unfold Qdiv, Qinv, Qmult, inject_Z. simpl.
  apply Z.div_le_lower_bound; [lia|]. nia.
Qed.

Definition valid (i : input) : Prop :=
  i_keys i <> [] /\ 1 <= i_cap i /\ ops_ok (i_cap i) (i_ops i) /\
  True.

Theorem model_ok i : valid i -> oracle i (model_observed false i) = true.
Proof.
  intros (HK & Hc & Hops & _). unfold oracle, model_observed, model_ctor.
  destruct (i_kind i) eqn:Hk.
  - cbn [seq_ctor o_ctor o_obs]. rewrite Z.eqb_refl. cbn [andb].
    unfold model_obs. rewrite Hk.
    pose proof (spec_run_model (i_keys i) HK (i_ops i) (empty KSeq (i_cap i) (i_prob i) (i_keys i))) as H.
    cbn [empty kind cap prob keys items length] in H. apply H; [reflexivity|lia|assumption].
  - unfold in_range. destruct (Qle_bool 0 (i_prob i) && Qle_bool (i_prob i) 1) eqn:Hr.
    + apply andb_true_iff in Hr as [H0 H1]. apply Qle_bool_iff in H0, H1.
      destruct (rr_ctor_total (i_cap i) (i_prob i) H0 H1 Hc) as (q & Hq & Hle).
      rewrite Hq. cbn [o_ctor o_obs]. apply Z.leb_le in Hle. rewrite Hle. cbn [andb].
      unfold model_obs. rewrite Hk.
      pose proof (spec_run_model (i_keys i) HK (i_ops i) (empty KRR (i_cap i) (i_prob i) (i_keys i))) as H.
      cbn [empty kind cap prob keys items length] in H. apply H; [reflexivity|lia|assumption].
    + unfold rr_ctor. rewrite Hr. cbn [negb o_ctor]. reflexivity.
Qed.


(* ---------- direct statements ---------- *)
Fixpoint final (orig : bool) (b : buf) (ops : list bop) : buf :=
  match ops with [] => b | o :: r => final orig (fst (step orig b o)) r end.

Lemma lastn_skipn_app {A} c k (l m : list A) : k <= length l - c ->
  lastn c (skipn k l ++ m) = lastn c (l ++ m).
Proof.
  intros Hk. unfold lastn. rewrite !app_length, skipn_length.
  replace (l ++ m) with (firstn k l ++ (skipn k l ++ m)) by (rewrite app_assoc, firstn_skipn; reflexivity).
  rewrite (skipn_app (length l + length m - c) (firstn k l)).
  rewrite firstn_length. replace (Nat.min k (length l)) with k by lia.
  rewrite (skipn_all2 (firstn k l)) by (rewrite firstn_length; lia). cbn [app].
  f_equal. lia.
Qed.

Lemma lastn_lastn_app {A} c (l m : list A) : lastn c (lastn c l ++ m) = lastn c (l ++ m).
Proof. unfold lastn at 2. apply lastn_skipn_app. lia. Qed.

Definition adds (K : list nat) (ids : list Z) : list bop := map (fun id => BAdd id K 0 0) ids.

(* SequentialBuffer: always exactly the most recent max_size samples, in insertion order *)
Theorem seq_spec K c p ids :
  items (final false (empty KSeq c p K) (adds K ids)) = lastn c ids.
Proof.
  assert (G : forall ids l, length l <= c ->
              items (final false {| kind := KSeq; cap := c; prob := p; keys := K; items := l |} (adds K ids)) = lastn c (l ++ ids)).
  { clear ids. induction ids as [|x ids IH]; intros l Hl; cbn [adds map final].
    - rewrite app_nil_r. cbn [items]. symmetry. apply lastn_all. assumption.
    - cbn [step keys kind]. rewrite nat_list_eqb_refl. cbn [negb fst with_items kind cap prob keys items].
      fold (adds K ids). unfold with_items. cbn [kind cap prob keys items].
      rewrite IH by apply lastn_length.
      rewrite lastn_lastn_app. now rewrite <- app_assoc. }
  unfold empty. rewrite G by (simpl; lia). reflexivity.
Qed.

Theorem seq_len K c p ids :
  length (items (final false (empty KSeq c p K) (adds K ids))) = Nat.min c (length ids).
Proof. rewrite seq_spec. unfold lastn. rewrite skipn_length. lia. Qed.

(* RandomReplacementBuffer, one add on a full buffer *)
Definition full (b : buf) : Prop := cap b <= length (items b).

Theorem rr_p1 b id r idx : kind b = KRR -> (prob b == 1)%Q -> (r < 1)%Q -> full b ->
  items (fst (step false b (BAdd id (keys b) r idx))) = upd_nth (items b) idx id.
Proof.
  intros Hk Hp Hr Hf. cbn [step]. rewrite nat_list_eqb_refl, Hk. cbn [negb].
  apply Nat.leb_le in Hf. rewrite Hf. cbn [skip_replace].
  assert (E : Qle_bool (prob b) r = false).
  { destruct (Qle_bool (prob b) r) eqn:E; [|reflexivity]. apply Qle_bool_iff in E. rewrite Hp in E.
    exfalso. apply (Qlt_not_le _ _ Hr E). }
  rewrite E. reflexivity.
Qed.

Theorem rr_p0 b id r idx : kind b = KRR -> (prob b == 0)%Q -> (0 <= r)%Q -> full b ->
  items (fst (step false b (BAdd id (keys b) r idx))) = items b.
Proof.
  intros Hk Hp Hr Hf. cbn [step]. rewrite nat_list_eqb_refl, Hk. cbn [negb].
  apply Nat.leb_le in Hf. rewrite Hf. cbn [skip_replace].
  assert (E : Qle_bool (prob b) r = true) by (apply Qle_bool_iff; rewrite Hp; assumption).
  rewrite E. reflexivity.
Qed.

Theorem rr_fill b id ks r idx : kind b = KRR -> ks = keys b -> length (items b) < cap b ->
  items (fst (step false b (BAdd id ks r idx))) = items b ++ [id].
Proof.
  intros Hk -> Hl. cbn [step]. rewrite nat_list_eqb_refl, Hk. cbn [negb].
  assert (E : Nat.leb (cap b) (length (items b)) = false) by (apply Nat.leb_gt; assumption).
  rewrite E. reflexivity.
Qed.

(* a sample with the wrong key set is rejected and nothing changes *)
Theorem reject_wrong_keys orig b id ks r idx : ks <> keys b ->
  step orig b (BAdd id ks r idx) = (b, OAdd true false None).
Proof.
  intros H. cbn [step]. destruct (nat_list_eqb ks (keys b)) eqn:E; [apply nat_list_eqb_eq in E; congruence|reflexivity].
Qed.

(* only ever contains samples that were added *)
Fixpoint added (ops : list bop) : list Z :=
  match ops with [] => [] | BAdd id _ _ _ :: r => id :: added r | _ :: r => added r end.

Lemma in_upd_nth {A} (l : list A) i x y : In y (upd_nth l i x) -> y = x \/ In y l.
Proof.
  revert i; induction l as [|z l IH]; intros [|i]; simpl; auto.
  - intros [->|H]; auto.
  - intros [->|H]; auto. destruct (IH _ H); auto.
Qed.

Theorem only_added orig : forall ops b x, In x (items (final orig b ops)) -> In x (items b) \/ In x (added ops).
Proof.
  induction ops as [|o ops IH]; intros b x Hx; cbn [final] in Hx; [left; exact Hx|].
  destruct (IH _ _ Hx) as [H|H]; [|right; destruct o; simpl; auto].
  destruct o as [id ks r idx| | | |c2]; cbn [step fst] in H; auto.
  - destruct (negb (nat_list_eqb ks (keys b))); cbn [fst] in H; [auto|].
    destruct (kind b).
    + cbn [fst with_items items] in H. unfold lastn in H. apply in_skipn in H. apply in_app_or in H as [H|[<-|[]]]; [auto|right; simpl; auto].
    + destruct (Nat.leb (cap b) (length (items b))).
      * destruct (skip_replace orig (prob b) r); cbn [fst with_items items] in H; [auto|].
        apply in_upd_nth in H as [->|H]; [right; simpl; auto|auto].
      * cbn [fst with_items items] in H. apply in_app_or in H as [H|[<-|[]]]; [auto|right; simpl; auto].
  - cbn [items] in H. destruct (kind b); [unfold lastn in H; apply in_skipn in H | apply in_firstn in H]; auto.
Qed.

(* ---------- the pinned tree (defects D7a, D7b) ---------- *)
Definition d7_input : input :=
  {| i_kind := KRR; i_cap := 2; i_prob := 0; i_keys := [0];
     i_ops := [BAdd 1 [0] 0 0; BAdd 2 [0] 0 0; BAdd 3 [0] 0 1; BGet]; i_qexact := true |}.

Lemma d7_valid : valid d7_input.
Proof. unfold valid, d7_input; simpl. repeat split; try lia; try discriminate; unfold Qle; simpl; lia. Qed.

Lemma orig_ctor_refuted : rr_ctor true 2 0 = CtorZeroDivision /\ oracle d7_input (model_observed true d7_input) = false.
Proof. split; vm_compute; reflexivity. Qed.

(* the comparison [random() > p] replaces a slot on the draw 0.0 although p = 0.0 *)
Lemma orig_p0_refuted :
  let b := {| kind := KRR; cap := 2; prob := 0; keys := [0]; items := [1; 2]%Z |} in
  items (fst (step true b (BAdd 3 [0] 0 1))) <> items b.
Proof. vm_compute. congruence. Qed.

(* non-vacuity: a valid run that fills, replaces and skips *)
Definition nv_input : input :=
  {| i_kind := KRR; i_cap := 2; i_prob := 1 # 2; i_keys := [0; 3];
     i_ops := [BAdd 1 [0; 3] 0 0; BAdd 2 [0; 3] 0 0; BAdd 3 [0; 3] (1 # 4) 1; BAdd 4 [0; 3] (3 # 4) 0; BAdd 5 [3] 0 0; BGet]; i_qexact := true |}.
Lemma nv_valid : valid nv_input.
Proof. unfold valid, nv_input; simpl. repeat split; try lia; try discriminate; unfold Qle; simpl; lia. Qed.
Lemma nv_run : map snd (run false (empty KRR 2 (1 # 2) [0; 3]) (i_ops nv_input)) =
               [[1]; [1; 2]; [1; 3]; [1; 3]; [1; 3]; [1; 3]]%Z.
Proof. vm_compute. reflexivity. Qed.
