From Coq Require Import QArith Lqa List Bool.
From Pamiq Require Import Model.Clock.
Import ListNotations.
Open Scope Q_scope.

(* refinement relation between the anchors of the code and the abstract clock, at instant [now] *)
Definition R (off : Q) (c : clk) (now : Q) (x : spec) : Prop :=
  paused c = sp x /\ scale c == sk x /\ 0 < scale c /\ read (now + off) c == v x.

Definition out_eq (a b : out) : Prop :=
  match a, b with
  | OQ p, OQ q => p == q
  | OBool p, OBool q => p = q
  | ONone, ONone => True
  | OErr, OErr => True
  | _, _ => False
  end.

Lemma out_eq_eqb a b : out_eq a b -> out_eqb a b = true.
Proof.
  destruct a, b; simpl; try contradiction; auto.
  - intros H. now apply Qeq_bool_iff.
  - intros ->. apply eqb_reflx.
Qed.

Lemma lt0_spec k : lt0 k = true -> 0 < k.
Proof.
  unfold lt0. intros H. apply negb_true_iff in H. apply Qnot_le_lt. intros Hc.
  apply Qle_bool_iff in Hc. congruence.
Qed.

Lemma init_R off now : R off (init off now) now (sinit off now).
Proof. unfold R, init, sinit, read; simpl. repeat split; try reflexivity; lra. Qed.

Ltac fin :=
  unfold R, read in *; cbn [anc sanc scale paused v sk sp] in *;
  repeat match goal with H : paused _ = _ |- _ => rewrite H in * end;
  repeat split; try assumption; try reflexivity; try congruence; try lra.

Lemma step_refines off c now x o :
  R off c now x ->
  let '(c', now', y) := step false off c now o in
  let (x', y') := sstep x o in
  R off c' now' x' /\ out_eq y y'.
Proof.
  intros (Hp & Hk & Hpos & Hr).
  destruct o as [| |k| | | | | |w|d|d]; cbn [step sstep].
  - (* Read *) split; [fin | exact Hr].
  - split; [fin | exact I].
  - (* SetScale *)
    destruct (lt0 k) eqn:Hlt.
    + apply lt0_spec in Hlt. split; [|exact I]. destruct (paused c) eqn:Hpa; fin.
    + split; [fin | exact I].
  - split; [fin | exact Hk].
  - split; [fin | exact Hp].
  - (* Pause *)
    destruct (paused c) eqn:Hpa; (split; [|exact I]); fin.
  - (* Resume *)
    destruct (paused c) eqn:Hpa; (split; [|exact I]); fin.
  - (* Export, repaired: re-anchors both anchors *)
    split; [|exact Hr]. destruct (paused c) eqn:Hpa; fin.
  - (* Load *)
    split; [|exact I]. destruct (paused c) eqn:Hpa; fin.
  - (* Sleep *)
    rewrite <- Hp. destruct (paused c) eqn:Hpa.
    + split; [fin|simpl; reflexivity].
    + split.
      * unfold R, read in *. rewrite Hpa in *. cbn [v sk sp paused scale anc sanc]. repeat split; try assumption.
        assert (Hne : ~ scale c == 0) by lra.
        transitivity (sanc c + (now + off - anc c) * scale c + d / scale c * scale c); [ring|].
        rewrite Hr. apply Qplus_comp; [reflexivity|]. field. exact Hne.
      * simpl. rewrite Hk. reflexivity.
  - (* Advance *)
    split; [|exact I]. rewrite <- Hp. destruct (paused c) eqn:Hpa.
    + fin.
    + unfold R, read in *. rewrite Hpa in *. cbn [v sk sp paused scale anc sanc]. repeat split; try assumption.
      rewrite <- Hr, <- Hk. ring.
Qed.

(* every history: the outputs of the code's arithmetic are the outputs of the abstract clock *)
Lemma run_refines off : forall ops c now x, R off c now x ->
  outs_eqb (run false off c now ops) (srun x ops) = true.
Proof.
  induction ops as [|o ops IH]; intros c now x HR; cbn [run srun]; [reflexivity|].
  pose proof (step_refines off c now x o HR) as H.
  destruct (step false off c now o) as [[c' now'] y]. destruct (sstep x o) as [x' y'].
  destruct H as [HR' Ho]. cbn [outs_eqb]. rewrite (out_eq_eqb _ _ Ho). cbn [andb]. now apply IH.
Qed.

Theorem refines off now ops :
  outs_eqb (run false off (init off now) now ops) (srun (sinit off now) ops) = true.
Proof. apply run_refines, init_R. Qed.

(* ---------- what the abstract clock guarantees (the wording of the property) ---------- *)
Definition spec_wf (x : spec) : Prop := 0 < sk x.

(* never decreases: no operation other than a state load lowers the value *)
Lemma spec_monotone x o : spec_wf x ->
  match o with Load _ => True | Advance d | Sleep d => 0 <= d -> v x <= v (fst (sstep x o)) | _ => v x <= v (fst (sstep x o)) end.
Proof.
  unfold spec_wf. intros Hk. destruct o; cbn [sstep]; try (cbn [fst v]; lra); auto.
  - destruct (lt0 k); cbn [fst v]; lra.
  - destruct (sp x); cbn [fst v]; lra.
  - intros Hd. destruct (sp x); cbn [fst v]; [lra|nra].
Qed.

Lemma spec_wf_step x o : spec_wf x -> spec_wf (fst (sstep x o)).
Proof.
  unfold spec_wf. destruct o; cbn [sstep]; try (cbn [fst sk]; auto; fail).
  - intros H. destruct (lt0 k) eqn:E; cbn [fst sk]; [now apply lt0_spec|assumption].
  - intros H. destruct (sp x); cbn [fst sk]; assumption.
Qed.

(* stands still while paused *)
Lemma spec_still x o : sp x = true ->
  match o with Resume | Load _ => True | _ => v (fst (sstep x o)) == v x /\ sp (fst (sstep x o)) = true end.
Proof.
  intros Hp. destruct o; cbn [sstep]; rewrite ?Hp; try destruct (lt0 _); cbn [fst v sk sp]; auto;
    split; first [reflexivity | assumption].
Qed.

(* continuous across scale changes, pause, resume; reading and exporting change nothing *)
Lemma spec_continuous x o :
  match o with Load _ | Advance _ | Sleep _ => True | _ => v (fst (sstep x o)) == v x end.
Proof. destruct o; cbn [sstep]; auto; try reflexivity. destruct (lt0 k); reflexivity. Qed.

Lemma spec_read_export_pure x : fst (sstep x Read) = x /\ fst (sstep x Export) = x.
Proof. split; reflexivity. Qed.

(* continues from the loaded value *)
Lemma spec_load_continues x w d : sp x = false ->
  let x1 := fst (sstep x (Load w)) in v (fst (sstep x1 (Advance d))) == w + sk x * d.
Proof. intros Hp. cbn [sstep fst v sk sp]. rewrite Hp. reflexivity. Qed.

(* sleep(d) lasts d/scale real seconds, and returns at once while paused *)
Lemma spec_sleep x d : snd (sstep x (Sleep d)) = OQ (if sp x then 0 else d / sk x).
Proof. cbn [sstep]. destruct (sp x); reflexivity. Qed.

(* ---------- the pinned state_dict (defect D5) ---------- *)
Definition d5_ops : list op := [Advance 1; Export; Advance 1; Read].
Lemma orig_export_refuted :
  outs_eqb (run true 0 (init 0 0) 0 d5_ops) (srun (sinit 0 0) d5_ops) = false.
Proof. vm_compute. reflexivity. Qed.

(* non-vacuity: a history that scales, pauses, loads and sleeps *)
Definition nv_ops : list op :=
  [Advance 2; SetScale 2; Advance 1; Read; Pause; Advance 5; Read; Resume; Export; Advance (1#2); Read; Load 100; Sleep 4; Read; SetScale 0].
Lemma nv_outputs : outs_eqb (srun (sinit 1000 0) nv_ops)
  [ONone; ONone; ONone; OQ 1004; ONone; ONone; OQ 1004; ONone; OQ 1004; ONone; OQ (1005); ONone; OQ 2; OQ 104; OErr] = true.
Proof. vm_compute. reflexivity. Qed.
