From Coq Require Import List Bool Arith Lia.
From Pamiq Require Import Model.Composite Proofs.CompositeProofs Check.C12.
Import ListNotations.

Lemma perm_b_refl l : perm_b l l = true.
Proof.
  unfold perm_b. rewrite Nat.eqb_refl. cbn [andb]. apply forallb_forall. intros x _. apply Nat.eqb_refl.
Qed.
Lemma ip_perm_b_refl l : ip_perm_b l l = true.
Proof.
  unfold ip_perm_b. rewrite Nat.eqb_refl. cbn [andb]. apply forallb_forall. intros x _. apply Nat.eqb_refl.
Qed.

Lemma value_eqb_refl v : value_eqb v v = true.
Proof.
  revert v. fix IH 1. intros [id|w v|kvs|]; cbn [value_eqb]; try apply Nat.eqb_refl; try reflexivity.
  - rewrite Nat.eqb_refl. apply IH.
  - induction kvs as [|[k v] kvs IHk]; [reflexivity|]. rewrite Nat.eqb_refl, IH. exact IHk.
Qed.
Lemma deliv_eqb_refl l : deliv_eqb l l = true.
Proof. induction l as [|[i v] l IH]; simpl; [reflexivity|]. now rewrite Nat.eqb_refl, value_eqb_refl. Qed.

Lemma path_eqb_eq a b : path_eqb a b = true <-> a = b.
Proof. unfold path_eqb. destruct (list_eq_dec Nat.eq_dec a b); split; congruence. Qed.

Lemma paths_distinct_NoDup l : NoDup l -> paths_distinct l = true.
Proof.
  induction 1 as [|p l Hnin Hnd IH]; [reflexivity|]. cbn [paths_distinct]. rewrite IH, andb_true_r.
  apply negb_true_iff. destruct (existsb (path_eqb p) l) eqn:E; [|reflexivity].
  apply existsb_exists in E as (q & Hq & Heq). apply path_eqb_eq in Heq. subst. contradiction.
Qed.

(* the components saved are exactly the components with callbacks *)
Lemma loaded_ids n : forall p, map fst (load_paths n p) = map snd (members n).
Proof.
  induction n as [k id|k id cs IH] using node_ind'; intros p.
  - destruct k; reflexivity.
  - rewrite Forall_forall in IH.
    assert (Hb : map fst (flat_map (fun c => load_paths (snd c) (p ++ [fst c])) cs) = map snd (flat_map (fun c => members (snd c)) cs)).
    { clear -IH. induction cs as [|c cs IHc]; simpl; [reflexivity|]. rewrite !map_app, (IH c) by (now left). f_equal.
      apply IHc. intros x Hx. apply IH. now right. }
    destruct k; cbn [load_paths members map fst snd]; rewrite ?Hb; reflexivity.
Qed.

Definition valid (i : input) : Prop :=
  agents_only (i_agent i) = true /\ no_agents (i_env i) = true /\ names_ok (i_agent i) /\ names_ok (i_env i).

Lemma names_ok_root ag en : names_ok ag -> names_ok en -> names_ok (interaction ag en).
Proof.
  intros Ha He. unfold interaction. simpl. repeat split; try assumption.
  repeat constructor; simpl; intuition discriminate.
Qed.

Theorem model_ok i : valid i -> prop_ok (i, model_observed i) = true.
Proof.
  intros (Hag & Hen & Hna & Hne). unfold prop_ok, oracle, model_observed, root.
  cbn [fst snd o_events o_saved o_loaded o_read_back_own o_no_error o_observation o_delivered].
  rewrite (parents_exist _ [] [[]]) by reflexivity. cbn [andb].
  rewrite value_eqb_refl, deliv_eqb_refl, !andb_true_r.
  rewrite load_path_eq_save_path, ip_perm_b_refl, loaded_ids, perm_b_refl.
  rewrite (paths_distinct_NoDup _ (paths_injective _ [] (names_ok_root _ _ Hna Hne))).
  cbn [andb]. rewrite !andb_true_r.
  unfold all_events. cbn [map all2].
  rewrite !(dispatch_targets _ _ _ Hag Hen), !perm_b_refl. reflexivity.
Qed.

(* non-vacuity: nested agents, a wrapped modular environment with dictionaries *)
Definition nv_input : input :=
  {| i_agent := Node NAgent 1 [(0, Node NAgent 2 [(5, Node NAgent 3 [])]); (1, Node NAgent 4 [])];
     i_env := Node NEnvWrap 0
                [(n_env, Node NModEnv 0
                           [(n_sensor, Node NSensorsDict 0 [(0, Leaf LSensor 10);
                                                           (1, Node NSensorWrap 0 [(n_sensor, Leaf LSensor 11); (n_wrapper, Leaf LWrapObj 20)])]);
                            (n_actuator, Node NActWrap 0 [(n_actuator, Node NActuatorsDict 0 [(7, Leaf LActuator 12); (8, Leaf LActuator 13)]);
                                                          (n_wrapper, Leaf LWrapFn 21)])]);
                 (n_obs_wrapper, Leaf LWrapObj 22); (n_act_wrapper, Leaf LWrapObj 23)];
     i_action := Dict [(7, Raw 70); (8, Raw 80)] |}.
Lemma nv_valid : valid nv_input.
Proof.
  unfold valid, nv_input; cbn [i_agent i_env]. repeat split; try reflexivity; simpl; repeat split;
    repeat constructor; simpl; intuition discriminate.
Qed.
Lemma nv_values :
  observe (i_env nv_input) = App 22 (Dict [(0, Raw 10); (1, App 20 (Raw 11))]) /\
  affect (i_env nv_input) (i_action nv_input) = [(12, App 21 (App 23 (Raw 70))); (13, App 21 (App 23 (Raw 80)))] /\
  dispatch EvSetup (root nv_input) = [1; 2; 3; 4; 10; 11; 20; 12; 13; 22; 23] /\
  dispatch EvAttachModels (root nv_input) = [1; 2; 3; 4].
Proof. repeat split; vm_compute; reflexivity. Qed.
