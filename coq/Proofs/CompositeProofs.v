From Coq Require Import List Bool Arith Lia.
From Pamiq Require Import Model.Composite.
Import ListNotations.

(* induction principle for the rose tree *)
Fixpoint node_ind' (P : node -> Prop)
  (HL : forall k id, P (Leaf k id))
  (HN : forall k id cs, Forall (fun c => P (snd c)) cs -> P (Node k id cs))
  (n : node) : P n :=
  match n with
  | Leaf k id => HL k id
  | Node k id cs =>
      HN k id cs ((fix go (l : list (nat * node)) : Forall (fun c => P (snd c)) l :=
                     match l with
                     | [] => Forall_nil _
                     | c :: r => Forall_cons c (node_ind' P HL HN (snd c)) (go r)
                     end) cs)
  end.

(* ---------- events ---------- *)
(* every component of the tree that has callbacks: (is_agent, id) *)
Fixpoint members (n : node) : list (bool * nat) :=
  match n with
  | Leaf LWrapFn _ => []
  | Leaf _ id => [(false, id)]
  | Node k id cs =>
      let below := flat_map (fun c => members (snd c)) cs in
      match k with NAgent => (true, id) :: below | _ => below end
  end.

Definition is_attach (e : event) : bool := match e with EvAttachModels | EvAttachCollectors => true | _ => false end.

(* the agent subtree of an interaction; for other roots, the tree itself *)
Definition attach_scope (n : node) : list (bool * nat) :=
  match n with
  | Node NInteraction _ cs => flat_map (fun c => if Nat.eqb (fst c) n_agent then members (snd c) else []) cs
  | _ => members n
  end.

(* the components an event issued at the root applies to *)
Definition targets (e : event) (n : node) : list nat :=
  if is_attach e then map snd (filter fst (attach_scope n)) else map snd (members n).

(* only agents sit below agents, and an interaction is a root: the shape the public constructors allow *)
Fixpoint agents_only (n : node) : bool :=
  match n with
  | Node NAgent _ cs => forallb (fun c => agents_only (snd c)) cs
  | _ => false
  end.
Fixpoint no_agents (n : node) : bool :=
  match n with
  | Leaf _ _ => true
  | Node (NAgent | NInteraction) _ _ => false
  | Node _ _ cs => forallb (fun c => no_agents (snd c)) cs
  end.
Definition wf_root (n : node) : bool :=
  match n with
  | Node NInteraction _ [(a, ag); (e, en)] => Nat.eqb a n_agent && Nat.eqb e n_environment && agents_only ag && no_agents en
  | _ => agents_only n || no_agents n
  end.

Lemma dispatch_no_agents e n : no_agents n = true ->
  dispatch e n = if is_attach e then [] else map snd (members n).
Proof.
  induction n as [k id|k id cs IH] using node_ind'; intros H.
  - destruct k, e; reflexivity.
  - assert (Hcs : forall c, In c cs -> dispatch e (snd c) = if is_attach e then [] else map snd (members (snd c))).
    { intros c Hc. rewrite Forall_forall in IH. apply IH; [assumption|].
      destruct k; simpl in H; try discriminate; rewrite forallb_forall in H; now apply H. }
    assert (Hflat : flat_map (fun c => dispatch e (snd c)) cs =
                    if is_attach e then [] else map snd (flat_map (fun c => members (snd c)) cs)).
    { clear -Hcs. induction cs as [|c cs IHc]; simpl; [destruct (is_attach e); reflexivity|].
      rewrite (Hcs c) by (now left). rewrite IHc by (intros c' Hc'; apply Hcs; now right).
      destruct (is_attach e); simpl; [reflexivity|]. now rewrite map_app. }
    destruct k; simpl in H; try discriminate; cbn [dispatch members]; rewrite ?Hflat; destruct e; reflexivity.
Qed.

Lemma dispatch_agents e n : agents_only n = true ->
  dispatch e n = map snd (members n) /\ filter fst (members n) = members n.
Proof.
  induction n as [k id|k id cs IH] using node_ind'; intros H; [discriminate|].
  destruct k; simpl in H; try discriminate.
  assert (Hcs : forall c, In c cs -> dispatch e (snd c) = map snd (members (snd c)) /\ filter fst (members (snd c)) = members (snd c)).
  { intros c Hc. rewrite Forall_forall in IH. apply IH; [assumption|]. rewrite forallb_forall in H. now apply H. }
  assert (Hflat : flat_map (fun c => dispatch e (snd c)) cs = map snd (flat_map (fun c => members (snd c)) cs) /\
                  filter fst (flat_map (fun c => members (snd c)) cs) = flat_map (fun c => members (snd c)) cs).
  { clear -Hcs. induction cs as [|c cs IHc]; simpl; [split; reflexivity|].
    destruct (Hcs c (or_introl eq_refl)) as [A B].
    destruct IHc as [C D]; [intros c' Hc'; apply Hcs; now right|].
    rewrite A, C, map_app, filter_app, B, D. split; reflexivity. }
  destruct Hflat as [A B]. cbn [dispatch members]. split.
  - destruct e; cbn [map snd]; now rewrite A.
  - cbn [filter fst]. now rewrite B.
Qed.

(* every lifecycle event issued at the root of a launched system (an Interaction of an agent tree and
   an environment tree) reaches exactly the components it applies to, with the same multiplicity
   (hence exactly once when identifiers are distinct) *)
Definition interaction (ag en : node) : node := Node NInteraction 0 [(n_agent, ag); (n_environment, en)].

Theorem dispatch_targets e ag en : agents_only ag = true -> no_agents en = true ->
  dispatch e (interaction ag en) = targets e (interaction ag en).
Proof.
  intros Hag Hen. destruct (dispatch_agents e ag Hag) as [A B]. pose proof (dispatch_no_agents e en Hen) as C.
  unfold targets, interaction. cbn [dispatch members attach_scope flat_map fst snd].
  change (Nat.eqb n_agent n_agent) with true. change (Nat.eqb n_environment n_agent) with false. cbn iota.
  rewrite !app_nil_r, A, C.
  destruct e; cbn [is_attach]; rewrite ?app_nil_r, ?map_app, ?B; reflexivity.
Qed.

(* ---------- state paths ---------- *)
Lemma save_paths_app a b : save_paths (a ++ b) = save_paths a ++ save_paths b.
Proof. unfold save_paths. apply flat_map_app. Qed.

Lemma save_paths_flat {A} (f : A -> list fsop) l : save_paths (flat_map f l) = flat_map (fun x => save_paths (f x)) l.
Proof. induction l as [|x l IH]; simpl; [reflexivity|]. now rewrite save_paths_app, IH. Qed.

(* each component is saved and later loaded under the same path, in the same order *)
Theorem load_path_eq_save_path n : forall p, save_paths (save_ops n p) = load_paths n p.
Proof.
  induction n as [k id|k id cs IH] using node_ind'; intros p.
  - simpl. destruct (leaf_has_state k); reflexivity.
  - assert (Hflat : save_paths (flat_map (fun c => save_ops (snd c) (p ++ [fst c])) cs) =
                    flat_map (fun c => load_paths (snd c) (p ++ [fst c])) cs).
    { rewrite save_paths_flat. rewrite Forall_forall in IH. clear -IH.
      induction cs as [|c cs IHc]; simpl; [reflexivity|].
      rewrite (IH c) by (now left). rewrite IHc by (intros x Hx; apply IH; now right). reflexivity. }
    destruct k; cbn [save_ops load_paths];
      try (change (save_paths (Mkdir p false :: ?l)) with (save_paths l); exact Hflat).
    destruct cs as [|c cs']; [reflexivity|].
    change (save_paths (Save id p :: Mkdir p true :: ?l)) with ((id, p) :: save_paths l).
    now rewrite Hflat.
Qed.

(* sibling names are pairwise distinct everywhere (dict keys, child-agent names, fixed slots) *)
Fixpoint names_ok (n : node) : Prop :=
  match n with
  | Leaf _ _ => True
  | Node _ _ cs => NoDup (map fst cs) /\ (fix all (l : list (nat * node)) : Prop :=
                                            match l with [] => True | c :: r => names_ok (snd c) /\ all r end) cs
  end.

Lemma names_ok_children k id cs : names_ok (Node k id cs) -> NoDup (map fst cs) /\ forall c, In c cs -> names_ok (snd c).
Proof.
  simpl. intros [H1 H2]. split; [assumption|]. induction cs as [|c cs IH]; intros x Hx; [contradiction|].
  destruct H2 as [Hc Hr]. destruct Hx as [<-|Hx]; [assumption|]. apply IH; [now inversion H1|assumption|assumption].
Qed.

Lemma paths_extend n : forall p id q, In (id, q) (load_paths n p) -> exists r, q = p ++ r.
Proof.
  induction n as [k id0|k id0 cs IH] using node_ind'; intros p id q H.
  - simpl in H. destruct (leaf_has_state k); [|contradiction]. destruct H as [H|[]]. inversion H; subst. exists []. now rewrite app_nil_r.
  - assert (Hb : In (id, q) (flat_map (fun c => load_paths (snd c) (p ++ [fst c])) cs) -> exists r, q = p ++ r).
    { intros Hin. apply in_flat_map in Hin as (c & Hc & Hin). rewrite Forall_forall in IH.
      destruct (IH c Hc _ _ _ Hin) as [r ->]. exists ([fst c] ++ r). now rewrite app_assoc. }
    destruct k; cbn [load_paths] in H; try (now apply Hb).
    destruct H as [H|H]; [inversion H; subst; exists []; now rewrite app_nil_r | now apply Hb].
Qed.

Lemma NoDup_app_intro {A} (a b : list A) : NoDup a -> NoDup b -> (forall x, In x a -> ~ In x b) -> NoDup (a ++ b).
Proof.
  induction a as [|x a IH]; intros Ha Hb Hd; simpl; [assumption|].
  inversion Ha as [|? ? Hnin Ha']; subst. constructor.
  - intros Hin. apply in_app_or in Hin as [Hin|Hin]; [contradiction|]. apply (Hd x); [now left|assumption].
  - apply IH; [assumption|assumption|]. intros y Hy. apply Hd. now right.
Qed.

Lemma children_paths_nodup p : forall cs, NoDup (map fst cs) ->
  (forall c, In c cs -> NoDup (map snd (load_paths (snd c) (p ++ [fst c])))) ->
  NoDup (map snd (flat_map (fun c => load_paths (snd c) (p ++ [fst c])) cs)).
Proof.
  induction cs as [|c cs IH]; intros Hnd Hch; simpl; [constructor|].
  inversion Hnd as [|? ? Hnin Hnd']; subst. rewrite map_app. apply NoDup_app_intro.
  - apply Hch. now left.
  - apply IH; [assumption|]. intros x Hx. apply Hch. now right.
  - intros q Hq1 Hq2.
    apply in_map_iff in Hq1 as ([i1 q1] & E1 & Hin1). simpl in E1. subst q1.
    apply in_map_iff in Hq2 as ([i2 q2] & E2 & Hin2). simpl in E2. subst q2.
    apply in_flat_map in Hin2 as (c' & Hc' & Hin2).
    destruct (paths_extend _ _ _ _ Hin1) as [r1 E1]. destruct (paths_extend _ _ _ _ Hin2) as [r2 E2].
    rewrite E1 in E2. rewrite <- !app_assoc in E2. apply app_inv_head in E2. simpl in E2. inversion E2 as [[Hname Hr]].
    apply Hnin. apply in_map_iff. exists c'. split; [symmetry; exact Hname|assumption].
Qed.

(* distinct components get distinct paths *)
Theorem paths_injective n : forall p, names_ok n -> NoDup (map snd (load_paths n p)).
Proof.
  induction n as [k id0|k id0 cs IH] using node_ind'; intros p Hn.
  - simpl. destruct (leaf_has_state k); simpl; repeat constructor; auto.
  - destruct (names_ok_children _ _ _ Hn) as [Hnd Hch]. rewrite Forall_forall in IH.
    assert (Hb : NoDup (map snd (flat_map (fun c => load_paths (snd c) (p ++ [fst c])) cs))).
    { apply children_paths_nodup; [assumption|]. intros c Hc. apply IH; [assumption|now apply Hch]. }
    destruct k; cbn [load_paths]; try exact Hb.
    cbn [map snd]. constructor; [|exact Hb].
    (* the agent's own path is a strict prefix of every path below it *)
    intros Hin. apply in_map_iff in Hin as ([i q] & E & Hin). simpl in E. subst q.
    apply in_flat_map in Hin as (c & Hc & Hin). destruct (paths_extend _ _ _ _ Hin) as [r E].
    apply (f_equal (@length nat)) in E. rewrite !app_length in E. simpl in E. lia.
Qed.

(* ---------- saving never fails for lack of a parent directory ---------- *)
Definition pmem (p : list nat) (dirs : list (list nat)) : bool :=
  existsb (fun d => if list_eq_dec Nat.eq_dec d p then true else false) dirs.

Lemma pmem_In p dirs : pmem p dirs = true <-> In p dirs.
Proof.
  unfold pmem. rewrite existsb_exists. split.
  - intros (d & Hd & E). destruct (list_eq_dec Nat.eq_dec d p); [now subst|discriminate].
  - intros H. exists p. split; [assumption|]. destruct (list_eq_dec Nat.eq_dec p p); congruence.
Qed.

(* every operation finds the parent of its path: created earlier in this save, or present before *)
Fixpoint parents_ok (dirs : list (list nat)) (ops : list fsop) : bool :=
  match ops with
  | [] => true
  | Mkdir p _ :: r => pmem (removelast p) dirs && parents_ok (p :: dirs) r
  | Save _ p :: r => pmem (removelast p) dirs && parents_ok dirs r
  end.

Fixpoint created (ops : list fsop) : list (list nat) :=
  match ops with [] => [] | Mkdir p _ :: r => created r ++ [p] | _ :: r => created r end.

Lemma parents_ok_mono ops : forall d d', (forall x, In x d -> In x d') -> parents_ok d ops = true -> parents_ok d' ops = true.
Proof.
  induction ops as [|o ops IH]; intros d d' Hi H; [reflexivity|].
  destruct o as [p ok|id p]; cbn [parents_ok] in *; apply andb_true_iff in H as [H1 H2]; apply andb_true_iff; split.
  - apply pmem_In. apply Hi. now apply pmem_In.
  - apply (IH (p :: d)); [|assumption]. intros x [<-|Hx]; [now left|right; now apply Hi].
  - apply pmem_In. apply Hi. now apply pmem_In.
  - apply (IH d); assumption.
Qed.

Lemma parents_ok_app a : forall d b, parents_ok d a = true -> parents_ok (created a ++ d) b = true -> parents_ok d (a ++ b) = true.
Proof.
  induction a as [|o a IH]; intros d b Ha Hb; [exact Hb|].
  destruct o as [p ok|id p]; cbn [parents_ok created app] in *; apply andb_true_iff in Ha as [H1 H2]; apply andb_true_iff; split; try assumption.
  - apply IH; [assumption|]. rewrite <- app_assoc in Hb. exact Hb.
  - apply IH; assumption.
Qed.

Theorem parents_exist n : forall p dirs, pmem (removelast p) dirs = true -> parents_ok dirs (save_ops n p) = true.
Proof.
  induction n as [k id0|k id0 cs IH] using node_ind'; intros p dirs Hp.
  - simpl. destruct (leaf_has_state k); simpl; [now rewrite Hp|reflexivity].
  - rewrite Forall_forall in IH.
    assert (Hb : forall d, In p d -> parents_ok d (flat_map (fun c => save_ops (snd c) (p ++ [fst c])) cs) = true).
    { clear Hp. induction cs as [|c cs IHc]; intros d Hd; [reflexivity|]. cbn [flat_map].
      apply parents_ok_app.
      - apply IH; [now left|]. rewrite removelast_last. now apply pmem_In.
      - apply IHc; [intros x Hx; apply IH; now right|]. apply in_or_app. now right. }
    destruct k; cbn [save_ops parents_ok]; try (rewrite Hp; cbn [andb]; apply Hb; now left).
    rewrite Hp. cbn [andb]. destruct cs as [|c cs']; [reflexivity|]. cbn [parents_ok]. rewrite Hp. cbn [andb].
    apply Hb. now left.
Qed.

(* ---------- observations and actions ---------- *)
Fixpoint raws (v : value) : list nat :=
  match v with
  | Raw id => [id]
  | App _ v' => raws v'
  | Dict kvs => flat_map (fun kv => raws (snd kv)) kvs
  | Bad => []
  end.

Definition is_wrapper (n : node) : bool := match n with Leaf (LWrapObj | LWrapFn) _ => true | _ => false end.

Definition is_self (n : node) : bool := match n with Leaf LSelf _ => true | _ => false end.

Fixpoint wf_sensor (n : node) : bool :=
  match n with
  | Leaf LSensor _ => true
  | Node NSensorsDict _ cs =>
      (* under the reserved name sits the composite's own part (if any), under every other name a sensor *)
      forallb (fun c => if Nat.eqb (fst c) n_self then is_self (snd c) else wf_sensor (snd c)) cs
  | Node NSensorWrap _ [(a, s); (b, w)] => Nat.eqb a n_sensor && Nat.eqb b n_wrapper && wf_sensor s && is_wrapper w
  | _ => false
  end.

Fixpoint sensor_leaves (n : node) : list nat :=
  match n with
  | Leaf LSensor id => [id]
  | Leaf _ _ => []
  | Node _ _ cs => flat_map (fun c => sensor_leaves (snd c)) cs
  end.

(* a wrapper is applied exactly once: the wrapped sensor's reading is [App w] of the inner reading *)
Theorem sensor_wrapper_once id s kw w : is_wrapper (Leaf kw w) = true ->
  observe (Node NSensorWrap id [(n_sensor, s); (n_wrapper, Leaf kw w)]) = App w (observe s).
Proof. destruct kw; simpl; intros H; try discriminate; reflexivity. Qed.
Theorem actuator_wrapper_once id a kw w v : is_wrapper (Leaf kw w) = true ->
  affect (Node NActWrap id [(n_actuator, a); (n_wrapper, Leaf kw w)]) v = affect a (App w v).
Proof. destruct kw; simpl; intros H; try discriminate; now rewrite app_nil_r. Qed.
Theorem env_wrapper_once id e ko wo ka wa v : is_wrapper (Leaf ko wo) = true -> is_wrapper (Leaf ka wa) = true ->
  observe (Node NEnvWrap id [(n_env, e); (n_obs_wrapper, Leaf ko wo); (n_act_wrapper, Leaf ka wa)]) = App wo (observe e) /\
  affect (Node NEnvWrap id [(n_env, e); (n_obs_wrapper, Leaf ko wo); (n_act_wrapper, Leaf ka wa)]) v = affect e (App wa v).
Proof. destruct ko, ka; simpl; intros H1 H2; try discriminate; rewrite ?app_nil_r; split; reflexivity. Qed.

(* what every leaf sensor produced occurs in the observation exactly as often as the sensor occurs in the
   tree, in order: nothing is dropped or duplicated on the way up *)
Theorem observation_complete n : wf_sensor n = true -> raws (observe n) = sensor_leaves n.
Proof.
  induction n as [k id|k id cs IH] using node_ind'; intros H.
  - destruct k; simpl in *; try discriminate; reflexivity.
  - rewrite Forall_forall in IH. destruct k; simpl in H; try discriminate.
    + (* SensorsDict *)
      cbn [observe raws sensor_leaves]. rewrite forallb_forall in H.
      clear -IH H. induction cs as [|c cs IHc]; simpl; [reflexivity|].
      pose proof (H c (or_introl eq_refl)) as Hc.
      destruct (Nat.eqb (fst c) n_self) eqn:En; cbn [negb].
      * (* the composite's own part: no data, no sensor *)
        destruct (snd c) as [k i|k i l]; try discriminate Hc. destruct k; try discriminate Hc. cbn [sensor_leaves app].
        apply IHc; [intros x Hx; apply IH; now right | intros x Hx; apply H; now right].
      * cbn [flat_map snd raws].
        assert (E : raws (observe (snd c)) = sensor_leaves (snd c)) by (apply IH; [now left|exact Hc]).
        rewrite E. f_equal.
        apply IHc; [intros x Hx; apply IH; now right | intros x Hx; apply H; now right].
    + (* SensorWrapper *)
      destruct cs as [|[a s] [|[b w] [|]]]; try discriminate.
      apply andb_true_iff in H as [H Hw]. apply andb_true_iff in H as [H Hs]. apply andb_true_iff in H as [Ha Hb].
      apply Nat.eqb_eq in Ha, Hb. subst a b.
      destruct w as [kw idw|]; [|discriminate].
      rewrite (sensor_wrapper_once id s kw idw Hw). cbn [raws sensor_leaves flat_map snd].
      assert (E : raws (observe s) = sensor_leaves s) by (apply (IH (n_sensor, s)); [now left|assumption]).
      rewrite E. destruct kw; try discriminate; cbn [sensor_leaves]; now rewrite !app_nil_r.
Qed.

Fixpoint wf_actuator (n : node) : bool :=
  match n with
  | Leaf LActuator _ => true
  | Node NActuatorsDict _ cs => forallb (fun c => if Nat.eqb (fst c) n_self then is_self (snd c) else wf_actuator (snd c)) cs
  | Node NActWrap _ [(a, s); (b, w)] => Nat.eqb a n_actuator && Nat.eqb b n_wrapper && wf_actuator s && is_wrapper w
  | _ => false
  end.

Fixpoint actuator_leaves (n : node) : list nat :=
  match n with
  | Leaf LActuator id => [id]
  | Leaf _ _ => []
  | Node _ _ cs => flat_map (fun c => actuator_leaves (snd c)) cs
  end.

(* every leaf actuator is operated exactly once per action, in order, whatever the action value *)
Theorem action_reaches_all n : wf_actuator n = true -> forall v, map fst (affect n v) = actuator_leaves n.
Proof.
  induction n as [k id|k id cs IH] using node_ind'; intros H v.
  - destruct k; simpl in *; try discriminate; reflexivity.
  - rewrite Forall_forall in IH. destruct k; simpl in H; try discriminate.
    + cbn [affect actuator_leaves]. rewrite forallb_forall in H.
      clear -IH H. induction cs as [|c cs IHc]; simpl; [reflexivity|].
      pose proof (H c (or_introl eq_refl)) as Hc.
      assert (E : map fst (affect (snd c) (lookup (fst c) v)) = actuator_leaves (snd c)).
      { destruct (Nat.eqb (fst c) n_self); [|apply IH; [now left|exact Hc]].
        (* the composite's own part: it is handed nothing and is no actuator *)
        destruct (snd c) as [k i|k i l]; try discriminate Hc. destruct k; try discriminate Hc. reflexivity. }
      rewrite map_app, E. f_equal.
      apply IHc; [intros x Hx; apply IH; now right | intros x Hx; apply H; now right].
    + destruct cs as [|[a s] [|[b w] [|]]]; try discriminate.
      apply andb_true_iff in H as [H Hw]. apply andb_true_iff in H as [H Hs]. apply andb_true_iff in H as [Ha Hb].
      apply Nat.eqb_eq in Ha, Hb. subst a b.
      destruct w as [kw idw|]; [|discriminate].
      rewrite (actuator_wrapper_once id s kw idw v Hw). cbn [actuator_leaves flat_map snd].
      assert (E : map fst (affect s (App idw v)) = actuator_leaves s) by (apply (IH (n_actuator, s)); [now left|assumption]).
      rewrite E. destruct kw; try discriminate; cbn [actuator_leaves]; now rewrite !app_nil_r.
Qed.

(* a dictionary actuator hands child k exactly action[k] *)
Theorem dict_routing id cs v :
  affect (Node NActuatorsDict id cs) v = flat_map (fun c => affect (snd c) (lookup (fst c) v)) cs.
Proof. reflexivity. Qed.

