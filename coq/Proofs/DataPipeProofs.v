From Coq Require Import ZArith List Bool Arith Lia Sorted.
From Pamiq Require Import Model.Buffers Model.DataPipe Check.C07 Proofs.BuffersProofs.
Import ListNotations.

Lemma zeqb_refl l : C07.zlist_eqb l l = true.
Proof. unfold C07.zlist_eqb. destruct (list_eq_dec Z.eq_dec l l); congruence. Qed.

(* a bounded deque holds the last q of everything ever appended *)
Lemma bapp_lastn {A} q (l : list A) x : bapp q (lastn_opt q l) x = lastn_opt q (l ++ [x]).
Proof. destruct q as [n|]; simpl; [apply lastn_lastn_app|reflexivity]. Qed.

Lemma fold_bapp {A} q : forall (xs l : list A),
  fold_left (bapp q) xs (lastn_opt q l) = lastn_opt q (l ++ xs).
Proof.
  induction xs as [|x xs IH]; intros l; simpl; [now rewrite app_nil_r|].
  rewrite bapp_lastn, IH, <- app_assoc. reflexivity.
Qed.

Lemma lastn_opt_nil {A} q : lastn_opt q (@nil A) = [].
Proof. destruct q; reflexivity. Qed.

(* ---------- every run of the model satisfies the oracle ---------- *)
Lemma prun_spec q : forall ops p pending delivered,
  qsz p = q -> cq p = lastn_opt q pending -> tss p = lastn_opt q delivered ->
  spec q pending delivered ops (prun p ops) = true.
Proof.
  induction ops as [|o ops IH]; intros p pending delivered Hq Hc Ht; [reflexivity|].
  cbn [prun]. destruct o as [x t| | |ts|]; cbn [pstep handover spec].
  - apply IH; cbn [qsz cq tss]; [assumption| |assumption].
    rewrite Hq, Hc. apply bapp_lastn.
  - rewrite Hc, zeqb_refl. cbn [andb]. apply IH; cbn [qsz cq tss]; [assumption|symmetry; apply lastn_opt_nil|].
    rewrite Hq, Ht. apply fold_bapp.
  - rewrite Hc, zeqb_refl. cbn [andb]. apply IH; cbn [qsz cq tss]; [assumption|symmetry; apply lastn_opt_nil|].
    rewrite Hq, Ht. apply fold_bapp.
  - unfold count_since. rewrite Ht, Nat.eqb_refl. cbn [andb]. apply IH; assumption.
  - rewrite Hc, zeqb_refl. cbn [andb]. apply IH; cbn [qsz cq tss]; [assumption|symmetry; apply lastn_opt_nil|].
    rewrite Hq, Ht. apply fold_bapp.
Qed.

Theorem model_ok i : prop_ok (i, model_outs i) = true.
Proof.
  unfold prop_ok, model_outs. cbn [fst snd]. apply prun_spec; cbn [pinit qsz cq tss]; auto;
    symmetry; apply lastn_opt_nil.
Qed.

(* ---------- the oracle says what the property says ---------- *)
(* with an unbounded queue, after a final update every collected sample has been added
   exactly once, in collection order *)
Fixpoint collected (ops : list pop) : list Z :=
  match ops with [] => [] | Collect x _ :: r => x :: collected r | _ :: r => collected r end.
Fixpoint all_adds (outs : list pout) : list Z :=
  match outs with [] => [] | PAdds ids :: r => ids ++ all_adds r | _ :: r => all_adds r end.

Lemma spec_unbounded : forall ops outs pending delivered,
  spec None pending delivered ops outs = true ->
  exists rest, map fst pending ++ collected ops = all_adds outs ++ rest.
Proof.
  induction ops as [|o ops IH]; intros outs pending delivered H.
  - destruct outs; [|discriminate]. exists (map fst pending). now rewrite app_nil_r.
  - destruct outs as [|y outs]; [destruct o; discriminate|]. cbn [spec] in H.
    destruct o as [x t| | |ts|], y as [|ids|n]; try discriminate; cbn [collected all_adds].
    + destruct (IH _ _ _ H) as [rest Hr]. exists rest. rewrite <- Hr, map_app, <- app_assoc. reflexivity.
    + apply andb_true_iff in H as [H1 H2]. apply zlist_eqb_eq in H1. cbn [lastn_opt] in *.
      destruct (IH _ _ _ H2) as [rest Hr]. exists rest. rewrite H1, <- app_assoc, <- Hr. reflexivity.
    + apply andb_true_iff in H as [H1 H2]. apply zlist_eqb_eq in H1. cbn [lastn_opt] in *.
      destruct (IH _ _ _ H2) as [rest Hr]. exists rest. rewrite H1, <- app_assoc, <- Hr. reflexivity.
    + apply andb_true_iff in H as [_ H2]. apply (IH _ _ _ H2).
    + apply andb_true_iff in H as [H1 H2]. apply zlist_eqb_eq in H1. cbn [lastn_opt] in *.
      destruct (IH _ _ _ H2) as [rest Hr]. exists rest. rewrite H1, <- app_assoc, <- Hr. reflexivity.
Qed.

(* for non-decreasing timestamps, "count from the newest while newer than ts" counts
   exactly the timestamps newer than ts *)
Lemma take_while_sorted ts : forall l, Sorted Z.le l ->
  length (take_while (fun t => Z.ltb ts t) (rev l)) = length (filter (fun t => Z.ltb ts t) l).
Proof.
  intros l Hs. apply Sorted_StronglySorted in Hs; [|intros a b c; lia].
  induction Hs as [|x l Hs IH Hall]; [reflexivity|].
  cbn [rev filter].
  assert (Htw : forall a b : list Z, (forall y, In y a -> Z.ltb ts y = true) ->
                 take_while (fun t => Z.ltb ts t) (a ++ b) = a ++ take_while (fun t => Z.ltb ts t) b).
  { induction a as [|y a IHa]; intros b Hy; [reflexivity|]. cbn [app take_while].
    rewrite (Hy y) by (left; reflexivity). f_equal. apply IHa. intros z Hz. apply Hy. now right. }
  destruct (Z.ltb ts x) eqn:Hx.
  - (* every later timestamp is also newer than ts *)
    assert (Hall' : forall y, In y (rev l) -> Z.ltb ts y = true).
    { intros y Hy. apply in_rev in Hy. rewrite Forall_forall in Hall. specialize (Hall y Hy). lia. }
    rewrite Htw by assumption. cbn [take_while]. rewrite Hx. rewrite app_length. cbn [length].
    assert (length (filter (fun t => Z.ltb ts t) l) = length l).
    { clear -Hall Hx. induction l as [|y l IHl]; [reflexivity|]. cbn [filter].
      inversion Hall; subst. assert (Z.ltb ts y = true) by lia. rewrite H. cbn [length]. f_equal. now apply IHl. }
    rewrite H, rev_length. lia.
  - (* the oldest one is not newer: it stops the count exactly where the rest does *)
    rewrite <- IH.
    assert (G : forall a, length (take_while (fun t => Z.ltb ts t) (a ++ [x])) = length (take_while (fun t => Z.ltb ts t) a)).
    { induction a as [|y a IHa]; cbn [app take_while]; [now rewrite Hx|]. destruct (Z.ltb ts y); cbn [length]; auto. }
    apply G.
Qed.

(* ---------- exclusive acquisition ---------- *)
Lemma acq_ok names : forall reqs acquired,
  acq_spec names acquired reqs (acq_run names acquired reqs) = true.
Proof.
  induction reqs as [|n r IH]; intros acquired; [reflexivity|].
  cbn [acq_run acq_spec]. unfold acquire.
  destruct (existsb (Nat.eqb n) acquired) eqn:Ha.
  - rewrite andb_false_r. cbn [negb andb]. apply IH.
  - destruct (existsb (Nat.eqb n) names) eqn:Hn; cbn [negb andb]; apply IH.
Qed.

(* ---------- non-vacuity ---------- *)
Definition nv_input : input :=
  {| i_q := Some 2; i_ops := [Collect 1 10; Collect 2 11; Collect 3 12; Update; Count 10; Count 11; Collect 4 13; GetData; Count 11; SaveState] |}.
Lemma nv_run : model_outs nv_input = [PNone; PNone; PNone; PAdds [2; 3]%Z; PCount 2; PCount 1; PNone; PAdds [4]%Z; PCount 2; PAdds []].
Proof. vm_compute. reflexivity. Qed.
