From Coq Require Import List Bool Arith Lia.
From Pamiq Require Import Model.Gym Check.C20.
Import ListNotations.

(* the oracle state that corresponds to a state of the model between two interaction steps *)
Definition ost_of (g : gstate) (ret : option nat) : ost :=
  {| started := true; must_reset := false;
     pending := match cur g with OS _ _ _ => flag g | _ => flag g end;
     last_ret := ret;
     queue := match cur g with
              | OR r => [QR r]
              | OS s t u => [QS s t u]
              | OB s t u r => [QS s t u; QR r]
              end;
     onr := nr g; ons := ns g |}.

Lemma orun_app o a b : orun o (a ++ b) = match orun o a with Some o' => orun o' b | None => None end.
Proof. revert o; induction a as [|e a IH]; intros o; simpl; [reflexivity|]. destruct (oev o e); auto. Qed.

(* well-formedness of a model state: the current observation is the latest output(s) *)
Definition wf (g : gstate) : Prop :=
  match cur g with
  | OR r => nr g = S r /\ flag g = false
  | OS s t u => ns g = S s /\ (t || u) = false
  | OB s t u r => ns g = S s /\ nr g = S r
  end.

Lemma step_ok g i ret : wf g ->
  let (g', evs) := gstep g i in
  wf g' /\ exists ret', orun (ost_of g ret) evs = Some (ost_of g' ret').
Proof.
  intros Hwf. unfold gstep, wf in *.
  destruct (cur g) as [r|s t u|s t u r] eqn:Hc;
    destruct i as [sr rr et eu]; cbn [step_req reset_req e_term e_trunc];
    try destruct t; try destruct u;
    destruct sr, rr, et, eu; cbn [req app orb];
    try (destruct (flag g) eqn:Hf); cbn [orb];
    (split; [cbn [cur flag nr ns na]; intuition (try reflexivity; try lia; try discriminate)|]);
    eexists; unfold ost_of; rewrite Hc;
    repeat (cbn [orun oev app started must_reset pending last_ret queue onr ons cur flag nr ns na negb orb andb Bool.eqb];
            rewrite ?Nat.eqb_refl; try match goal with H : flag _ = _ |- _ => rewrite H end);
    try reflexivity.
Qed.

Lemma steps_ok : forall inps g ret, wf g -> orun (ost_of g ret) (gsteps g inps) <> None.
Proof.
  induction inps as [|i inps IH]; intros g ret Hwf; cbn [gsteps]; [discriminate|].
  pose proof (step_ok g i ret Hwf) as H. destruct (gstep g i) as [g' evs].
  destruct H as [Hwf' [ret' Hrun]]. rewrite orun_app, Hrun. now apply IH.
Qed.

(* for every behaviour of the wrapped environment and of the agent, over any number of steps *)
Theorem model_ok inps : C20_ok (glog inps) = true.
Proof.
  unfold C20_ok, glog, ginit. cbn [app orun oev ost0 started must_reset negb orb].
  change {| started := true; must_reset := false; pending := false; last_ret := None; queue := [] ++ [QR 0]; onr := 1; ons := 0 |}
    with (ost_of {| cur := OR 0; flag := false; nr := 1; ns := 0; na := 0 |} None).
  pose proof (steps_ok inps {| cur := OR 0; flag := false; nr := 1; ns := 0; na := 0 |} None) as H.
  destruct (orun _ _); [reflexivity|]. exfalso. apply H; [|reflexivity]. unfold wf. simpl. auto.
Qed.

(* what the automaton rules out, stated on logs *)
Lemma no_step_after_done o a t u a' t' u' :
  (t || u) = true ->
  match oev o (GStep a t u) with Some o1 => oev o1 (GStep a' t' u') = None | None => True end.
Proof.
  intros Hd. cbn [oev]. destruct (started o && negb (must_reset o) && _); [|exact I].
  cbn [oev started must_reset]. rewrite Hd. reflexivity.
Qed.

Lemma action_is_latest o a t u : oev o (GStep a t u) <> None -> last_ret o = Some a.
Proof.
  cbn [oev]. destruct (last_ret o) as [b|]; [|rewrite andb_false_r; congruence].
  destruct (Nat.eqb_spec a b) as [->|Hne]; [reflexivity|rewrite andb_false_r; congruence].
Qed.

Lemma delivery_in_order o r : oev o (AOnReset r) <> None -> exists q, queue o = QR r :: q.
Proof.
  cbn [oev]. destruct (queue o) as [|[r'|s t u] q]; try congruence.
  destruct (Nat.eqb_spec r r') as [->|Hne]; [eexists; reflexivity|cbn [andb]; congruence].
Qed.

(* non-vacuity: two episodes, a request inside on_reset, a request on the terminal step *)
Definition nv_inps : list ginp :=
  [ {| step_req := false; reset_req := true; e_term := false; e_trunc := false |};
    {| step_req := false; reset_req := false; e_term := false; e_trunc := false |};
    {| step_req := true; reset_req := false; e_term := true; e_trunc := false |};
    {| step_req := true; reset_req := false; e_term := false; e_trunc := false |};
    {| step_req := false; reset_req := false; e_term := false; e_trunc := true |} ].
Lemma nv_log : glog nv_inps =
  [GReset; AOnReset 0; AReq; ARet 0; GStep 0 false false; GReset;
   AOnStep 0 false false; ARet 1; AOnReset 1; ARet 2; GStep 2 false false;
   AOnStep 1 false false; AReq; ARet 3; GStep 3 true false; GReset;
   AOnStep 2 true false; AReq; ARet 4; AOnReset 2; ARet 5; GStep 5 false false;
   AOnStep 3 false false; ARet 6; GStep 6 false true; GReset].
Proof. vm_compute. reflexivity. Qed.
