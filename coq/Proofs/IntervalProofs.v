From Coq Require Import QArith Lqa List Bool.
From Pamiq Require Import Model.Interval Check.C16.
Import ListNotations.
Open Scope Q_scope.

Lemma qmax_spec a b : (a <= b -> qmax a b == b) /\ (b <= a -> qmax a b == a).
Proof.
  unfold qmax. destruct (Qle_bool a b) eqn:E.
  - apply Qle_bool_iff in E. split; intros; [reflexivity|lra].
  - assert (~ a <= b) by (intros H; apply Qle_bool_iff in H; congruence). split; intros; [lra|reflexivity].
Qed.
Lemma qmax_ge_l a b : a <= qmax a b.
Proof. destruct (qmax_spec a b) as [H1 H2]. destruct (Qlt_le_dec b a); [rewrite H2; lra|rewrite H1; lra]. Qed.

(* after a step: the reset instant has moved by exactly max(W, k*(eps+dur)) *)
Lemma istep_reset k W s t : now s == last s ->
  let s' := fst (istep k W s t) in
  now s' == last s' /\ last s' == last s + qmax W (k * (eps t + dur t)) /\ snd (istep k W s t) == last s + k * eps t.
Proof.
  intros Hn. unfold istep. cbn [fst snd now last].
  set (n1 := Qred (now s + k * eps t)). set (n2 := Qred (n1 + k * dur t)).
  assert (E1 : n1 == now s + k * eps t) by apply Qred_correct.
  assert (E2 : n2 == n1 + k * dur t) by apply Qred_correct.
  destruct (Qle_bool (last s + W - n2) 0) eqn:E; cbn [now last].
  - apply Qle_bool_iff in E. split; [reflexivity|]. split; [|rewrite E1, Hn; reflexivity].
    destruct (qmax_spec W (k * (eps t + dur t))) as [H1 _]. rewrite H1 by (rewrite E2, E1, Hn in E; lra). rewrite E2, E1, Hn. ring.
  - assert (H : ~ last s + W - n2 <= 0) by (intros H; apply Qle_bool_iff in H; congruence).
    split; [reflexivity|]. split; [|rewrite E1, Hn; reflexivity].
    destruct (qmax_spec W (k * (eps t + dur t))) as [_ H2]. rewrite H2 by (rewrite E2, E1, Hn in H; lra).
    rewrite Qred_correct. ring.
Qed.

Lemma iruns_spacing k W : forall ts s, now s == last s ->
  spacing_ok k W ts (iruns k W s ts) = true /\
  match ts, iruns k W s ts with t :: _, T :: _ => T == last s + k * eps t | [], [] => True | _, _ => False end.
Proof.
  induction ts as [|t ts IH]; intros s Hn; [split; [reflexivity|exact I]|].
  cbn [iruns]. pose proof (istep_reset k W s t Hn) as H. destruct (istep k W s t) as [s' T] eqn:E.
  cbn [fst snd] in H. destruct H as (Hn' & Hl & HT).
  destruct (IH s' Hn') as [IH1 IH2]. split; [|exact HT].
  destruct ts as [|t' ts']; [reflexivity|].
  cbn [iruns] in *. destruct (istep k W s' t') as [s'' T'] eqn:E'. cbn [spacing_ok].
  apply andb_true_iff. split; [|exact IH1]. apply Qeq_bool_iff. rewrite IH2, HT, Hl. ring.
Qed.

Theorem model_ok i : prop_ok (i, model_starts i) = true.
Proof.
  unfold prop_ok, model_starts, first_ok. cbn [fst snd].
  destruct (iruns_spacing (i_k i) (i_W i) (i_ticks i) (iinit (i_t0 i))) as [H1 H2]; [reflexivity|].
  rewrite H1, andb_true_r. destruct (i_ticks i) as [|t ts]; [reflexivity|].
  destruct (iruns _ _ _ (t :: ts)) as [|T Ts]; [contradiction|]. apply Qeq_bool_iff. exact H2.
Qed.

(* the wording of the property: with equal overheads, starts are at least W apart, and exactly W
   apart when overhead + step fit in W; whatever the pauses *)
Theorem spacing_law k W e d e' :
  e' == e ->
  let gap := qmax W (k * (e + d)) + k * e' - k * e in
  W <= gap /\ (k * (e + d) <= W -> gap == W).
Proof.
  intros He gap. unfold gap. split.
  - pose proof (qmax_ge_l W (k * (e + d))). rewrite He. lra.
  - intros H. destruct (qmax_spec W (k * (e + d))) as [_ H2]. rewrite H2 by assumption. rewrite He. ring.
Qed.

(* a pause of any length changes nothing *)
Theorem pause_free k W s t p :
  istep k W s {| pause_len := p; eps := eps t; dur := dur t |} = istep k W s t.
Proof. reflexivity. Qed.

Definition nv_input : input :=
  {| i_k := 2; i_W := 1 # 4; i_t0 := 5;
     i_ticks := [ {| pause_len := 0; eps := 1 # 1024; dur := 1 # 16 |}; {| pause_len := 5; eps := 1 # 1024; dur := 1 # 2 |};
                  {| pause_len := 0; eps := 1 # 1024; dur := 1 # 8 |}; {| pause_len := 0; eps := 1 # 1024; dur := 1 # 16 |} ] |}.
Lemma nv_starts : qs_eqb (model_starts nv_input) [5 + (1 # 512); 5 + (1 # 4) + (1 # 512); 5 + (1 # 4) + (513 # 512) + (1 # 512); 5 + (1 # 4) + (513 # 512) + (129 # 512) + (1#512)] = true.
Proof. vm_compute. reflexivity. Qed.
