From Coq Require Import List Bool Arith Lia.
From Pamiq Require Import Model.Buffers Model.Keeper Check.C18 Proofs.BuffersProofs.
Import ListNotations.

Lemma mem_In p l : mem p l = true <-> In p l.
Proof.
  unfold mem. rewrite existsb_exists. split.
  - intros (x & Hx & He). apply Nat.eqb_eq in He. now subst.
  - intros H. exists p. split; [assumption|apply Nat.eqb_refl].
Qed.
Lemma mem_false p l : mem p l = false <-> ~ In p l.
Proof. rewrite <- mem_In. destruct (mem p l); split; congruence. Qed.

Lemma subset_spec a b : subset a b = true <-> (forall p, In p a -> In p b).
Proof.
  unfold subset. rewrite forallb_forall. split; intros H p Hp; [apply mem_In|apply mem_In]; auto.
Qed.

Lemma in_remove_all p ps fs : In p (remove_all ps fs) <-> In p fs /\ ~ In p ps.
Proof.
  unfold remove_all. rewrite filter_In. split; intros [H1 H2]; split; auto.
  - apply negb_true_iff in H2. now apply mem_false.
  - apply negb_true_iff. now apply mem_false.
Qed.

(* names appended by the rest of the history; names created by others *)
Fixpoint appended (ops : list kop) : list nat :=
  match ops with [] => [] | KAppend p _ :: r => p :: appended r | _ :: r => appended r end.
Fixpoint ext_created (ops : list kop) : list nat :=
  match ops with [] => [] | KExtCreate p :: r => p :: ext_created r | _ :: r => ext_created r end.

(* what the theorem assumes about names: tracked state names are pairwise distinct, and nobody
   else creates an entry with the name of a state *)
Definition names_ok (hist fs : list nat) (ops : list kop) : Prop :=
  NoDup (hist ++ appended ops) /\
  (forall p, In p (ext_created ops) -> ~ In p (hist ++ appended ops)) /\
  (forall p, In p (appended ops) -> ~ In p fs).

Definition Inv (k : keeper) (fs hist : list nat) : Prop :=
  exists dropped, hist = dropped ++ tracked k /\ (forall p, In p dropped -> ~ In p fs) /\
                  (dropped <> [] -> max_keep k <= length (tracked k)).

Lemma lastn_app_r {A} n (a b : list A) : n <= length b -> lastn n (a ++ b) = lastn n b.
Proof.
  intros H. unfold lastn. rewrite app_length, skipn_app.
  replace (length a + length b - n - length a) with (length b - n) by lia.
  rewrite skipn_all2 by lia. reflexivity.
Qed.

Lemma NoDup_app_l {A} (a b : list A) : NoDup (a ++ b) -> NoDup a.
Proof. induction a as [|x a IH]; simpl; intros H; [constructor|]. inversion H as [|? ? Hnin Hnd']; subst. constructor; [intros Hin; apply Hnin; apply in_or_app; now left | now apply IH]. Qed.
Lemma NoDup_app_r {A} (a b : list A) : NoDup (a ++ b) -> NoDup b.
Proof. induction a as [|x a IH]; simpl; intros H; [assumption|]. inversion H as [|? ? Hnin Hnd']; subst. now apply IH. Qed.
Lemma NoDup_app_disj {A} (a b : list A) x : NoDup (a ++ b) -> In x a -> In x b -> False.
Proof.
  induction a as [|y a IH]; simpl; intros H H1 H2; [contradiction|]. inversion H as [|? ? Hnin Hnd']; subst.
  destruct H1 as [->|H1]; [apply Hnin; apply in_or_app; now right | eapply IH; eauto].
Qed.

Lemma NoDup_firstn_skipn_disjoint {A} n (l : list A) x : NoDup l -> In x (firstn n l) -> In x (skipn n l) -> False.
Proof. intros Hnd H1 H2. rewrite <- (firstn_skipn n l) in Hnd. eapply NoDup_app_disj; eauto. Qed.

Lemma forallb_intro {A} (f : A -> bool) l : (forall x, In x l -> f x = true) -> forallb f l = true.
Proof. intros H. now apply forallb_forall. Qed.

Lemma krun_spec mk : forall ops k fs hist,
  max_keep k = mk -> Inv k fs hist -> names_ok hist fs ops ->
  kspec mk hist fs ops (krun k fs ops) = true.
Proof.
  induction ops as [|o ops IH]; intros k fs hist Hmk (dropped & Hh & Hd & Hlen) (Hnd & Hext & Happ); [reflexivity|].
  cbn [krun]. destruct o as [p create| |p|p]; cbn [kstep kspec].
  - (* append *)
    cbn [appended ext_created] in *.
    assert (Hpf : mem p fs = false) by (apply mem_false; apply Happ; now left).
    rewrite Hpf. cbn [negb]. rewrite andb_true_r.
    assert (E1 : subset (if create then fs ++ [p] else fs) (if create then p :: fs else fs) = true).
    { apply subset_spec. intros x Hx. destruct create; [|assumption]. apply in_app_or in Hx as [Hx|[<-|[]]]; [now right|now left]. }
    assert (E2 : subset fs (if create then fs ++ [p] else fs) = true).
    { apply subset_spec. intros x Hx. destruct create; [apply in_or_app; now left|assumption]. }
    assert (E3 : (if create then mem p (if create then fs ++ [p] else fs) else true) = true).
    { destruct create; [|reflexivity]. apply mem_In. apply in_or_app. right. now left. }
    rewrite E1, E2, E3. cbn [andb].
    apply IH; [assumption| |].
    + exists dropped. cbn [tracked max_keep]. repeat split.
      * rewrite Hh, <- app_assoc. reflexivity.
      * intros x Hx Hin. assert (Hxp : x <> p).
        { intros ->. apply NoDup_remove_2 in Hnd. apply Hnd. rewrite Hh. apply in_or_app. left. apply in_or_app. now left. }
        destruct create; [apply in_app_or in Hin as [Hin|[Hin|[]]]; [now apply (Hd x)|congruence] | now apply (Hd x)].
      * intros Hne. rewrite app_length. specialize (Hlen Hne). simpl. lia.
    + repeat split.
      * rewrite <- app_assoc. exact Hnd.
      * intros x Hx. rewrite <- app_assoc. apply Hext, Hx.
      * intros x Hx Hin. assert (Hxp : x <> p).
        { intros ->. apply NoDup_remove_2 in Hnd. apply Hnd. apply in_or_app. right. exact Hx. }
        destruct create; [apply in_app_or in Hin as [Hin|[Hin|[]]]; [apply (Happ x); [now right|assumption]|congruence] | apply (Happ x); [now right|assumption]].
  - (* cleanup *)
    cbn [appended ext_created] in *.
    assert (Hndh : NoDup hist) by (eapply NoDup_app_l; exact Hnd).
    assert (Hndt : NoDup (tracked k)) by (rewrite Hh in Hndh; eapply NoDup_app_r; exact Hndh).
    destruct (Nat.leb (length (tracked k)) (max_keep k)) eqn:Hle.
    + (* nothing to do *)
      apply Nat.leb_le in Hle.
      assert (Hkeep : forall x, In x hist -> In x (lastn mk hist) \/ ~ In x fs).
      { intros x Hx. rewrite Hh in Hx. apply in_app_or in Hx as [Hx|Hx]; [right; now apply Hd|].
        left. destruct dropped as [|d0 dr].
        - simpl in Hh. rewrite Hh. rewrite lastn_all by lia. assumption.
        - assert (length (tracked k) = mk) by (specialize (Hlen ltac:(discriminate)); lia).
          rewrite Hh, lastn_app_r by lia. rewrite lastn_all by lia. assumption. }
      assert (E1 : subset fs fs = true) by (apply subset_spec; auto).
      rewrite E1. cbn [andb].
      rewrite (forallb_intro _ (lastn mk hist)) by (intros x _; destruct (mem x fs); reflexivity).
      rewrite (forallb_intro _ hist).
      2:{ intros x Hx. destruct (Hkeep x Hx) as [H|H]; [apply mem_In in H; now rewrite H | apply mem_false in H; rewrite H; now rewrite orb_true_r]. }
      rewrite (forallb_intro _ fs) by (intros x Hx; apply mem_In in Hx; rewrite Hx; now rewrite orb_true_r).
      cbn [andb]. apply IH; [assumption| exists dropped; auto | repeat split; assumption].
    + apply Nat.leb_gt in Hle.
      set (n := length (tracked k) - max_keep k).
      set (sel := firstn n (tracked k)). set (rest := skipn n (tracked k)).
      set (removed := filter (fun p => mem p fs) sel). set (fs' := remove_all removed fs).
      assert (Hrem : forall x, In x removed <-> In x sel /\ In x fs).
      { intros x. unfold removed. rewrite filter_In, mem_In. tauto. }
      assert (Hfs' : forall x, In x fs' <-> In x fs /\ ~ In x removed) by (intros x; apply in_remove_all).
      assert (Hkeepers : lastn mk hist = rest).
      { rewrite Hh, lastn_app_r by lia. unfold lastn, rest, n. now rewrite Hmk. }
      assert (Hsel_gone : forall x, In x sel -> ~ In x fs').
      { intros x Hx Hin. apply Hfs' in Hin as [H1 H2]. apply H2. apply Hrem. tauto. }
      assert (E1 : subset fs' fs = true) by (apply subset_spec; intros x Hx; now apply Hfs' in Hx).
      rewrite E1. cbn [andb]. rewrite Hkeepers.
      rewrite (forallb_intro _ rest).
      2:{ intros x Hx. destruct (mem x fs) eqn:Hm; [|reflexivity]. apply mem_In. apply Hfs'. split; [now apply mem_In|].
          intros Hr. apply Hrem in Hr as [Hs _]. eapply NoDup_firstn_skipn_disjoint; eauto. }
      rewrite (forallb_intro _ hist).
      2:{ intros x Hx. rewrite Hh in Hx. apply in_app_or in Hx as [Hx|Hx].
          - assert (~ In x fs') by (intros Hin; apply Hfs' in Hin as [Hin _]; now apply (Hd x)).
            apply mem_false in H. rewrite H. now rewrite orb_true_r.
          - rewrite <- (firstn_skipn n (tracked k)) in Hx. apply in_app_or in Hx as [Hx|Hx].
            + apply Hsel_gone in Hx. apply mem_false in Hx. rewrite Hx. now rewrite orb_true_r.
            + apply mem_In in Hx. fold rest in Hx. now rewrite Hx. }
      rewrite (forallb_intro _ fs).
      2:{ intros x Hx. destruct (mem x fs') eqn:Hm; [now rewrite orb_true_r|]. rewrite orb_false_r. apply mem_In.
          apply mem_false in Hm. assert (Hr : In x removed).
          { destruct (in_dec Nat.eq_dec x removed); [assumption|]. exfalso. apply Hm. apply Hfs'. tauto. }
          apply Hrem in Hr as [Hs _]. rewrite Hh. apply in_or_app. right. eapply in_firstn. exact Hs. }
      cbn [andb]. apply IH; [assumption| |].
      * exists (dropped ++ sel). cbn [tracked max_keep]. repeat split.
        -- rewrite Hh, <- app_assoc. unfold sel. now rewrite firstn_skipn.
        -- intros x Hx. apply in_app_or in Hx as [Hx|Hx]; [intros Hin; apply Hfs' in Hin as [Hin _]; now apply (Hd x) | now apply Hsel_gone].
        -- intros _. unfold rest. rewrite skipn_length. unfold n. lia.
      * repeat split; try assumption. intros x Hx Hin. apply Hfs' in Hin as [Hin _]. now apply (Happ x).
  - (* somebody removes p *)
    cbn [appended ext_created] in *.
    assert (Hfs' : forall x, In x (remove_all [p] fs) <-> In x fs /\ x <> p).
    { intros x. rewrite in_remove_all. simpl. intuition. }
    rewrite (proj2 (subset_spec _ _)) by (intros x Hx; now apply Hfs' in Hx).
    rewrite (forallb_intro _ fs).
    2:{ intros x Hx. destruct (Nat.eqb_spec x p) as [->|Hne]; [reflexivity|]. cbn [orb]. apply mem_In. apply Hfs'. tauto. }
    assert (E : mem p (remove_all [p] fs) = false) by (apply mem_false; intros Hin; apply Hfs' in Hin; tauto).
    rewrite E. cbn [negb andb]. apply IH; [assumption| |].
    + exists dropped. repeat split; try assumption. intros x Hx Hin. apply Hfs' in Hin as [Hin _]. now apply (Hd x).
    + repeat split; try assumption. intros x Hx Hin. apply Hfs' in Hin as [Hin _]. now apply (Happ x).
  - (* somebody creates an unrelated entry p *)
    cbn [appended ext_created] in *.
    assert (Hp : ~ In p (hist ++ appended ops)) by (apply Hext; now left).
    set (fs' := if mem p fs then fs else fs ++ [p]).
    assert (Hfs' : forall x, In x fs' <-> In x fs \/ x = p).
    { intros x. unfold fs'. destruct (mem p fs) eqn:Hm.
      - apply mem_In in Hm. split; [tauto|]. intros [H| ->]; assumption.
      - split; [intros H; apply in_app_or in H as [H|[<-|[]]]; tauto | intros [H| ->]; apply in_or_app; [now left|right; now left]]. }
    rewrite (proj2 (subset_spec fs' (p :: fs))) by (intros x Hx; apply Hfs' in Hx as [Hx| ->]; [now right|now left]).
    rewrite (proj2 (subset_spec fs fs')) by (intros x Hx; apply Hfs'; now left).
    assert (E : mem p fs' = true) by (apply mem_In, Hfs'; now right). rewrite E. cbn [andb].
    apply IH; [assumption| |].
    + exists dropped. repeat split; try assumption. intros x Hx Hin. apply Hfs' in Hin as [Hin| ->]; [now apply (Hd x)|].
      apply Hp. rewrite Hh. apply in_or_app. left. apply in_or_app. now left.
    + repeat split; try assumption.
      * intros x Hx. apply Hext. now right.
      * intros x Hx Hin. apply Hfs' in Hin as [Hin| ->]; [now apply (Happ x)|]. apply Hp. apply in_or_app. now right.
Qed.

Definition valid (i : input) : Prop :=
  names_ok (sort_by (mtime_of i) (i_matching i)) (fs0 i) (i_ops i).

Theorem model_ok i : valid i -> prop_ok (i, model_obs i) = true.
Proof.
  intros Hv. unfold prop_ok, model_obs. cbn [fst snd]. apply krun_spec; [reflexivity| |exact Hv].
  exists []. cbn [kinit tracked max_keep app]. repeat split; [intros p []|congruence].
Qed.

(* the initial scan keeps exactly the matching entries *)
Lemma insert_by_In key x l y : In y (insert_by key x l) <-> y = x \/ In y l.
Proof.
  induction l as [|z l IH]; simpl; [intuition|]. destruct (Nat.leb (key x) (key z)); simpl; [intuition|].
  rewrite IH. intuition.
Qed.
Lemma sort_by_In key l y : In y (sort_by key l) <-> In y l.
Proof. induction l as [|x l IH]; simpl; [tauto|]. rewrite insert_by_In, IH. intuition. Qed.

(* non-vacuity *)
Definition nv_input : input :=
  {| i_mk := 2; i_matching := [1; 2; 3]; i_mtimes := [(1, 30); (2, 10); (3, 20)]; i_foreign := [90];
     i_ops := [KCleanup; KAppend 4 true; KAppend 5 true; KExtRemove 4; KExtCreate 91; KCleanup; KCleanup] |}.
Lemma nv_valid : valid nv_input.
Proof.
  unfold valid, names_ok. vm_compute. repeat split.
  - repeat constructor; simpl; intuition discriminate.
  - intros p [<-|[]]. intuition discriminate.
  - intros p [<-|[<-|[]]]; intuition discriminate.
Qed.
Lemma nv_run : model_obs nv_input =
  [([2], [1; 3; 90]); ([], [1; 3; 90; 4]); ([], [1; 3; 90; 4; 5]); ([], [1; 3; 90; 5]); ([], [1; 3; 90; 5; 91]); ([3; 1], [90; 5; 91]); ([], [90; 5; 91])].
Proof. vm_compute. reflexivity. Qed.
