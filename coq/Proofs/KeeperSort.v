(* C18: the start-up scan orders the states it found oldest first, and a cleanup leaves at
   most max_keep tracked states (the newest ones of everything the keeper ever knew). *)
From Coq Require Import List Bool Arith Lia Sorted Permutation.
From Pamiq Require Import Model.Buffers Model.Keeper Proofs.KeeperProofs.
Import ListNotations.

Section Sort.
Variable key : nat -> nat.
Definition older (a b : nat) : Prop := key a <= key b.

Lemma insert_by_perm x l : Permutation (insert_by key x l) (x :: l).
Proof.
  induction l as [|y l IH]; simpl; [apply Permutation_refl|].
  destruct (Nat.leb (key x) (key y)); [apply Permutation_refl|].
  eapply Permutation_trans; [apply perm_skip; exact IH|apply perm_swap].
Qed.

Lemma sort_by_perm l : Permutation (sort_by key l) l.
Proof.
  induction l as [|x l IH]; simpl; [constructor|].
  eapply Permutation_trans; [apply insert_by_perm|]. now apply perm_skip.
Qed.

Lemma insert_by_sorted x l : StronglySorted older l -> StronglySorted older (insert_by key x l).
Proof.
  induction l as [|y l IH]; simpl; intros Hs; [repeat constructor|].
  inversion Hs as [|? ? Hs' Hall]; subst.
  destruct (Nat.leb_spec (key x) (key y)) as [Hle|Hgt].
  - constructor; [exact Hs|]. constructor; [exact Hle|].
    rewrite Forall_forall in *. intros z Hz. unfold older in *. specialize (Hall z Hz). lia.
  - constructor; [now apply IH|].
    rewrite Forall_forall in *. intros z Hz. apply insert_by_In in Hz as [->|Hz]; [unfold older; lia|now apply Hall].
Qed.

Lemma sort_by_sorted l : StronglySorted older (sort_by key l).
Proof. induction l as [|x l IH]; simpl; [constructor|now apply insert_by_sorted]. Qed.

Lemma sort_by_NoDup l : NoDup l -> NoDup (sort_by key l).
Proof. intros H. eapply Permutation_NoDup; [apply Permutation_sym, sort_by_perm|exact H]. Qed.

Lemma sort_by_length l : length (sort_by key l) = length l.
Proof. apply Permutation_length, sort_by_perm. Qed.

(* with distinct modification times the order is the only possible one: position = age rank *)
Lemma sorted_unique l1 l2 :
  (forall a b, In a l1 -> In b l1 -> key a = key b -> a = b) ->
  Permutation l1 l2 -> StronglySorted older l1 -> StronglySorted older l2 -> l1 = l2.
Proof.
  revert l2. induction l1 as [|x l1 IH]; intros l2 Hinj Hp H1 H2.
  - apply Permutation_nil in Hp. now subst.
  - destruct l2 as [|y l2]; [apply Permutation_sym, Permutation_nil in Hp; discriminate|].
    inversion H1 as [|? ? H1' Hall1]; subst. inversion H2 as [|? ? H2' Hall2]; subst.
    assert (Hxy : x = y).
    { assert (Hx : In x (y :: l2)) by (eapply Permutation_in; [exact Hp|now left]).
      assert (Hy : In y (x :: l1)) by (eapply Permutation_in; [apply Permutation_sym; exact Hp|now left]).
      destruct Hx as [->|Hx]; [reflexivity|]. destruct Hy as [->|Hy]; [reflexivity|].
      rewrite Forall_forall in Hall1, Hall2. specialize (Hall1 y Hy). specialize (Hall2 x Hx). unfold older in *.
      apply Hinj; [now left|now right|lia]. }
    subst y. f_equal. apply IH; [intros a b Ha Hb; apply Hinj; now right| |assumption|assumption].
    eapply Permutation_cons_inv; exact Hp.
Qed.
End Sort.

Lemma sort_by_determined key l1 l2 :
  (forall a b, In a l1 -> In b l1 -> key a = key b -> a = b) ->
  Permutation l1 l2 -> sort_by key l1 = sort_by key l2.
Proof.
  intros Hinj Hp. apply (sorted_unique key).
  - intros a b Ha Hb. apply Hinj; now apply sort_by_In with (key := key).
  - eapply Permutation_trans; [apply sort_by_perm|]. eapply Permutation_trans; [exact Hp|]. apply Permutation_sym, sort_by_perm.
  - apply sort_by_sorted.
  - apply sort_by_sorted.
Qed.

Lemma In_firstn_tracked {A} : forall n (l : list A) x, In x (firstn n l) -> In x l.
Proof. intros n l x H. rewrite <- (firstn_skipn n l). apply in_or_app. now left. Qed.

(* a cleanup leaves at most max_keep tracked states; every other operation leaves the bound alone or adds one *)
Lemma cleanup_bound k fs : length (tracked (fst (fst (kstep k fs KCleanup)))) <= max_keep k.
Proof.
  cbn [kstep]. destruct (Nat.leb_spec (length (tracked k)) (max_keep k)) as [H|H]; cbn [fst tracked]; [exact H|].
  rewrite skipn_length. lia.
Qed.

Lemma cleanup_keeps_max_keep k fs : max_keep (fst (fst (kstep k fs KCleanup))) = max_keep k.
Proof. cbn [kstep]. destruct (Nat.leb (length (tracked k)) (max_keep k)); reflexivity. Qed.

(* what stays tracked after a cleanup is exactly the max_keep newest of what was tracked *)
Lemma cleanup_tracked k fs : tracked (fst (fst (kstep k fs KCleanup))) = lastn (max_keep k) (tracked k).
Proof.
  cbn [kstep]. unfold lastn. destruct (Nat.leb_spec (length (tracked k)) (max_keep k)) as [H|H]; cbn [fst tracked]; [|reflexivity].
  replace (length (tracked k) - max_keep k) with 0 by lia. reflexivity.
Qed.

(* and what a cleanup reports as removed are tracked states only, each of them existing before and gone afterwards *)
Lemma cleanup_removed k fs p :
  In p (snd (kstep k fs KCleanup)) ->
  In p (firstn (length (tracked k) - max_keep k) (tracked k)) /\ In p fs /\ ~ In p (snd (fst (kstep k fs KCleanup))).
Proof.
  cbn [kstep]. destruct (Nat.leb (length (tracked k)) (max_keep k)); cbn [fst snd]; [intros []|].
  intros H. apply filter_In in H as [H1 H2]. apply mem_In in H2. repeat split; try assumption.
  intros H3. apply in_remove_all in H3 as [_ H3]. apply H3. apply filter_In. split; [assumption|now apply mem_In].
Qed.

(* entries that are not tracked states are never touched by the keeper *)
Lemma keeper_touches_only_tracked k fs o p :
  ~ In p (tracked k) -> (forall q c, o = KAppend q c -> q <> p) -> (forall q, o = KExtRemove q -> q <> p) ->
  In p fs -> In p (snd (fst (kstep k fs o))).
Proof.
  intros Hnt Ha Hr Hin. destruct o as [q c| |q|q]; cbn [kstep fst snd].
  - destruct (c && negb (mem q fs)); [apply in_or_app; now left|assumption].
  - destruct (Nat.leb (length (tracked k)) (max_keep k)); cbn [fst snd]; [assumption|].
    apply in_remove_all. split; [assumption|]. intros H. apply filter_In in H as [H _]. apply Hnt.
    eapply In_firstn_tracked; exact H.
  - apply in_remove_all. split; [assumption|]. intros [H|[]]. now apply (Hr q eq_refl).
  - destruct (mem q fs); [assumption|apply in_or_app; now left].
Qed.
