(* One lock, many threads: every interleaving of lock-protected operations is a serial execution.

   This is the generic argument behind the "for every interleaving" part of C06 (TimeController: every public
   method runs under one lock) and C07 (DataCollector: collect and _move_data run under one lock), and it is
   what their line-level correspondence runs check on the real code: the shared state is touched only by the
   thread that holds the lock, and the observed result equals the model run on the operations in the order
   in which the lock was acquired.

   An operation is a list of micro-steps (functions on the shared state) executed between an acquire and a
   release.  A schedule picks, at every step, the thread that moves; a thread that does not hold the lock can
   only acquire it (when free); the holder executes its next micro-step or releases.  Whatever the schedule,
   the final shared state is the one obtained by running the completed operations one after the other in
   acquisition order. *)
From Coq Require Import List Arith Bool Lia.
Import ListNotations.

Section LockSerial.
Variable Sh : Type.                       (* shared state *)
Definition micro := Sh -> Sh.
Definition op := list micro.             (* the micro-steps of one lock-protected operation *)

Definition run_op (o : op) (s : Sh) : Sh := fold_left (fun s f => f s) o s.
Definition run_ops (os : list op) (s : Sh) : Sh := fold_left (fun s o => run_op o s) os s.

(* thread-local state: the operations still to do; inside the lock: the micro-steps left of the current one *)
Record th := { todo : list op; cur : option (list micro) }.

Record st := {
  sh : Sh;
  ths : list th;
  holder : option nat;
  done : list op             (* operations in the order of their acquisition (completed or in progress) *)
}.

Fixpoint set_nth {A} (l : list A) (i : nat) (x : A) : list A :=
  match l, i with
  | [], _ => []
  | _ :: r, O => x :: r
  | y :: r, S i' => y :: set_nth r i' x
  end.

(* thread i moves *)
Definition step (s : st) (i : nat) : option st :=
  match nth_error (ths s) i with
  | None => None
  | Some t =>
      match cur t, holder s with
      | None, None =>                                   (* acquire, if it has something to do *)
          match todo t with
          | [] => None
          | o :: r => Some {| sh := sh s; ths := set_nth (ths s) i {| todo := r; cur := Some o |};
                              holder := Some i; done := done s ++ [o] |}
          end
      | None, Some _ => None                            (* blocked *)
      | Some ms, Some h =>
          if Nat.eqb h i then
            match ms with
            | [] => Some {| sh := sh s; ths := set_nth (ths s) i {| todo := todo t; cur := None |};
                            holder := None; done := done s |}          (* release *)
            | f :: r => Some {| sh := f (sh s); ths := set_nth (ths s) i {| todo := todo t; cur := Some r |};
                                holder := holder s; done := done s |}  (* one micro-step *)
            end
          else None
      | Some _, None => None
      end
  end.

Fixpoint run (s : st) (sched : list nat) : option st :=
  match sched with
  | [] => Some s
  | i :: r => match step s i with Some s' => run s' r | None => None end
  end.

Definition init (s0 : Sh) (progs : list (list op)) : st :=
  {| sh := s0; ths := map (fun p => {| todo := p; cur := None |}) progs; holder := None; done := [] |}.

(* the invariant: the shared state is the serial run of the acquired operations, minus what the holder still has to do *)
Definition pending (s : st) : list micro :=
  match holder s with
  | Some h => match nth_error (ths s) h with Some t => match cur t with Some ms => ms | None => [] end | None => [] end
  | None => []
  end.

Definition Inv (s0 : Sh) (s : st) : Prop :=
  run_op (pending s) (sh s) = run_ops (done s) s0 /\
  (forall i t, nth_error (ths s) i = Some t -> cur t <> None -> holder s = Some i) /\
  (forall h, holder s = Some h -> exists t ms, nth_error (ths s) h = Some t /\ cur t = Some ms).

Lemma nth_set_nth_same {A} : forall (l : list A) i x, i < length l -> nth_error (set_nth l i x) i = Some x.
Proof. induction l as [|y l IH]; intros [|i] x H; cbn in *; try lia; [reflexivity|apply IH; lia]. Qed.
Lemma nth_set_nth_other {A} : forall (l : list A) i j x, i <> j -> nth_error (set_nth l i x) j = nth_error l j.
Proof. induction l as [|y l IH]; intros [|i] [|j] x H; cbn; try reflexivity; try congruence. apply IH. congruence. Qed.
Lemma nth_error_lt {A} (l : list A) i x : nth_error l i = Some x -> i < length l.
Proof. intros H. apply nth_error_Some. congruence. Qed.

Lemma run_ops_app os o s : run_ops (os ++ [o]) s = run_op o (run_ops os s).
Proof. unfold run_ops. rewrite fold_left_app. reflexivity. Qed.

Lemma inv_init s0 progs : Inv s0 (init s0 progs).
Proof.
  unfold Inv, init, pending; cbn. split; [reflexivity|split].
  - intros i t H C. exfalso. apply C. rewrite nth_error_map in H. destruct (nth_error progs i); inversion H; reflexivity.
  - intros h H. discriminate.
Qed.

Lemma inv_step s0 s i s' : Inv s0 s -> step s i = Some s' -> Inv s0 s'.
Proof.
  intros (I1 & I2 & I3) H. unfold step in H.
  destruct (nth_error (ths s) i) as [t|] eqn:Ht; [|discriminate].
  pose proof (nth_error_lt _ _ _ Ht) as Li.
  destruct (cur t) as [ms|] eqn:Hc; destruct (holder s) as [h|] eqn:Hh; try discriminate.
  - destruct (Nat.eqb_spec h i) as [->|Ne]; [|discriminate].
    assert (P : pending s = ms) by (unfold pending; rewrite Hh, Ht, Hc; reflexivity).
    destruct ms as [|f r]; inversion H; subst; clear H; unfold Inv, pending; cbn.
    + (* release *) rewrite P in I1. cbn in I1. split; [exact I1|split].
      * intros j t' Hj C. destruct (Nat.eq_dec i j) as [<-|Nij].
        -- rewrite nth_set_nth_same in Hj by exact Li. inversion Hj; subst. cbn in C. congruence.
        -- rewrite nth_set_nth_other in Hj by exact Nij. specialize (I2 j t' Hj C). congruence.
      * intros h' X. discriminate.
    + (* micro-step *) rewrite nth_set_nth_same by exact Li. cbn. rewrite P in I1. cbn in I1. split; [exact I1|split].
      * intros j t' Hj C. destruct (Nat.eq_dec i j) as [<-|Nij]; [reflexivity|].
        rewrite nth_set_nth_other in Hj by exact Nij. apply (I2 j t' Hj C).
      * intros h' X. inversion X; subst. rewrite nth_set_nth_same by exact Li. eexists _, _. split; reflexivity.
  - (* acquire *)
    destruct (todo t) as [|o r] eqn:Hd; [discriminate|]. inversion H; subst; clear H. unfold Inv, pending; cbn.
    rewrite nth_set_nth_same by exact Li. cbn.
    assert (P : pending s = []) by (unfold pending; rewrite Hh; reflexivity).
    rewrite P in I1. cbn in I1. rewrite run_ops_app, <- I1. split; [reflexivity|split].
    + intros j t' Hj C. destruct (Nat.eq_dec i j) as [<-|Nij]; [reflexivity|].
      rewrite nth_set_nth_other in Hj by exact Nij. specialize (I2 j t' Hj C). congruence.
    + intros h' X. inversion X; subst. rewrite nth_set_nth_same by exact Li. eexists _, _. split; reflexivity.
Qed.

Lemma inv_run s0 : forall sched s s', Inv s0 s -> run s sched = Some s' -> Inv s0 s'.
Proof.
  induction sched as [|i r IH]; intros s s' HI H; [inversion H; subst; exact HI|].
  cbn in H. destruct (step s i) as [s1|] eqn:E; [|discriminate]. apply (IH s1 s'); [eapply inv_step; eassumption|exact H].
Qed.

(* Every schedule: whenever the lock is free, the shared state is exactly the serial run, in acquisition order, of
   the operations executed so far. *)
Theorem every_interleaving_is_serial s0 progs sched s :
  run (init s0 progs) sched = Some s -> holder s = None -> sh s = run_ops (done s) s0.
Proof.
  intros H Hf. destruct (inv_run s0 sched _ _ (inv_init s0 progs) H) as (I1 & _).
  unfold pending in I1. rewrite Hf in I1. exact I1.
Qed.

(* ... and nobody but the holder touches the shared state *)
Theorem only_the_holder_writes s i s' : step s i = Some s' -> sh s' <> sh s -> holder s = Some i.
Proof.
  unfold step. intros H N. destruct (nth_error (ths s) i) as [t|]; [|discriminate].
  destruct (cur t) as [ms|]; destruct (holder s) as [h|]; try discriminate.
  - destruct (Nat.eqb_spec h i) as [E|]; [subst; reflexivity|discriminate].
  - destruct (todo t); [discriminate|]. inversion H; subst. cbn in N. congruence.
Qed.

End LockSerial.
