From Coq Require Import List Bool Arith Lia.
From Pamiq Require Import Model.Models.
Import ListNotations.

(* inference reflects the training side: the invariant *)
Definition fresh (m : mdl) : Prop := need_sync m = true -> iver m = tver m.

Lemma sync_fresh m : fresh (sync m).
Proof. unfold fresh, sync. destruct (need_sync m) eqn:E; simpl; [reflexivity|congruence]. Qed.
Lemma sync_flags m : has_inf (sync m) = has_inf m /\ inf_only (sync m) = inf_only m /\ tver (sync m) = tver m.
Proof. unfold sync. destruct (need_sync m); simpl; auto. Qed.
Lemma sync_keeps_fresh m : fresh m -> fresh (sync m).
Proof. intros _. apply sync_fresh. Qed.

Lemma map_at_length {A} (f : A -> A) i l : length (map_at f i l) = length l.
Proof. revert i; induction l as [|x l IH]; intros [|i]; simpl; auto. Qed.

Lemma map_at_nth {A} (f : A -> A) i l j :
  nth_error (map_at f i l) j = if Nat.eqb i j then option_map f (nth_error l j) else nth_error l j.
Proof.
  revert i j; induction l as [|x l IH]; intros [|i] [|j]; simpl; auto;
    try (destruct (Nat.eqb i j); reflexivity).
Qed.

Definition all_fresh (ms : list mdl) : Prop := Forall fresh ms.

(* after load_state every model that needs it has been synchronised *)
Lemma load_fresh vs ms : all_fresh (map sync (zip_with setv vs ms)).
Proof. apply Forall_forall. intros m Hm. apply in_map_iff in Hm as (m0 & <- & _). apply sync_fresh. Qed.

(* a trainer run: every model it changed is synchronised again, the others are untouched *)
Lemma fold_map_at_other {A} (f : A -> A) : forall got l j, ~ In j got ->
  nth_error (fold_left (fun acc n => map_at f n acc) got l) j = nth_error l j.
Proof.
  induction got as [|n got IH]; intros l j Hj; simpl; [reflexivity|].
  rewrite IH by (intros H; apply Hj; now right). rewrite map_at_nth.
  destruct (Nat.eqb_spec n j) as [->|Hne]; [exfalso; apply Hj; now left|reflexivity].
Qed.

Lemma fold_map_at_in {A} (f : A -> A) : forall got l j, NoDup got -> In j got ->
  nth_error (fold_left (fun acc n => map_at f n acc) got l) j = option_map f (nth_error l j).
Proof.
  induction got as [|n got IH]; intros l j Hnd Hj; simpl; [contradiction|].
  inversion Hnd as [|? ? Hnin Hnd']; subst. destruct Hj as [->|Hj].
  - rewrite fold_map_at_other by assumption. rewrite map_at_nth, Nat.eqb_refl. reflexivity.
  - rewrite IH by assumption. rewrite map_at_nth.
    destruct (Nat.eqb_spec n j) as [->|Hne]; [contradiction|reflexivity].
Qed.

Lemma retrieved_nodup ms reqs : NoDup (retrieved ms reqs).
Proof. unfold retrieved. apply NoDup_filter. apply NoDup_nodup. Qed.

Lemma bump_fresh_after_sync m : fresh (sync (bump m)).
Proof. apply sync_fresh. Qed.

Theorem run_keeps_fresh ms reqs : all_fresh ms -> all_fresh (fst (mstep ms (MRun reqs))).
Proof.
  intros Hf. cbn [mstep fst]. set (got := retrieved ms reqs).
  pose proof (retrieved_nodup ms reqs) as Hnd. fold got in Hnd.
  apply Forall_forall. intros m Hm. apply In_nth_error in Hm as [j Hj].
  destruct (in_dec Nat.eq_dec j got) as [Hin|Hnin].
  - rewrite fold_map_at_in in Hj by assumption. rewrite fold_map_at_in in Hj by assumption.
    destruct (nth_error ms j) as [m0|]; simpl in Hj; [|discriminate]. inversion Hj; subst. apply sync_fresh.
  - rewrite fold_map_at_other in Hj by assumption. rewrite fold_map_at_other in Hj by assumption.
    unfold all_fresh in Hf. rewrite Forall_forall in Hf. apply Hf. eapply nth_error_In; eauto.
Qed.

Theorem load_makes_fresh ms vs : all_fresh (fst (mstep ms (MLoad vs))).
Proof. cbn [mstep fst]. apply load_fresh. Qed.

Lemma init_fresh flags : all_fresh (minit flags).
Proof. apply Forall_forall. intros m Hm. apply in_map_iff in Hm as (f & <- & _). intros _. reflexivity. Qed.

(* for every set of models, every history of trainer runs and loads: what the agent sees through an
   inference model is always the current training-side version *)
Fixpoint final (ms : list mdl) (ops : list mop) : list mdl :=
  match ops with [] => ms | o :: r => final (fst (mstep ms o)) r end.

Theorem always_fresh flags ops : all_fresh (final (minit flags) ops).
Proof.
  assert (G : forall ops ms, all_fresh ms -> all_fresh (final ms ops)).
  { induction ops0 as [|o r IH]; intros ms H; simpl; [assumption|]. apply IH.
    destruct o; [now apply run_keeps_fresh|apply load_makes_fresh]. }
  apply G, init_fresh.
Qed.

Theorem visible_is_latest m : fresh m -> has_inf m = true -> visible m = Some (tver m).
Proof.
  unfold fresh, visible, need_sync. intros Hf Hh. rewrite Hh in *. simpl in *.
  destruct (inf_only m); simpl in *; [reflexivity|]. now rewrite Hf.
Qed.

(* the two views *)
Theorem views hi io : ctor_ok hi io = true ->
  let m := {| has_inf := hi; inf_only := io; tver := 0; iver := 0 |} in
  (agent_can_get m = true <-> hi = true) /\ (trainer_can_get m = true <-> io = false) /\
  (need_sync m = true -> agent_can_get m = true /\ trainer_can_get m = true).
Proof. destruct hi, io; simpl; intros H; try discriminate; repeat split; intros; try congruence; try discriminate; auto. Qed.

(* only what was retrieved (and may be retrieved) is synchronised by a run *)
Theorem synced_subset ms reqs n :
  In n (fst (snd (mstep ms (MRun reqs)))) ->
  In n reqs /\ exists m, nth_error ms n = Some m /\ need_sync m = true.
Proof.
  cbn [mstep fst snd]. intros H. apply filter_In in H as [H1 H2].
  unfold retrieved in H1. apply filter_In in H1 as [H1 _]. apply nodup_In in H1. split; [assumption|].
  destruct (nth_error ms n) as [m|]; [exists m; auto|discriminate].
Qed.

Definition nv_flags := [(true, false); (true, true); (false, false); (true, false)].
Lemma nv_run : mrun (minit nv_flags) [MRun [0; 1; 2; 7; 0]; MRun [3]; MLoad [5; 6; 7; 8]; MRun [2; 3]] =
  [([0], [Some 1; Some 0; None; Some 0]); ([3], [Some 1; Some 0; None; Some 1]);
   ([0; 3], [Some 5; Some 6; None; Some 8]); ([3], [Some 5; Some 6; None; Some 9])].
Proof. vm_compute. reflexivity. Qed.

(* ---------- the oracle of Check/C14.v holds on every run of the model ---------- *)
From Pamiq Require Import Check.C14.

Definition flags_of (ms : list mdl) : list (bool * bool) := map (fun m => (has_inf m, inf_only m)) ms.

Lemma nat_list_eqb_refl l : nat_list_eqb l l = true.
Proof.
  unfold nat_list_eqb. rewrite Nat.eqb_refl. cbn [andb].
  assert (H : forallb (fun x => existsb (Nat.eqb x) l) l = true).
  { apply forallb_forall. intros x Hx. apply existsb_exists. exists x. split; [assumption|apply Nat.eqb_refl]. }
  now rewrite H.
Qed.
Lemma opts_eqb_refl l : opts_eqb l l = true.
Proof. induction l as [|[x|] l IH]; simpl; rewrite ?Nat.eqb_refl; auto. Qed.
Lemma bools_eqb_refl l : bools_eqb l l = true.
Proof. induction l as [|x l IH]; simpl; rewrite ?eqb_reflx; auto. Qed.

Lemma flags_map_at f i ms : (forall m, has_inf (f m) = has_inf m /\ inf_only (f m) = inf_only m) ->
  flags_of (map_at f i ms) = flags_of ms.
Proof.
  intros Hf. revert i; induction ms as [|m ms IH]; intros [|i]; simpl; auto.
  - destruct (Hf m) as [-> ->]. reflexivity.
  - now rewrite IH.
Qed.
Lemma flags_fold f got : (forall m, has_inf (f m) = has_inf m /\ inf_only (f m) = inf_only m) ->
  forall ms, flags_of (fold_left (fun acc n => map_at f n acc) got ms) = flags_of ms.
Proof. intros Hf. induction got as [|n got IH]; intros ms; simpl; [reflexivity|]. now rewrite IH, flags_map_at. Qed.

Lemma tver_map_at_bump i ms : map tver (map_at bump i ms) = map_at S i (map tver ms).
Proof. revert i; induction ms as [|m ms IH]; intros [|i]; simpl; auto. now rewrite IH. Qed.
Lemma tver_map_at_sync i ms : map tver (map_at sync i ms) = map tver ms.
Proof.
  revert i; induction ms as [|m ms IH]; intros [|i]; simpl; auto.
  - destruct (sync_flags m) as (_ & _ & ->). reflexivity.
  - now rewrite IH.
Qed.
Lemma tver_fold_bump got : forall ms,
  map tver (fold_left (fun acc n => map_at bump n acc) got ms) = fold_left (fun acc n => map_at S n acc) got (map tver ms).
Proof. induction got as [|n got IH]; intros ms; simpl; [reflexivity|]. now rewrite IH, tver_map_at_bump. Qed.
Lemma tver_fold_sync got : forall ms,
  map tver (fold_left (fun acc n => map_at sync n acc) got ms) = map tver ms.
Proof. induction got as [|n got IH]; intros ms; simpl; [reflexivity|]. now rewrite IH, tver_map_at_sync. Qed.

Lemma bump_flags m : has_inf (bump m) = has_inf m /\ inf_only (bump m) = inf_only m. Proof. split; reflexivity. Qed.
Lemma sync_flags2 m : has_inf (sync m) = has_inf m /\ inf_only (sync m) = inf_only m.
Proof. destruct (sync_flags m) as (A & B & _). auto. Qed.

Lemma nth_flags ms n : nth_error (flags_of ms) n = option_map (fun m => (has_inf m, inf_only m)) (nth_error ms n).
Proof. unfold flags_of. apply nth_error_map. Qed.

Lemma got_same ms reqs : got_of (flags_of ms) reqs = retrieved ms reqs.
Proof.
  unfold got_of, retrieved. apply filter_ext. intros n. rewrite nth_flags.
  destruct (nth_error ms n); reflexivity.
Qed.

Lemma filter_need ms l :
  filter (fun n => match nth_error (flags_of ms) n with Some f => f_need_sync f | None => false end) l =
  filter (fun n => match nth_error ms n with Some m => need_sync m | None => false end) l.
Proof. apply filter_ext. intros n. rewrite nth_flags. destruct (nth_error ms n); reflexivity. Qed.

Lemma visible_fresh ms : all_fresh ms ->
  map visible ms = map (fun ft : (bool * bool) * nat => if fst (fst ft) then Some (snd ft) else None) (combine (flags_of ms) (map tver ms)).
Proof.
  induction ms as [|m ms IH]; intros H; [reflexivity|]. inversion H as [|? ? Hm Hr]; subst.
  cbn [map flags_of combine fst snd]. f_equal; [|now apply IH].
  unfold visible. destruct (has_inf m) eqn:Hh; [|reflexivity].
  rewrite (visible_is_latest m Hm Hh) || idtac. unfold visible in *.
  pose proof (visible_is_latest m Hm Hh) as V. unfold visible in V. rewrite Hh in V. exact V.
Qed.

Lemma zip_setv_flags vs : forall ms, flags_of (zip_with setv vs ms) = flags_of ms.
Proof. induction vs as [|v vs IH]; intros [|m ms]; simpl; auto. now rewrite IH. Qed.
Lemma zip_setv_tver vs : forall ms, map tver (zip_with setv vs ms) = zip_with (fun (v _ : nat) => v) vs (map tver ms).
Proof. induction vs as [|v vs IH]; intros [|m ms]; simpl; auto. now rewrite IH. Qed.
Lemma map_sync_flags ms : flags_of (map sync ms) = flags_of ms.
Proof. induction ms as [|m ms IH]; simpl; [reflexivity|]. destruct (sync_flags2 m) as [-> ->]. now rewrite IH. Qed.
Lemma map_sync_tver ms : map tver (map sync ms) = map tver ms.
Proof. induction ms as [|m ms IH]; simpl; [reflexivity|]. destruct (sync_flags m) as (_ & _ & ->). now rewrite IH. Qed.

Lemma mrun_spec : forall ops ms, all_fresh ms ->
  ospec (flags_of ms) (map tver ms) ops (map (fun y => (fst y, snd y, true)) (mrun ms ops)) = true.
Proof.
  induction ops as [|o ops IH]; intros ms Hf; [reflexivity|].
  cbn [mrun]. destruct (mstep ms o) as [ms' y] eqn:E. cbn [map ospec fst snd].
  destruct o as [reqs|vs]; cbn [mstep] in E; inversion E; subst ms' y; clear E; cbn [fst snd].
  - rewrite got_same, filter_need, nat_list_eqb_refl. cbn [andb].
    set (got := retrieved ms reqs).
    set (ms2 := fold_left (fun acc n => map_at sync n acc) got (fold_left (fun acc n => map_at bump n acc) got ms)).
    assert (Hfl : flags_of ms2 = flags_of ms).
    { unfold ms2. rewrite (flags_fold sync got sync_flags2), (flags_fold bump got bump_flags). reflexivity. }
    assert (Htv : map tver ms2 = fold_left (fun acc n => map_at S n acc) got (map tver ms)).
    { unfold ms2. rewrite tver_fold_sync, tver_fold_bump. reflexivity. }
    assert (Hfr : all_fresh ms2) by (apply (run_keeps_fresh ms reqs Hf)).
    rewrite (visible_fresh ms2 Hfr), Hfl, Htv, opts_eqb_refl. cbn [andb].
    rewrite <- Htv, <- Hfl. apply IH. assumption.
  - rewrite filter_need. replace (length (flags_of ms)) with (length ms) by (unfold flags_of; now rewrite map_length).
    rewrite nat_list_eqb_refl. cbn [andb].
    set (ms2 := map sync (zip_with setv vs ms)).
    assert (Hfl : flags_of ms2 = flags_of ms) by (unfold ms2; now rewrite map_sync_flags, zip_setv_flags).
    assert (Htv : map tver ms2 = zip_with (fun (v _ : nat) => v) vs (map tver ms)) by (unfold ms2; now rewrite map_sync_tver, zip_setv_tver).
    assert (Hfr : all_fresh ms2) by apply load_fresh.
    rewrite (visible_fresh ms2 Hfr), Hfl, Htv, opts_eqb_refl. cbn [andb].
    rewrite <- Htv, <- Hfl. apply IH. assumption.
Qed.

Lemma flags_minit flags : flags_of (minit flags) = flags.
Proof. unfold flags_of, minit. rewrite map_map. simpl. rewrite <- (map_id flags) at 2. apply map_ext. intros [a b]; reflexivity. Qed.

Theorem model_ok i : prop_ok (i, model_observed i) = true.
Proof.
  unfold prop_ok, oracle, model_observed. cbn [fst snd o_agent_view o_trainer_view o_ops].
  assert (E1 : map agent_can_get (minit (i_flags i)) = map fst (i_flags i)).
  { unfold minit. rewrite map_map. reflexivity. }
  assert (E2 : map trainer_can_get (minit (i_flags i)) = map f_trainer_can (i_flags i)).
  { unfold minit. rewrite map_map. reflexivity. }
  rewrite E1, E2, !bools_eqb_refl. cbn [andb].
  pose proof (mrun_spec (i_ops i) (minit (i_flags i)) (init_fresh _)) as H.
  rewrite flags_minit in H. unfold minit in H at 1. rewrite map_map in H. cbn [tver] in H. exact H.
Qed.
