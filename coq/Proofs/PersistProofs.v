(* C10: a crash while saving never damages older states nor yields a loadable torn one - for every operation
   list of the shape [ops_wf] (in particular every layout with the clock file last), every crash point and
   every truncation of the file being written. *)
From Coq Require Import List Bool Arith Lia.
From Pamiq Require Import Model.Persist.
Import ListNotations.

Lemma path_eqb_eq a b : path_eqb a b = true <-> a = b.
Proof. unfold path_eqb. destruct (list_eq_dec Nat.eq_dec a b); split; congruence. Qed.
Lemma path_eqb_refl a : path_eqb a a = true.
Proof. apply path_eqb_eq. reflexivity. Qed.

Lemma under_app root p : under root (root ++ p) = true.
Proof. induction root as [|r root IH]; [reflexivity|]. cbn. rewrite Nat.eqb_refl. exact IH. Qed.

Lemma In_firstn {A} : forall k (l : list A) x, In x (firstn k l) -> In x l.
Proof. induction k as [|k IH]; intros [|y l] x H; cbn in *; try contradiction. destruct H as [->|H]; [left; reflexivity|right; apply IH; exact H]. Qed.

(* ---------- older states ---------- *)
Lemma lookup_apply_other f o p : op_path o <> p -> lookup (apply f o) p = lookup f p.
Proof.
  intros H. destruct o; cbn in *; destruct (path_eqb _ p) eqn:E; try reflexivity; apply path_eqb_eq in E; congruence.
Qed.

Lemma lookup_apply_all_other : forall ops f p, (forall o, In o ops -> op_path o <> p) ->
  lookup (apply_all f ops) p = lookup f p.
Proof.
  induction ops as [|o ops IH]; intros f p H; [reflexivity|].
  cbn [apply_all fold_left]. fold (apply_all (apply f o) ops).
  rewrite IH; [apply lookup_apply_other; apply H; left; reflexivity|intros o' Ho'; apply H; right; exact Ho'].
Qed.

Lemma wf_all_under root ops : ops_wf root ops = true -> forall o, In o ops -> under root (op_path o) = true.
Proof.
  unfold ops_wf. destruct ops as [|[r|? ?] rest]; try discriminate.
  intros H. apply andb_true_iff in H as [H _]. apply andb_true_iff in H as [Hr Hu].
  apply path_eqb_eq in Hr. subst r. intros o [<-|Ho].
  - cbn. rewrite <- (app_nil_r root) at 2. apply under_app.
  - rewrite forallb_forall in Hu. apply Hu. exact Ho.
Qed.

Theorem old_states_intact root ops f k j p : ops_wf root ops = true -> under root p = false ->
  lookup (crash f ops k j) p = lookup f p.
Proof.
  intros W U. pose proof (wf_all_under root ops W) as A.
  assert (N : forall o, In o ops -> op_path o <> p).
  { intros o Ho E. rewrite <- E in U. rewrite (A o Ho) in U. discriminate. }
  assert (P : lookup (apply_all f (firstn k ops)) p = lookup f p).
  { apply lookup_apply_all_other. intros o Ho. apply N. eapply In_firstn; exact Ho. }
  unfold crash. destruct j as [b|]; [|exact P].
  destruct (nth_error ops k) as [[q|q n]|] eqn:E; try exact P.
  cbn [lookup]. destruct (path_eqb q p) eqn:Eq; [|exact P].
  apply path_eqb_eq in Eq. exfalso. apply (N (FWrite q n)); [eapply nth_error_In; exact E|exact Eq].
Qed.

(* ---------- torn states ---------- *)
(* decomposition of a well-formed save *)
Lemma wf_shape root ops : ops_wf root ops = true ->
  exists before n, ops = FMkdir root :: before ++ [FWrite (time_path root) n] /\ 0 < n /\
    forall o, In o (FMkdir root :: before) -> op_path o <> time_path root.
Proof.
  unfold ops_wf. destruct ops as [|[r|? ?] rest]; try discriminate.
  intros H. apply andb_true_iff in H as [H H3]. apply andb_true_iff in H as [Hr _].
  apply path_eqb_eq in Hr. subst r.
  destruct (rev rest) as [|[q|q n] bef] eqn:Er; try discriminate.
  apply andb_true_iff in H3 as [H3 Hb]. apply andb_true_iff in H3 as [Hq Hn].
  apply path_eqb_eq in Hq. subst q. apply Nat.ltb_lt in Hn.
  exists (rev bef), n. split; [|split; [exact Hn|]].
  - f_equal. rewrite <- (rev_involutive rest), Er. reflexivity.
  - intros o [<-|Ho] E.
    + cbn in E. unfold time_path in E. assert (L : length root = length (root ++ [n_time])) by (rewrite <- E; reflexivity).
      rewrite app_length in L. cbn in L. lia.
    + rewrite forallb_forall in Hb. apply in_rev in Ho. specialize (Hb o Ho).
      apply negb_true_iff in Hb. apply path_eqb_eq in E. congruence.
Qed.

Lemma firstn_all_app {A} (l : list A) x k : k <= length l -> firstn k (l ++ [x]) = firstn k l.
Proof. intros H. rewrite firstn_app. replace (k - length l) with 0 by lia. cbn. apply app_nil_r. Qed.

Theorem torn_state_rejected root ops f k j others :
  ops_wf root ops = true -> lookup f (time_path root) = None ->
  complete ops k j = false -> store_load others (crash f ops k j) root = false.
Proof.
  intros W F C. unfold store_load. apply andb_false_iff. right.
  destruct (wf_shape root ops W) as (bef & n & -> & Hn & Hb).
  set (pre := FMkdir root :: bef) in *.
  change (FMkdir root :: bef ++ [FWrite (time_path root) n]) with (pre ++ [FWrite (time_path root) n]) in *.
  unfold complete in C. apply orb_false_iff in C as [C1 C2]. apply Nat.leb_gt in C1.
  rewrite app_length in C1, C2. cbn [length] in C1, C2.
  assert (Hk : k <= length pre) by lia.
  assert (P : lookup (apply_all f (firstn k (pre ++ [FWrite (time_path root) n]))) (time_path root) = None).
  { rewrite firstn_all_app by exact Hk. rewrite lookup_apply_all_other; [exact F|].
    intros o Ho. apply Hb. eapply In_firstn; exact Ho. }
  unfold time_loadable, crash.
  destruct j as [b|]; [|rewrite P; reflexivity].
  destruct (nth_error (pre ++ [FWrite (time_path root) n]) k) as [[q|q m]|] eqn:E; try (rewrite P; reflexivity).
  cbn [lookup]. destruct (path_eqb q (time_path root)) eqn:Eq; [|rewrite P; reflexivity].
  (* the file being written is the clock file: then k is the last operation and fewer than n bytes arrived *)
  apply path_eqb_eq in Eq. subst q.
  assert (Hk2 : k = length pre).
  { destruct (Nat.eq_dec k (length pre)) as [e|ne]; [exact e|]. exfalso.
    rewrite nth_error_app1 in E by lia. apply nth_error_In in E. apply (Hb _ E). reflexivity. }
  subst k. rewrite nth_error_app2 in E by lia. rewrite Nat.sub_diag in E. cbn in E. inversion E; subst m.
  replace (S (length pre) =? length pre + 1) with true in C2 by (symmetry; apply Nat.eqb_eq; lia).
  cbn [andb] in C2. apply Nat.leb_gt in C2.
  apply Nat.eqb_neq. lia.
Qed.

Theorem complete_state_accepted root ops f :
  ops_wf root ops = true -> time_loadable (apply_all f ops) root = true.
Proof.
  intros W. destruct (wf_shape root ops W) as (bef & n & -> & Hn & Hb).
  change (FMkdir root :: bef ++ [FWrite (time_path root) n]) with ((FMkdir root :: bef) ++ [FWrite (time_path root) n]).
  unfold apply_all. rewrite fold_left_app. cbn [fold_left apply]. unfold time_loadable. cbn [lookup].
  rewrite path_eqb_refl. apply Nat.eqb_refl.
Qed.

(* ---------- layouts generate well-formed saves ---------- *)
Fixpoint lay_ind' (P : lay -> Prop) (Hf : forall n, P (LFile n))
  (Hd : forall cs, Forall (fun c : nat * lay => P (snd c)) cs -> P (LDir cs)) (l : lay) : P l :=
  match l with
  | LFile n => Hf n
  | LDir cs =>
      Hd cs ((fix go (cs : list (nat * lay)) : Forall (fun c : nat * lay => P (snd c)) cs :=
                match cs with
                | [] => Forall_nil _
                | c :: r => Forall_cons c (lay_ind' P Hf Hd (snd c)) (go r)
                end) cs)
  end.

(* every operation of a layout saved at [p] stays below [p] *)
Lemma lay_ops_below : forall l p o, In o (lay_ops l p) -> exists s, op_path o = p ++ s.
Proof.
  induction l as [n|cs IH] using lay_ind'; intros p o Ho.
  - destruct Ho as [<-|[]]. exists []. cbn. symmetry. apply app_nil_r.
  - cbn [lay_ops] in Ho. destruct Ho as [<-|Ho]; [exists []; cbn; symmetry; apply app_nil_r|].
    apply in_flat_map in Ho as (c & Hc & Ho). rewrite Forall_forall in IH.
    destruct (IH c Hc _ _ Ho) as (s & E). exists (fst c :: s). rewrite E, <- app_assoc. reflexivity.
Qed.

Theorem state_ops_wf root comps tlen :
  0 < tlen -> (forall c, In c comps -> fst c <> n_time) -> ops_wf root (state_ops root comps tlen) = true.
Proof.
  intros Ht Hn. unfold state_ops. cbn [lay_ops]. unfold ops_wf.
  rewrite path_eqb_refl. cbn [andb].
  rewrite flat_map_app. cbn [flat_map lay_ops snd fst]. rewrite app_nil_r.
  set (body := flat_map (fun c : nat * lay => lay_ops (snd c) (root ++ [fst c])) comps).
  assert (B : forall o, In o body -> exists c s, In c comps /\ op_path o = root ++ fst c :: s).
  { intros o Ho. unfold body in Ho. apply in_flat_map in Ho as (c & Hc & Ho).
    destruct (lay_ops_below _ _ _ Ho) as (s & E). exists c, s. split; [exact Hc|]. rewrite E, <- app_assoc. reflexivity. }
  apply andb_true_iff. split.
  - apply forallb_forall. intros o Ho. apply in_app_or in Ho as [Ho|[<-|[]]].
    + destruct (B o Ho) as (c & s & _ & ->). apply under_app.
    + cbn. apply under_app.
  - rewrite rev_app_distr. cbn [rev app]. rewrite path_eqb_refl. cbn [andb].
    apply andb_true_iff. split; [apply Nat.ltb_lt; exact Ht|].
    apply forallb_forall. intros o Ho. apply in_rev in Ho. apply negb_true_iff.
    destruct (path_eqb (op_path o) (time_path root)) eqn:E; [|reflexivity]. exfalso. apply path_eqb_eq in E.
    destruct (B o Ho) as (c & s & Hc & P). rewrite E in P. unfold time_path in P.
    apply app_inv_head in P. inversion P as [[P1 P2]]. apply (Hn c Hc). symmetry. exact P1.
Qed.

(* ---------- what the property rests on: the clock file is written last ---------- *)
(* with the clock registered FIRST and a later component whose loader does not look at its files, a torn
   state is accepted *)
Example needs_time_last :
  let root := [7] in
  let ops := [FMkdir root; FWrite (time_path root) 10; FWrite (root ++ [3]) 20] in
  complete ops 2 None = false /\ store_load [fun _ => true] (crash [] ops 2 None) root = true.
Proof. vm_compute. split; reflexivity. Qed.

(* non-vacuity: a concrete state with nested components is well-formed, a torn prefix is rejected, the
   complete one accepted *)
Example wf_example :
  let root := [9; 1] in
  let ops := state_ops root [(1, LDir [(5, LFile 3); (6, LDir [(8, LFile 2)])]); (2, LDir []); (3, LDir [(4, LDir [(11, LFile 7); (12, LFile 9)])])] 40 in
  ops_wf root ops = true /\ length ops = 11 /\
  time_loadable (crash [] ops 10 (Some 39)) root = false /\ time_loadable (crash [] ops 10 (Some 40)) root = true /\
  time_loadable (crash [] ops 7 None) root = false.
Proof. vm_compute. repeat split; reflexivity. Qed.
