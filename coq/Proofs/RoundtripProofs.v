(* C05: loading reproduces the saved observable state - the data path. *)
From Coq Require Import ZArith List Bool Arith Lia.
From Pamiq Require Import Model.Buffers Model.DataPipe Model.Roundtrip Check.C05 Proofs.BuffersProofs.
Import ListNotations.

Lemma lastn_idem {A} n (l : list A) : lastn n (lastn n l) = lastn n l.
Proof. apply lastn_all. apply lastn_length. Qed.
Lemma firstn_idem {A} n (l : list A) : firstn n (firstn n l) = firstn n l.
Proof. rewrite firstn_firstn. f_equal. lia. Qed.
Lemma lastn_opt_idem {A} q (l : list A) : lastn_opt q (lastn_opt q l) = lastn_opt q l.
Proof. destruct q; [apply lastn_idem|reflexivity]. Qed.

Lemma zl_eqb_refl l : zl_eqb l l = true.
Proof. unfold zl_eqb. destruct (list_eq_dec Z.eq_dec l l); congruence. Qed.
Lemma nl_eqb_refl l : nl_eqb l l = true.
Proof. unfold nl_eqb. destruct (list_eq_dec Nat.eq_dec l l); congruence. Qed.
Lemma uobs_eqb_refl o : uobs_eqb o o = true.
Proof. unfold uobs_eqb. rewrite zl_eqb_refl, nl_eqb_refl, Nat.eqb_refl. reflexivity. Qed.

(* Equal configuration: every getter answers after the load exactly what it answered before the save - for
   every buffer kind, capacity, history of collects (also more than the capacity) and every probe timestamp. *)
Theorem roundtrip_exact c ids tss probes :
  u_cap2 c = u_cap1 c -> u_q2 c = u_q1 c -> after_load c ids tss probes = before_save c ids tss probes.
Proof.
  intros Hc Hq. unfold after_load, before_save, loaded_items, saved_items, loaded_tss, saved_tss, load_tss.
  rewrite Hc, Hq, lastn_opt_idem. destruct (u_kind c); [rewrite lastn_idem|rewrite firstn_idem]; reflexivity.
Qed.

(* A smaller buffer: the sequential buffer keeps its newest cap2 samples, in order; the random-replacement one
   its first cap2; never more than the capacity. *)
Lemma skipn_add {A} a : forall b (l : list A), skipn a (skipn b l) = skipn (b + a) l.
Proof. induction b as [|b IH]; intros l; [reflexivity|]. destruct l; [cbn; destruct a; reflexivity|cbn; apply IH]. Qed.
Lemma lastn_lastn {A} a b (l : list A) : lastn a (lastn b l) = lastn (Nat.min a b) l.
Proof.
  unfold lastn. rewrite skipn_length, skipn_add. f_equal.
  destruct (Nat.le_ge_cases (length l) b); lia.
Qed.

Theorem load_smaller_seq c ids : u_kind c = KSeq ->
  loaded_items c (saved_items c ids) = lastn (Nat.min (u_cap2 c) (u_cap1 c)) ids.
Proof. intros K. unfold loaded_items, saved_items. rewrite K. apply lastn_lastn. Qed.

Theorem load_smaller_rr c ids : u_kind c = KRR ->
  loaded_items c (saved_items c ids) = firstn (Nat.min (u_cap2 c) (u_cap1 c)) ids.
Proof. intros K. unfold loaded_items, saved_items. rewrite K. apply firstn_firstn. Qed.

Theorem loaded_fits c items : length (loaded_items c items) <= u_cap2 c.
Proof. unfold loaded_items. destruct (u_kind c); [apply lastn_length|rewrite firstn_length; lia]. Qed.

(* arrival counts after loading into a shorter timestamp queue: exact up to the queue size *)
Lemma take_while_firstn {A} (f : A -> bool) n : forall l,
  length (take_while f (firstn n l)) = Nat.min n (length (take_while f l)).
Proof.
  induction n as [|n IH]; intros [|x l]; cbn [firstn take_while length Nat.min]; try reflexivity.
  destruct (f x); cbn [length Nat.min]; [rewrite IH; reflexivity|reflexivity].
Qed.

Lemma rev_lastn {A} n (l : list A) : rev (lastn n l) = firstn n (rev l).
Proof. unfold lastn. symmetry. apply firstn_rev. Qed.

Theorem count_after_load n tss p : count_since (lastn n tss) p = Nat.min n (count_since tss p).
Proof. unfold count_since. rewrite rev_lastn. apply take_while_firstn. Qed.

(* the oracle holds on the model *)
Theorem model_ok c ids tss probes :
  c05_prop_ok (CUser c ids tss probes (before_save c ids tss probes) (after_load c ids tss probes)) = true.
Proof.
  cbn [c05_prop_ok]. destruct (same_cfg c) eqn:S.
  - unfold same_cfg in S. apply andb_true_iff in S as [S1 S2]. apply Nat.eqb_eq in S1.
    assert (Hq : u_q2 c = u_q1 c).
    { destruct (u_q1 c), (u_q2 c); try discriminate; try reflexivity. apply Nat.eqb_eq in S2. congruence. }
    rewrite roundtrip_exact by congruence. apply uobs_eqb_refl.
  - unfold after_load, before_save, observe. cbn [o_len o_items o_counts].
    rewrite Nat.eqb_refl, zl_eqb_refl. rewrite !andb_true_r.
    apply andb_true_iff. split; [apply Nat.leb_le; apply loaded_fits|].
    replace (map (count_since (loaded_tss c (saved_tss c tss))) probes)
      with (map (fun n => match u_q2 c with Some q => Nat.min q n | None => n end) (map (count_since (saved_tss c tss)) probes));
      [apply nl_eqb_refl|].
    rewrite map_map. apply map_ext. intros p. unfold loaded_tss, load_tss, lastn_opt.
    destruct (u_q2 c) as [q|]; [symmetry; apply count_after_load|reflexivity].
Qed.
