From Coq Require Import ZArith List Bool Lia Arith.
From Pamiq Require Import Model.Sched Check.C15.
Import ListNotations.
Open Scope Z_scope.

(* ---------- small facts about segments ---------- *)
Lemma seg_cbs_app a b : seg_cbs (a ++ b) = seg_cbs a ++ seg_cbs b.
Proof. unfold seg_cbs. apply flat_map_app. Qed.
Lemma seg_reads_app a b : seg_reads (a ++ b) = seg_reads a ++ seg_reads b.
Proof. unfold seg_reads. apply flat_map_app. Qed.

Lemma reads_n_cbs n c : seg_cbs (fst (reads_n n c)) = [].
Proof.
  revert c; induction n as [|n IH]; intros c; simpl; [reflexivity|].
  destruct (read c) as [v c1]. specialize (IH c1). destruct (reads_n n c1) as [es c2]. simpl in *. exact IH.
Qed.

Lemma run_cbs_cbs l c : seg_cbs (fst (run_cbs l c)) = map cb_id l.
Proof.
  revert c; induction l as [|k r IH]; intros c; simpl; [reflexivity|].
  pose proof (reads_n_cbs (cb_reads k) c) as H1.
  destruct (reads_n (cb_reads k) c) as [es1 c1]. specialize (IH c1).
  destruct (run_cbs r c1) as [es2 c2]. simpl in *.
  change (ECb (cb_id k) :: es1 ++ es2) with ([ECb (cb_id k)] ++ es1 ++ es2).
  rewrite !seg_cbs_app, H1, IH. reflexivity.
Qed.

Lemma nat_list_eqb_refl l : nat_list_eqb l l = true.
Proof. unfold nat_list_eqb. destruct (list_eq_dec Nat.eq_dec l l); congruence. Qed.

Lemma remove_first_ids i l : map cb_id (remove_first i l) = remove_first_id i (map cb_id l).
Proof. induction l as [|k r IH]; simpl; [reflexivity|]. destruct (Nat.eqb (cb_id k) i); simpl; congruence. Qed.

Lemma zmin_l_le_init rs : forall r, zmin_l r rs <= r.
Proof. unfold zmin_l. induction rs as [|x rs IH]; intros r; simpl; [lia|]. specialize (IH (Z.min r x)). lia. Qed.
Lemma zmax_l_ge_init rs : forall r, r <= zmax_l r rs.
Proof. unfold zmax_l. induction rs as [|x rs IH]; intros r; simpl; [lia|]. specialize (IH (Z.max r x)). lia. Qed.
Lemma zmin_l_le rs : forall r x, In x rs -> zmin_l r rs <= x.
Proof.
  unfold zmin_l. induction rs as [|y rs IH]; intros r x Hin; simpl in *; [contradiction|].
  destruct Hin as [->|Hin]; [pose proof (zmin_l_le_init rs (Z.min r x)); unfold zmin_l in *; lia | now apply IH].
Qed.
Lemma zmax_l_ge rs : forall r x, In x rs -> x <= zmax_l r rs.
Proof.
  unfold zmax_l. induction rs as [|y rs IH]; intros r x Hin; simpl in *; [contradiction|].
  destruct Hin as [->|Hin]; [pose proof (zmax_l_ge_init rs (Z.max r x)); unfold zmax_l in *; lia | now apply IH].
Qed.

Lemma due_weak strict t p i : due strict t p i = true -> i <= t - p.
Proof. unfold due. destruct strict; intros H; lia. Qed.
Lemma due_strong strict t p i : i < t - p -> due strict t p i = true.
Proof. unfold due. destruct strict; intros H; lia. Qed.

(* ---------- direct statements about one update of the current tree ---------- *)

(* fires only when at least the interval has elapsed at the decision read *)
Lemma t_update_only_when strict s c s' es c' :
  t_update strict s c = (s', es, c') -> seg_cbs es <> [] ->
  ivl s <= fst (read c) - prev s.
Proof.
  unfold t_update. destruct (read c) as [t1 c1] eqn:R1. simpl.
  destruct (due strict t1 (prev s) (ivl s)) eqn:D.
  - intros _ _. eapply due_weak; eauto.
  - intros H; inversion H; subst. simpl. congruence.
Qed.

(* fires when more than the interval has elapsed at the decision read:
   all callbacks, once each, in registration order *)
Lemma t_update_when strict s c s' es c' :
  t_update strict s c = (s', es, c') -> ivl s < fst (read c) - prev s ->
  seg_cbs es = map cb_id (cbs s).
Proof.
  unfold t_update. destruct (read c) as [t1 c1] eqn:R1. simpl. intros H Hd.
  rewrite (due_strong strict _ _ _ Hd) in H.
  pose proof (run_cbs_cbs (cbs s) c1) as Hc. destruct (run_cbs (cbs s) c1) as [es1 c2].
  destruct (read c2) as [t2 c3]. inversion H; subst. simpl in *.
  rewrite seg_cbs_app, Hc. simpl. now rewrite app_nil_r.
Qed.

(* whenever the interval is restarted, all callbacks have been run *)
Lemma t_update_restart strict s c s' es c' :
  t_update strict s c = (s', es, c') -> prev s' <> prev s ->
  seg_cbs es = map cb_id (cbs s).
Proof.
  unfold t_update. destruct (read c) as [t1 c1] eqn:R1.
  destruct (due strict t1 (prev s) (ivl s)) eqn:D.
  - pose proof (run_cbs_cbs (cbs s) c1) as Hc. destruct (run_cbs (cbs s) c1) as [es1 c2].
    destruct (read c2) as [t2 c3]. intros H _. inversion H; subst. simpl in *.
    rewrite seg_cbs_app, Hc. simpl. now rewrite app_nil_r.
  - intros H; inversion H; subst. congruence.
Qed.

(* the pinned tree restarts an interval without running anything (defect D8) *)
Definition d8_sched : tsched := {| ivl := 50; prev := 0; cbs := [{| cb_id := 7; cb_reads := 0 |}] |}.
Definition d8_clock : clock := {| last := 0; pending := [49; 51; 51] |}.
Lemma t_update_orig_skips :
  let '(s', es, _) := t_update_orig true d8_sched d8_clock in
  prev s' <> prev d8_sched /\ seg_cbs es = [] /\ cbs d8_sched <> [].
Proof. vm_compute. repeat split; congruence. Qed.

(* ---------- the oracle holds on every trace of the model ---------- *)
Lemma raised_app a b : raised (a ++ b) = raised a || raised b.
Proof. unfold raised. apply existsb_app. Qed.
Lemma raised_cons_read t es : raised (ERead t :: es) = raised es.
Proof. reflexivity. Qed.
Lemma reads_n_noraise n c : raised (fst (reads_n n c)) = false.
Proof.
  revert c; induction n as [|n IH]; intros c; simpl; [reflexivity|].
  destruct (read c) as [v c1]. specialize (IH c1). destruct (reads_n n c1) as [es c2]. simpl in *. exact IH.
Qed.
Lemma run_cbs_noraise l c : raised (fst (run_cbs l c)) = false.
Proof.
  revert c; induction l as [|k r IH]; intros c; simpl; [reflexivity|].
  pose proof (reads_n_noraise (cb_reads k) c) as H1. destruct (reads_n (cb_reads k) c) as [es1 c1]. specialize (IH c1).
  destruct (run_cbs r c1) as [es2 c2]. simpl in *.
  change (ECb (cb_id k) :: es1 ++ es2) with ([ECb (cb_id k)] ++ es1 ++ es2). rewrite !raised_app, H1, IH. reflexivity.
Qed.

(* a callback loop during which [bad] raises: complete (same as the plain loop) or cut short after a non-empty prefix *)
Lemma until_spec bad : forall l c,
  let '(es, c2, ok) := run_cbs_until bad l c in
  if ok then seg_cbs es = map cb_id l /\ raised es = false
  else exists k, (1 <= k)%nat /\ seg_cbs es = firstn k (map cb_id l) /\ length (seg_cbs es) = k /\ raised es = true.
Proof.
  induction l as [|x r IH]; intros c; simpl; [split; reflexivity|].
  destruct (Nat.eqb (cb_id x) bad) eqn:E.
  - exists 1%nat. simpl. repeat split; auto.
  - pose proof (reads_n_cbs (cb_reads x) c) as H1. pose proof (reads_n_noraise (cb_reads x) c) as H2.
    destruct (reads_n (cb_reads x) c) as [es1 c1]. specialize (IH c1).
    destruct (run_cbs_until bad r c1) as [[es2 c2] ok]. simpl in H1, H2.
    change (ECb (cb_id x) :: es1 ++ es2) with ([ECb (cb_id x)] ++ es1 ++ es2).
    rewrite !seg_cbs_app, !raised_app, H1, H2. cbn [seg_cbs flat_map app raised existsb orb].
    destruct ok.
    + destruct IH as [A B]. rewrite A, B. split; reflexivity.
    + destruct IH as (k & Hk & A & B & C). exists (S k). rewrite A, C. cbn [firstn length].
      repeat split; auto; try lia. f_equal. rewrite <- B at 2. rewrite A. rewrite firstn_length.
      rewrite A in B. rewrite firstn_length in B. lia.
Qed.

Lemma firstn_prefix {A} k (l : list A) : length (firstn k l) = k -> firstn (length (firstn k l)) l = firstn k l.
Proof. intros H. now rewrite H. Qed.

Definition t_inv (s : tsched) (st : ost) : Prop :=
  known st = true -> (lo st <= prev s <= hi st /\ reg st = map cb_id (cbs s)).

(* one update (plain or with a raising callback) produces a segment the oracle accepts, and keeps the relation *)
Lemma upd_seg_ok strict I o s c st s' es c' :
  (o = OUpdate /\ t_update strict s c = (s', es, c')) \/ (exists bad, o = OUpdateRaise bad /\ t_update_raise strict bad s c = (s', es, c')) ->
  ivl s = I -> known st = true -> is_nil (reg st) = false -> lo st <= prev s <= hi st -> reg st = map cb_id (cbs s) ->
  exists st', t_seg_ok I st o es = (true, st') /\ known st' = true /\ lo st' <= prev s' <= hi st' /\
              reg st' = map cb_id (cbs s') /\ ivl s' = I.
Proof.
  intros Hstep HI Hk Hn Hb Hr.
  assert (Hne : is_nil (map cb_id (cbs s)) = false) by (rewrite <- Hr; exact Hn).
  destruct Hstep as [(-> & Hs)|(bad & -> & Hs)].
  - (* plain update *)
    unfold t_update in Hs. destruct (read c) as [t1 c1] eqn:R1.
    destruct (due strict t1 (prev s) (ivl s)) eqn:D.
    + pose proof (run_cbs_cbs (cbs s) c1) as Hc. pose proof (run_cbs_noraise (cbs s) c1) as Hnr.
      destruct (run_cbs (cbs s) c1) as [es1 c2]. destruct (read c2) as [t2 c3] eqn:R2. simpl in Hc, Hnr.
      inversion Hs; subst s' es c'. clear Hs.
      unfold t_seg_ok. rewrite Hk, Hn. cbn [negb].
      change (ERead t1 :: es1 ++ [ERead t2]) with ([ERead t1] ++ es1 ++ [ERead t2]).
      rewrite !seg_reads_app, !seg_cbs_app, Hc. cbn [seg_reads seg_cbs flat_map app]. rewrite app_nil_r.
      rewrite raised_cons_read, raised_app, Hnr. cbn [raised existsb orb].
      rewrite Hne. cbn [negb andb]. rewrite Hr, nat_list_eqb_refl. cbn [andb].
      apply due_weak in D. rewrite HI in D.
      assert (E1 : (I <=? t1 - lo st) = true) by lia. rewrite E1. cbn [orb andb].
      eexists. split; [destruct (I <? t1 - hi st); reflexivity|].
      cbn [known lo hi reg prev cbs ivl]. repeat split; auto.
      * apply zmin_l_le. apply in_or_app. right. left. reflexivity.
      * apply zmax_l_ge. apply in_or_app. right. left. reflexivity.
    + inversion Hs; subst s' es c'. clear Hs. unfold t_seg_ok. rewrite Hk, Hn.
      cbn [negb seg_reads seg_cbs flat_map app is_nil andb existsb].
      assert (E : (I <? t1 - hi st) = false). { unfold due in D. rewrite HI in D. destruct strict; lia. }
      rewrite E. eexists. split; [reflexivity|]. repeat split; auto; lia.
  - (* a callback raises *)
    unfold t_update_raise in Hs. destruct (read c) as [t1 c1] eqn:R1.
    destruct (due strict t1 (prev s) (ivl s)) eqn:D.
    + pose proof (until_spec bad (cbs s) c1) as Hu. destruct (run_cbs_until bad (cbs s) c1) as [[es1 c2] ok].
      destruct ok.
      * destruct Hu as [Hc Hnr]. destruct (read c2) as [t2 c3] eqn:R2.
        inversion Hs; subst s' es c'. clear Hs.
        unfold t_seg_ok. rewrite Hk, Hn. cbn [negb].
        change (ERead t1 :: es1 ++ [ERead t2]) with ([ERead t1] ++ es1 ++ [ERead t2]).
        rewrite !seg_reads_app, !seg_cbs_app, Hc. cbn [seg_reads seg_cbs flat_map app]. rewrite app_nil_r.
        rewrite raised_cons_read, raised_app, Hnr. cbn [raised existsb orb].
        rewrite Hne. cbn [negb andb]. rewrite Hr, nat_list_eqb_refl. cbn [andb].
        apply due_weak in D. rewrite HI in D.
        assert (E1 : (I <=? t1 - lo st) = true) by lia. rewrite E1. cbn [orb andb].
        eexists. split; [destruct (I <? t1 - hi st); reflexivity|].
        cbn [known lo hi reg prev cbs ivl]. repeat split; auto.
        -- apply zmin_l_le. apply in_or_app. right. left. reflexivity.
        -- apply zmax_l_ge. apply in_or_app. right. left. reflexivity.
      * destruct Hu as (k & Hk1 & Hc & Hlen & Hra).
        inversion Hs; subst s' es c'. clear Hs.
        unfold t_seg_ok. rewrite Hk, Hn. cbn [negb].
        change (ERead t1 :: es1) with ([ERead t1] ++ es1).
        rewrite !seg_reads_app, !seg_cbs_app. cbn [seg_reads seg_cbs flat_map app].
        rewrite raised_cons_read, Hra.
        assert (Hnn : is_nil (seg_cbs es1) = false) by (destruct (seg_cbs es1); [simpl in Hlen; lia|reflexivity]).
        rewrite Hnn. cbn [negb andb].
        assert (Hpre : nat_list_eqb (seg_cbs es1) (firstn (length (seg_cbs es1)) (reg st)) = true).
        { rewrite Hlen, Hr, <- Hc. apply nat_list_eqb_refl. }
        rewrite Hpre. cbn [andb].
        apply due_weak in D. rewrite HI in D.
        assert (E1 : (I <=? t1 - lo st) = true) by lia. cbn [existsb]. rewrite E1. cbn [orb andb].
        eexists. split; [destruct (I <? t1 - hi st); reflexivity|]. repeat split; auto; lia.
    + inversion Hs; subst s' es c'. clear Hs. unfold t_seg_ok. rewrite Hk, Hn.
      cbn [negb seg_reads seg_cbs flat_map app is_nil andb existsb].
      assert (E : (I <? t1 - hi st) = false). { unfold due in D. rewrite HI in D. destruct strict; lia. }
      rewrite E. eexists. split; [reflexivity|]. repeat split; auto; lia.
Qed.

(* when the oracle has given up (no callback registered at some update) every segment passes *)
Lemma t_run_unknown I strict : forall ops s c st, known st = false -> t_segs_ok I st ops (t_run false strict s c ops) = true.
Proof.
  induction ops as [|o ops IH]; intros s c st Hk; simpl; [reflexivity|].
  destruct (t_step false strict s c o) as [[s' es] c'] eqn:E.
  destruct o; cbn [t_seg_ok]; rewrite ?Hk; cbn [negb];
    try (apply IH; assumption).
  - unfold t_step in E. inversion E; subst. cbn [is_nil andb]. apply IH. reflexivity.
  - unfold t_step in E. inversion E; subst. cbn [is_nil andb]. apply IH. reflexivity.
Qed.

Lemma t_run_ok strict I : forall ops s c st,
  ivl s = I -> known st = true -> lo st <= prev s <= hi st -> reg st = map cb_id (cbs s) ->
  t_segs_ok I st ops (t_run false strict s c ops) = true.
Proof.
  induction ops as [|o ops IH]; intros s c st HI Hk Hb Hr; simpl; [reflexivity|].
  destruct (t_step false strict s c o) as [[s' es] c'] eqn:E.
  destruct o as [|bad|k|i].
  - destruct (is_nil (reg st)) eqn:Hn.
    + cbn [t_seg_ok]. rewrite Hk, Hn. cbn [negb andb]. apply t_run_unknown. reflexivity.
    + destruct (upd_seg_ok strict I OUpdate s c st s' es c') as (st' & Hs & A & B & C & D); auto.
      rewrite Hs. cbn [andb]. apply IH; assumption.
  - destruct (is_nil (reg st)) eqn:Hn.
    + cbn [t_seg_ok]. rewrite Hk, Hn. cbn [negb andb]. apply t_run_unknown. reflexivity.
    + destruct (upd_seg_ok strict I (OUpdateRaise bad) s c st s' es c') as (st' & Hs & A & B & C & D); auto.
      { right. exists bad. split; [reflexivity|exact E]. }
      rewrite Hs. cbn [andb]. apply IH; assumption.
  - unfold t_step in E. inversion E; subst. cbn [t_seg_ok is_nil andb].
    apply IH; cbn [ivl prev cbs known lo hi reg]; auto. rewrite map_app, Hr. reflexivity.
  - unfold t_step in E. inversion E; subst. cbn [t_seg_ok is_nil andb].
    apply IH; cbn [ivl prev cbs known lo hi reg]; auto. rewrite remove_first_ids, Hr. reflexivity.
Qed.

Theorem t_model_ok strict I l c ops :
  C15_time_ok I l ops (t_trace false strict I l c ops) = true.
Proof.
  unfold t_trace, t_init, C15_time_ok. destruct (read c) as [v c1].
  apply t_run_ok; simpl; try reflexivity. lia.
Qed.

(* the periodic save condition: the same oracle, through the latch *)
Lemma p_run_ok strict I : forall n s c st,
  ivl s = I -> cbs s = [latch_cb] -> known st = true -> reg st = [0%nat] ->
  lo st <= prev s <= hi st ->
  t_segs_ok I st (repeat OUpdate n) (p_run false strict s c n) = true.
Proof.
  induction n as [|n IH]; intros s c st HI Hcb Hk Hr Hb; simpl; [reflexivity|].
  rewrite Hk, Hr. cbn [negb is_nil].
  unfold t_update. destruct (read c) as [t1 c1] eqn:R1. rewrite Hcb.
  destruct (due strict t1 (prev s) (ivl s)) eqn:D.
  - cbn [run_cbs latch_cb cb_reads cb_id reads_n app].
    destruct (read c1) as [t2 c2] eqn:R2.
    cbn [strip_cb filter fired existsb orb app seg_reads seg_cbs flat_map is_nil negb nat_list_eqb].
    rewrite nat_list_eqb_refl. cbn [andb].
    apply due_weak in D. rewrite HI in D.
    assert (E1 : (I <=? t1 - lo st) = true) by lia. rewrite E1. cbn [orb andb].
    destruct (I <? t1 - hi st); cbn [andb];
    (apply IH; cbn [ivl cbs known reg lo hi prev]; try assumption; try reflexivity);
    (split; [apply zmin_l_le | apply zmax_l_ge]); left; reflexivity.
  - cbn [strip_cb filter fired existsb orb app seg_reads seg_cbs flat_map is_nil negb andb].
    assert (E : (I <? t1 - hi st) = false).
    { unfold due in D. rewrite HI in D. destruct strict; lia. }
    rewrite E. cbn [andb]. apply IH; assumption.
Qed.

Theorem p_model_ok strict I c n :
  C15_cond_ok I n (p_trace false strict I c n) = true.
Proof.
  unfold p_trace, t_init, C15_cond_ok, C15_time_ok. destruct (read c) as [v c1].
  apply p_run_ok; simpl; try reflexivity. lia.
Qed.

(* ---------- step-interval schedulers ---------- *)
Lemma s_run_ok n : (1 <= n)%nat -> forall ops s c m reg0,
  sivl s = n -> steps s = Nat.modulo m n -> reg0 = map cb_id (scbs s) ->
  s_segs_ok n m reg0 ops (s_run s c ops) = true.
Proof.
  intros Hn. induction ops as [|o ops IH]; intros s c m reg0 Hs Hst Hr; simpl; [reflexivity|].
  destruct o as [|bad|k|i]; simpl.
  - unfold s_update. rewrite Hs.
    assert (Hlt : (Nat.modulo m n < n)%nat) by (apply Nat.mod_upper_bound; lia).
    assert (Hm : Nat.modulo (S m) n = if Nat.leb n (S (Nat.modulo m n)) then 0%nat else S (Nat.modulo m n)).
    { replace (S m) with (m + 1)%nat by lia.
      rewrite Nat.add_mod by lia.
      destruct (Nat.leb_spec n (S (Nat.modulo m n))) as [Hle|Hgt].
      - assert (E : S (Nat.modulo m n) = n) by lia.
        destruct (Nat.eq_dec n 1) as [->|Hn1].
        + rewrite !Nat.mod_1_r. reflexivity.
        + rewrite (Nat.mod_small 1 n) by lia. replace (Nat.modulo m n + 1)%nat with n by lia.
          apply Nat.mod_same. lia.
      - rewrite (Nat.mod_small 1 n) by lia. rewrite Nat.mod_small by lia. lia. }
    rewrite Hst. destruct (Nat.leb n (S (Nat.modulo m n))) eqn:Hle.
    + pose proof (run_cbs_cbs (scbs s) c) as Hc. destruct (run_cbs (scbs s) c) as [es c1].
      simpl in Hc. cbn [fst snd]. rewrite Hm, Hc, <- Hr. cbn [Nat.eqb]. rewrite nat_list_eqb_refl. cbn [andb].
      apply IH; cbn [sivl steps scbs]; try reflexivity; try assumption. rewrite Hm. reflexivity.
    + cbn [fst snd seg_cbs flat_map]. rewrite Hm. cbn [Nat.eqb]. rewrite nat_list_eqb_refl. cbn [andb].
      apply IH; cbn [sivl steps scbs]; try reflexivity; try assumption. rewrite Hm. reflexivity.
  - unfold s_update. rewrite Hs.
    assert (Hlt : (Nat.modulo m n < n)%nat) by (apply Nat.mod_upper_bound; lia).
    assert (Hm : Nat.modulo (S m) n = if Nat.leb n (S (Nat.modulo m n)) then 0%nat else S (Nat.modulo m n)).
    { replace (S m) with (m + 1)%nat by lia.
      rewrite Nat.add_mod by lia.
      destruct (Nat.leb_spec n (S (Nat.modulo m n))) as [Hle|Hgt].
      - assert (E : S (Nat.modulo m n) = n) by lia.
        destruct (Nat.eq_dec n 1) as [->|Hn1].
        + rewrite !Nat.mod_1_r. reflexivity.
        + rewrite (Nat.mod_small 1 n) by lia. replace (Nat.modulo m n + 1)%nat with n by lia.
          apply Nat.mod_same. lia.
      - rewrite (Nat.mod_small 1 n) by lia. rewrite Nat.mod_small by lia. lia. }
    rewrite Hst. destruct (Nat.leb n (S (Nat.modulo m n))) eqn:Hle.
    + pose proof (run_cbs_cbs (scbs s) c) as Hc. destruct (run_cbs (scbs s) c) as [es c1].
      simpl in Hc. cbn [fst snd]. rewrite Hm, Hc, <- Hr. cbn [Nat.eqb]. rewrite nat_list_eqb_refl. cbn [andb].
      apply IH; cbn [sivl steps scbs]; try reflexivity; try assumption. rewrite Hm. reflexivity.
    + cbn [fst snd seg_cbs flat_map]. rewrite Hm. cbn [Nat.eqb]. rewrite nat_list_eqb_refl. cbn [andb].
      apply IH; cbn [sivl steps scbs]; try reflexivity; try assumption. rewrite Hm. reflexivity.
  - apply IH; simpl; try assumption. rewrite map_app, Hr. reflexivity.
  - apply IH; simpl; try assumption. rewrite remove_first_ids, Hr. reflexivity.
Qed.

Theorem s_model_ok n l c ops : (1 <= n)%nat ->
  C15_step_ok n l ops (s_trace n l c ops) = true.
Proof.
  intros Hn. unfold s_trace, C15_step_ok. apply s_run_ok; try reflexivity; try assumption.
  simpl. symmetry. apply Nat.mod_0_l. lia.
Qed.

(* the condition answers true exactly when its scheduler fired in this call *)
Lemma latch_spec orig strict s c n :
  match p_run orig strict s c (S n) with
  | seg :: _ =>
      let '(_, es, _) := (if orig then t_update_orig else t_update) strict s c in
      seg = strip_cb es ++ [ERet (fired es)]
  | [] => False
  end.
Proof. simpl. destruct ((if orig then t_update_orig else t_update) strict s c) as [[s' es] c']. reflexivity. Qed.

(* ---------- the statement the correspondence check relies on ---------- *)
Definition valid (i : input) : Prop := i_kind i = KStep -> (1 <= i_n i)%nat.

Theorem model_ok i : valid i -> oracle i (model_trace i) = true.
Proof.
  unfold valid, oracle, model_trace. destruct (i_kind i); intros Hv.
  - apply t_model_ok.
  - apply s_model_ok. auto.
  - apply p_model_ok.
Qed.

(* D8 as an input of the correspondence check: interval 50, the clock answers
   0 (constructor), then 49 and 51 inside the first update, 52 at the second *)
Definition d8_input : input :=
  {| i_kind := KTime; i_strict := true; i_ivl := 50; i_n := 1;
     i_cbs := [{| cb_id := 7; cb_reads := 0 |}];
     i_reads := [0; 49; 51; 51; 52; 52; 52]; i_ops := [OUpdate; OUpdate]; i_calls := 0 |}.

Lemma orig_refuted : valid d8_input /\ oracle d8_input (model_trace_orig d8_input) = false.
Proof. split; [intros H; discriminate H | vm_compute; reflexivity]. Qed.

(* non-vacuity: a run in which the scheduler does fire, twice, with two callbacks *)
Definition nv_input : input :=
  {| i_kind := KTime; i_strict := true; i_ivl := 10; i_n := 1;
     i_cbs := [{| cb_id := 1; cb_reads := 1 |}; {| cb_id := 2; cb_reads := 0 |}];
     i_reads := [0; 5; 11; 12; 13; 20; 24; 25; 26]; i_ops := [OUpdate; OUpdate; OUpdate; OUpdate]; i_calls := 0 |}.
Lemma nv_fires : flat_map seg_cbs (model_trace nv_input) = [1; 2; 1; 2]%nat.
Proof. vm_compute. reflexivity. Qed.
