(* C17, status half: "the status endpoint reports a state that is consistent with the controller and
   thread flags at some instant during the request".

   [truthful] (Check/Sys.v) is the oracle evaluated on the flag writes and status requests of every
   observed run.  Proved here:
   - it never objects to a provider that takes its readings at one instant (a snapshot under a lock shared
     with the writers) - whatever the other threads write before and after that instant inside the request;
   - it does object to a provider that reads the flags one after the other: the history recorded on the
     pinned tree (known finding D10) is refuted by computation, and so is a second one in which the answer
     is 'paused' although at no instant every thread had acknowledged. *)
From Coq Require Import List Bool Arith Lia.
From Pamiq Require Import Model.Threads Check.Sys.
Import ListNotations.

Definition is_write (e : sev) : bool := match e with SWrite _ _ => true | _ => false end.
Definition is_read (e : sev) : bool := match e with SRead _ _ => true | _ => false end.

Fixpoint apply_writes (s : flags) (ws : list sev) : flags :=
  match ws with
  | [] => s
  | SWrite f v :: r => apply_writes (set_flag s f v) r
  | _ :: r => apply_writes s r
  end.

Lemma status_eqb_refl a : status_eqb a a = true.
Proof. destruct a; reflexivity. Qed.

Lemma status_eqb_eq a b : status_eqb a b = true -> a = b.
Proof. destruct a, b; simpl; congruence. Qed.

Lemma answer_in l a : In a l -> existsb (status_eqb a) l = true.
Proof. intros H. apply existsb_exists. exists a. split; [assumption|apply status_eqb_refl]. Qed.

(* writes inside a request only add instants *)
Lemma tf_writes ws : forall s l r, forallb is_write ws = true -> In (status_at s) l ->
  exists l2, truthful_from s (Some l) (ws ++ r) = truthful_from (apply_writes s ws) (Some l2) r
             /\ In (status_at (apply_writes s ws)) l2 /\ incl l l2.
Proof.
  induction ws as [|e ws IH]; intros s l r Hw Hin.
  - exists l. repeat split; [assumption|apply incl_refl].
  - cbn [forallb] in Hw. apply andb_true_iff in Hw as [He Hw]. destruct e as [f v| | |]; try discriminate.
    cbn [app truthful_from apply_writes option_map].
    destruct (IH (set_flag s f v) (status_at (set_flag s f v) :: l) r Hw (or_introl eq_refl)) as (l2 & E & I & C).
    exists l2. repeat split; [exact E|exact I|]. intros x Hx. apply C. now right.
Qed.

Lemma tf_reads rd : forall s cur r, forallb is_read rd = true -> truthful_from s cur (rd ++ r) = truthful_from s cur r.
Proof.
  induction rd as [|e rd IH]; intros s cur r Hr; [reflexivity|].
  cbn [forallb] in Hr. apply andb_true_iff in Hr as [He Hr]. destruct e; try discriminate. cbn [app truthful_from]. now apply IH.
Qed.

(* histories of a snapshot provider: inside a request the other threads write (w1), then all readings are
   taken with no write in between (rd), the others write again (w2), and the answer is the table's value
   for the flags as they were at the readings *)
Inductive snapshot_history : flags -> list sev -> Prop :=
| SH_nil s : snapshot_history s []
| SH_write s f v r : snapshot_history (set_flag s f v) r -> snapshot_history s (SWrite f v :: r)
| SH_request s w1 rd w2 r :
    forallb is_write w1 = true -> forallb is_read rd = true -> forallb is_write w2 = true ->
    snapshot_history (apply_writes (apply_writes s w1) w2) r ->
    snapshot_history s (SBegin :: w1 ++ rd ++ w2 ++ SEnd (status_at (apply_writes s w1)) :: r).

Theorem snapshot_truthful_from s h : snapshot_history s h -> truthful_from s None h = true.
Proof.
  induction 1 as [s|s f v r _ IH|s w1 rd w2 r H1 Hr H2 _ IH]; [reflexivity|exact IH|].
  cbn [truthful_from].
  destruct (tf_writes w1 s [status_at s] (rd ++ w2 ++ SEnd (status_at (apply_writes s w1)) :: r) H1 (or_introl eq_refl)) as (l2 & E & I & _).
  rewrite E, tf_reads by exact Hr.
  destruct (tf_writes w2 (apply_writes s w1) l2 (SEnd (status_at (apply_writes s w1)) :: r) H2 I) as (l3 & E3 & _ & C3).
  rewrite E3. cbn [truthful_from]. rewrite answer_in by (apply C3; exact I). exact IH.
Qed.

Theorem snapshot_truthful n h : snapshot_history (flags0 n) h -> truthful n h = true.
Proof. apply snapshot_truthful_from. Qed.

(* a snapshot whose readings cover the flags answers by the table: the link between "status at the
   readings" above and "the table applied to the values read" checked on the implementation *)
Lemma reads_current_all rd : forall s, forallb is_read rd = true -> reads_current s rd = true ->
  forall f v, In (SRead f v) rd -> v = get_flag s f.
Proof.
  induction rd as [|e rd IH]; intros s Hr Hc f v Hin; [destruct Hin|].
  cbn [forallb] in Hr. apply andb_true_iff in Hr as [He Hr]. destruct e as [| |f' v'|]; try discriminate.
  cbn [reads_current] in Hc. apply andb_true_iff in Hc as [Hv Hc]. destruct Hin as [Heq|Hin].
  - inversion Heq; subst. symmetry. now apply eqb_prop.
  - eapply IH; eassumption.
Qed.

(* the oracle does object to readings taken one after the other.  First history: the one recorded on the
   pinned tree (two threads; corpus/C17/d10_status_not_atomic.json, known finding D10), verbatim.  Its second
   request sees "no shutdown, pause requested, thread 0 acknowledged"; then the control thread shuts the system
   down (resume set, shutdown set), thread 1 wakes and withdraws its acknowledgement, the request reads that
   flag and answers 'pausing' - the system went paused -> resuming -> shutting down and was never 'pausing'
   during the request. *)
Definition d10_history : list sev :=
  [SWrite FResume true; SWrite FShutdown false;
   SBegin; SRead FShutdown false; SRead FResume true; SRead FResume true; SRead (FPaused 0) false; SRead (FPaused 1) false; SEnd StActive;
   SWrite FResume false; SWrite (FPaused 1) true; SWrite FResume true; SWrite (FPaused 1) false;
   SWrite FResume false; SWrite (FPaused 1) true; SWrite (FPaused 0) true;
   SBegin; SRead FShutdown false; SRead FResume false; SRead (FPaused 0) true;
   SWrite FResume true; SWrite FShutdown true; SWrite (FPaused 1) false;
   SRead (FPaused 1) false; SEnd StPausing;
   SWrite (FPaused 0) false; SWrite (FPaused 1) false; SWrite (FPaused 0) false].

(* second history: a pause attempt that timed out and was retried.  The request reads "pause requested" and
   thread 0's acknowledgement during the first attempt, the attempt is withdrawn (resume), thread 0 wakes,
   the second attempt begins, thread 1 acknowledges, the request reads thread 1's flag and answers 'paused' -
   although at no instant both threads had acknowledged. *)
Definition retry_history : list sev :=
  [SWrite FResume false; SWrite (FPaused 0) true;
   SBegin; SRead FShutdown false; SRead FResume false; SRead (FPaused 0) true;
   SWrite FResume true; SWrite (FPaused 0) false; SWrite FResume false; SWrite (FPaused 1) true;
   SRead (FPaused 1) true; SEnd StPaused].

Theorem sequential_reads_refuted :
  (reads_current (flags0 2) d10_history = true /\ truthful 2 d10_history = false) /\
  (reads_current (flags0 2) retry_history = true /\ truthful 2 retry_history = false).
Proof. vm_compute. repeat split. Qed.

(* non-vacuity: a snapshot history with writes on both sides of the readings *)
Example snapshot_example :
  snapshot_history (flags0 2)
    ([SWrite FResume false; SWrite (FPaused 0) true] ++
     SBegin :: [SWrite (FPaused 1) true] ++ [SRead FShutdown false; SRead FResume false; SRead (FPaused 0) true; SRead (FPaused 1) true]
            ++ [SWrite FResume true; SWrite (FPaused 0) false] ++ SEnd StPaused :: []).
Proof.
  cbn [app]. apply SH_write, SH_write.
  pose proof (SH_request (set_flag (set_flag (flags0 2) FResume false) (FPaused 0) true)
                [SWrite (FPaused 1) true] [SRead FShutdown false; SRead FResume false; SRead (FPaused 0) true; SRead (FPaused 1) true]
                [SWrite FResume true; SWrite (FPaused 0) false] [] eq_refl eq_refl eq_refl (SH_nil _)) as H.
  vm_compute in H |- *. exact H.
Qed.
