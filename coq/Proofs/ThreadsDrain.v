(* C17: an accepted command is taken soon.  On every trace accepted by the thread model (with the web API, for any
   number of threads, attempt limit and queue size) no accepted command is still waiting when the second control tick
   after its acceptance begins: the tick drains the queue until it is seen empty, and whatever is accepted after that is
   there at the beginning of the next drain. *)
From Coq Require Import List Bool Arith Lia.
From Pamiq Require Import Model.Threads Check.Sys Proofs.ThreadsInv Proofs.ThreadsInv2 Proofs.ThreadsQueue.
Import ListNotations.

Section D.
Variable n : nat.
Variable kind : nat -> bkind.
Variable max_attempts : nat.
Variable qmax : nat.

Notation step := (step n kind max_attempts qmax true).
Notation run := (run n kind max_attempts qmax true).
Notation ctl_step := (ctl_step n kind max_attempts true).
Notation bg_step := (bg_step kind).

(* how many ticks a waiting command can have seen begin, by the position of the control thread: none before the
   drain of the current tick has been reached (and after it has ended), one from there on *)
Definition lim (c : cpc) : nat :=
  match c with
  | CInit0 | CInit1 | CInit2 | CScale | CStart _ | CStartWeb | CTickCond | CPoll _ _ | CAfterPoll | CAfterUptime => 0
  | CShut0 k | CShut1 k | CShut2 k | CShut3 k | CShut4 k => match k with KAfterPoll | KAfterUptime => 0 | _ => 1 end
  | _ => 1
  end.

Definition DI (s : st) (ages : list nat) : Prop :=
  length ages = length (queue s) /\ (running s = true -> Forall (fun a => a <= lim (cp s)) ages).

Lemma Forall_mono_le (l : list nat) a b : a <= b -> Forall (fun x => x <= a) l -> Forall (fun x => x <= b) l.
Proof. intros H F. eapply Forall_impl; [|exact F]. intros x Hx. cbn in *. lia. Qed.

(* a step of the control thread that is neither a get nor the beginning of a tick: the queue is as it was, and the loop
   flag is down, or the bound does not shrink, or the queue is empty *)
Lemma ctl_lim s l s' : Inv2 n s -> ctl_step s l = Some s' ->
  (forall c, l <> LQGet c) -> (forall b, l <> LSaveCond b) ->
  queue s' = queue s /\ (running s' = true -> running s = true) /\
  (running s' = false \/ lim (cp s) <= lim (cp s') \/ queue s = []).
Proof.
  intros (_ & _ & _ & _ & _ & _ & _ & _ & _ & J10) H Ng Nc.
  pose proof (ctl_queue n kind max_attempts true _ _ _ H) as Q.
  split; [destruct l; try exact Q; exfalso; eapply Ng; reflexivity|].
  split.
  { clear Q J10. unfold Threads.ctl_step in H.
    destruct (cp s) eqn:Hc; destruct l; try discriminate;
      repeat match type of H with
             | context [match ?x with _ => _ end] => destruct x eqn:?; try discriminate
             end;
      inversion H; subst; clear H;
      unfold exc_goto, ctl, set_cp, set_res, set_misc, set_pp, set_bp; cbn [running]; intros X; first [exact X|discriminate X|reflexivity|congruence]. }
  unfold Threads.ctl_step in H.
  destruct (cp s) eqn:Hc; destruct l; try discriminate;
    try (exfalso; eapply Ng; reflexivity); try (exfalso; eapply Nc; reflexivity);
    repeat match type of H with
           | context [match ?x with _ => _ end] => destruct x eqn:?; try discriminate
           end;
    inversion H; subst; clear H;
    unfold exc_goto, ctl, set_cp, set_res, set_misc, set_pp, set_bp, tp_return, ret_cont, after_pool, start_pool, drain_pc, poll_pc, join_pc; cbn [cp running queue lim];
    repeat match goal with
           | |- context [if ?b then _ else _] => destruct b
           | |- context [match ?k with KDrain => _ | _ => _ end] => destruct k
           end; cbn [lim];
    try (left; reflexivity); try (right; left; lia); try (right; right; assumption);
    cbn [loop_pc_ok loop_k] in J10; try discriminate J10.
  all: try (rewrite Hc; cbn [lim]; right; left; lia).
  all: try (match goal with |- context [match ?r with Some _ => _ | None => _ end] => destruct r end; cbn [lim]; right; left; lia).
  all: right; right;
    match goal with Hq : Bool.eqb _ (match queue ?s0 with [] => true | _ :: _ => false end) = true |- _ =>
      destruct (queue s0); [reflexivity|discriminate Hq] end.
Qed.

Lemma lim_le1 c : lim c <= 1.
Proof. destruct c; cbn; try lia; match goal with k : cont |- _ => destruct k end; lia. Qed.

Lemma ctl_get s c s' : ctl_step s (LQGet c) = Some s' ->
  exists q, queue s = c :: q /\ queue s' = q /\ lim (cp s') = 1 /\ running s' = running s.
Proof.
  intros H. unfold Threads.ctl_step in H.
  destruct (cp s) eqn:Hc; try discriminate. destruct (queue s) as [|c' q] eqn:Hq; [discriminate|].
  destruct c, c'; try discriminate; inversion H; subst; clear H; exists q; cbn; repeat split; reflexivity.
Qed.

Lemma ctl_tick s b s' : ctl_step s (LSaveCond b) = Some s' ->
  cp s = CTickCond /\ queue s' = queue s /\ lim (cp s') = 1 /\ running s' = running s.
Proof.
  intros H. unfold Threads.ctl_step in H. destruct (cp s) eqn:Hc; try discriminate.
  inversion H; subst; clear H. unfold ctl, set_cp, drain_pc. destruct b; cbn; repeat split; reflexivity.
Qed.

Lemma live_from : forall tr s s' ages, Inv n s -> Inv2 n s -> DI s ages -> run s tr = Some s' -> c17_live ages tr = true.
Proof.
  induction tr as [|[t l] tr IH]; intros s s' ages HI HJ (HL & HA) H; [reflexivity|].
  simpl in H. destruct (step s t l) as [s1|] eqn:E; [|discriminate].
  pose proof (inv_step _ _ _ _ _ _ _ _ _ HI E) as HI1.
  pose proof (inv2_step _ _ _ _ _ _ _ _ _ HI HJ E) as HJ1.
  unfold Threads.step in E.
  destruct t as [|i|j| |].
  - (* the control thread *)
    assert (Other : (forall c, l <> LQGet c) -> (forall b, l <> LSaveCond b) -> (forall c ok, l <> LQPut c ok) -> c17_live ages tr = true).
    { intros Ng Nc _. destruct (ctl_lim _ _ _ HJ E Ng Nc) as (Eq & Er & D).
      apply (IH s1 s' ages HI1 HJ1); [|exact H]. split; [now rewrite Eq|].
      intros R1. destruct D as [D|[D|D]]; [congruence|eapply Forall_mono_le; [exact D|apply HA; apply Er; exact R1]|].
      rewrite D in HL. destruct ages; [constructor|discriminate]. }
    destruct l; cbn [c17_live]; try (apply Other; intros; discriminate).
    + (* a put is never the control thread's *) exfalso. unfold Threads.ctl_step in E. destruct (cp s); discriminate.
    + (* get: the head of the queue *)
      destruct (ctl_get _ _ _ E) as (q & Eq & Eq' & El & Er).
      apply (IH s1 s' (tl ages) HI1 HJ1); [|exact H]. split.
      * rewrite Eq', Eq in *. destruct ages; [discriminate|]. cbn in *. lia.
      * intros R1. rewrite El. rewrite Er in R1. specialize (HA R1).
        destruct ages; [constructor|]. inversion HA; subst. eapply Forall_mono_le; [apply lim_le1|eassumption].
    + (* a tick begins: nothing has been waiting since before the previous drain *)
      destruct (ctl_tick _ _ _ E) as (Ec & Eq & El & Er).
      assert (R : running s = true).
      { destruct (running s) eqn:R; [reflexivity|]. destruct HJ as (_ & _ & _ & _ & _ & _ & J7 & _). specialize (J7 R). rewrite Ec in J7. discriminate. }
      specialize (HA R). rewrite Ec in HA. cbn [lim] in HA.
      assert (Z : forallb (fun a => a <? 2) ages = true).
      { apply forallb_forall. intros a Ha. rewrite Forall_forall in HA. specialize (HA a Ha). apply Nat.ltb_lt. lia. }
      rewrite Z. cbn [andb]. apply (IH s1 s' (map S ages) HI1 HJ1); [|exact H]. split; [rewrite map_length, Eq; exact HL|].
      intros _. rewrite El. apply Forall_forall. intros a Ha. apply in_map_iff in Ha as (a0 & <- & Ha0).
      rewrite Forall_forall in HA. specialize (HA a0 Ha0). lia.
  - (* a background thread: no queue operation, nothing of the control thread changes *)
    destruct (i <? n); [|discriminate].
    assert (Eq : queue s1 = queue s /\ cp s1 = cp s /\ running s1 = running s).
    { apply bg_step_shape in E. destruct E; try destruct ph; unfold set_bp, set_pf, set_ex, fault; simpl; auto. }
    destruct Eq as (Eq & Ec & Er).
    assert (Hrec : c17_live ages tr = true).
    { apply (IH s1 s' ages HI1 HJ1); [|exact H]. split; [now rewrite Eq|rewrite Ec, Er; exact HA]. }
    destruct l; cbn [c17_live]; try exact Hrec.
    exfalso. destruct (bg_no_q kind s i c ok) as [X _]. congruence.
  - destruct (j <? n); [|discriminate].
    assert (Eq : queue s1 = queue s /\ cp s1 = cp s /\ running s1 = running s).
    { apply pool_cases in E. destruct E as [(_ & _ & ->)|[(_ & ->)|[(nt & b & _ & _ & ->)|(_ & ->)]]]; auto. }
    destruct Eq as (Eq & Ec & Er).
    assert (Hrec : c17_live ages tr = true).
    { apply (IH s1 s' ages HI1 HJ1); [|exact H]. split; [now rewrite Eq|rewrite Ec, Er; exact HA]. }
    destruct l; cbn [c17_live]; try exact Hrec. unfold pool_step in E; destruct (pp s j); discriminate.
  - (* the client: an accepted command goes to the back of the queue, having seen no tick begin *)
    unfold client_step in E. destruct (client_done s); [discriminate|].
    destruct l; try discriminate; cbn [c17_live].
    all: try match type of E with (if Bool.eqb ?o _ then _ else _) = _ =>
               destruct o; cbn [c17_live]; match type of E with (if ?x then _ else _) = _ => destruct x eqn:?; [|discriminate] end
             end.
    all: try match type of E with (if ?x then _ else _) = _ => destruct x eqn:?; [|discriminate] end.
    all: inversion E; subst; clear E.
    all: try (apply (IH _ s' ages HI1 HJ1); [split; [exact HL|exact HA]|exact H]).
    all: try (apply (IH _ s' _ HI1 HJ1); [|exact H]; unfold DI, set_misc; cbn [queue cp running]; split;
              [rewrite !app_length; cbn [length]; lia|intros R1; apply Forall_app; split; [apply HA; exact R1|constructor; [cbn; lia|constructor]]]).
    all: try (apply (IH _ s' ages HI1 HJ1); [|exact H]; unfold DI, set_misc; cbn [queue cp running]; split; [exact HL|exact HA]).
  - unfold web_step in E. destruct (web s) as [|[|w]]; try discriminate. destruct l; try discriminate.
    destruct raised; [discriminate|]. inversion E; subst; clear E. cbn [c17_live].
    apply (IH _ s' ages HI1 HJ1); [split; [exact HL|exact HA]|exact H].
Qed.

Theorem C17_live_holds tr s : run init tr = Some s -> C17_live tr = true.
Proof.
  intros H. apply (live_from tr init s [] (inv_init n) (inv2_init n)); [|exact H].
  split; [reflexivity|intros _; constructor].
Qed.

End D.
