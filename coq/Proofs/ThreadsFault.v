(* C03 on the thread model M6: a failure is not survived.
   - the exception flag of a background thread is never cleared, every control tick polls every flag, so at
     most ONE more tick begins once a flag is set, and that tick ends in the shutdown;
   - a failure of the control loop itself leaves the loop at once, and launch() raises exactly then. *)
From Coq Require Import List Bool Arith Lia.
From Pamiq Require Import Model.Threads Check.Sys Proofs.ThreadsInv Proofs.ThreadsInv2.
Import ListNotations.

Section Fault.
Variable n : nat.
Variable kind : nat -> bkind.
Variable max_attempts : nat.
Variable qmax : nat.
Variable with_web : bool.

Notation step := (step n kind max_attempts qmax with_web).
Notation run := (run n kind max_attempts qmax with_web).
Notation ctl_step := (ctl_step n kind max_attempts with_web).
Notation bg_step := (bg_step kind).
Notation Inv := (Inv n).
Notation Inv2 := (Inv2 n).
Notation drain_pc := (drain_pc n with_web).
Notation poll_pc := (poll_pc n).
Notation ret_cont := (ret_cont n with_web).
Notation tp_return := (tp_return n with_web).

(* ---------- frames of the steps that are not the control thread's ---------- *)
Lemma bg_ex s i l s' : bg_step s i l = Some s' ->
  cp s' = cp s /\ running s' = running s /\ craised s' = craised s /\ (forall j, ex s j = true -> ex s' j = true) /\
  (match l with LSet (EExc _) => ex s' i = true | _ => True end).
Proof.
  intros H. pose proof (bg_step_shape kind _ _ _ _ H) as Sh.
  assert (L : match l with LSet (EExc _) => ex s' i = true | _ => True end).
  { unfold Threads.bg_step in H. destruct l; try exact I. destruct e; try exact I.
    destruct (bp s i) as [|ph rest inside| | | | | | | | | | | | | | |]; cbn in H; try discriminate H; [destruct rest; destruct inside; discriminate H|]. destruct (Nat.eqb i i0); [|discriminate H]. inversion H; subst. cbn. apply upd_same. }
  destruct Sh; try destruct ph; unfold set_bp, set_pf, set_ex, fault; cbn; repeat split; auto.
  intros j Hj. unfold upd. destruct (Nat.eqb j i); auto.
Qed.

Lemma other_frame s t l s' : step s t l = Some s' -> (forall i, t <> TBg i) -> t <> TCtl ->
  cp s' = cp s /\ running s' = running s /\ craised s' = craised s /\ ex s' = ex s.
Proof.
  intros H N1 N2. unfold Threads.step in H. destruct t as [|i|j| |]; try congruence; try (exfalso; eapply N1; reflexivity).
  - destruct (j <? n); [|discriminate]. unfold pool_step in H.
    destruct (pp s j); destruct l; try discriminate;
      repeat match type of H with context [match ?x with _ => _ end] => destruct x eqn:?; try discriminate end;
      inversion H; subst; repeat split; reflexivity.
  - unfold client_step in H. destruct (client_done s); [discriminate|].
    destruct l; try discriminate;
      repeat match type of H with context [if ?x then _ else _] => destruct x eqn:?; try discriminate end;
      inversion H; subst; repeat split; reflexivity.
  - unfold web_step in H. destruct (web s) as [|[|w]]; try discriminate. destruct l; try discriminate.
    destruct raised; [discriminate|]. inversion H; subst; repeat split; reflexivity.
Qed.

(* ---------- failures of the control loop ---------- *)
Definition fin_pc (c : cpc) : bool :=
  match c with
  | CShut0 KFinally | CShut1 KFinally | CShut2 KFinally | CShut3 KFinally | CShut4 KFinally
  | CJoin _ | CFinScale | CFinSave0 | CFinSave1 | CDone | CJoinClient | CMainExit | CMainDone => true
  | _ => false
  end.

Lemma ret_finally : fin_pc (ret_cont KFinally) = true.
Proof. unfold Threads.ret_cont, join_pc. destruct (n =? 0); reflexivity. Qed.

Lemma ctl_fault_step s l s' : ctl_step s l = Some s' ->
  (craised s = true -> fin_pc (cp s) = true) ->
  (craised s' = true -> fin_pc (cp s') = true) /\
  (match l with LSaveCondRaise | LSaveRaise => craised s' = true | _ => craised s' = craised s end) /\
  (match l with LSaveCond _ => craised s = false | LLaunchDone r => r = craised s | _ => True end).
Proof.
  pose proof ret_finally as RF.
  unfold Threads.ctl_step. intros H HF.
  destruct (cp s) eqn:Hc; destruct l; try discriminate;
    repeat match type of H with
           | context [match ?x with _ => _ end] => destruct x eqn:?; try discriminate
           end;
    inversion H; subst; clear H;
    unfold exc_goto, ctl, set_cp, set_res, set_misc, set_pp, set_bp; cbn [cp craised];
    repeat split; auto; try (intros Hx; specialize (HF Hx); cbn in HF; try discriminate HF; try reflexivity; try exact RF);
    try (destruct (craised s); [specialize (HF eq_refl); discriminate HF|reflexivity]).
  all: try (match goal with Hx : Bool.eqb _ _ = true |- _ => apply eqb_prop in Hx; exact Hx end).
  all: try (rewrite Hc in HF; cbn in HF; discriminate HF).
  all: try (destruct k; try discriminate HF; exact RF).
  all: try (rewrite Hc; reflexivity).
Qed.

Lemma c03_from : forall tr s s', (craised s = true -> fin_pc (cp s) = true) -> run s tr = Some s' ->
  c03_mon (craised s) tr = true.
Proof.
  induction tr as [|[t l] tr IH]; intros s s' HF H; [reflexivity|].
  cbn [Threads.run] in H. destruct (step s t l) as [s1|] eqn:E; [|discriminate].
  destruct t as [|i|j| |].
  - unfold Threads.step in E. destruct (ctl_fault_step _ _ _ E HF) as (HF1 & Hcr & Hl).
    specialize (IH s1 s' HF1 H).
    destruct l; cbn [c03_mon]; try (rewrite Hcr in IH; exact IH).
    all: rewrite Hcr in IH; try rewrite Hl in *; rewrite ?eqb_reflx; cbn [negb andb]; exact IH.
  - unfold Threads.step in E. destruct (i <? n); [|discriminate].
    destruct (bg_ex _ _ _ _ E) as (Ec & _ & Ecr & _).
    assert (HF1 : craised s1 = true -> fin_pc (cp s1) = true) by (rewrite Ec, Ecr; exact HF).
    specialize (IH s1 s' HF1 H). rewrite Ecr in IH. destruct l; exact IH.
  - destruct (other_frame _ _ _ _ E) as (Ec & _ & Ecr & _); try discriminate.
    assert (HF1 : craised s1 = true -> fin_pc (cp s1) = true) by (rewrite Ec, Ecr; exact HF).
    specialize (IH s1 s' HF1 H). rewrite Ecr in IH. destruct l; exact IH.
  - destruct (other_frame _ _ _ _ E) as (Ec & _ & Ecr & _); try discriminate.
    assert (HF1 : craised s1 = true -> fin_pc (cp s1) = true) by (rewrite Ec, Ecr; exact HF).
    specialize (IH s1 s' HF1 H). rewrite Ecr in IH. destruct l; exact IH.
  - destruct (other_frame _ _ _ _ E) as (Ec & _ & Ecr & _); try discriminate.
    assert (HF1 : craised s1 = true -> fin_pc (cp s1) = true) by (rewrite Ec, Ecr; exact HF).
    specialize (IH s1 s' HF1 H). rewrite Ecr in IH. destruct l; exact IH.
Qed.

Theorem C03_control_failure_propagates tr s : run init tr = Some s -> c03_mon false tr = true.
Proof. intros H. apply (c03_from tr init s); [discriminate|exact H]. Qed.

(* a control-loop failure is never survived: the control thread is on its way out *)
Theorem control_failure_leaves_loop tr s : run init tr = Some s -> craised s = true -> fin_pc (cp s) = true.
Proof.
  assert (G : forall tr s s', (craised s = true -> fin_pc (cp s) = true) -> run s tr = Some s' -> craised s' = true -> fin_pc (cp s') = true).
  { induction tr0 as [|[t l] tr0 IH]; intros s0 s1 HF H; [inversion H; subst; exact HF|].
    cbn [Threads.run] in H. destruct (step s0 t l) as [s2|] eqn:E; [|discriminate].
    apply (IH s2 s1); [|exact H].
    destruct t as [|i|j| |].
    - unfold Threads.step in E. apply (ctl_fault_step _ _ _ E HF).
    - unfold Threads.step in E. destruct (i <? n); [|discriminate]. destruct (bg_ex _ _ _ _ E) as (Ec & _ & Ecr & _). rewrite Ec, Ecr. exact HF.
    - destruct (other_frame _ _ _ _ E) as (Ec & _ & Ecr & _); try discriminate. rewrite Ec, Ecr. exact HF.
    - destruct (other_frame _ _ _ _ E) as (Ec & _ & Ecr & _); try discriminate. rewrite Ec, Ecr. exact HF.
    - destruct (other_frame _ _ _ _ E) as (Ec & _ & Ecr & _); try discriminate. rewrite Ec, Ecr. exact HF. }
  intros H. apply (G tr init s); [discriminate|exact H].
Qed.

(* ---------- failures of a background thread: at most one more tick ---------- *)
Definition flagged_from (e : nat -> bool) (k : nat) : bool := existsb e (seq k (n - k)).

Lemma flagged_from_S e k : k < n -> flagged_from e k = e k || flagged_from e (S k).
Proof. intros H. unfold flagged_from. replace (n - k) with (S (n - S k)) by lia. reflexivity. Qed.
Lemma flagged_from_ge e k : n <= k -> flagged_from e k = false.
Proof. intros H. unfold flagged_from. replace (n - k) with 0 by lia. reflexivity. Qed.
Lemma flagged_from_mono e e' k : (forall j, e j = true -> e' j = true) -> flagged_from e k = true -> flagged_from e' k = true.
Proof. intros M H. unfold flagged_from in *. apply existsb_exists in H as (x & Hx & Hex). apply existsb_exists. exists x. auto. Qed.
Lemma flagged_intro e i : i < n -> e i = true -> flagged_from e 0 = true.
Proof. intros Hi He. unfold flagged_from. apply existsb_exists. exists i. split; [apply in_seq; lia|exact He]. Qed.

(* how many more ticks can begin, given where the control thread is and which flags are set *)
Definition potc (rn : bool) (e : nat -> bool) (c : cpc) : nat :=
  if negb rn then 0 else
  match c with
  | CInit0 | CInit1 | CInit2 | CScale | CStart _ | CStartWeb | CTickCond | CAfterPoll | CAfterUptime => 1
  | CPoll k any => if any || flagged_from e k then 0 else 1
  | _ => 0
  end.
Definition pot (s : st) : nat := potc (running s) (ex s) (cp s).

Lemma potc_le1 rn e c : potc rn e c <= 1.
Proof. unfold potc. destruct rn; cbn; [|lia]. destruct c; try lia. destruct (any || flagged_from e k); lia. Qed.
Lemma potc_mono rn e e' c : (forall j, e j = true -> e' j = true) -> potc rn e' c <= potc rn e c.
Proof.
  intros M. unfold potc. destruct rn; cbn; [|lia]. destruct c; try lia.
  destruct any; cbn; [lia|]. destruct (flagged_from e k) eqn:F; [rewrite (flagged_from_mono _ _ _ M F); lia|].
  destruct (flagged_from e' k); lia.
Qed.

Lemma potc_poll rn e : flagged_from e 0 = true -> potc rn e poll_pc = 0.
Proof.
  intros F. unfold potc, Threads.poll_pc. destruct rn; cbn; [|reflexivity].
  destruct (n =? 0) eqn:E; [apply Nat.eqb_eq in E; rewrite flagged_from_ge in F by lia; discriminate|].
  rewrite F. reflexivity.
Qed.
Lemma potc_drain rn e : flagged_from e 0 = true -> potc rn e drain_pc = 0.
Proof. intros F. unfold Threads.drain_pc. destruct with_web; [unfold potc; destruct rn; reflexivity|apply potc_poll; exact F]. Qed.
Lemma potc_ret rn e k : flagged_from e 0 = true -> loop_k k = true -> potc rn e (ret_cont k) = 0.
Proof. intros F L. destruct k; try discriminate L; apply potc_drain; exact F. Qed.
Lemma potc_tp rn e ok ret k : flagged_from e 0 = true -> loop_k k = true -> potc rn e (tp_return ok ret k) = 0.
Proof.
  intros F L. unfold Threads.tp_return. destruct ret as [ap|]; [destruct ok|]; try (apply potc_ret; assumption).
  unfold potc. destruct rn; reflexivity.
Qed.
Lemma potc_stopped e c : potc false e c = 0.
Proof. reflexivity. Qed.

Lemma poll_pot rn e k any :
  potc rn e (if S k =? n then (if any || e k then CShut0 KAfterPoll else CAfterPoll) else CPoll (S k) (any || e k)) <= potc rn e (CPoll k any).
Proof.
  destruct rn; [|unfold potc; cbn [negb]; lia]. destruct any; [destruct (S k =? n); unfold potc; cbn [negb orb]; lia|].
  cbn [orb]. destruct (flagged_from e k) eqn:F.
  2: { assert (P1 : potc true e (CPoll k false) = 1) by (unfold potc; cbn [negb orb]; rewrite F; reflexivity).
       rewrite P1. apply potc_le1. }
  assert (P0 : potc true e (CPoll k false) = 0) by (unfold potc; cbn [negb orb]; rewrite F; reflexivity).
  rewrite P0.
  assert (Hk : k < n) by (destruct (Nat.lt_ge_cases k n); [assumption|rewrite flagged_from_ge in F by assumption; discriminate]).
  rewrite (flagged_from_S _ _ Hk) in F.
  destruct (S k =? n) eqn:E.
  - apply Nat.eqb_eq in E. rewrite flagged_from_ge, orb_false_r in F by lia. rewrite F. unfold potc. cbn [negb]. lia.
  - unfold potc. cbn [negb]. rewrite F. lia.
Qed.

Definition is_tick (t : tid) (l : label) : nat := match t, l with TCtl, LSaveCond _ => 1 | _, _ => 0 end.

Lemma ctl_pot s l s' : Inv2 s -> flagged_from (ex s) 0 = true -> ctl_step s l = Some s' ->
  ex s' = ex s /\ pot s' + is_tick TCtl l <= pot s.
Proof.
  intros (_ & _ & _ & _ & _ & _ & J7 & _ & _ & J10) F H.
  assert (Ex : ex s' = ex s).
  { unfold Threads.ctl_step in H.
    destruct (cp s) eqn:Hc; destruct l; try discriminate;
      repeat match type of H with
             | context [match ?x with _ => _ end] => destruct x eqn:?; try discriminate
             end;
      inversion H; subst; reflexivity. }
  split; [exact Ex|]. unfold pot. rewrite Ex.
  pose proof (potc_drain (running s) (ex s) F) as PD.
  pose proof (potc_poll (running s) (ex s) F) as PP.
  unfold Threads.ctl_step in H.
  destruct (cp s) eqn:Hc; destruct l; try discriminate;
    repeat match type of H with
           | context [match ?x with _ => _ end] => destruct x eqn:?; try discriminate
           end;
    inversion H; subst; clear H;
    unfold exc_goto, ctl, set_cp, set_res, set_misc, set_pp, set_bp, after_pool, start_pool; cbn [cp running ex is_tick];
    rewrite ?potc_stopped; cbn [loop_pc_ok] in J10;
    try rewrite (potc_ret _ _ _ F J10); try rewrite (potc_tp _ _ _ _ _ F J10); rewrite ?PD, ?PP;
    try (unfold potc; destruct (running s); cbn; lia);
    try (unfold potc; destruct (running s); cbn; repeat match goal with |- context [if ?b then _ else _] => destruct b end; lia);
    try (rewrite Hc; lia).
  (* a tick begins: the loop flag is up *)
  1, 2: destruct (running s); [unfold potc; cbn; lia|specialize (J7 eq_refl); discriminate J7].
  (* the poll of flag k *)
  all: rewrite Nat.add_0_r;
    repeat match goal with Hx : (_ && _) = true |- _ => apply andb_true_iff in Hx; destruct Hx end.
  all: match goal with Hn : (S ?k =? n) = _ |- _ <= potc ?rn ?e (CPoll ?k ?any) =>
         pose proof (poll_pot rn e k any) as PPt; rewrite Hn in PPt; cbn [orb] in PPt end.
  all: repeat match goal with Hx : (_ =? _) = true |- _ => apply Nat.eqb_eq in Hx; subst
                         | Hx : Bool.eqb _ _ = true |- _ => apply eqb_prop in Hx; subst end.
  all: repeat match goal with Hx : (_ || _) = _ |- _ => rewrite Hx in PPt end; exact PPt.
Qed.

Lemma step_pot s t l s' : Inv2 s -> flagged_from (ex s) 0 = true -> step s t l = Some s' ->
  flagged_from (ex s') 0 = true /\ pot s' + is_tick t l <= pot s.
Proof.
  intros HJ F H. destruct t as [|i|j| |].
  - unfold Threads.step in H. destruct (ctl_pot _ _ _ HJ F H) as (Ex & P). rewrite Ex. auto.
  - unfold Threads.step in H. destruct (i <? n); [|discriminate].
    destruct (bg_ex _ _ _ _ H) as (Ec & Er & _ & M & _). split; [eapply flagged_from_mono; eassumption|].
    unfold pot. rewrite Ec, Er. cbn [is_tick]. rewrite Nat.add_0_r. apply potc_mono. exact M.
  - destruct (other_frame _ _ _ _ H) as (Ec & Er & _ & Ex); try discriminate. unfold pot. rewrite Ec, Er, Ex. cbn [is_tick]. split; [exact F|lia].
  - destruct (other_frame _ _ _ _ H) as (Ec & Er & _ & Ex); try discriminate. unfold pot. rewrite Ec, Er, Ex. cbn [is_tick]. split; [exact F|lia].
  - destruct (other_frame _ _ _ _ H) as (Ec & Er & _ & Ex); try discriminate. unfold pot. rewrite Ec, Er, Ex. cbn [is_tick]. split; [exact F|lia].
Qed.

Lemma ticks_cons f t l r :
  ticks_after_flag f ((t, l) :: r) =
  match t, l with
  | TBg _, LSet (EExc _) => ticks_after_flag true r
  | TCtl, LSaveCond _ => (if f then 1 else 0) + ticks_after_flag f r
  | _, _ => ticks_after_flag f r
  end.
Proof. destruct t; destruct l; try reflexivity; destruct e; reflexivity. Qed.

Lemma ticks_flagged : forall tr s s', Inv s -> Inv2 s -> flagged_from (ex s) 0 = true -> run s tr = Some s' ->
  ticks_after_flag true tr <= pot s.
Proof.
  induction tr as [|[t l] tr IH]; intros s s' HI HJ F H; [cbn; lia|].
  cbn [Threads.run] in H. destruct (step s t l) as [s1|] eqn:E; [|discriminate].
  pose proof (inv_step _ _ _ _ _ _ _ _ _ HI E) as HI1.
  pose proof (inv2_step _ _ _ _ _ _ _ _ _ HI HJ E) as HJ1.
  destruct (step_pot _ _ _ _ HJ F E) as (F1 & P).
  specialize (IH s1 s' HI1 HJ1 F1 H). rewrite ticks_cons.
  destruct t; destruct l; cbn [is_tick] in P; try lia; destruct e; lia.
Qed.

Lemma ticks_unflagged : forall tr s s', Inv s -> Inv2 s -> run s tr = Some s' -> ticks_after_flag false tr <= 1.
Proof.
  induction tr as [|[t l] tr IH]; intros s s' HI HJ H; [cbn; lia|].
  cbn [Threads.run] in H. destruct (step s t l) as [s1|] eqn:E; [|discriminate].
  pose proof (inv_step _ _ _ _ _ _ _ _ _ HI E) as HI1.
  pose proof (inv2_step _ _ _ _ _ _ _ _ _ HI HJ E) as HJ1.
  rewrite ticks_cons.
  assert (D : ticks_after_flag false tr <= 1) by (apply (IH s1 s' HI1 HJ1 H)).
  destruct t as [|i|j| |]; destruct l; try exact D; try (cbn; exact D).
  destruct e; try exact D.
  (* thread i sets its exception flag *)
  unfold Threads.step in E. destruct (i <? n) eqn:Hi; [|discriminate]. apply Nat.ltb_lt in Hi.
  destruct (bg_ex _ _ _ _ E) as (_ & _ & _ & _ & Hex).
  pose proof (flagged_intro _ _ Hi Hex) as F1.
  pose proof (ticks_flagged tr s1 s' HI1 HJ1 F1 H) as P. pose proof (potc_le1 (running s1) (ex s1) (cp s1)). unfold pot in P. lia.
Qed.

(* whatever the schedule and the history: once a background thread has flagged a failure, at most one more
   control tick begins *)
Theorem C03_at_most_one_more_tick tr s : run init tr = Some s -> ticks_after_flag false tr <= 1.
Proof. intros H. apply (ticks_unflagged tr init s); [apply inv_init|apply inv2_init|exact H]. Qed.

(* ---------- ... and at most two more loop delays ---------- *)
Definition finp (c : cpc) : bool :=
  match c with
  | CShut0 KFinally | CShut1 KFinally | CShut2 KFinally | CShut3 KFinally | CShut4 KFinally
  | CJoin _ | CFinScale | CFinSave0 | CFinSave1 | CDone | CJoinClient | CMainExit | CMainDone => true
  | _ => false
  end.
Definition potc2 (rn : bool) (e : nat -> bool) (c : cpc) : nat :=
  if negb rn then (if finp c then 0 else 1) else
  match c with
  | CPoll k any => if any || flagged_from e k then 1 else 2
  | CAfterPoll | CAfterUptime => 2
  | _ => if finp c then 0 else 1
  end.
Definition pot2 (s : st) : nat := potc2 (running s) (ex s) (cp s).

Lemma potc2_le2 rn e c : potc2 rn e c <= 2.
Proof.
  unfold potc2. destruct rn; cbn [negb]; [|destruct (finp c); lia].
  destruct c; repeat match goal with |- context [if ?b then _ else _] => destruct b end; lia.
Qed.
Lemma potc2_mono rn e e' c : (forall j, e j = true -> e' j = true) -> potc2 rn e' c <= potc2 rn e c.
Proof.
  intros M. unfold potc2. destruct rn; cbn [negb]; [|lia]. destruct c; try lia.
  destruct any; cbn [orb]; [lia|]. destruct (flagged_from e k) eqn:F; [rewrite (flagged_from_mono _ _ _ M F); lia|].
  destruct (flagged_from e' k); lia.
Qed.
Lemma potc2_poll rn e : flagged_from e 0 = true -> potc2 rn e poll_pc = 1.
Proof.
  intros F. unfold potc2, Threads.poll_pc.
  destruct (n =? 0) eqn:E; [apply Nat.eqb_eq in E; rewrite flagged_from_ge in F by lia; discriminate|].
  destruct rn; cbn; [rewrite F|]; reflexivity.
Qed.
Lemma potc2_drain rn e : flagged_from e 0 = true -> potc2 rn e drain_pc = 1.
Proof. intros F. unfold Threads.drain_pc. destruct with_web; [unfold potc2; destruct rn; reflexivity|apply potc2_poll; exact F]. Qed.
Lemma potc2_ret_loop rn e k : flagged_from e 0 = true -> loop_k k = true -> potc2 rn e (ret_cont k) = 1.
Proof. intros F L. destruct k; try discriminate L; apply potc2_drain; exact F. Qed.
Lemma potc2_tp rn e ok ret k : flagged_from e 0 = true -> loop_k k = true -> potc2 rn e (tp_return ok ret k) = 1.
Proof.
  intros F L. unfold Threads.tp_return. destruct ret as [ap|]; [destruct ok|]; try (apply potc2_ret_loop; assumption).
  unfold potc2. destruct rn; reflexivity.
Qed.
(* a shutdown returns with the loop flag lowered: one more delay, or none when it was the final one *)
Lemma potc2_ret_shut e k : shut_k k = true -> potc2 false e (ret_cont k) = (if finp (CShut0 k) then 0 else 1).
Proof.
  destruct k; try discriminate; intros _; unfold potc2, Threads.ret_cont, Threads.poll_pc, join_pc; cbn;
    destruct (n =? 0); reflexivity.
Qed.

Lemma poll_pot2 rn e k any :
  potc2 rn e (if S k =? n then (if any || e k then CShut0 KAfterPoll else CAfterPoll) else CPoll (S k) (any || e k)) <= potc2 rn e (CPoll k any).
Proof.
  destruct rn; [|destruct (S k =? n); [destruct (any || e k)|]; unfold potc2; cbn [negb finp]; lia].
  destruct any; [destruct (S k =? n); unfold potc2; cbn [negb orb finp]; lia|].
  cbn [orb]. destruct (flagged_from e k) eqn:F.
  2: { assert (P2 : potc2 true e (CPoll k false) = 2) by (unfold potc2; cbn [negb orb]; rewrite F; reflexivity).
       rewrite P2. apply potc2_le2. }
  assert (P1 : potc2 true e (CPoll k false) = 1) by (unfold potc2; cbn [negb orb]; rewrite F; reflexivity).
  rewrite P1.
  assert (Hk : k < n) by (destruct (Nat.lt_ge_cases k n); [assumption|rewrite flagged_from_ge in F by assumption; discriminate]).
  rewrite (flagged_from_S _ _ Hk) in F.
  destruct (S k =? n) eqn:E.
  - apply Nat.eqb_eq in E. rewrite flagged_from_ge, orb_false_r in F by lia. rewrite F. unfold potc2. cbn [negb finp]. lia.
  - unfold potc2. cbn [negb]. rewrite F. lia.
Qed.

Definition is_ctl_sleep (t : tid) (l : label) : nat := match t, l with TCtl, LSleep => 1 | _, _ => 0 end.

Lemma ctl_pot2 s l s' : Inv2 s -> flagged_from (ex s) 0 = true -> ctl_step s l = Some s' ->
  pot2 s' + is_ctl_sleep TCtl l <= pot2 s.
Proof.
  intros (_ & _ & _ & _ & _ & _ & J7 & J8 & J9 & J10) F H.
  assert (Ex : ex s' = ex s).
  { unfold Threads.ctl_step in H.
    destruct (cp s) eqn:Hc; destruct l; try discriminate;
      repeat match type of H with
             | context [match ?x with _ => _ end] => destruct x eqn:?; try discriminate
             end;
      inversion H; subst; reflexivity. }
  unfold pot2. rewrite Ex.
  pose proof (potc2_drain (running s) (ex s) F) as PD.
  pose proof (potc2_poll (running s) (ex s) F) as PP.
  unfold Threads.ctl_step in H.
  destruct (cp s) eqn:Hc; destruct l; try discriminate;
    repeat match type of H with
           | context [match ?x with _ => _ end] => destruct x eqn:?; try discriminate
           end;
    inversion H; subst; clear H;
    unfold exc_goto, ctl, set_cp, set_res, set_misc, set_pp, set_bp, after_pool, start_pool; cbn [cp running ex is_ctl_sleep];
    cbn [loop_pc_ok shut_pc_ok] in J10, J8;
    try rewrite (potc2_ret_loop _ _ _ F J10); try rewrite (potc2_tp _ _ _ _ _ F J10); try rewrite (potc2_ret_shut _ _ J8); rewrite ?PD, ?PP;
    try (unfold potc2; destruct (running s); cbn; lia);
    try (unfold potc2; destruct (running s); cbn; repeat match goal with |- context [if ?b then _ else _] => destruct b end; lia);
    try (rewrite Hc; lia).
  all: try (destruct k; try discriminate J8; unfold potc2; destruct (running s); cbn; lia).
  all: rewrite ?Nat.add_0_r;
    repeat match goal with Hx : (_ && _) = true |- _ => apply andb_true_iff in Hx; destruct Hx end.
  all: try match goal with Hn : (S ?k =? n) = _ |- _ <= potc2 ?rn ?e (CPoll ?k ?any) =>
         pose proof (poll_pot2 rn e k any) as PPt; rewrite Hn in PPt; cbn [orb] in PPt end.
  all: repeat match goal with Hx : (_ =? _) = true |- _ => apply Nat.eqb_eq in Hx; subst
                         | Hx : Bool.eqb _ _ = true |- _ => apply eqb_prop in Hx; subst end.
  all: try (repeat match goal with Hx : (_ || _) = _ |- _ => rewrite Hx in PPt end; exact PPt).
Qed.

Lemma step_pot2 s t l s' : Inv2 s -> flagged_from (ex s) 0 = true -> step s t l = Some s' ->
  pot2 s' + is_ctl_sleep t l <= pot2 s.
Proof.
  intros HJ F H. destruct t as [|i|j| |].
  - unfold Threads.step in H. apply (ctl_pot2 _ _ _ HJ F H).
  - unfold Threads.step in H. destruct (i <? n); [|discriminate].
    destruct (bg_ex _ _ _ _ H) as (Ec & Er & _ & M & _).
    unfold pot2. rewrite Ec, Er. cbn [is_ctl_sleep]. rewrite Nat.add_0_r. apply potc2_mono. exact M.
  - destruct (other_frame _ _ _ _ H) as (Ec & Er & _ & Ex); try discriminate. unfold pot2. rewrite Ec, Er, Ex. cbn [is_ctl_sleep]. lia.
  - destruct (other_frame _ _ _ _ H) as (Ec & Er & _ & Ex); try discriminate. unfold pot2. rewrite Ec, Er, Ex. cbn [is_ctl_sleep]. lia.
  - destruct (other_frame _ _ _ _ H) as (Ec & Er & _ & Ex); try discriminate. unfold pot2. rewrite Ec, Er, Ex. cbn [is_ctl_sleep]. lia.
Qed.

Lemma sleeps_cons f t l r :
  sleeps_after_flag f ((t, l) :: r) =
  match t, l with
  | TBg _, LSet (EExc _) => sleeps_after_flag true r
  | TCtl, LSleep => (if f then 1 else 0) + sleeps_after_flag f r
  | _, _ => sleeps_after_flag f r
  end.
Proof. destruct t; destruct l; try reflexivity; destruct e; reflexivity. Qed.

Lemma sleeps_flagged : forall tr s s', Inv s -> Inv2 s -> flagged_from (ex s) 0 = true -> run s tr = Some s' ->
  sleeps_after_flag true tr <= pot2 s.
Proof.
  induction tr as [|[t l] tr IH]; intros s s' HI HJ F H; [cbn; lia|].
  cbn [Threads.run] in H. destruct (step s t l) as [s1|] eqn:E; [|discriminate].
  pose proof (inv_step _ _ _ _ _ _ _ _ _ HI E) as HI1.
  pose proof (inv2_step _ _ _ _ _ _ _ _ _ HI HJ E) as HJ1.
  destruct (step_pot _ _ _ _ HJ F E) as (F1 & _).
  pose proof (step_pot2 _ _ _ _ HJ F E) as P.
  specialize (IH s1 s' HI1 HJ1 F1 H). rewrite sleeps_cons.
  destruct t; destruct l; cbn [is_ctl_sleep] in P; try lia; destruct e; lia.
Qed.

Theorem C03_at_most_two_more_delays tr s : run init tr = Some s -> sleeps_after_flag false tr <= 2.
Proof.
  assert (G : forall tr s s', Inv s -> Inv2 s -> run s tr = Some s' -> sleeps_after_flag false tr <= 2).
  { induction tr0 as [|[t l] tr0 IH]; intros s0 s1 HI HJ H; [cbn; lia|].
    cbn [Threads.run] in H. destruct (step s0 t l) as [s2|] eqn:E; [|discriminate].
    pose proof (inv_step _ _ _ _ _ _ _ _ _ HI E) as HI1.
    pose proof (inv2_step _ _ _ _ _ _ _ _ _ HI HJ E) as HJ1.
    rewrite sleeps_cons.
    assert (D : sleeps_after_flag false tr0 <= 2) by (apply (IH s2 s1 HI1 HJ1 H)).
    destruct t as [|i|j| |]; destruct l; try exact D; try (cbn; exact D).
    destruct e; try exact D.
    unfold Threads.step in E. destruct (i <? n) eqn:Hi; [|discriminate]. apply Nat.ltb_lt in Hi.
    destruct (bg_ex _ _ _ _ E) as (_ & _ & _ & _ & Hex).
    pose proof (flagged_intro _ _ Hi Hex) as F1.
    pose proof (sleeps_flagged tr0 s2 s1 HI1 HJ1 F1 H) as P. pose proof (potc2_le2 (running s2) (ex s2) (cp s2)). unfold pot2 in P. lia. }
  intros H. apply (G tr init s); [apply inv_init|apply inv2_init|exact H].
Qed.

Theorem C03_monitor_holds tr s : run init tr = Some s -> C03_ok tr = true.
Proof.
  intros H. unfold C03_ok. rewrite (C03_control_failure_propagates _ _ H), andb_true_r.
  apply andb_true_iff. split; apply Nat.leb_le; [apply (C03_at_most_one_more_tick _ _ H)|apply (C03_at_most_two_more_delays _ _ H)].
Qed.

(* state form: a flagged failure and a control thread that has begun a tick since: it is past the loop or
   stops before the next tick (its potential is zero) - so it does not carry on with a dead thread *)
Theorem flagged_then_no_tick_after_poll tr s : run init tr = Some s -> flagged_from (ex s) 0 = true ->
  forall tr' s', run s tr' = Some s' -> ticks_after_flag true tr' <= pot s.
Proof.
  intros H F tr' s' H'. destruct (inv2_reachable _ _ _ _ _ _ _ H) as (HI & HJ). apply (ticks_flagged tr' s s' HI HJ F H').
Qed.

(* ---------- C08: nothing but a cause stops the system ---------- *)
Definition stopping (c : cpc) : bool :=
  match c with
  | CShut0 _ | CShut1 _ | CShut2 _ | CShut3 _ | CShut4 _
  | CJoin _ | CFinScale | CFinSave0 | CFinSave1 | CDone | CJoinClient | CMainExit | CMainDone => true
  | _ => false
  end.
Definition G8 (s : st) (cause : bool) : Prop :=
  (stopping (cp s) = true \/ running s = false -> cause = true) /\
  (forall k, cp s = CPoll k true -> cause = true).

Definition quiet (c : cpc) : Prop := stopping c = false /\ forall k, c <> CPoll k true.
Lemma quiet_poll : quiet poll_pc.
Proof. unfold Threads.poll_pc. destruct (n =? 0); split; try reflexivity; intros k H; discriminate H. Qed.
Lemma quiet_drain : quiet drain_pc.
Proof. unfold Threads.drain_pc. destruct with_web; [split; [reflexivity|intros k H; discriminate H]|apply quiet_poll]. Qed.
Lemma quiet_ret k : loop_k k = true -> quiet (ret_cont k).
Proof. destruct k; try discriminate; intros _; apply quiet_drain. Qed.
Lemma quiet_tp ok ret k : loop_k k = true -> quiet (tp_return ok ret k).
Proof.
  intros L. unfold Threads.tp_return. destruct ret as [ap|]; [destruct ok|]; try (apply quiet_ret; exact L).
  split; [reflexivity|intros k0 H; discriminate H].
Qed.

Ltac quiet_goal Q G1 :=
  first [ intros [Hx|Hx]; [rewrite (proj1 Q) in Hx; discriminate Hx|apply G1; right; exact Hx]
        | intros k0 Hx; exfalso; eapply (proj2 Q); exact Hx ].

Lemma ctl_cause s l s' cause : Inv2 s -> G8 s cause -> ctl_step s l = Some s' ->
  G8 s' (cause || is_cause TCtl l) /\
  (match l with LSet EShut | LJoin (TBg _) | LLaunchDone _ => cause = true | _ => True end).
Proof.
  intros (_ & _ & _ & _ & _ & _ & _ & _ & _ & J10) (G1 & G2) H. unfold Threads.ctl_step in H.
  pose proof quiet_poll as QP. pose proof quiet_drain as QD.
  destruct (cp s) eqn:Hc; destruct l; try discriminate;
    repeat match type of H with
           | context [match ?x with _ => _ end] => destruct x eqn:?; try discriminate
           end;
    inversion H; subst; clear H;
    unfold G8, exc_goto, ctl, set_cp, set_res, set_misc, set_pp, set_bp, after_pool, start_pool; cbn [cp running is_cause stopping];
    cbn [loop_pc_ok] in J10;
    rewrite ?orb_true_r, ?orb_false_r;
    (split; [split|]); try exact I; try reflexivity; try (intros; reflexivity);
    try (apply G1; left; reflexivity); try (intros _; apply G1; left; reflexivity).
  all: try (intros [Hx|Hx]; try discriminate Hx; apply G1; right; exact Hx).
  all: try (intros kk Hx; discriminate Hx).
  all: try (intros [Hx|Hx]; apply G1; auto; fail).
  all: try (rewrite Hc in *; intros; try (apply G1; assumption); try (eapply G2; eassumption); fail).
  all: try (intros _; eapply G2; reflexivity).
  all: try (quiet_goal QP G1). all: try (quiet_goal QD G1).
  all: try (pose proof (quiet_ret _ J10) as QR; quiet_goal QR G1).
  all: try (match goal with |- context [tp_return ?ok ?ret ?k] => pose proof (quiet_tp ok ret k J10) as QT; quiet_goal QT G1 end).
  all: try (repeat match goal with |- context [if ?x then _ else _] => destruct x end;
            first [ intros [Hx|Hx]; [discriminate Hx|apply G1; right; exact Hx] | intros k0 Hx; discriminate Hx ]).
  all: try (intros; apply G1; left; reflexivity).
  all: try (intros [Hx|Hx]; [discriminate Hx|congruence]).
  all: destruct b; rewrite ?orb_true_r, ?orb_false_r in *; try (intros; reflexivity).
  all: try (intros [Hx|Hx]; [|apply G1; right; exact Hx]).
  all: try (intros k0 Hx).
  all: try discriminate.
  all: try (inversion Hx; subst); subst; eapply G2; reflexivity.
Qed.

Lemma G8_frame s s' cause : cp s' = cp s -> running s' = running s -> G8 s cause -> G8 s' cause.
Proof. intros Ec Er (G1 & G2). unfold G8. rewrite Ec, Er. auto. Qed.

Lemma c08_from : forall tr s s' cause, Inv s -> Inv2 s -> G8 s cause -> run s tr = Some s' -> c08_mon cause tr = true.
Proof.
  induction tr as [|[t l] tr IH]; intros s s' cause HI HJ HG H; [reflexivity|].
  cbn [Threads.run] in H. destruct (step s t l) as [s1|] eqn:E; [|discriminate].
  pose proof (inv_step _ _ _ _ _ _ _ _ _ HI E) as HI1.
  pose proof (inv2_step _ _ _ _ _ _ _ _ _ HI HJ E) as HJ1.
  cbn [c08_mon].
  destruct t as [|i|j| |].
  - unfold Threads.step in E. destruct (ctl_cause _ _ _ cause HJ HG E) as (HG1 & Hl).
    specialize (IH s1 s' _ HI1 HJ1 HG1 H).
    destruct l; try exact IH.
    + destruct e; try exact IH. rewrite Hl in *. exact IH.
    + destruct t; try exact IH. rewrite Hl in *. exact IH.
    + rewrite Hl in *. exact IH.
  - unfold Threads.step in E. destruct (i <? n); [|discriminate].
    destruct (bg_ex _ _ _ _ E) as (Ec & Er & _).
    cbn [is_cause]. rewrite orb_false_r. apply (IH s1 s' cause HI1 HJ1); [eapply G8_frame; eassumption|exact H].
  - destruct (other_frame _ _ _ _ E) as (Ec & Er & _); try discriminate.
    cbn [is_cause]. rewrite orb_false_r. apply (IH s1 s' cause HI1 HJ1); [eapply G8_frame; eassumption|exact H].
  - destruct (other_frame _ _ _ _ E) as (Ec & Er & _); try discriminate.
    cbn [is_cause]. rewrite orb_false_r. apply (IH s1 s' cause HI1 HJ1); [eapply G8_frame; eassumption|exact H].
  - destruct (other_frame _ _ _ _ E) as (Ec & Er & _); try discriminate.
    cbn [is_cause]. rewrite orb_false_r. apply (IH s1 s' cause HI1 HJ1); [eapply G8_frame; eassumption|exact H].
Qed.

Theorem C08_monitor_holds tr s : run init tr = Some s -> C08_ok tr = true.
Proof.
  intros H. apply (c08_from tr init s false); [apply inv_init|apply inv2_init| |exact H].
  split; [intros [Hx|Hx]; discriminate Hx|intros k Hx; discriminate Hx].
Qed.

End Fault.
