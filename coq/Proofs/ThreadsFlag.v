(* C03: in the configuration of the real system (inference thread 0, training thread 1) a background thread
   whose callback raised anywhere but in its teardown sets its exception flag before it ends - on EVERY trace
   accepted by the thread model M6.  (The position of the owning thread determines which callback can be in
   progress - the relation R9 of ThreadsProto.v - so a raise outside the teardown phase leads to the position
   "about to set the exception flag", from which nothing else is possible.) *)
From Coq Require Import List Bool Arith Lia.
From Pamiq Require Import Model.Threads Check.Sys Proofs.ThreadsInv Proofs.ThreadsInv2 Proofs.ThreadsProto.
Import ListNotations.

Section Flag.
Variable max_attempts : nat.
Variable qmax : nat.
Variable with_web : bool.

Notation step := (step 2 kind2 max_attempts qmax with_web).
Notation run := (run 2 kind2 max_attempts qmax with_web).
Notation bg_step := (bg_step kind2).
Notation Inv := (Inv 2).

Definition Owed (s : st) (owed : nat -> bool) : Prop := forall i, owed i = true -> bp s i = BSetExc.

(* from "about to set the exception flag" a thread can only set its flag *)
Lemma setexc_only s i l s' : bp s i = BSetExc -> bg_step s i l = Some s' -> exists j, l = LSet (EExc j).
Proof.
  intros Hp H. unfold Threads.bg_step in H. rewrite Hp in H. destruct l; try discriminate. destruct e; try discriminate. eauto.
Qed.

(* a raise: into the teardown's exit position exactly when a teardown callback raised *)
Lemma raise0 s c s' a e b : bg_step s 0 (LCbRaise c) = Some s' -> rel0 (bp s 0) a e b = true ->
  bp s' 0 = if is_teardown_cb c then BExit else BSetExc.
Proof.
  intros H Hr. unfold Threads.bg_step in H.
  destruct (bp s 0) eqn:Hp; try discriminate H. destruct inside as [c0|]; [|destruct rest; cbn in H; discriminate H].
  destruct (cbn_eqb c0 c) eqn:Ec; [|destruct rest; discriminate H].
  assert (Hs : s' = fault s 0 ph) by (destruct rest; inversion H; reflexivity). subst s'. clear H.
  unfold rel0 in Hr. cbn in Hr.
  repeat match type of Hr with
         | context [match ?x with _ => _ end] => is_var x; destruct x; cbn in Hr; try discriminate Hr
         end;
    destruct c; try discriminate Ec; unfold fault, set_bp; cbn [bp is_teardown_cb]; rewrite upd_same; reflexivity.
Qed.

Lemma raise1 s c s' t b : bg_step s 1 (LCbRaise c) = Some s' -> rel1 (bp s 1) t b = true ->
  bp s' 1 = if is_teardown_cb c then BExit else BSetExc.
Proof.
  intros H Hr. unfold Threads.bg_step in H.
  destruct (bp s 1) eqn:Hp; try discriminate H. destruct inside as [c0|]; [|destruct rest; cbn in H; discriminate H].
  destruct (cbn_eqb c0 c) eqn:Ec; [|destruct rest; discriminate H].
  assert (Hs : s' = fault s 1 ph) by (destruct rest; inversion H; reflexivity). subst s'. clear H.
  unfold rel1 in Hr. cbn in Hr.
  repeat match type of Hr with
         | context [match ?x with _ => _ end] => is_var x; destruct x; cbn in Hr; try discriminate Hr
         end;
    destruct c; try discriminate Ec; unfold fault, set_bp; cbn [bp is_teardown_cb]; rewrite upd_same; reflexivity.
Qed.

Lemma same_pos_setexc p p' : same_pos p p' -> p = BSetExc -> p' = BSetExc.
Proof. intros [->|(nt & -> & _)]; [auto|discriminate]. Qed.

Lemma flagged_exit_from : forall tr s s' m owed, Inv s -> R9 s m -> Owed s owed -> run s tr = Some s' ->
  flagged_before_exit owed tr = true.
Proof.
  induction tr as [|[t l] tr IH]; intros s s' m owed HI HR HO H; [reflexivity|].
  cbn [Threads.run] in H. destruct (step s t l) as [s1|] eqn:E; [|discriminate].
  pose proof (inv_step _ _ _ _ _ _ _ _ _ HI E) as HI1.
  destruct (sim_step _ _ _ _ _ _ _ _ HI HR E) as (m1 & _ & HR1 & _).
  assert (Keep : (forall j, same_pos (bp s j) (bp s1 j) \/ (bp s j = BNotStarted /\ bp s1 j = enter kind2 j PSetup)) -> Owed s1 owed).
  { intros Hbp i Hi. specialize (HO i Hi). destruct (Hbp i) as [S|(N & _)]; [eapply same_pos_setexc; eassumption|congruence]. }
  destruct t as [|i|j| |].
  - (* control thread *)
    unfold Threads.step in E. destruct (ctl_sim _ _ _ _ _ HI E) as (_ & Hbp).
    assert (G : flagged_before_exit owed tr = true) by (apply (IH s1 s' m1 owed HI1 HR1 (Keep Hbp) H)).
    cbn [flagged_before_exit]. exact G.
  - (* background thread i *)
    unfold Threads.step in E. destruct (i <? 2) eqn:Hi; [|discriminate]. apply Nat.ltb_lt in Hi.
    destruct (bg_frame kind2 _ _ _ _ E) as (_ & _ & _ & _ & _ & _ & Fr).
    destruct (owed i) eqn:Oi.
    + (* it owes the flag: the step sets it *)
      destruct (setexc_only _ _ _ _ (HO i Oi) E) as (j & ->). cbn [flagged_before_exit].
      apply (IH s1 s' m1 (upd owed i false) HI1 HR1); [|exact H].
      intros k Hk. unfold upd in Hk. destruct (Nat.eqb_spec k i) as [Ek|Nk]; [discriminate Hk|].
      destruct (Fr k Nk) as (-> & _). apply HO; exact Hk.
    + assert (Others : forall o', (forall k, k <> i -> o' k = owed k) -> (o' i = true -> bp s1 i = BSetExc) -> Owed s1 o').
      { intros o' Ho Hi' k Hk. destruct (Nat.eq_dec k i) as [->|Nk]; [now apply Hi'|].
        destruct (Fr k Nk) as (-> & _). apply HO. rewrite <- Ho by exact Nk. exact Hk. }
      destruct l; cbn [flagged_before_exit]; rewrite ?Oi; cbn [negb andb];
        try (apply (IH s1 s' m1 owed HI1 HR1); [|exact H]; apply Others; [reflexivity|congruence]).
      * (* LSet *)
        destruct e; try (apply (IH s1 s' m1 owed HI1 HR1); [|exact H]; apply Others; [reflexivity|congruence]).
        apply (IH s1 s' m1 (upd owed i false) HI1 HR1); [|exact H]. apply Others.
        -- intros k Nk. unfold upd. destruct (Nat.eqb_spec k i); [contradiction|reflexivity].
        -- unfold upd. rewrite Nat.eqb_refl. discriminate.
      * (* LCbRaise *)
        destruct HR as [R0 R1].
        assert (Hb : bp s1 i = if is_teardown_cb c then BExit else BSetExc).
        { destruct i as [|[|i]]; [eapply raise0; eassumption|eapply raise1; eassumption|lia]. }
        destruct (is_teardown_cb c).
        -- apply (IH s1 s' m1 owed HI1 HR1); [|exact H]. apply Others; [reflexivity|congruence].
        -- apply (IH s1 s' m1 (upd owed i true) HI1 HR1); [|exact H]. apply Others.
           ++ intros k Nk. unfold upd. destruct (Nat.eqb_spec k i); [contradiction|reflexivity].
           ++ intros _. exact Hb.
  - destruct (other_sim _ _ _ _ _ _ _ E) as (_ & Hbp); try discriminate.
    cbn [flagged_before_exit]. apply (IH s1 s' m1 owed HI1 HR1); [|exact H]. intros i Hi. rewrite Hbp. now apply HO.
  - destruct (other_sim _ _ _ _ _ _ _ E) as (_ & Hbp); try discriminate.
    cbn [flagged_before_exit]. apply (IH s1 s' m1 owed HI1 HR1); [|exact H]. intros i Hi. rewrite Hbp. now apply HO.
  - destruct (other_sim _ _ _ _ _ _ _ E) as (_ & Hbp); try discriminate.
    cbn [flagged_before_exit]. apply (IH s1 s' m1 owed HI1 HR1); [|exact H]. intros i Hi. rewrite Hbp. now apply HO.
Qed.

Theorem C03_failure_is_flagged tr s : run init tr = Some s -> C03_flagged tr = true.
Proof.
  intros H. apply (flagged_exit_from tr init s m0 (fun _ => false) (inv_init 2) R9_init); [intros i Hi; discriminate|exact H].
Qed.

End Flag.
