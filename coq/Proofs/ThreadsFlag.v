(* C03: a background thread whose callback raised anywhere but in its teardown sets its exception flag before
   it ends - on EVERY trace accepted by the thread model M6, for any number of background threads of any kinds.
   (The phase a thread is in determines which callbacks can be in progress - [Coh] - so a raise outside the
   teardown phase leads to the position "about to set the exception flag", from which nothing else is
   possible.) *)
From Coq Require Import List Bool Arith Lia.
From Pamiq Require Import Model.Threads Check.Sys Proofs.ThreadsInv Proofs.ThreadsProto.
Import ListNotations.

Section Flag.
Variable n : nat.
Variable kind : nat -> bkind.
Variable max_attempts : nat.
Variable qmax : nat.
Variable with_web : bool.

Notation step := (step n kind max_attempts qmax with_web).
Notation run := (run n kind max_attempts qmax with_web).
Notation bg_step := (bg_step kind).
Notation ctl_step := (ctl_step n kind max_attempts with_web).
Notation Inv := (Inv n).

(* the callbacks of a phase: teardown callbacks in the teardown phase, and only there *)
Definition is_td_phase (ph : phase) : bool := match ph with PTeardown => true | _ => false end.
Definition coh_cb (ph : phase) (c : cbn) : bool := Bool.eqb (is_teardown_cb c) (is_td_phase ph).
Definition coh_pc (p : bpc) : bool :=
  match p with
  | BRun ph r inside => forallb (coh_cb ph) r && match inside with Some c => coh_cb ph c | None => true end
  | _ => true
  end.
Definition Coh (s : st) : Prop := forall i, coh_pc (bp s i) = true.
Definition Owed (s : st) (owed : nat -> bool) : Prop := forall i, owed i = true -> bp s i = BSetExc.

Lemma cbs_coh k ph : forallb (coh_cb ph) (cbs_of k ph) = true.
Proof. destruct k, ph; reflexivity. Qed.

Lemma enter_coh i ph : coh_pc (enter kind i ph) = true.
Proof.
  unfold enter. pose proof (cbs_coh (kind i) ph) as H. destruct (cbs_of (kind i) ph) eqn:E; [destruct ph; reflexivity|].
  cbn [coh_pc]. rewrite H. reflexivity.
Qed.

Lemma after_phase_coh ph : coh_pc (after_phase ph) = true.
Proof. destruct ph; reflexivity. Qed.

Lemma cbn_eqb_eq a b : cbn_eqb a b = true -> a = b.
Proof. destruct a, b; simpl; congruence. Qed.

Lemma same_pos_coh p p' : same_pos p p' -> coh_pc p = true -> coh_pc p' = true.
Proof. intros [->|(nt & -> & ->)]; auto. Qed.

Lemma same_pos_setexc p p' : same_pos p p' -> p = BSetExc -> p' = BSetExc.
Proof. intros [->|(nt & -> & _)]; [auto|discriminate]. Qed.

(* a step of thread i keeps its own position coherent *)
Lemma bg_coh s i l s' : bg_step s i l = Some s' -> coh_pc (bp s i) = true -> coh_pc (bp s' i) = true.
Proof.
  intros H Hc. unfold Threads.bg_step in H.
  destruct (bp s i) as [|ph rest inside| | | | | | | | | | | | | | |] eqn:Hp; destruct l; try discriminate H;
    repeat match type of H with
           | context [match ?x with _ => _ end] => is_var x; destruct x; cbn in H; try discriminate H
           | context [if ?x then _ else _] => destruct x eqn:?; cbn in H; try discriminate H
           end;
    inversion H; subst; clear H;
    unfold fault, set_bp, set_pf, set_ex; cbn [bp]; rewrite ?upd_same; rewrite ?Hp;
    try apply enter_coh; try apply after_phase_coh; try reflexivity; try assumption.
  all: try (destruct ph; cbn [bp]; rewrite upd_same; reflexivity).
  all: cbn [coh_pc forallb] in *; rewrite ?andb_true_iff in *; intuition.
Qed.

(* from "about to set the exception flag" a thread can only set its flag *)
Lemma setexc_only s i l s' : bp s i = BSetExc -> bg_step s i l = Some s' -> exists j, l = LSet (EExc j).
Proof.
  intros Hp H. unfold Threads.bg_step in H. rewrite Hp in H. destruct l; try discriminate. destruct e; try discriminate. eauto.
Qed.

(* a raise: into the teardown's exit position exactly when a teardown callback raised *)
Lemma raise_pos s i c s' : bg_step s i (LCbRaise c) = Some s' -> coh_pc (bp s i) = true ->
  bp s' i = if is_teardown_cb c then BExit else BSetExc.
Proof.
  intros H Hc. unfold Threads.bg_step in H.
  destruct (bp s i) as [|ph rest inside| | | | | | | | | | | | | | |] eqn:Hp; try discriminate H.
  destruct inside as [c0|]; [|destruct rest; cbn in H; discriminate H].
  destruct (cbn_eqb c0 c) eqn:Ec; [|destruct rest; discriminate H].
  assert (Hs : s' = fault s i ph) by (destruct rest; inversion H; reflexivity). subst s'. clear H.
  apply cbn_eqb_eq in Ec. subst c0.
  cbn [coh_pc] in Hc. apply andb_true_iff in Hc as [_ Hc]. unfold coh_cb in Hc. apply eqb_prop in Hc. rewrite Hc.
  destruct ph; unfold fault, set_bp; cbn [bp is_td_phase]; rewrite upd_same; reflexivity.
Qed.

(* the control thread touches the positions of the background threads only by starting them (from "not
   started") and by notifying a waiter *)
Lemma ctl_bp s l s' : Inv s -> ctl_step s l = Some s' ->
  forall j, same_pos (bp s j) (bp s' j) \/ (bp s j = BNotStarted /\ bp s' j = enter kind j PSetup).
Proof.
  intros HI H. destruct HI as (_ & _ & _ & _ & _ & C). unfold CI in C.
  unfold Threads.ctl_step in H.
  destruct (cp s) eqn:Hc; destruct l; try discriminate;
    repeat match type of H with
           | context [match ?x with _ => _ end] => destruct x eqn:?; try discriminate
           end;
    inversion H; subst; clear H; intros jj;
    unfold exc_goto, ctl, set_cp, set_res, set_misc, set_pp, set_bp; cbn [bp];
    try (left; left; reflexivity); try (left; apply notify_same).
  all: destruct C as (_ & _ & NS); unfold upd; destruct (Nat.eqb_spec jj k);
    [subst; right; split; [apply NS; lia|reflexivity]|left; left; reflexivity].
Qed.

Lemma other_bp s t l s' : step s t l = Some s' -> (forall i, t <> TBg i) -> t <> TCtl -> bp s' = bp s.
Proof.
  intros H N1 N2. unfold Threads.step in H. destruct t as [|i|j| |]; try congruence; try (exfalso; eapply N1; reflexivity).
  - destruct (j <? n); [|discriminate]. unfold pool_step in H.
    destruct (pp s j); destruct l; try discriminate;
      repeat match type of H with context [match ?x with _ => _ end] => destruct x eqn:?; try discriminate end;
      inversion H; subst; reflexivity.
  - unfold client_step in H. destruct (client_done s); [discriminate|].
    destruct l; try discriminate;
      repeat match type of H with context [if ?x then _ else _] => destruct x eqn:?; try discriminate end;
      inversion H; subst; reflexivity.
  - unfold web_step in H. destruct (web s) as [|[|w]]; try discriminate. destruct l; try discriminate.
    destruct raised; [discriminate|]. inversion H; subst; reflexivity.
Qed.

Lemma flagged_exit_from : forall tr s s' owed, Inv s -> Coh s -> Owed s owed -> run s tr = Some s' ->
  flagged_before_exit owed tr = true.
Proof.
  induction tr as [|[t l] tr IH]; intros s s' owed HI HC HO H; [reflexivity|].
  cbn [Threads.run] in H. destruct (step s t l) as [s1|] eqn:E; [|discriminate].
  pose proof (inv_step _ _ _ _ _ _ _ _ _ HI E) as HI1.
  destruct t as [|i|j| |].
  - (* control thread *)
    unfold Threads.step in E. pose proof (ctl_bp _ _ _ HI E) as Hbp.
    cbn [flagged_before_exit]. apply (IH s1 s' owed HI1); [| |exact H].
    + intros i. destruct (Hbp i) as [S|(_ & ->)]; [eapply same_pos_coh; [exact S|apply HC]|apply enter_coh].
    + intros i Hi. specialize (HO i Hi). destruct (Hbp i) as [S|(N & _)]; [eapply same_pos_setexc; eassumption|congruence].
  - (* background thread i *)
    unfold Threads.step in E. destruct (i <? n) eqn:Hi; [|discriminate].
    destruct (bg_frame kind _ _ _ _ E) as (_ & _ & _ & _ & _ & _ & Fr).
    assert (HC1 : Coh s1).
    { intros k. destruct (Nat.eq_dec k i) as [->|Nk]; [eapply bg_coh; [exact E|apply HC]|]. destruct (Fr k Nk) as (-> & _). apply HC. }
    destruct (owed i) eqn:Oi.
    + (* it owes the flag: the step sets it *)
      destruct (setexc_only _ _ _ _ (HO i Oi) E) as (j & ->). cbn [flagged_before_exit].
      apply (IH s1 s' (upd owed i false) HI1 HC1); [|exact H].
      intros k Hk. unfold upd in Hk. destruct (Nat.eqb_spec k i) as [Ek|Nk]; [discriminate Hk|].
      destruct (Fr k Nk) as (-> & _). apply HO; exact Hk.
    + assert (Others : forall o', (forall k, k <> i -> o' k = owed k) -> (o' i = true -> bp s1 i = BSetExc) -> Owed s1 o').
      { intros o' Ho Hi' k Hk. destruct (Nat.eq_dec k i) as [->|Nk]; [now apply Hi'|].
        destruct (Fr k Nk) as (-> & _). apply HO. rewrite <- Ho by exact Nk. exact Hk. }
      destruct l; cbn [flagged_before_exit]; rewrite ?Oi; cbn [negb andb];
        try (apply (IH s1 s' owed HI1 HC1); [|exact H]; apply Others; [reflexivity|congruence]).
      * (* LSet *)
        destruct e; try (apply (IH s1 s' owed HI1 HC1); [|exact H]; apply Others; [reflexivity|congruence]).
        apply (IH s1 s' (upd owed i false) HI1 HC1); [|exact H]. apply Others.
        -- intros k Nk. unfold upd. destruct (Nat.eqb_spec k i); [contradiction|reflexivity].
        -- unfold upd. rewrite Nat.eqb_refl. discriminate.
      * (* LCbRaise *)
        pose proof (raise_pos _ _ _ _ E (HC i)) as Hb.
        destruct (is_teardown_cb c).
        -- apply (IH s1 s' owed HI1 HC1); [|exact H]. apply Others; [reflexivity|congruence].
        -- apply (IH s1 s' (upd owed i true) HI1 HC1); [|exact H]. apply Others.
           ++ intros k Nk. unfold upd. destruct (Nat.eqb_spec k i); [contradiction|reflexivity].
           ++ intros _. exact Hb.
  - assert (Hbp : bp s1 = bp s) by (apply (other_bp _ _ _ _ E); discriminate). cbn [flagged_before_exit].
    apply (IH s1 s' owed HI1); [intros i; rewrite Hbp; apply HC|intros i Hi; rewrite Hbp; now apply HO|exact H].
  - assert (Hbp : bp s1 = bp s) by (apply (other_bp _ _ _ _ E); discriminate). cbn [flagged_before_exit].
    apply (IH s1 s' owed HI1); [intros i; rewrite Hbp; apply HC|intros i Hi; rewrite Hbp; now apply HO|exact H].
  - assert (Hbp : bp s1 = bp s) by (apply (other_bp _ _ _ _ E); discriminate). cbn [flagged_before_exit].
    apply (IH s1 s' owed HI1); [intros i; rewrite Hbp; apply HC|intros i Hi; rewrite Hbp; now apply HO|exact H].
Qed.

Theorem C03_failure_is_flagged tr s : run init tr = Some s -> C03_flagged tr = true.
Proof.
  intros H. apply (flagged_exit_from tr init s (fun _ => false) (inv_init n)); [intros i; reflexivity|intros i Hi; discriminate|exact H].
Qed.

End Flag.
