(* C02: where the thread model accepts a keyboard interrupt of the control (= main) thread, and what it does there. *)
From Coq Require Import List Bool Arith Lia.
From Pamiq Require Import Model.Threads.
Import ListNotations.

Section Int.
Variable n : nat.
Variable kind : nat -> bkind.
Variable max_attempts : nat.
Variable with_web : bool.

Notation ctl_step := (ctl_step n kind max_attempts with_web).

Definition not_finally (k : cont) : bool := match k with KFinally => false | _ => true end.

(* every position of the control tick, except the worker-pool section of try_pause (CTp3, CTp4) and the inside of a
   state save (CSave2); not during start-up, not inside the finally-shutdown, not in the epilogue of launch() *)
Definition interruptible (c : cpc) : bool :=
  match c with
  | CTickCond | CDrain | CGet | CPoll _ _ | CAfterPoll | CAfterUptime
  | CSave0 _ | CSave1 _ _ | CTp0 _ _ | CTp1 _ _ _ | CTp2 _ _ _ | CTp5 _ _ | CTp6 _ _ _ | CTp7 _ _ _
  | CRes0 _ | CRes1 _ | CRes2 _ => true
  | CShut0 k | CShut1 k | CShut2 k | CShut3 k | CShut4 k => not_finally k
  | _ => false
  end.

Theorem interrupt_accepted_iff s : (exists s', ctl_step s LInterrupt = Some s') <-> interruptible (cp s) = true.
Proof.
  unfold Threads.ctl_step, interruptible. destruct (cp s);
    repeat match goal with k : cont |- _ => destruct k end;
    cbn; split; intros H; try discriminate; try (destruct H as (s' & H); discriminate); eauto.
Qed.

(* the interrupt leaves the tick for the finally clause, whose shutdown starts from the beginning; nothing else
   changes: the events, the queue, the acknowledgement, the clock, the loop flag and the failure mark are as they were *)
Theorem interrupt_enters_finally s s' : ctl_step s LInterrupt = Some s' ->
  cp s' = CShut0 KFinally /\ saving s' = false /\
  res s' = res s /\ shut s' = shut s /\ queue s' = queue s /\ acked s' = acked s /\ clk s' = clk s /\
  running s' = running s /\ craised s' = craised s /\ bp s' = bp s /\ pf s' = pf s /\ ex s' = ex s.
Proof.
  unfold Threads.ctl_step. intros H.
  destruct (cp s); try discriminate H;
    repeat match goal with k : cont |- _ => destruct k end; try discriminate H;
    inversion H; subst; cbn; repeat split; reflexivity.
Qed.
End Int.
