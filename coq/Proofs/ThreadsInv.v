(* Invariants of the thread model M6 that carry C01, C04 (quiescence) and parts of C02.
   Everything is proved for an arbitrary number [n] of background threads of arbitrary kinds,
   arbitrary attempt limit and queue size, and for EVERY accepted trace (= every interleaving,
   every timeout firing, every callback outcome, every command history). *)
From Coq Require Import List Bool Arith Lia.
From Pamiq Require Import Model.Threads.
Import ListNotations.

Section Inv.
Variable n : nat.
Variable kind : nat -> bkind.
Variable max_attempts : nat.
Variable qmax : nat.
Variable with_web : bool.

Notation step := (step n kind max_attempts qmax with_web).
Notation run := (run n kind max_attempts qmax with_web).
Notation ctl_step := (ctl_step n kind max_attempts with_web).
Notation bg_step := (bg_step kind).

(* quiescent region of the handshake: the thread executes no callback and cannot start one
   while the resume event stays cleared *)
Definition Qb (p : bpc) : bool :=
  match p with BChk | BWaitCall | BWaiting _ | BClr | BRechk | BReSet => true | _ => false end.
Definition flagpc (p : bpc) : bool :=
  match p with BChk | BWaitCall | BWaiting _ | BClr => true | _ => false end.
Definition blockpc (p : bpc) : bool :=
  match p with BChk | BWaitCall | BWaiting _ => true | _ => false end.
Definition executing (p : bpc) : bool :=
  match p with BRun _ _ (Some _) => true | _ => false end.

Lemma flagpc_Qb p : flagpc p = true -> Qb p = true.
Proof. destruct p; simpl; congruence. Qed.
Lemma Qb_not_executing p : Qb p = true -> executing p = false.
Proof. destruct p; simpl; try congruence. Qed.

Definition poolQ (s : st) (i : nat) : Prop :=
  (pres s i = true \/ pp s i = PWaiting true) -> Qb (bp s i) = true.
Definition idle_pool (s : st) (i : nat) : Prop := pp s i = PIdle \/ pp s i = PDone.

(* what the position of the control thread implies *)
Definition CI (s : st) : Prop :=
  match cp s with
  | CTp3 _ j _ _ =>
      res s = false /\ acked s = false /\ (forall i, i < j -> poolQ s i) /\ (forall i, j <= i -> idle_pool s i)
  | CTp4 _ j _ _ =>
      res s = false /\ acked s = false /\ (forall i, i < n -> poolQ s i) /\
      (forall i, i < j -> pp s i = PDone) /\ (forall i, n <= i -> idle_pool s i)
  | CTp5 _ _ =>
      res s = false /\ acked s = false /\ (forall i, i < n -> Qb (bp s i) = true) /\ (forall i, idle_pool s i)
  | CTp1 _ _ _ | CTp2 _ _ _ | CTp6 _ _ _ | CTp7 _ _ _ | CRes1 _ | CRes2 _
  | CShut1 _ | CShut2 _ | CShut3 _ | CShut4 _ =>
      acked s = false /\ (forall i, idle_pool s i)
  | CInit0 | CInit1 | CInit2 | CScale =>
      acked s = false /\ (forall i, idle_pool s i) /\ (forall i, bp s i = BNotStarted /\ pf s i = false)
  | CStart k =>
      acked s = false /\ (forall i, idle_pool s i) /\ (forall i, k <= i -> bp s i = BNotStarted /\ pf s i = false)
  | _ => forall i, idle_pool s i
  end.

Definition Inv (s : st) : Prop :=
  (forall i, pf s i = true -> flagpc (bp s i) = true) /\            (* a set flag means: in the blocked region *)
  (forall i, blockpc (bp s i) = true -> pf s i = true) /\           (* never blocked without having acknowledged *)
  (acked s = true -> res s = false /\ clk s = true /\ forall i, i < n -> Qb (bp s i) = true) /\
  (clk s = true -> acked s = true) /\
  (forall i, bp s i = BWaiting false -> res s = false) /\
  CI s.

Lemma upd_same {A} (f : nat -> A) i v : upd f i v i = v.
Proof. unfold upd. now rewrite Nat.eqb_refl. Qed.
Lemma upd_other {A} (f : nat -> A) i j v : j <> i -> upd f i v j = f j.
Proof. unfold upd. intros H. destruct (Nat.eqb_spec j i); congruence. Qed.

Lemma inv_init : Inv init.
Proof.
  unfold Inv, init, CI, idle_pool; simpl. repeat split; intros; try discriminate; auto.
Qed.

(* ---------- a step of a background thread ---------- *)
Inductive bg_shape (s : st) (i : nat) : st -> Prop :=
| sh_same : bg_shape s i s
| sh_bp p : bg_shape s i (set_bp s i p)
| sh_pf b p : bg_shape s i (set_pf s i b p)
| sh_ex p : bg_shape s i (set_ex s i p)
| sh_fault ph : bg_shape s i (fault s i ph).

Lemma bg_step_shape s i l s' : bg_step s i l = Some s' -> bg_shape s i s'.
Proof.
  unfold Threads.bg_step. intros H.
  destruct (bp s i) eqn:Hp; destruct l; try discriminate;
    repeat match type of H with
           | context [match ?x with _ => _ end] => destruct x eqn:?; try discriminate
           end;
    inversion H; subst; clear H; constructor.
Qed.

(* frame: a step of thread i leaves the controller, the clock, the control thread, the other threads and
   the workers' results alone; worker i may get notified *)
Lemma bg_frame s i l s' : bg_step s i l = Some s' ->
  res s' = res s /\ shut s' = shut s /\ clk s' = clk s /\ cp s' = cp s /\ acked s' = acked s /\ pres s' = pres s /\
  (forall j, j <> i -> bp s' j = bp s j /\ pf s' j = pf s j /\ pp s' j = pp s j).
Proof.
  intros H. apply bg_step_shape in H. destruct H; try destruct ph; unfold set_bp, set_pf, set_ex, fault; simpl;
    repeat split; auto; intros; rewrite ?upd_other by assumption; auto;
    destruct b; auto; destruct (Nat.eqb_spec j i); [contradiction|reflexivity].
Qed.

(* local effect on thread i itself *)
Lemma bg_local s i l s' : bg_step s i l = Some s' ->
  (pf s i = true -> flagpc (bp s i) = true) ->
  (blockpc (bp s i) = true -> pf s i = true) ->
  (bp s i = BWaiting false -> res s = false) ->
  (pf s' i = true -> flagpc (bp s' i) = true) /\
  (blockpc (bp s' i) = true -> pf s' i = true) /\
  (bp s' i = BWaiting false -> res s = false) /\
  (res s = false -> Qb (bp s i) = true -> Qb (bp s' i) = true) /\
  (pf s i = false -> pf s' i = true -> Qb (bp s' i) = true).
Proof.
  unfold Threads.bg_step. intros H HA HB HE.
  destruct (bp s i) eqn:Hp; destruct l; try discriminate;
    repeat match type of H with
           | context [match ?x with _ => _ end] => destruct x eqn:?; try discriminate
           end;
    inversion H; subst; clear H; unfold fault, set_bp, set_pf, set_ex, enter, after_phase; simpl;
    rewrite ?upd_same, ?Hp; simpl in *;
    repeat split; intros; try discriminate; try congruence; auto;
    repeat match goal with
           | |- context [match cbs_of ?k ?ph with _ => _ end] => destruct (cbs_of k ph); simpl
           | H : context [match cbs_of ?k ?ph with _ => _ end] |- _ => destruct (cbs_of k ph); simpl in H
           | H : Bool.eqb _ _ = true |- _ => apply eqb_prop in H
           end; try discriminate; try congruence; auto.
  all: try (match goal with ph : phase |- _ => destruct ph end); simpl in *; rewrite ?upd_same in *; simpl in *;
    try discriminate; try congruence; auto;
    try (match goal with HA : ?P -> false = true, H : ?P |- _ => specialize (HA H); discriminate end);
    try (destruct (res s); discriminate).
Qed.

Lemma bg_pp s i l s' : bg_step s i l = Some s' ->
  pp s' i = pp s i \/ (exists b, pp s i = PWaiting b /\ pp s' i = PWaiting true /\ Qb (bp s' i) = true).
Proof.
  unfold Threads.bg_step. intros H.
  destruct (bp s i) eqn:Hp; destruct l; try discriminate;
    repeat match type of H with
           | context [match ?x with _ => _ end] => destruct x eqn:?; try discriminate
           end;
    inversion H; subst; clear H; unfold fault, set_bp, set_pf, set_ex; simpl; auto;
    try (destruct ph; simpl; auto; fail);
    rewrite ?Nat.eqb_refl, ?upd_same; destruct (pp s i) eqn:Hpp; auto; right; eexists; repeat split; reflexivity.
Qed.

Lemma inv_bg s i l s' : Inv s -> bg_step s i l = Some s' -> Inv s'.
Proof.
  intros (IA & IB & IC & ID & IE & IF) H.
  destruct (bg_frame _ _ _ _ H) as (Er & Es & Ek & Ec & Ea & Ep & Fr).
  destruct (bg_local _ _ _ _ H (IA i) (IB i) (IE i)) as (L1 & L2 & L3 & L4 & L5).
  pose proof (bg_pp _ _ _ _ H) as Lp.
  assert (Hbp : forall j, j <> i -> bp s' j = bp s j) by (intros j Hj; apply Fr; assumption).
  assert (Hpf : forall j, j <> i -> pf s' j = pf s j) by (intros j Hj; apply Fr; assumption).
  assert (Hpp : forall j, j <> i -> pp s' j = pp s j) by (intros j Hj; apply Fr; assumption).
  assert (HQ : res s = false -> forall j, Qb (bp s j) = true -> Qb (bp s' j) = true).
  { intros Hr j Hq. destruct (Nat.eq_dec j i) as [->|Hne]; [auto|rewrite Hbp; auto]. }
  assert (Hidle : forall j, idle_pool s j -> idle_pool s' j).
  { intros j Hj. unfold idle_pool in *. destruct (Nat.eq_dec j i) as [->|Hne]; [|rewrite Hpp; auto].
    destruct Lp as [->|(b & E & _)]; [assumption|]. rewrite E in Hj. destruct Hj; discriminate. }
  assert (Hdone : forall j, pp s j = PDone -> pp s' j = PDone).
  { intros j Hj. destruct (Nat.eq_dec j i) as [->|Hne]; [|rewrite Hpp; auto].
    destruct Lp as [->|(b & E & _)]; [assumption|]. rewrite E in Hj. discriminate. }
  assert (Hns : forall j, bp s j = BNotStarted /\ pf s j = false -> bp s' j = BNotStarted /\ pf s' j = false).
  { intros j [Hj1 Hj2]. destruct (Nat.eq_dec j i) as [->|Hne]; [|rewrite Hbp, Hpf; auto].
    exfalso. unfold Threads.bg_step in H. rewrite Hj1 in H. destruct l; discriminate. }
  assert (HpoolQ : res s = false -> forall j, poolQ s j -> poolQ s' j).
  { intros Hr j Hj. unfold poolQ in *. rewrite Ep. intros [Hpr|Hw].
    - apply HQ; auto.
    - destruct (Nat.eq_dec j i) as [->|Hne]; [|rewrite Hpp in Hw by assumption; apply HQ; auto].
      destruct Lp as [E|(b & _ & _ & E)]; [rewrite E in Hw; apply HQ; auto | exact E]. }
  unfold Inv. repeat split.
  - intros j Hj. destruct (Nat.eq_dec j i) as [->|Hne]; [auto|]. rewrite Hbp, Hpf in * by assumption. auto.
  - intros j Hj. destruct (Nat.eq_dec j i) as [->|Hne]; [auto|]. rewrite Hbp, Hpf in * by assumption. auto.
  - rewrite Ea in H0. destruct (IC H0) as (A & _). now rewrite Er.
  - rewrite Ea in H0. destruct (IC H0) as (_ & A & _). now rewrite Ek.
  - rewrite Ea in H0. destruct (IC H0) as (A & _ & B). intros j Hj. apply HQ; auto.
  - rewrite Ek, Ea. assumption.
  - intros j Hj. rewrite Er. destruct (Nat.eq_dec j i) as [->|Hne]; [auto|]. rewrite Hbp in Hj by assumption. apply (IE j Hj).
  - unfold CI in *. rewrite Ec, Er, Ea.
    destruct (cp s); auto;
      repeat match goal with H : _ /\ _ |- _ => destruct H end.
    all: try (split; [assumption|]; split; [intros; auto|]; intros; apply Hns; auto; fail).
    all: repeat split; auto.
    all: try (intros j Hj; apply HpoolQ; auto).
    all: try (intros j Hj; apply HQ; auto).
    all: try (intros j Hj; apply Hdone; auto).
Qed.

(* ---------- a step of a pool worker ---------- *)
Lemma pool_cases s j l s' : pool_step s j l = Some s' ->
  (pp s j = PCall /\ pf s j = true /\ s' = set_pp s j PExit true) \/
  (pp s j = PCall /\ s' = set_pp s j (PWaiting false) false) \/
  (exists nt b, pp s j = PWaiting nt /\ implb b nt = true /\ s' = set_pp s j PExit b) \/
  (pp s j = PExit /\ s' = set_pp s j PDone (pres s j)).
Proof.
  unfold pool_step. intros H. destruct (pp s j) as [| |nt| |] eqn:Hp; destruct l; try discriminate;
    repeat match type of H with context [match ?x with _ => _ end] => destruct x eqn:?; try discriminate end;
    inversion H; subst; clear H;
    repeat match goal with Hx : (_ && _) = true |- _ => apply andb_true_iff in Hx; destruct Hx end.
  - left. auto.
  - right. left. auto.
  - right. right. left. eexists _, _. eauto.
  - right. right. right. auto.
Qed.

Lemma inv_pool s j l s' : Inv s -> pool_step s j l = Some s' -> Inv s'.
Proof.
  intros (IA & IB & IC & ID & IE & IF) H. apply pool_cases in H.
  (* the worker is active, its new result is justified, the rest is untouched *)
  assert (Hx : exists p r, s' = set_pp s j p r /\ ~ idle_pool s j /\
                 ((r = true \/ p = PWaiting true) -> pf s j = true \/ pres s j = true \/ pp s j = PWaiting true)).
  { assert (Hni : forall q, pp s j = q -> q <> PIdle -> q <> PDone -> ~ idle_pool s j).
    { intros q Hq H1 H2 [E|E]; congruence. }
    destruct H as [(Hp & Hf & ->)|[(Hp & ->)|[(nt & b & Hp & Hi & ->)|(Hp & ->)]]].
    - exists PExit, true. split; [reflexivity|]. split; [apply (Hni _ Hp); discriminate|auto].
    - exists (PWaiting false), false. split; [reflexivity|]. split; [apply (Hni _ Hp); discriminate|]. intros [E|E]; discriminate.
    - exists PExit, b. split; [reflexivity|]. split; [apply (Hni _ Hp); discriminate|].
      intros [E|E]; [|discriminate]. subst b. destruct nt; [auto|discriminate].
    - exists PDone, (pres s j). split; [reflexivity|]. split; [apply (Hni _ Hp); discriminate|]. intros [E|E]; [auto|discriminate]. }
  clear H. destruct Hx as (p & r & -> & Hact & Hr).
  assert (HpoolQ : forall i, (i = j \/ poolQ s i) -> (i = j -> poolQ s j \/ True) -> poolQ s j \/ True) by auto.
  assert (HPQ : poolQ s j -> forall i, poolQ s i -> poolQ (set_pp s j p r) i).
  { intros Hj i Hi. unfold poolQ in *; simpl. destruct (Nat.eq_dec i j) as [->|Hne].
    - rewrite !upd_same. intros Hq. destruct (Hr Hq) as [Hpf|[Hpr|Hw]]; [apply flagpc_Qb; auto | auto | auto].
    - rewrite !upd_other by assumption. assumption. }
  assert (Hidle : forall i, i <> j -> idle_pool s i -> idle_pool (set_pp s j p r) i).
  { intros i Hne Hi. unfold idle_pool in *; simpl. rewrite upd_other by assumption. assumption. }
  unfold Inv. split; [exact IA|]. split; [exact IB|]. split; [exact IC|]. split; [exact ID|]. split; [exact IE|].
  unfold CI in *. change (cp (set_pp s j p r)) with (cp s). change (res (set_pp s j p r)) with (res s).
  change (acked (set_pp s j p r)) with (acked s). change (bp (set_pp s j p r)) with (bp s). change (pf (set_pp s j p r)) with (pf s).
  destruct (cp s) eqn:Hc;
    try (exfalso; apply Hact; apply IF; fail);
    try (exfalso; apply Hact; destruct IF as (_ & IF'); apply IF'; fail);
    try (exfalso; apply Hact; destruct IF as (_ & IF' & _); apply IF'; fail).
  - (* CTp3 *)
    destruct IF as (R & A & PQ & Idle).
    assert (Hj : j < j0) by (destruct (Nat.lt_ge_cases j j0); [assumption|exfalso; apply Hact; apply Idle; assumption]).
    repeat split; auto.
    all: try (intros i Hi; apply HPQ; auto; fail).
    all: try (intros i Hi; apply Hidle; [lia|auto]).
  - (* CTp4 *)
    destruct IF as (R & A & PQ & Dn & Idle).
    assert (Hj : j < n) by (destruct (Nat.lt_ge_cases j n); [assumption|exfalso; apply Hact; apply Idle; assumption]).
    split; [assumption|]. split; [assumption|]. split; [intros i Hi; apply HPQ; auto|]. split.
    + intros i Hi. simpl. destruct (Nat.eq_dec i j) as [->|Hne]; [exfalso; apply Hact; right; apply Dn; assumption|].
      rewrite upd_other by assumption. apply Dn; assumption.
    + intros i Hi. apply Hidle; [lia|auto].
Qed.

(* ---------- the client and the web thread touch nothing the invariant speaks about ---------- *)
Lemma inv_ext s s' : bp s' = bp s -> pf s' = pf s -> res s' = res s -> acked s' = acked s -> clk s' = clk s ->
  pp s' = pp s -> pres s' = pres s -> cp s' = cp s -> Inv s -> Inv s'.
Proof.
  intros E1 E2 E3 E4 E5 E6 E7 E8 H. unfold Inv, CI, poolQ, idle_pool in *. rewrite E1, E2, E3, E4, E5, E6, E7, E8. exact H.
Qed.

Lemma inv_client s l s' : Inv s -> client_step qmax s l = Some s' -> Inv s'.
Proof.
  intros HI H. unfold client_step in H. destruct (client_done s); [discriminate|].
  destruct l; try discriminate;
    repeat match type of H with context [if ?x then _ else _] => destruct x eqn:?; try discriminate end;
    inversion H; subst; clear H; try exact HI; eapply inv_ext; try exact HI; reflexivity.
Qed.

Lemma inv_web s l s' : Inv s -> web_step s l = Some s' -> Inv s'.
Proof.
  intros HI H. unfold web_step in H. destruct (web s) as [|[|w]]; try discriminate.
  destruct l; try discriminate. destruct raised; [discriminate|]. inversion H; subst; clear H.
  eapply inv_ext; try exact HI; reflexivity.
Qed.

(* ---------- the control thread ---------- *)
Definition TI (s : st) : Prop :=
  (forall i, pf s i = true -> flagpc (bp s i) = true) /\
  (forall i, blockpc (bp s i) = true -> pf s i = true) /\
  (acked s = true -> res s = false /\ clk s = true /\ forall i, i < n -> Qb (bp s i) = true) /\
  (clk s = true -> acked s = true) /\
  (forall i, bp s i = BWaiting false -> res s = false).

Lemma Inv_TI s : Inv s <-> TI s /\ CI s.
Proof. unfold Inv, TI. tauto. Qed.

Lemma TI_same s s' : bp s' = bp s -> pf s' = pf s -> res s' = res s -> acked s' = acked s -> clk s' = clk s -> TI s -> TI s'.
Proof. intros E1 E2 E3 E4 E5 H. unfold TI in *. rewrite E1, E2, E3, E4, E5. exact H. Qed.

Lemma notify_flagpc f j : flagpc (notify_bg f j) = flagpc (f j).
Proof. unfold notify_bg. destruct (f j); reflexivity. Qed.
Lemma notify_blockpc f j : blockpc (notify_bg f j) = blockpc (f j).
Proof. unfold notify_bg. destruct (f j); reflexivity. Qed.

Lemma TI_set_res s b c : acked s = false -> TI s -> TI (set_res s b c).
Proof.
  intros Ha (A & B & C & D & E). unfold TI, set_res; simpl. repeat split; try (intros; congruence).
  - intros i Hi. destruct b; [rewrite notify_flagpc|]; auto.
  - intros i Hi. destruct b; [rewrite notify_blockpc in Hi|]; auto.
  - intros Hk. apply D in Hk. congruence.
  - intros i Hi. destruct b; [|reflexivity]. unfold notify_bg in Hi. destruct (bp s i); discriminate.
Qed.

Lemma TI_clock_pause s c sv run cr sh q : res s = false -> (forall i, i < n -> Qb (bp s i) = true) ->
  TI s -> TI (set_misc s c true true sv run cr sh q).
Proof. intros Hr HQ (A & B & C & D & E). unfold TI, set_misc; simpl. repeat split; auto. Qed.

Lemma TI_clock_resume s c sv run cr sh q : TI s -> TI (set_misc s c false false sv run cr sh q).
Proof. intros (A & B & C & D & E). unfold TI, set_misc; simpl. repeat split; auto; intros; discriminate. Qed.

Lemma TI_misc_keep s c sv run cr sh q : TI s -> TI (set_misc s c (clk s) (acked s) sv run cr sh q).
Proof. apply TI_same; reflexivity. Qed.

Lemma TI_cp s c : TI s -> TI (set_cp s c).
Proof. apply TI_same; reflexivity. Qed.

Lemma enter_not_block k ph : blockpc (enter kind k ph) = false /\ flagpc (enter kind k ph) = false /\ enter kind k ph <> BWaiting false.
Proof. unfold enter, after_phase. destruct (cbs_of (kind k) ph); destruct ph; simpl; repeat split; congruence. Qed.

Lemma TI_start s k c : pf s k = false -> acked s = false -> TI s -> TI (set_cp (set_bp s k (enter kind k PSetup)) c).
Proof.
  intros Hf Ha (A & B & C & D & E). destruct (enter_not_block k PSetup) as (N1 & N2 & N3).
  unfold TI, set_cp, set_bp; simpl. repeat split; try (intros; congruence).
  - intros i Hi. destruct (Nat.eq_dec i k) as [->|Hne]; [congruence|]. rewrite upd_other by assumption. auto.
  - intros i Hi. destruct (Nat.eq_dec i k) as [->|Hne]; [rewrite upd_same in Hi; congruence|]. rewrite upd_other in Hi by assumption. auto.
  - intros Hk. apply D in Hk. congruence.
  - intros i Hi. destruct (Nat.eq_dec i k) as [->|Hne]; [rewrite upd_same in Hi; congruence|]. rewrite upd_other in Hi by assumption. apply (E i Hi).
Qed.

Lemma TI_set_pp s j p r : TI s -> TI (set_pp s j p r).
Proof. apply TI_same; reflexivity. Qed.

Lemma all_pres_spec s : all_pres n s = true -> forall i, i < n -> pres s i = true.
Proof. unfold all_pres. rewrite forallb_forall. intros H i Hi. apply H. apply in_seq. lia. Qed.

Lemma CI_default s s' : (forall i, idle_pool s i) -> pp s' = pp s ->
  match cp s' with
  | CTp3 _ _ _ _ | CTp4 _ _ _ _ | CTp5 _ _ | CTp1 _ _ _ | CTp2 _ _ _ | CTp6 _ _ _ | CTp7 _ _ _ | CRes1 _ | CRes2 _
  | CShut1 _ | CShut2 _ | CShut3 _ | CShut4 _ | CInit0 | CInit1 | CInit2 | CScale | CStart _ => False
  | _ => True
  end -> CI s'.
Proof.
  intros Hi Ep Hc. unfold CI, idle_pool in *. rewrite Ep. destruct (cp s'); try contradiction; assumption.
Qed.

(* the pcs at which sub-procedures return are all "ordinary" *)
Lemma ret_cont_ordinary k :
  match ret_cont n with_web k with
  | CTp3 _ _ _ _ | CTp4 _ _ _ _ | CTp5 _ _ | CTp1 _ _ _ | CTp2 _ _ _ | CTp6 _ _ _ | CTp7 _ _ _ | CRes1 _ | CRes2 _
  | CShut1 _ | CShut2 _ | CShut3 _ | CShut4 _ | CInit0 | CInit1 | CInit2 | CScale | CStart _ => False
  | _ => True
  end.
Proof. destruct k; unfold ret_cont, drain_pc, poll_pc, join_pc; destruct with_web; destruct (n =? 0); exact I. Qed.

Lemma tp_return_ordinary ok ret k :
  match tp_return n with_web ok ret k with
  | CTp3 _ _ _ _ | CTp4 _ _ _ _ | CTp5 _ _ | CTp1 _ _ _ | CTp2 _ _ _ | CTp6 _ _ _ | CTp7 _ _ _ | CRes1 _ | CRes2 _
  | CShut1 _ | CShut2 _ | CShut3 _ | CShut4 _ | CInit0 | CInit1 | CInit2 | CScale | CStart _ => False
  | _ => True
  end.
Proof.
  unfold tp_return. destruct ret as [ap|]; [destruct ok; [exact I|]|]; apply ret_cont_ordinary.
Qed.

Lemma idle_of_CI s : (match cp s with CTp3 _ _ _ _ | CTp4 _ _ _ _ => False | _ => True end) -> CI s -> forall i, idle_pool s i.
Proof.
  unfold CI. destruct (cp s); intros Hc H; try contradiction; auto;
    repeat match goal with H : _ /\ _ |- _ => destruct H end; auto.
Qed.

Lemma inv_ctl s l s' : Inv s -> ctl_step s l = Some s' -> Inv s'.
Proof.
  intros HI H. apply Inv_TI in HI. destruct HI as [HT HC]. apply Inv_TI.
  unfold Threads.ctl_step in H.
  destruct (cp s) eqn:Hc; destruct l; try discriminate;
    repeat match type of H with
           | context [match ?x with _ => _ end] => destruct x eqn:?; try discriminate
           end;
    inversion H; subst; clear H.
  all: try (split; [first [apply TI_cp | apply TI_misc_keep]; assumption |
                    eapply CI_default; [apply idle_of_CI; [rewrite Hc; exact I | exact HC] | reflexivity | simpl; try exact I;
                                        first [apply ret_cont_ordinary | apply tp_return_ordinary | idtac]]]; fail).
  all: pose proof HC as HC'; unfold CI in HC'; rewrite Hc in HC';
       repeat match goal with H : _ /\ _ |- _ => destruct H end.
  all: split.
  (* thread part *)
  all: try (first [apply TI_cp | apply TI_misc_keep | apply TI_clock_resume | apply TI_set_pp]; assumption).
  all: try (apply TI_set_res; assumption).
  all: try (apply TI_start; [ match goal with Hx : forall i, _ -> bp ?s0 i = BNotStarted /\ pf ?s0 i = false |- _ => apply Hx; lia end | assumption | assumption]).
  all: try (apply TI_cp; apply TI_set_pp; assumption).
  all: try (apply TI_clock_pause; assumption).
  all: try assumption.
  all: try (eapply TI_same; try exact HT; reflexivity).
  (* control part: returns to ordinary pcs *)
  all: try (eapply CI_default; [apply idle_of_CI; [rewrite Hc; exact I | exact HC] | reflexivity |
                                first [apply ret_cont_ordinary | apply tp_return_ordinary
                                      | unfold ctl, set_cp, drain_pc, poll_pc; simpl; destruct with_web; destruct (n =? 0); exact I]]; fail).
  (* control part: pcs that only need "not acknowledged" and idle workers *)
  all: try (unfold CI, ctl, set_cp, set_res, set_misc, set_pp, set_bp, idle_pool, poolQ in *; simpl in *;
            repeat split; auto; try congruence; fail).
  all: try (unfold CI, ctl, set_cp, set_res, set_misc, set_pp, set_bp, idle_pool, poolQ in *; simpl in *;
            repeat split; intros; auto; try congruence;
            try (match goal with Hx : forall i, bp ?s0 i = BNotStarted /\ pf ?s0 i = false |- _ => apply Hx end);
            try (match goal with Hx : forall i, _ <= i -> bp ?s0 i = BNotStarted /\ pf ?s0 i = false |- _ => apply Hx; lia end); fail).
  all: try clear HC'; repeat match goal with Hx : (_ && _) = true |- _ => apply andb_true_iff in Hx; destruct Hx end;
       repeat match goal with Hx : (_ =? _) = true |- _ => apply Nat.eqb_eq in Hx end;
       repeat match goal with Hx : (_ =? _) = false |- _ => apply Nat.eqb_neq in Hx end;
       unfold CI in HC; rewrite Hc in HC.
  - (* CInit1 -> CInit2 *)
    destruct HC as (A & I0 & NS). unfold CI, set_res, idle_pool in *; simpl.
    split; [assumption|]. split; [assumption|]. intros x. destruct (NS x) as [E1 E2]. unfold notify_bg. rewrite E1. auto.
  - (* CStart k -> CStart (S k) *)
    destruct HC as (A & I0 & NS). subst. unfold CI, set_cp, set_bp, idle_pool in *; simpl.
    split; [assumption|]. split; [assumption|]. intros x Hx. rewrite upd_other by lia. apply NS. lia.
  - (* CTp0 -> CTp1 0: an attempt starts only when the system is not paused *)
    unfold CI, ctl, set_cp; simpl. split; [|assumption].
    destruct HT as (_ & _ & C & _). destruct (acked s) eqn:Ea; [|reflexivity].
    destruct (C eq_refl) as (R & _). match goal with Hx : Bool.eqb true (res s) = true |- _ => apply eqb_prop in Hx; congruence end.
  - (* CTp2 -> first worker / no worker *)
    destruct HC as (A & I0). unfold CI, set_res, start_pool; simpl. destruct (n =? 0) eqn:En; simpl.
    + apply Nat.eqb_eq in En. repeat split; auto; try (intros x Hx; lia); intros x; apply I0.
    + repeat split; auto; try (intros x Hx; lia); intros x Hx; apply I0.
  - (* CTp3 -> CTp4 (last worker submitted) *)
    destruct HC as (R & A & PQ & I0). subst.
    match goal with Hq : cp s = CTp3 _ ?jj _ _ |- _ => rename jj into w end.
    unfold CI, set_cp, set_pp, idle_pool, poolQ in *; simpl.
    split; [assumption|]. split; [assumption|]. split; [|split].
    + intros x Hx. destruct (Nat.eq_dec x w) as [->|Hne]; [rewrite !upd_same; intros [E|E]; discriminate|].
      rewrite !upd_other by assumption. apply PQ. lia.
    + intros x Hx. lia.
    + intros x Hx. rewrite upd_other by lia. apply I0. lia.
  - (* CTp3 -> CTp3 (next worker) *)
    destruct HC as (R & A & PQ & I0). subst.
    match goal with Hq : cp s = CTp3 _ ?jj _ _ |- _ => rename jj into w end.
    unfold CI, set_cp, set_pp, idle_pool, poolQ in *; simpl.
    split; [assumption|]. split; [assumption|]. split.
    + intros x Hx. destruct (Nat.eq_dec x w) as [->|Hne]; [rewrite !upd_same; intros [E|E]; discriminate|].
      rewrite !upd_other by assumption. apply PQ. lia.
    + intros x Hx. rewrite upd_other by lia. apply I0. lia.
  - (* CTp4 -> all joined *)
    destruct HC as (R & A & PQ & Dn & I0). subst.
    match goal with Hq : cp s = CTp4 _ ?jj _ _ |- _ => rename jj into w end.
    assert (Hw : pp s w = PDone) by (destruct (pp s w); try discriminate; reflexivity).
    assert (Hall : forall x, idle_pool s x).
    { intros x. destruct (Nat.lt_ge_cases x n) as [Hx|Hx]; [|apply I0; assumption].
      right. destruct (Nat.eq_dec x w) as [->|Hne]; [assumption|apply Dn; lia]. }
    unfold CI, ctl, set_cp, after_pool; simpl. destruct (all_pres n s) eqn:Eall; simpl.
    + repeat split; auto. intros x Hx. apply PQ; [assumption|]. left. apply all_pres_spec; assumption.
    + split; assumption.
  - (* CTp4 -> CTp4 (next join) *)
    destruct HC as (R & A & PQ & Dn & I0). subst.
    match goal with Hq : cp s = CTp4 _ ?jj _ _ |- _ => rename jj into w end.
    assert (Hw : pp s w = PDone) by (destruct (pp s w); try discriminate; reflexivity).
    unfold CI, ctl, set_cp; simpl. repeat split; auto.
    intros x Hx. destruct (Nat.eq_dec x w) as [->|Hne]; [assumption|apply Dn; lia].
Qed.

(* ---------- every reachable state satisfies the invariant ---------- *)
Lemma inv_step s t l s' : Inv s -> step s t l = Some s' -> Inv s'.
Proof.
  intros HI H. unfold Threads.step in H. destruct t as [|i|j| |].
  - eapply inv_ctl; eauto.
  - destruct (i <? n); [|discriminate]. eapply inv_bg; eauto.
  - destruct (j <? n); [|discriminate]. eapply inv_pool; eauto.
  - eapply inv_client; eauto.
  - eapply inv_web; eauto.
Qed.

Lemma inv_run_from : forall tr s s', Inv s -> run s tr = Some s' -> Inv s'.
Proof.
  induction tr as [|[t l] tr IH]; intros s s' HI H; simpl in H; [inversion H; subst; assumption|].
  destruct (step s t l) eqn:E; [|discriminate]. eapply IH; [eapply inv_step; eauto|eassumption].
Qed.

Theorem inv_reachable tr s : run init tr = Some s -> Inv s.
Proof. apply inv_run_from, inv_init. Qed.

(* C01, on states: whatever the schedule, the timeouts, the callback durations and outcomes, the number of
   retries and the command history - while a pause is acknowledged no background thread is inside a step,
   a training run or a hook, none can start one, and the clock is frozen *)
Theorem acked_quiescent tr s : run init tr = Some s -> acked s = true ->
  clk s = true /\ res s = false /\ forall i, i < n -> Qb (bp s i) = true /\ executing (bp s i) = false.
Proof.
  intros H Ha. destruct (inv_reachable _ _ H) as (_ & _ & C & _). destruct (C Ha) as (R & K & Q).
  repeat split; auto. apply Qb_not_executing. auto.
Qed.

End Inv.
