(* Second layer of invariants of M6 (on top of Proofs/ThreadsInv.v): where states are written,
   what a cleared resume event means, and what has happened when launch() reaches its epilogue. *)
From Coq Require Import List Bool Arith Lia.
From Pamiq Require Import Model.Threads Proofs.ThreadsInv.
Import ListNotations.

Section Inv2.
Variable n : nat.
Variable kind : nat -> bkind.
Variable max_attempts : nat.
Variable qmax : nat.
Variable with_web : bool.

Notation step := (step n kind max_attempts qmax with_web).
Notation run := (run n kind max_attempts qmax with_web).
Notation ctl_step := (ctl_step n kind max_attempts with_web).
Notation bg_step := (bg_step kind).
Notation Inv := (Inv n).

(* control positions at which the resume event is cleared although no pause is acknowledged *)
Definition reslow (c : cpc) : bool :=
  match c with
  | CInit0 | CInit1 | CTp3 _ _ _ _ | CTp4 _ _ _ _ | CTp5 _ _ | CTp6 _ _ _ | CTp7 _ _ _
  | CRes1 _ | CRes2 _ | CShut1 _ | CShut2 _ | CShut3 _ => true
  | CShut0 KFinally => true     (* entered by an interrupt that cut a shutdown short *)
  | _ => false
  end.

Definition joined_of (c : cpc) : nat :=
  match c with
  | CJoin k => k
  | CFinScale | CFinSave0 | CFinSave1 | CDone | CJoinClient | CMainExit | CMainDone => n
  | _ => 0
  end.
Definition started_of (c : cpc) : nat :=
  match c with
  | CInit0 | CInit1 | CInit2 | CScale => 0
  | CStart k => k
  | _ => n
  end.

Definition save_pc (c : cpc) : bool := match c with CSave1 _ _ | CSave2 _ _ => true | _ => false end.
Definition saving_pc (c : cpc) : bool := match c with CSave2 _ _ | CFinSave1 => true | _ => false end.

(* continuations a shutdown is called with *)
Definition shut_k (k : cont) : bool := match k with KDrain | KCond => false | _ => true end.
Definition shut_pc_ok (c : cpc) : bool :=
  match c with CShut0 k | CShut1 k | CShut2 k | CShut3 k | CShut4 k => shut_k k | _ => true end.
(* where the control thread can be once the loop flag has been lowered *)
Definition post (c : cpc) : bool :=
  match c with
  | CPoll _ _ | CAfterPoll | CAfterUptime | CShut0 _ | CShut1 _ | CShut2 _ | CShut3 _ | CShut4 _
  | CJoin _ | CFinScale | CFinSave0 | CFinSave1 | CDone | CJoinClient | CMainExit | CMainDone => true
  | _ => false
  end.

(* the epilogue of launch() *)
Definition epi (c : cpc) : bool :=
  match c with CJoin _ | CFinScale | CFinSave0 | CFinSave1 | CDone | CJoinClient | CMainExit | CMainDone => true | _ => false end.
(* pause / resume / save are only called from the command loop or the save condition *)
Definition loop_k (k : cont) : bool := match k with KDrain | KCond => true | _ => false end.
Definition loop_pc_ok (c : cpc) : bool :=
  match c with
  | CSave0 k | CSave1 _ k | CSave2 _ k | CRes0 k | CRes1 k | CRes2 k
  | CTp0 _ k | CTp1 _ _ k | CTp2 _ _ k | CTp3 _ _ _ k | CTp4 _ _ _ k | CTp5 _ k | CTp6 _ _ k | CTp7 _ _ k => loop_k k
  | _ => true
  end.

Definition Inv2 (s : st) : Prop :=
  (save_pc (cp s) = true -> acked s = true) /\
  (res s = false -> acked s = true \/ reslow (cp s) = true) /\
  (forall i, i < joined_of (cp s) -> bp s i = BDone) /\
  (saving s = true -> saving_pc (cp s) = true) /\
  (running s = false -> clk s = false /\ acked s = false) /\
  (shut s = true -> res s = true /\ running s = false) /\
  (running s = false -> post (cp s) = true) /\
  shut_pc_ok (cp s) = true /\
  (epi (cp s) = true -> running s = false) /\
  loop_pc_ok (cp s) = true.

Lemma inv2_init : Inv2 init.
Proof. unfold Inv2, init; simpl. repeat split; intros; try discriminate; auto; lia. Qed.

Lemma inv2_bg s i l s' : Inv2 s -> bg_step s i l = Some s' -> Inv2 s'.
Proof.
  intros (J1 & J2 & J3 & J4 & J5 & J6 & J7 & J8 & J9 & J10) H.
  destruct (bg_frame kind _ _ _ _ H) as (Er & Es & Ek & Ec & Ea & Ep & Fr).
  assert (Esv : saving s' = saving s /\ running s' = running s).
  { apply bg_step_shape in H. destruct H; try destruct ph; unfold set_bp, set_pf, set_ex, fault; simpl; auto. }
  destruct Esv as [Esv Erun].
  unfold Inv2. rewrite Ec, Er, Ea, Esv, Erun, Ek, Es. repeat split; auto; try (apply J5; assumption); try (apply J6; assumption).
  intros j Hj. destruct (Nat.eq_dec j i) as [->|Hne]; [|destruct (Fr j Hne) as (E & _); rewrite E; auto].
  (* a thread that is done takes no step *)
  exfalso. specialize (J3 i Hj). unfold Threads.bg_step in H. rewrite J3 in H. destruct l; discriminate.
Qed.

Lemma inv2_pool s j l s' : Inv2 s -> pool_step s j l = Some s' -> Inv2 s'.
Proof.
  intros HI H. apply pool_cases in H.
  destruct H as [(_ & _ & ->)|[(_ & ->)|[(nt & b & _ & _ & ->)|(_ & ->)]]]; exact HI.
Qed.

Lemma inv2_client s l s' : Inv2 s -> client_step qmax s l = Some s' -> Inv2 s'.
Proof.
  intros HI H. unfold client_step in H. destruct (client_done s); [discriminate|].
  destruct l; try discriminate;
    repeat match type of H with context [if ?x then _ else _] => destruct x eqn:?; try discriminate end;
    inversion H; subst; clear H; exact HI.
Qed.

Lemma inv2_web s l s' : Inv2 s -> web_step s l = Some s' -> Inv2 s'.
Proof.
  intros HI H. unfold web_step in H. destruct (web s) as [|[|w]]; try discriminate.
  destruct l; try discriminate. destruct raised; [discriminate|]. inversion H; subst; clear H. exact HI.
Qed.

Lemma ret_cont_loop k : loop_k k = true -> epi (ret_cont n with_web k) = false /\ loop_pc_ok (ret_cont n with_web k) = true.
Proof. destruct k; simpl; try discriminate; intros _; unfold ret_cont, drain_pc, poll_pc; destruct with_web; destruct (n =? 0); simpl; auto. Qed.
Lemma ret_cont_loop_ok k : loop_pc_ok (ret_cont n with_web k) = true.
Proof. destruct k; unfold ret_cont, drain_pc, poll_pc, join_pc; destruct with_web; destruct (n =? 0); reflexivity. Qed.
Lemma tp_return_loop ok ret k : loop_k k = true -> epi (tp_return n with_web ok ret k) = false /\ loop_pc_ok (tp_return n with_web ok ret k) = true.
Proof. intros Hk. destruct (ret_cont_loop k Hk). unfold tp_return. destruct ret as [ap|]; [destruct ok|]; simpl; auto. Qed.

Lemma ret_cont_post k : shut_k k = true -> post (ret_cont n with_web k) = true.
Proof. destruct k; simpl; try discriminate; intros _; unfold ret_cont, drain_pc, poll_pc, join_pc; destruct (n =? 0); reflexivity. Qed.

Lemma ret_cont_shut_ok k : shut_pc_ok (ret_cont n with_web k) = true.
Proof. destruct k; unfold ret_cont, drain_pc, poll_pc, join_pc; destruct with_web; destruct (n =? 0); reflexivity. Qed.

Lemma ret_cont_props k :
  reslow (ret_cont n with_web k) = false /\ joined_of (ret_cont n with_web k) = 0 /\
  save_pc (ret_cont n with_web k) = false /\ saving_pc (ret_cont n with_web k) = false.
Proof.
  destruct k; unfold ret_cont, drain_pc, poll_pc, join_pc; destruct with_web; destruct (n =? 0) eqn:E; simpl; repeat split; auto;
    apply Nat.eqb_eq in E; auto.
Qed.

Lemma tp_return_props ok ret k :
  reslow (tp_return n with_web ok ret k) = false /\ joined_of (tp_return n with_web ok ret k) = 0 /\
  saving_pc (tp_return n with_web ok ret k) = false /\
  (ok = false -> save_pc (tp_return n with_web ok ret k) = false).
Proof.
  destruct (ret_cont_props k) as (A & B & C & D).
  unfold tp_return. destruct ret as [ap|]; [destruct ok|]; simpl; repeat split; auto; intros; discriminate.
Qed.

Lemma tp_return_shut_ok ok ret k : shut_pc_ok (tp_return n with_web ok ret k) = true.
Proof. unfold tp_return. destruct ret as [ap|]; [destruct ok|]; try reflexivity; apply ret_cont_shut_ok. Qed.

Lemma pcs_shut_ok : shut_pc_ok (drain_pc n with_web) = true /\ shut_pc_ok (poll_pc n) = true /\ post (poll_pc n) = true /\
  epi (drain_pc n with_web) = false /\ loop_pc_ok (drain_pc n with_web) = true /\ epi (poll_pc n) = false /\ loop_pc_ok (poll_pc n) = true.
Proof. unfold drain_pc, poll_pc; destruct with_web; destruct (n =? 0); simpl; repeat split; auto. Qed.

Lemma pcs_props :
  reslow (drain_pc n with_web) = false /\ joined_of (drain_pc n with_web) = 0 /\ save_pc (drain_pc n with_web) = false /\ saving_pc (drain_pc n with_web) = false /\
  reslow (poll_pc n) = false /\ joined_of (poll_pc n) = 0 /\ save_pc (poll_pc n) = false /\ saving_pc (poll_pc n) = false.
Proof. unfold drain_pc, poll_pc; destruct with_web; destruct (n =? 0); simpl; repeat split; auto. Qed.

Lemma inv2_ctl s l s' : Inv s -> Inv2 s -> ctl_step s l = Some s' -> Inv2 s'.
Proof.
  intros HI (J1 & J2 & J3 & J4 & J5 & J6 & J7 & J8 & J9 & J10) H.
  destruct HI as (IA & IB & IC & ID & IE & IF).
  destruct pcs_props as (P1 & P2 & P3 & P4 & P5 & P6 & P7 & P8). destruct pcs_shut_ok as (P9 & P10 & P11 & P12 & P13 & P14 & P15).
  assert (Hclk : acked s = false -> clk s = false).
  { intros Ha. destruct (clk s) eqn:E; [|reflexivity]. specialize (ID eq_refl). congruence. }
  assert (Hres : acked s = false -> reslow (cp s) = false -> res s = true).
  { intros Ha Hl. destruct (res s) eqn:E; [reflexivity|]. destruct (J2 eq_refl); congruence. }
  unfold CI in IF.
  unfold Threads.ctl_step in H.
  destruct (cp s) eqn:Hc; destruct l; try discriminate;
    repeat match type of H with
           | context [match ?x with _ => _ end] => destruct x eqn:?; try discriminate
           end;
    inversion H; subst; clear H.
  all: unfold Inv2, exc_goto, ctl, set_cp, set_res, set_misc, set_pp, set_bp, after_pool, start_pool in *; simpl in *.
  all: try match goal with
              | |- context [ret_cont n with_web ?k] =>
                  let A := fresh in let B := fresh in let C := fresh in let D := fresh in
                  destruct (ret_cont_props k) as (A & B & C & D); rewrite ?A, ?B, ?C, ?D; clear A B C D
              end.
  all: try match goal with
              | |- context [tp_return n with_web ?ok ?ret ?k] =>
                  let A := fresh in let B := fresh in let C := fresh in let D := fresh in
                  destruct (tp_return_props ok ret k) as (A & B & C & D); rewrite ?A, ?B, ?C; try rewrite (D eq_refl); clear A B C
              end.
  all: rewrite ?P1, ?P2, ?P3, ?P4, ?P5, ?P6, ?P7, ?P8, ?P9, ?P10, ?P11, ?P12, ?P13, ?P14, ?P15, ?tp_return_shut_ok, ?ret_cont_shut_ok, ?ret_cont_loop_ok.
  all: try match goal with Hk : loop_k ?k = true |- _ =>
             try (destruct (ret_cont_loop k Hk) as (? & ?));
             try match goal with |- context [tp_return n with_web ?ok ?ret k] => destruct (tp_return_loop ok ret k Hk) as (? & ?) end
           end.
  all: repeat match goal with Hx : epi _ = false |- _ => rewrite Hx; clear Hx end.
  all: repeat match goal with Hx : loop_pc_ok _ = true |- _ => rewrite Hx; clear Hx end.
  all: try (repeat split; intros; simpl in *; try discriminate; try congruence; try lia; auto; fail).
  all: try rewrite Hc in IF.
  all: try (timeout 10 (intuition (auto; try congruence; try discriminate; try lia)); fail).
  (* shutdown returns: the loop flag is down, the continuation is one a shutdown is called with *)
  all: try (match goal with Hk : shut_k ?k = true |- _ => rewrite (ret_cont_post k Hk) end;
            timeout 10 (intuition (auto; try congruence; try discriminate; try lia)); fail).
  (* joins: one more thread is known to be done *)
  all: try (repeat split; auto; try (intros; discriminate); try (intros Hx; apply J5 in Hx; tauto); try (intros Hx; apply J6 in Hx; tauto);
            intros x Hx;
            match goal with Hd : _ = true |- _ => match type of Hd with context [bp ?s0 ?w] =>
              destruct (Nat.eq_dec x w) as [->|Hne]; [destruct (bp s0 w); try discriminate; reflexivity | apply J3; lia] end end; fail).
  Ltac fin5 J5 J6 J7 := timeout 20 (intuition (auto; try lia; try congruence; try discriminate)).
  - (* try_pause finds the system paused already: then the pause is an acknowledged one *)
    assert (Hr : res s = false) by (destruct (res s); [discriminate|reflexivity]).
    destruct (J2 Hr) as [Ha|Hx]; [|discriminate]. fin5 J5 J6 J7.
  - destruct (n =? 0); simpl; destruct IF as (Ha & _); fin5 J5 J6 J7.
  - destruct IF as (Hr & Ha & _). destruct (all_pres n s); simpl; fin5 J5 J6 J7.
  - rewrite Hc. simpl. fin5 J5 J6 J7.
  - assert (Hs : shut s = true) by (destruct (shut s); [reflexivity|discriminate]).
    destruct (J6 Hs) as (Hr & Hrun). destruct IF as (Ha & _). rewrite (ret_cont_post k J8).
    timeout 20 (intuition (auto; try lia; try congruence; try discriminate)).
  - apply andb_true_iff in Heqb. destruct Heqb as (Hk & Hd). apply Nat.eqb_eq in Hk. subst.
    assert (HD : forall x, x < n -> bp s x = BDone).
    { intros x Hx. destruct (Nat.eq_dec x i) as [->|Hne]; [destruct (bp s i); try discriminate; reflexivity|].
      apply J3. destruct n as [|n']; [lia|]. apply Nat.eqb_eq in Heqb0. lia. }
    timeout 20 (intuition (auto; try lia; try congruence; try discriminate)).
  - apply andb_true_iff in Heqb. destruct Heqb as (Hk & Hd). apply Nat.eqb_eq in Hk. subst.
    assert (HD : forall x, x < S i -> bp s x = BDone).
    { intros x Hx. destruct (Nat.eq_dec x i) as [->|Hne]; [destruct (bp s i); try discriminate; reflexivity|]. apply J3. lia. }
    timeout 20 (intuition (auto; try lia; try congruence; try discriminate)).
  - rewrite Hc. simpl. fin5 J5 J6 J7.
Qed.

Lemma inv2_step s t l s' : Inv s -> Inv2 s -> step s t l = Some s' -> Inv2 s'.
Proof.
  intros HI HJ H. unfold Threads.step in H. destruct t as [|i|j| |].
  - eapply inv2_ctl; eauto.
  - destruct (i <? n); [|discriminate]. eapply inv2_bg; eauto.
  - destruct (j <? n); [|discriminate]. eapply inv2_pool; eauto.
  - eapply inv2_client; eauto.
  - eapply inv2_web; eauto.
Qed.

Lemma inv12_run_from : forall tr s s', Inv s -> Inv2 s -> run s tr = Some s' -> Inv s' /\ Inv2 s'.
Proof.
  induction tr as [|[t l] tr IH]; intros s s' HI HJ H; simpl in H; [inversion H; subst; auto|].
  destruct (step s t l) eqn:E; [|discriminate].
  eapply IH; [eapply inv_step; eauto|eapply inv2_step; eauto|eassumption].
Qed.

Theorem inv2_reachable tr s : run init tr = Some s -> Inv s /\ Inv2 s.
Proof. apply inv12_run_from; [apply inv_init|apply inv2_init]. Qed.

(* C04 on states: whenever a state is being written, either a pause is acknowledged (so every background
   thread is quiescent and the clock is frozen), or launch() is in its epilogue and every thread has exited *)
Theorem saving_quiescent tr s : run init tr = Some s -> saving s = true ->
  (acked s = true /\ clk s = true /\ forall i, i < n -> Qb (bp s i) = true) \/
  (forall i, i < n -> bp s i = BDone).
Proof.
  intros H Hs. destruct (inv2_reachable _ _ H) as (HI & J1 & J2 & J3 & J4 & _).
  specialize (J4 Hs). destruct (cp s) eqn:Hc; simpl in J4; try discriminate.
  - left. assert (Ha : acked s = true) by (apply J1; try rewrite Hc; reflexivity).
    destruct HI as (_ & _ & C & _). destruct (C Ha) as (_ & K & Q). auto.
  - right. intros i Hi. apply J3. try rewrite Hc. exact Hi.
Qed.

(* C02 on states: when launch() is through its epilogue every background thread has exited, the loop flag is
   down, the system clock runs and no pause is acknowledged any more *)
Theorem launch_done tr s : run init tr = Some s -> cp s = CDone ->
  (forall i, i < n -> bp s i = BDone) /\ running s = false /\ clk s = false /\ acked s = false.
Proof.
  intros H Hc. destruct (inv2_reachable _ _ H) as (HI & J1 & J2 & J3 & J4 & J5 & J6 & J7 & J8 & J9 & J10).
  assert (Hr : running s = false) by (apply J9; rewrite Hc; reflexivity).
  split; [intros i Hi; apply J3; rewrite Hc; exact Hi|]. split; [assumption|]. apply J5; assumption.
Qed.

(* once the shutdown event is set the resume event stays set: nothing can block any more *)
Theorem shutdown_releases tr s : run init tr = Some s -> shut s = true -> res s = true /\ running s = false.
Proof. intros H Hs. destruct (inv2_reachable _ _ H) as (_ & _ & _ & _ & _ & _ & J6 & _). auto. Qed.

(* the final state is written after every background thread has exited *)
Theorem final_save_after_threads tr s : run init tr = Some s ->
  (cp s = CFinSave0 \/ cp s = CFinSave1 \/ cp s = CDone) -> forall i, i < n -> bp s i = BDone.
Proof.
  intros H Hc i Hi. destruct (inv2_reachable _ _ H) as (_ & _ & _ & J3 & _).
  apply J3. destruct Hc as [Hc|[Hc|Hc]]; rewrite Hc; exact Hi.
Qed.

End Inv2.
