(* Progress facts of the thread model M6 (C02): nobody blocks unacknowledged, a live thread always has an
   enabled operation, and after a shutdown every own operation brings a thread closer to its exit. *)
From Coq Require Import List Bool Arith Lia.
From Pamiq Require Import Model.Threads Proofs.ThreadsInv Proofs.ThreadsInv2.
Import ListNotations.

Section Live.
Variable n : nat.
Variable kind : nat -> bkind.
Variable max_attempts : nat.
Variable qmax : nat.
Variable with_web : bool.

Notation step := (step n kind max_attempts qmax with_web).
Notation run := (run n kind max_attempts qmax with_web).
Notation bg_step := (bg_step kind).

Theorem blocked_means_acknowledged tr s i : run init tr = Some s -> blockpc (bp s i) = true -> pf s i = true.
Proof. intros H. destruct (inv_reachable _ _ _ _ _ _ _ H) as (_ & B & _). apply B. Qed.

Theorem waiting_unnotified_means_paused tr s i : run init tr = Some s -> bp s i = BWaiting false -> res s = false.
Proof. intros H. destruct (inv_reachable _ _ _ _ _ _ _ H) as (_ & _ & _ & _ & E & _). apply E. Qed.

(* a callback list under execution is never empty before a callback begins *)
Definition wfpc (p : bpc) : Prop := match p with BRun _ [] None => False | _ => True end.

Lemma enter_wf i ph : wfpc (enter kind i ph).
Proof. unfold enter. destruct (cbs_of (kind i) ph) eqn:E; [destruct ph; exact I|exact I]. Qed.

Lemma wf_bg s i l s' : (forall j, wfpc (bp s j)) -> bg_step s i l = Some s' -> forall j, wfpc (bp s' j).
Proof.
  intros HW H j. destruct (Nat.eq_dec j i) as [->|Hne].
  2:{ destruct (bg_frame kind _ _ _ _ H) as (_ & _ & _ & _ & _ & _ & Fr). destruct (Fr j Hne) as (E & _). rewrite E. apply HW. }
  unfold Threads.bg_step in H.
  destruct (bp s i) eqn:Hp; destruct l; try discriminate;
    repeat match type of H with
           | context [match ?x with _ => _ end] => destruct x eqn:?; try discriminate
           end;
    inversion H; subst; clear H; unfold fault, set_bp, set_pf, set_ex; simpl; rewrite ?upd_same; simpl;
    try exact I; try apply enter_wf;
    try (destruct ph; simpl; rewrite ?upd_same; exact I);
    try (rewrite Hp; exact I).
  all: try (specialize (HW i); rewrite Hp in HW; exact HW).
  all: try (match goal with |- match ?x with _ => _ end => destruct x; exact I end).
Qed.

Lemma wf_run_from : forall tr s s', (forall j, wfpc (bp s j)) -> run s tr = Some s' -> forall j, wfpc (bp s' j).
Proof.
  induction tr as [|[t l] tr IH]; intros s s' HW H; simpl in H; [inversion H; subst; exact HW|].
  destruct (step s t l) as [s1|] eqn:E; [|discriminate]. apply (IH s1 s'); [|exact H].
  unfold Threads.step in E. destruct t as [|i|j| |].
  - (* control: only starts threads *)
    unfold Threads.ctl_step in E.
    destruct (cp s) eqn:Hc; destruct l; try discriminate;
      repeat match type of E with
             | context [match ?x with _ => _ end] => destruct x eqn:?; try discriminate
             end;
      inversion E; subst; clear E; unfold exc_goto, ctl, set_cp, set_res, set_misc, set_pp, set_bp; simpl; try exact HW;
      intros j.
    all: try (unfold notify_bg; specialize (HW j); destruct (bp s j); exact HW).
    all: try (unfold upd; destruct (Nat.eqb j k); [apply enter_wf|apply HW]).
  - destruct (i <? n); [|discriminate]. eapply wf_bg; eauto.
  - destruct (j <? n); [|discriminate]. apply pool_cases in E.
    destruct E as [(_ & _ & ->)|[(_ & ->)|[(nt & b & _ & _ & ->)|(_ & ->)]]]; exact HW.
  - unfold client_step in E. destruct (client_done s); [discriminate|].
    destruct l; try discriminate;
      repeat match type of E with context [if ?x then _ else _] => destruct x eqn:?; try discriminate end;
      inversion E; subst; exact HW.
  - unfold web_step in E. destruct (web s) as [|[|w]]; try discriminate. destruct l; try discriminate.
    destruct raised; [discriminate|]. inversion E; subst; exact HW.
Qed.

Lemma wf_reachable tr s : run init tr = Some s -> forall j, wfpc (bp s j).
Proof. apply wf_run_from. intros j. exact I. Qed.

Lemma cbn_eqb_refl c : cbn_eqb c c = true.
Proof. destruct c; reflexivity. Qed.

(* no deadlock: a live background thread always has an enabled operation of its own other than a timeout,
   unless it waits for a resume that has not been issued *)
Theorem bg_progress tr s i : run init tr = Some s -> i < n ->
  bp s i <> BNotStarted -> bp s i <> BDone ->
  (exists l, bg_step s i l <> None /\ l <> LWaitRet ERes false) \/ (bp s i = BWaiting false /\ res s = false).
Proof.
  intros H Hi Hns Hd. pose proof (wf_reachable _ _ H i) as HW.
  pose proof (waiting_unnotified_means_paused _ _ i H) as HE.
  Ltac fin := unfold Threads.bg_step; match goal with Hp : bp _ _ = _ |- _ => rewrite Hp end; simpl; rewrite ?cbn_eqb_refl, ?eqb_reflx, ?Nat.eqb_refl; simpl; try match goal with Hr : res _ = _ |- _ => rewrite Hr end; simpl;
    try (match goal with |- match ?x with _ => _ end <> None => destruct x end); discriminate.
  assert (T : forall L, bg_step s i L <> None -> L <> LWaitRet ERes false ->
              (exists l, bg_step s i l <> None /\ l <> LWaitRet ERes false) \/ (bp s i = BWaiting false /\ res s = false)).
  { intros L H1 H2. left. exists L. auto. }
  destruct (bp s i) as [|ph r ins| | | | |nt| | | | | | | | | |] eqn:Hp; try congruence.
  - destruct ins as [c|].
    + apply (T (LCbE c)); [|discriminate]. fin.
    + destruct r as [|c r]; [contradiction|]. apply (T (LCbB c)); [|discriminate].
      fin.
  - apply (T (LIsSet ERes (res s))); [|discriminate]. fin.
  - apply (T (LSet (EPaused i))); [|discriminate]. unfold Threads.bg_step. rewrite Hp, Nat.eqb_refl. discriminate.
  - apply (T (LIsSet ERes (res s))); [|discriminate]. fin.
  - destruct (res s) eqn:Hr.
    + apply (T (LWaitNow ERes)); [|discriminate]. fin.
    + apply (T (LWaitBlock ERes true)); [|discriminate]. fin.
  - destruct nt.
    + apply (T (LWaitRet ERes true)); [|discriminate]. fin.
    + right. split; [reflexivity|apply HE; reflexivity].
  - apply (T (LClear (EPaused i))); [|discriminate]. unfold Threads.bg_step. rewrite Hp, Nat.eqb_refl. discriminate.
  - apply (T (LIsSet ERes (res s))); [|discriminate]. fin.
  - apply (T (LSet (EPaused i))); [|discriminate]. unfold Threads.bg_step. rewrite Hp, Nat.eqb_refl. discriminate.
  - apply (T (LClear (EPaused i))); [|discriminate]. unfold Threads.bg_step. rewrite Hp, Nat.eqb_refl. discriminate.
  - apply (T (LIsSet EShut (shut s))); [|discriminate]. fin.
  - apply (T LSleep); [|discriminate]. fin.
  - apply (T LSleep); [|discriminate]. fin.
  - apply (T (LSet (EExc i))); [|discriminate]. unfold Threads.bg_step. rewrite Hp, Nat.eqb_refl. discriminate.
  - apply (T (LExit (failed s i))); [|discriminate]. fin.
Qed.

(* ---------- after a shutdown: a strictly decreasing measure ---------- *)
Definition len_cbs (i : nat) (ph : phase) : nat := length (cbs_of (kind i) ph).
Definition dA (i : nat) : nat := 2 + 2 * len_cbs i PTeardown.          (* dist BAct *)
Definition ins_w (ins : option cbn) : nat := match ins with Some _ => 1 | None => 0 end.

Definition dist (i : nat) (p : bpc) : nat :=
  let hr := 2 * len_cbs i PHookR in
  match p with
  | BDone => 0
  | BExit => 1
  | BRun PTeardown r ins => 1 + 2 * length r + ins_w ins
  | BSetExc => dA i
  | BAct => dA i
  | BGuard => dA i + 1
  | BSleep => dA i + 2
  | BRun PStep r ins => dA i + 2 + 2 * length r + ins_w ins
  | BTickTrain => dA i + 4
  | BRun PSetup r ins => dA i + 1 + 2 * length r + ins_w ins
  | BRun PHookR r ins => dA i + 2 * length r + ins_w ins
  | BClr2 => dA i + hr + 1
  | BRechk => dA i + hr + 2
  | BClr => dA i + hr + 3
  | BChk => dA i + hr + 4
  | BWaitCall | BWaiting _ | BReSet | BSetFlag => dA i + hr + 5
  | BRun PHookP r ins => dA i + hr + 5 + 2 * length r + ins_w ins
  | BNotStarted => dA i + hr + 100
  end.

Lemma enter_dist i ph : dist i (enter kind i ph) =
  match ph with
  | PSetup => dA i + 1 + 2 * len_cbs i PSetup
  | PStep => dA i + 2 + 2 * len_cbs i PStep
  | PHookP => dA i + 2 * len_cbs i PHookR + 5 + 2 * len_cbs i PHookP
  | PHookR => dA i + 2 * len_cbs i PHookR
  | PTeardown => 1 + 2 * len_cbs i PTeardown
  end.
Proof.
  unfold enter, len_cbs. destruct (cbs_of (kind i) ph) eqn:E; destruct ph; simpl; unfold dA, len_cbs; rewrite ?E; simpl; lia.
Qed.

Theorem shutdown_decreases tr s i l s' : run init tr = Some s -> shut s = true ->
  bg_step s i l = Some s' -> l <> LSleep \/ executing (bp s i) = false ->
  dist i (bp s' i) < dist i (bp s i).
Proof.
  intros H Hs Hstep Hl.
  destruct (inv2_reachable _ _ _ _ _ _ _ H) as (HI & _ & _ & _ & _ & _ & J6 & _).
  destruct (J6 Hs) as (Hr & _).
  unfold Threads.bg_step in Hstep.
  destruct (bp s i) eqn:Hp; destruct l; try discriminate;
    repeat match type of Hstep with
           | context [match ?x with _ => _ end] => destruct x eqn:?; try discriminate
           end;
    inversion Hstep; subst; clear Hstep; unfold fault, set_bp, set_pf, set_ex; simpl; rewrite ?upd_same;
    rewrite ?enter_dist; unfold dA, len_cbs in *; simpl;
    repeat match goal with Hx : Bool.eqb _ _ = true |- _ => apply eqb_prop in Hx end;
    try congruence; try lia.
  all: try (destruct Hl as [Hl|Hl]; [congruence|simpl in Hl; discriminate]).
  all: try (destruct ph; unfold after_phase, dist, dA, len_cbs in *; simpl; rewrite ?upd_same; simpl; lia).
  all: try (destruct ph; unfold after_phase, dist, dA, len_cbs in *; simpl; rewrite ?upd_same; simpl;
            destruct Hl as [Hl|Hl]; [congruence|simpl in Hl; discriminate]).
  all: try (unfold after_phase, dist, dA, len_cbs in *; simpl; lia).
Qed.

(* ---------- the control thread after the loop flag has been lowered: a strictly decreasing measure ----------
   Once a shutdown has lowered the loop flag, every own operation of the control thread - the rest of the tick,
   the finally-shutdown, the joins (enabled as soon as the joined thread has exited), the final save, the return of
   launch() - brings it strictly closer to its end; only the marks of components saving inside the final state
   (LOther) do not count.  Together with [shutdown_decreases] (the background threads) this is the bound on
   "launch() returns within a bounded time of the shutdown request" (user callbacks are assumed to return). *)
Definition ck (k : cont) : nat :=
  match k with
  | KFinally => n + 9
  | KAfterUptime => n + 15
  | KAfterPoll => n + 21
  | KAfterDrain | KDrain | KCond => 2 * n + 27
  end.

Definition cdist (c : cpc) : nat :=
  match c with
  | CMainDone => 0
  | CMainExit => 1
  | CJoinClient => 2
  | CDone => 3
  | CFinSave1 => 4
  | CFinSave0 => 5
  | CFinScale => 6
  | CJoin k => 7 + (n - k)
  | CShut4 k => ck k + 1
  | CShut3 k => ck k + 2
  | CShut2 k => ck k + 3
  | CShut1 k => ck k + 4
  | CShut0 k => ck k + 5
  | CAfterUptime => ck KFinally + 6
  | CAfterPoll => ck KAfterUptime + 6
  | CPoll k _ => ck KAfterPoll + 6 + (n - k)
  | _ => 1000 + 10 * n
  end.

Lemma ret_cont_cdist k : shut_k k = true -> cdist (ret_cont n with_web k) <= ck k.
Proof.
  destruct k; try discriminate; intros _; unfold Threads.ret_cont, poll_pc, join_pc;
    destruct (Nat.eqb_spec n 0); cbn [cdist ck]; lia.
Qed.

(* indices of the polls, joins and starts stay below n *)
Definition idx_ok (c : cpc) : Prop := match c with CPoll k _ | CJoin k | CStart k => k < n | _ => True end.

Lemma idx_ret k : idx_ok (ret_cont n with_web k).
Proof. destruct k; unfold Threads.ret_cont, drain_pc, poll_pc, join_pc; destruct with_web; destruct (Nat.eqb_spec n 0); cbn; lia. Qed.
Lemma idx_tp ok ret k : idx_ok (tp_return n with_web ok ret k).
Proof. unfold Threads.tp_return. destruct ret as [ap|]; [destruct ok|]; try apply idx_ret; exact I. Qed.

Lemma idx_ctl s l s' : idx_ok (cp s) -> Threads.ctl_step n kind max_attempts with_web s l = Some s' -> idx_ok (cp s').
Proof.
  intros HI Hstep. unfold Threads.ctl_step in Hstep.
  destruct (cp s) eqn:Hc; destruct l; try discriminate;
    repeat match type of Hstep with
           | context [match ?x with _ => _ end] => destruct x eqn:?; try discriminate
           end;
    inversion Hstep; subst; clear Hstep;
    unfold exc_goto, ctl, set_cp, set_res, set_misc, set_pp, set_bp, after_pool, start_pool; cbn [cp];
    try apply idx_ret; try apply idx_tp; try exact I; try (rewrite Hc; exact HI);
    repeat match goal with Hx : (_ && _) = true |- _ => apply andb_true_iff in Hx; destruct Hx end;
    repeat match goal with Hx : (_ =? _) = true |- _ => apply Nat.eqb_eq in Hx; subst
                         | Hx : (_ =? _) = false |- _ => apply Nat.eqb_neq in Hx end;
    unfold drain_pc, poll_pc, join_pc;
    repeat match goal with |- context [if ?b then _ else _] => destruct b eqn:? end;
    repeat match goal with Hx : (_ =? _) = true |- _ => apply Nat.eqb_eq in Hx
                         | Hx : (_ =? _) = false |- _ => apply Nat.eqb_neq in Hx end;
    cbn in *; try exact I; try lia.
Qed.

Lemma idx_reachable : forall tr s s', idx_ok (cp s) -> run s tr = Some s' -> idx_ok (cp s').
Proof.
  induction tr as [|[t l] tr IH]; intros s s' HI H; [inversion H; subst; exact HI|].
  cbn [Threads.run] in H. destruct (step s t l) as [s1|] eqn:E; [|discriminate].
  apply (IH s1 s'); [|exact H].
  destruct t as [|i|j| |].
  - unfold Threads.step in E. eapply idx_ctl; eassumption.
  - unfold Threads.step in E. destruct (i <? n); [|discriminate].
    destruct (bg_frame kind _ _ _ _ E) as (_ & _ & _ & Ec & _). rewrite Ec. exact HI.
  - unfold Threads.step in E. destruct (j <? n); [|discriminate]. apply pool_cases in E.
    assert (Ec : cp s1 = cp s) by (destruct E as [(_ & _ & ->)|[(_ & ->)|[(nt & b & _ & _ & ->)|(_ & ->)]]]; reflexivity).
    rewrite Ec. exact HI.
  - assert (Ec : cp s1 = cp s).
    { unfold Threads.step, client_step in E. destruct (client_done s); [discriminate|].
      destruct l; try discriminate;
        repeat match type of E with context [if ?x then _ else _] => destruct x eqn:?; try discriminate end;
        inversion E; subst; reflexivity. }
    rewrite Ec. exact HI.
  - assert (Ec : cp s1 = cp s).
    { unfold Threads.step, web_step in E. destruct (web s) as [|[|w]]; try discriminate. destruct l; try discriminate.
      destruct raised; [discriminate|]. inversion E; subst; reflexivity. }
    rewrite Ec. exact HI.
Qed.

Theorem control_thread_winds_down tr s l s' : run init tr = Some s -> running s = false ->
  Threads.ctl_step n kind max_attempts with_web s l = Some s' -> l <> LOther -> cdist (cp s') < cdist (cp s).
Proof.
  intros H Hr Hstep Hl.
  destruct (inv2_reachable _ _ _ _ _ _ _ H) as (HI & _ & _ & _ & _ & _ & _ & J7 & J8 & _).
  specialize (J7 Hr).
  assert (HX : idx_ok (cp s)) by (apply (idx_reachable tr init s); [exact I|exact H]).
  unfold Threads.ctl_step in Hstep.
  destruct (cp s) eqn:Hc; try discriminate J7; destruct l; try discriminate; try congruence;
    repeat match type of Hstep with
           | context [match ?x with _ => _ end] => destruct x eqn:?; try discriminate
           end;
    inversion Hstep; subst; clear Hstep;
    unfold exc_goto, ctl, set_cp, set_res, set_misc, set_pp, set_bp; cbn [cp];
    cbn [shut_pc_ok] in J8;
    try (pose proof (ret_cont_cdist _ J8)); rewrite ?Hr;
    repeat match goal with Hx : (_ && _) = true |- _ => apply andb_true_iff in Hx; destruct Hx end;
    repeat match goal with Hx : (_ =? _) = true |- _ => apply Nat.eqb_eq in Hx; subst
                         | Hx : (_ =? _) = false |- _ => apply Nat.eqb_neq in Hx end;
    unfold cdist, ck in *; try lia; cbn in HX; lia.
Qed.

End Live.
