(* No trace accepted by the thread model violates the trace monitors of Check/Sys.v. *)
From Coq Require Import List Bool Arith Lia.
From Pamiq Require Import Model.Threads Check.Sys Proofs.ThreadsInv Proofs.ThreadsInv2.
Import ListNotations.

Section Mon.
Variable n : nat.
Variable kind : nat -> bkind.
Variable max_attempts : nat.
Variable qmax : nat.
Variable with_web : bool.

Notation step := (step n kind max_attempts qmax with_web).
Notation run := (run n kind max_attempts qmax with_web).
Notation ctl_step := (ctl_step n kind max_attempts with_web).
Notation bg_step := (bg_step kind).
Notation Inv := (Inv n).

(* how the control thread moves the ghost flags *)
Lemma ctl_ghost s l s' : ctl_step s l = Some s' ->
  match l with
  | LClockPause => acked s' = true /\ clk s' = true /\ saving s' = saving s
  | LClockResume => acked s' = false /\ clk s' = false /\ saving s' = saving s
  | LSaveB => acked s' = acked s /\ clk s' = clk s /\ saving s' = true
  | LSaveE | LSaveRaise => acked s' = acked s /\ clk s' = clk s /\ saving s' = false
  | LSaveCondRaise | LInterrupt => acked s' = acked s /\ clk s' = clk s /\ saving s' = false
  | _ => acked s' = acked s /\ clk s' = clk s /\ saving s' = saving s
  end.
Proof.
  unfold Threads.ctl_step. intros H.
  destruct (cp s) eqn:Hc; destruct l; try discriminate;
    repeat match type of H with
           | context [match ?x with _ => _ end] => destruct x eqn:?; try discriminate
           end;
    inversion H; subst; clear H; unfold exc_goto, ctl, set_cp, set_res, set_misc, set_pp, set_bp; simpl; auto.
Qed.

Lemma bg_quiescent_labels s i l s' : Qb (bp s i) = true -> bg_step s i l = Some s' -> quiescent_label l = true.
Proof.
  unfold Threads.bg_step. intros HQ H.
  destruct (bp s i) eqn:Hp; simpl in HQ; try discriminate; destruct l; try discriminate;
    repeat match type of H with
           | context [match ?x with _ => _ end] => destruct x eqn:?; try discriminate
           end; reflexivity.
Qed.

Lemma bg_ghost s i l s' : bg_step s i l = Some s' -> acked s' = acked s /\ saving s' = saving s /\ clk s' = clk s.
Proof.
  intros H. apply bg_step_shape in H. destruct H; try destruct ph; unfold set_bp, set_pf, set_ex, fault; simpl; auto.
Qed.

Lemma pool_ghost s j l s' : pool_step s j l = Some s' -> acked s' = acked s /\ saving s' = saving s /\ clk s' = clk s.
Proof.
  intros H. apply pool_cases in H.
  destruct H as [(_ & _ & ->)|[(_ & ->)|[(nt & b & _ & _ & ->)|(_ & ->)]]]; unfold set_pp; simpl; auto.
Qed.

Lemma client_ghost s l s' : client_step qmax s l = Some s' ->
  acked s' = acked s /\ saving s' = saving s /\ clk s' = clk s /\ l <> LClockPause /\ l <> LClockResume.
Proof.
  unfold client_step. intros H. destruct (client_done s); [discriminate|].
  destruct l; try discriminate;
    repeat match type of H with context [if ?x then _ else _] => destruct x eqn:?; try discriminate end;
    inversion H; subst; clear H; simpl; repeat split; auto; discriminate.
Qed.

Lemma web_ghost s l s' : web_step s l = Some s' -> acked s' = acked s /\ saving s' = saving s /\ clk s' = clk s /\ exists r, l = LExit r.
Proof.
  unfold web_step. intros H. destruct (web s) as [|[|w]]; try discriminate. destruct l; try discriminate.
  destruct raised; [discriminate|]. inversion H; subst; simpl. repeat split; auto. eexists; reflexivity.
Qed.

(* C01: the monitor started with the model's ghost flag accepts every continuation *)
Lemma c01_from : forall tr s s', Inv s -> run s tr = Some s' -> c01_mon (acked s) tr = true.
Proof.
  induction tr as [|[t l] tr IH]; intros s s' HI H; [reflexivity|].
  simpl in H. destruct (step s t l) as [s1|] eqn:E; [|discriminate].
  pose proof (inv_step _ _ _ _ _ _ _ _ _ HI E) as HI1. specialize (IH s1 s' HI1 H).
  unfold Threads.step in E. cbn [c01_mon].
  destruct t as [|i|j| |].
  - pose proof (ctl_ghost _ _ _ E) as G. destruct l; try (destruct G as (Ga & _); rewrite <- Ga; exact IH);
      try (destruct G as (Ga & _); try rewrite <- Ga; exact IH).
    (* Set(resume): only where the acknowledgement has been withdrawn already *)
    { destruct e; try (destruct G as (Ga & _); rewrite <- Ga; exact IH).
      destruct G as (Ga & _). rewrite Ga in IH.
      assert (Ha : acked s = false).
      { unfold Threads.ctl_step in E. destruct (cp s) eqn:Hc; try discriminate;
          destruct HI as (_ & _ & _ & _ & _ & C); unfold CI in C; rewrite Hc in C; tauto. }
      rewrite Ha in IH. exact IH. }
    (* LClockPause: only from CTp5, where the system is not yet acknowledged *)
    destruct G as (Ga & _). rewrite Ga in IH. rewrite IH, andb_true_r.
    apply negb_true_iff. unfold Threads.ctl_step in E. destruct (cp s) eqn:Hc; try discriminate.
    destruct HI as (_ & _ & _ & _ & _ & C). unfold CI in C. rewrite Hc in C. tauto.
  - destruct (i <? n) eqn:Hi; [|discriminate]. apply Nat.ltb_lt in Hi.
    destruct (bg_ghost _ _ _ _ E) as (Ga & _). rewrite Ga in IH. rewrite IH, andb_true_r.
    destruct (acked s) eqn:Ea; [|reflexivity].
    destruct HI as (_ & _ & C & _). destruct (C Ea) as (_ & _ & Q).
    eapply bg_quiescent_labels; [apply Q; exact Hi|exact E].
  - destruct (j <? n); [|discriminate]. destruct (pool_ghost _ _ _ _ E) as (Ga & _). rewrite Ga in IH.
    destruct l; try exact IH; unfold pool_step in E; destruct (pp s j); discriminate.
  - destruct (client_ghost _ _ _ E) as (Ga & _ & _ & N1 & N2). rewrite Ga in IH. destruct l; try exact IH; congruence.
  - destruct (web_ghost _ _ _ E) as (Ga & _ & _ & r & ->). rewrite Ga in IH. exact IH.
Qed.

Theorem C01_quiet_holds tr s : run init tr = Some s -> C01_quiet tr = true.
Proof. intros H. unfold C01_quiet. change false with (acked init). eapply c01_from; [apply inv_init|exact H]. Qed.

(* ---------- C04 and C02: the monitors' counters are functions of the control thread's position ---------- *)
Notation Inv2 := (Inv2 n).
Notation started_of := (started_of n).
Notation joined_of := (joined_of n).

Definition is_start_bg (l : label) : bool := match l with LStart (TBg _) => true | _ => false end.
Definition is_join_bg (l : label) : bool := match l with LJoin (TBg _) => true | _ => false end.

Lemma ret_cont_counts k : started_of (ret_cont n with_web k) = n /\ joined_of (ret_cont n with_web k) = 0.
Proof.
  destruct k; unfold ret_cont, drain_pc, poll_pc, join_pc; destruct with_web; destruct (n =? 0) eqn:E; simpl; auto;
    apply Nat.eqb_eq in E; auto.
Qed.
Lemma tp_return_counts ok ret k : started_of (tp_return n with_web ok ret k) = n /\ joined_of (tp_return n with_web ok ret k) = 0.
Proof. unfold tp_return. destruct ret as [ap|]; [destruct ok|]; simpl; auto; apply ret_cont_counts. Qed.
Lemma pcs_counts : started_of (drain_pc n with_web) = n /\ joined_of (drain_pc n with_web) = 0 /\
                   started_of (poll_pc n) = n /\ joined_of (poll_pc n) = 0.
Proof. unfold drain_pc, poll_pc; destruct with_web; destruct (n =? 0); simpl; auto. Qed.

Lemma ctl_counts s l s' : ctl_step s l = Some s' ->
  started_of (cp s') = started_of (cp s) + (if is_start_bg l then 1 else 0) /\
  joined_of (cp s') = joined_of (cp s) + (if is_join_bg l then 1 else 0).
Proof.
  destruct pcs_counts as (Q1 & Q2 & Q3 & Q4).
  unfold Threads.ctl_step. intros H.
  destruct (cp s) eqn:Hc; destruct l; try discriminate;
    repeat match type of H with
           | context [match ?x with _ => _ end] => destruct x eqn:?; try discriminate
           end;
    inversion H; subst; clear H;
    unfold exc_goto, ctl, set_cp, set_res, set_misc, set_pp, set_bp, after_pool, start_pool; simpl;
    try match goal with |- context [ret_cont n with_web ?k] => destruct (ret_cont_counts k) as (-> & ->) end;
    try match goal with |- context [tp_return n with_web ?ok ?ret ?k] => destruct (tp_return_counts ok ret k) as (-> & ->) end;
    rewrite ?Q1, ?Q2, ?Q3, ?Q4;
    repeat match goal with |- context [if ?b then _ else _] => destruct b eqn:? end; simpl;
    repeat match goal with Hx : (_ && _) = true |- _ => apply andb_true_iff in Hx; destruct Hx end;
    repeat match goal with Hx : (_ =? _) = true |- _ => apply Nat.eqb_eq in Hx end;
    try (split; lia); try (rewrite Hc; simpl; split; lia).
Qed.

Lemma bg_acts s i l s' : Inv s -> Inv2 s -> i < n -> bg_step s i l = Some s' -> joined_of (cp s) < started_of (cp s).
Proof.
  intros HI (_ & _ & J3 & _) Hi H.
  assert (Hlive : bp s i <> BNotStarted /\ bp s i <> BDone).
  { unfold Threads.bg_step in H. split; intros E; rewrite E in H; destruct l; discriminate. }
  destruct Hlive as [L1 L2].
  assert (Hj : joined_of (cp s) <= i).
  { destruct (Nat.le_gt_cases (joined_of (cp s)) i); [assumption|]. exfalso. apply L2. apply J3. assumption. }
  assert (Hs : i < started_of (cp s)).
  { destruct HI as (_ & _ & _ & _ & _ & C). unfold CI in C. unfold Proofs.ThreadsInv2.started_of.
    destruct (cp s); try exact Hi; try (exfalso; apply L1; apply C; fail).
    destruct C as (_ & _ & NS). destruct (Nat.lt_ge_cases i k); [assumption|]. exfalso. apply L1. apply NS. assumption. }
  lia.
Qed.

Lemma c02_from : forall tr s s', Inv s -> Inv2 s -> run s tr = Some s' ->
  c02_mon (started_of (cp s)) (joined_of (cp s)) tr = true.
Proof.
  induction tr as [|[t l] tr IH]; intros s s' HI HJ H; [reflexivity|].
  simpl in H. destruct (step s t l) as [s1|] eqn:E; [|discriminate].
  pose proof (inv_step _ _ _ _ _ _ _ _ _ HI E) as HI1.
  pose proof (inv2_step _ _ _ _ _ _ _ _ _ HI HJ E) as HJ1.
  specialize (IH s1 s' HI1 HJ1 H).
  unfold Threads.step in E. cbn [c02_mon].
  destruct t as [|i|j| |].
  - destruct (ctl_counts _ _ _ E) as (Es & Ej). rewrite Es, Ej in IH.
    destruct l; cbn [is_start_bg is_join_bg] in IH; rewrite ?Nat.add_0_r in IH; try exact IH.
    + destruct t; cbn [is_start_bg] in IH; rewrite ?Nat.add_0_r, ?Nat.add_1_r in IH; exact IH.
    + destruct t; cbn [is_join_bg] in IH; rewrite ?Nat.add_0_r, ?Nat.add_1_r in IH; exact IH.
    + (* the main thread exits: only from CMainExit, where everything has been joined *)
      rewrite IH, andb_true_r. unfold Threads.ctl_step in E. destruct (cp s) eqn:Hc; try discriminate.
      simpl. apply Nat.eqb_refl.
  - destruct (i <? n) eqn:Hi; [|discriminate]. apply Nat.ltb_lt in Hi.
    pose proof (bg_acts _ _ _ _ HI HJ Hi E) as Hlt.
    destruct (bg_frame kind _ _ _ _ E) as (_ & _ & _ & Ec & _). rewrite Ec in IH. rewrite IH, andb_true_r.
    apply Nat.ltb_lt. exact Hlt.
  - destruct (j <? n); [|discriminate]. apply pool_cases in E.
    assert (Ec : cp s1 = cp s) by (destruct E as [(_ & _ & ->)|[(_ & ->)|[(nt & b & _ & _ & ->)|(_ & ->)]]]; reflexivity).
    rewrite Ec in IH. exact IH.
  - assert (Ec : cp s1 = cp s).
    { unfold client_step in E. destruct (client_done s); [discriminate|].
      destruct l; try discriminate;
        repeat match type of E with context [if ?x then _ else _] => destruct x eqn:?; try discriminate end;
        inversion E; subst; reflexivity. }
    rewrite Ec in IH. exact IH.
  - assert (Ec : cp s1 = cp s).
    { unfold web_step in E. destruct (web s) as [|[|w]]; try discriminate. destruct l; try discriminate.
      destruct raised; [discriminate|]. inversion E; subst; reflexivity. }
    rewrite Ec in IH. exact IH.
Qed.

Theorem C02_monitor_holds tr s : run init tr = Some s -> c02_mon 0 0 tr = true.
Proof. intros H. apply (c02_from tr init s); [apply inv_init|apply inv2_init|exact H]. Qed.

(* ---------- C04 ---------- *)
Lemma saving_state s : Inv s -> Inv2 s -> saving s = true ->
  (acked s = true /\ forall i, i < n -> Qb (bp s i) = true) \/ (forall i, i < n -> bp s i = BDone).
Proof.
  intros HI (J1 & J2 & J3 & J4 & _) Hs. specialize (J4 Hs).
  destruct (cp s) eqn:Hc; simpl in J4; try discriminate.
  - left. assert (Ha : acked s = true) by (apply J1; try rewrite Hc; reflexivity).
    destruct HI as (_ & _ & C & _). destruct (C Ha) as (_ & _ & Q). auto.
  - right. intros i Hi. apply J3. try rewrite Hc. exact Hi.
Qed.

Lemma c04_from : forall tr s s', Inv s -> Inv2 s -> run s tr = Some s' ->
  c04_mon (acked s) (saving s) (started_of (cp s)) (joined_of (cp s)) tr = true.
Proof.
  induction tr as [|[t l] tr IH]; intros s s' HI HJ H; [reflexivity|].
  simpl in H. destruct (step s t l) as [s1|] eqn:E; [|discriminate].
  pose proof (inv_step _ _ _ _ _ _ _ _ _ HI E) as HI1.
  pose proof (inv2_step _ _ _ _ _ _ _ _ _ HI HJ E) as HJ1.
  specialize (IH s1 s' HI1 HJ1 H).
  unfold Threads.step in E. cbn [c04_mon].
  destruct t as [|i|j| |].
  - destruct (ctl_counts _ _ _ E) as (Es & Ej). rewrite Es, Ej in IH. pose proof (ctl_ghost _ _ _ E) as G.
    assert (Hns : (exists k, cp s = CSave2 (fst k) (snd k)) \/ cp s = CFinSave1 \/ saving s = false).
    { destruct (saving s) eqn:Hs; [|auto]. destruct HJ as (_ & _ & _ & J4 & _). specialize (J4 Hs).
      destruct (cp s); simpl in J4; try discriminate; [left; exists (ap, k); reflexivity | right; left; reflexivity]. }
    destruct l; cbn [is_start_bg is_join_bg] in IH; rewrite ?Nat.add_0_r in IH; destruct G as (Ga & Gk & Gs).
    (* labels the monitor does not look at *)
    all: try (rewrite Ga, Gs in IH; exact IH).
    (* thread starts and joins *)
    all: try (destruct t; cbn [is_start_bg is_join_bg] in IH; rewrite ?Nat.add_0_r, ?Nat.add_1_r, ?Ga, ?Gs in IH; exact IH).
    (* releasing the clock / the threads, raising: never while a state is being written *)
    all: try (assert (Hs0 : saving s = false) by
                (destruct Hns as [((ap0, k0) & Hc)|[Hc|Hs0]]; [| |exact Hs0]; unfold Threads.ctl_step in E; rewrite Hc in E; discriminate)).
    (* Set e *)
    all: try (destruct e; try (rewrite Ga, Gs in IH; exact IH);
              assert (Ha : acked s = false) by
                (unfold Threads.ctl_step in E; destruct (cp s) eqn:Hc; try discriminate;
                 destruct HI as (_ & _ & _ & _ & _ & C); unfold CI in C; rewrite Hc in C; tauto);
              rewrite Hs0; cbn [negb andb]; rewrite Ga, Gs, Ha, Hs0 in IH; exact IH).
    (* ClockResume *)
    all: try (rewrite Hs0; cbn [negb andb]; rewrite Ga, Gs, Hs0 in IH; exact IH).
    (* raising *)
    all: try (rewrite Ga, Gs in IH; rewrite Hs0; exact IH).
    (* SaveB: inside an acknowledged pause, or after all joins *)
    rewrite Ga, Gs in IH. rewrite IH, andb_true_r.
    unfold Threads.ctl_step in E. destruct (cp s) eqn:Hc; try discriminate.
    + destruct HJ as (J1 & _). rewrite Hc in J1. rewrite (J1 eq_refl). reflexivity.
    + simpl. rewrite Nat.eqb_refl. apply orb_true_r.
  - destruct (i <? n) eqn:Hi; [|discriminate]. apply Nat.ltb_lt in Hi.
    destruct (bg_ghost _ _ _ _ E) as (Ga & Gs & _).
    destruct (bg_frame kind _ _ _ _ E) as (_ & _ & _ & Ec & _). rewrite Ga, Gs, Ec in IH. rewrite IH, andb_true_r.
    destruct (saving s) eqn:Hs; [|reflexivity].
    destruct (saving_state s HI HJ Hs) as [(_ & Q)|D].
    + eapply bg_quiescent_labels; [apply Q; exact Hi|exact E].
    + exfalso. unfold Threads.bg_step in E. rewrite (D i Hi) in E. destruct l; discriminate.
  - destruct (j <? n); [|discriminate]. destruct (pool_ghost _ _ _ _ E) as (Ga & Gs & _). apply pool_cases in E.
    assert (Ec : cp s1 = cp s) by (destruct E as [(_ & _ & ->)|[(_ & ->)|[(nt & b & _ & _ & ->)|(_ & ->)]]]; reflexivity).
    rewrite Ga, Gs, Ec in IH. exact IH.
  - destruct (client_ghost _ _ _ E) as (Ga & Gs & _).
    assert (Ec : cp s1 = cp s).
    { unfold client_step in E. destruct (client_done s); [discriminate|].
      destruct l; try discriminate;
        repeat match type of E with context [if ?x then _ else _] => destruct x eqn:?; try discriminate end;
        inversion E; subst; reflexivity. }
    rewrite Ga, Gs, Ec in IH. exact IH.
  - destruct (web_ghost _ _ _ E) as (Ga & Gs & _).
    assert (Ec : cp s1 = cp s).
    { unfold web_step in E. destruct (web s) as [|[|w]]; try discriminate. destruct l; try discriminate.
      destruct raised; [discriminate|]. inversion E; subst; reflexivity. }
    rewrite Ga, Gs, Ec in IH. exact IH.
Qed.

Theorem C04_monitor_holds tr s : run init tr = Some s -> C04_ok tr = true.
Proof. intros H. apply (c04_from tr init s); [apply inv_init|apply inv2_init|exact H]. Qed.

Theorem C01_monitor_holds tr s : run init tr = Some s -> C01_ok tr = true.
Proof. intros H. unfold C01_ok. rewrite (C01_quiet_holds _ _ H), (C04_monitor_holds _ _ H). reflexivity. Qed.

End Mon.
