(* No trace accepted by the thread model violates the trace monitors of Check/Sys.v. *)
From Coq Require Import List Bool Arith Lia.
From Pamiq Require Import Model.Threads Check.Sys Proofs.ThreadsInv.
Import ListNotations.

Section Mon.
Variable n : nat.
Variable kind : nat -> bkind.
Variable max_attempts : nat.
Variable qmax : nat.
Variable with_web : bool.

Notation step := (step n kind max_attempts qmax with_web).
Notation run := (run n kind max_attempts qmax with_web).
Notation ctl_step := (ctl_step n kind max_attempts with_web).
Notation bg_step := (bg_step kind).
Notation Inv := (Inv n).

(* how the control thread moves the ghost flags *)
Lemma ctl_ghost s l s' : ctl_step s l = Some s' ->
  match l with
  | LClockPause => acked s' = true /\ clk s' = true /\ saving s' = saving s
  | LClockResume => acked s' = false /\ clk s' = false /\ saving s' = saving s
  | LSaveB => acked s' = acked s /\ clk s' = clk s /\ saving s' = true
  | LSaveE | LSaveRaise => acked s' = acked s /\ clk s' = clk s /\ saving s' = false
  | LSaveCondRaise | LInterrupt => acked s' = acked s /\ clk s' = clk s
  | _ => acked s' = acked s /\ clk s' = clk s /\ saving s' = saving s
  end.
Proof.
  unfold Threads.ctl_step. intros H.
  destruct (cp s) eqn:Hc; destruct l; try discriminate;
    repeat match type of H with
           | context [match ?x with _ => _ end] => destruct x eqn:?; try discriminate
           end;
    inversion H; subst; clear H; unfold exc_goto, ctl, set_cp, set_res, set_misc, set_pp, set_bp; simpl; auto.
Qed.

Lemma bg_quiescent_labels s i l s' : Qb (bp s i) = true -> bg_step s i l = Some s' -> quiescent_label l = true.
Proof.
  unfold Threads.bg_step. intros HQ H.
  destruct (bp s i) eqn:Hp; simpl in HQ; try discriminate; destruct l; try discriminate;
    repeat match type of H with
           | context [match ?x with _ => _ end] => destruct x eqn:?; try discriminate
           end; reflexivity.
Qed.

Lemma bg_ghost s i l s' : bg_step s i l = Some s' -> acked s' = acked s /\ saving s' = saving s /\ clk s' = clk s.
Proof.
  intros H. apply bg_step_shape in H. destruct H; try destruct ph; unfold set_bp, set_pf, set_ex, fault; simpl; auto.
Qed.

Lemma pool_ghost s j l s' : pool_step s j l = Some s' -> acked s' = acked s /\ saving s' = saving s /\ clk s' = clk s.
Proof.
  intros H. apply pool_cases in H.
  destruct H as [(_ & _ & ->)|[(_ & ->)|[(nt & b & _ & _ & ->)|(_ & ->)]]]; unfold set_pp; simpl; auto.
Qed.

Lemma client_ghost s l s' : client_step qmax s l = Some s' ->
  acked s' = acked s /\ saving s' = saving s /\ clk s' = clk s /\ l <> LClockPause /\ l <> LClockResume.
Proof.
  unfold client_step. intros H. destruct (client_done s); [discriminate|].
  destruct l; try discriminate;
    repeat match type of H with context [if ?x then _ else _] => destruct x eqn:?; try discriminate end;
    inversion H; subst; clear H; simpl; repeat split; auto; discriminate.
Qed.

Lemma web_ghost s l s' : web_step s l = Some s' -> acked s' = acked s /\ saving s' = saving s /\ clk s' = clk s /\ exists r, l = LExit r.
Proof.
  unfold web_step. intros H. destruct (web s) as [|[|w]]; try discriminate. destruct l; try discriminate.
  destruct raised; [discriminate|]. inversion H; subst; simpl. repeat split; auto. eexists; reflexivity.
Qed.

(* C01: the monitor started with the model's ghost flag accepts every continuation *)
Lemma c01_from : forall tr s s', Inv s -> run s tr = Some s' -> c01_mon (acked s) tr = true.
Proof.
  induction tr as [|[t l] tr IH]; intros s s' HI H; [reflexivity|].
  simpl in H. destruct (step s t l) as [s1|] eqn:E; [|discriminate].
  pose proof (inv_step _ _ _ _ _ _ _ _ _ HI E) as HI1. specialize (IH s1 s' HI1 H).
  unfold Threads.step in E. cbn [c01_mon].
  destruct t as [|i|j| |].
  - pose proof (ctl_ghost _ _ _ E) as G. destruct l; try (destruct G as (Ga & _); rewrite <- Ga; exact IH);
      try (destruct G as (Ga & _); try rewrite <- Ga; exact IH).
    (* Set(resume): only where the acknowledgement has been withdrawn already *)
    { destruct e; try (destruct G as (Ga & _); rewrite <- Ga; exact IH).
      destruct G as (Ga & _). rewrite Ga in IH.
      assert (Ha : acked s = false).
      { unfold Threads.ctl_step in E. destruct (cp s) eqn:Hc; try discriminate;
          destruct HI as (_ & _ & _ & _ & _ & C); unfold CI in C; rewrite Hc in C; tauto. }
      rewrite Ha in IH. exact IH. }
    (* LClockPause: only from CTp5, where the system is not yet acknowledged *)
    destruct G as (Ga & _). rewrite Ga in IH. rewrite IH, andb_true_r.
    apply negb_true_iff. unfold Threads.ctl_step in E. destruct (cp s) eqn:Hc; try discriminate.
    destruct HI as (_ & _ & _ & _ & _ & C). unfold CI in C. rewrite Hc in C. tauto.
  - destruct (i <? n) eqn:Hi; [|discriminate]. apply Nat.ltb_lt in Hi.
    destruct (bg_ghost _ _ _ _ E) as (Ga & _). rewrite Ga in IH. rewrite IH, andb_true_r.
    destruct (acked s) eqn:Ea; [|reflexivity].
    destruct HI as (_ & _ & C & _). destruct (C Ea) as (_ & _ & Q).
    eapply bg_quiescent_labels; [apply Q; exact Hi|exact E].
  - destruct (j <? n); [|discriminate]. destruct (pool_ghost _ _ _ _ E) as (Ga & _). rewrite Ga in IH.
    destruct l; try exact IH; unfold pool_step in E; destruct (pp s j); discriminate.
  - destruct (client_ghost _ _ _ E) as (Ga & _ & _ & N1 & N2). rewrite Ga in IH. destruct l; try exact IH; congruence.
  - destruct (web_ghost _ _ _ E) as (Ga & _ & _ & r & ->). rewrite Ga in IH. exact IH.
Qed.

Theorem C01_monitor_holds tr s : run init tr = Some s -> C01_ok tr = true.
Proof. intros H. unfold C01_ok. change false with (acked init). eapply c01_from; [apply inv_init|exact H]. Qed.

End Mon.
