(* C09: the per-component protocol automaton of Check/Sys.v accepts the callback log of EVERY trace accepted by
   the thread model M6 in the configuration of the real system (an inference thread 0 owning agent and
   environment, a training thread 1 owning the trainers), by a simulation: each position of a background
   thread determines (a set of) protocol states of its components. *)
From Coq Require Import List Bool Arith Lia.
From Pamiq Require Import Model.Threads Check.Sys Proofs.ThreadsInv Proofs.ThreadsInv2.
Import ListNotations.

Section Proto.
Variable max_attempts : nat.
Variable qmax : nat.
Variable with_web : bool.

Notation step := (step 2 kind2 max_attempts qmax with_web).
Notation run := (run 2 kind2 max_attempts qmax with_web).
Notation ctl_step := (ctl_step 2 kind2 max_attempts with_web).
Notation bg_step := (bg_step kind2).
Notation Inv := (Inv 2).
Notation Inv2 := (Inv2 2).

(* ---- the monitor, one event at a time ---- *)
Definition c09_step (s : c09st) (e : tid * label) : option c09st :=
  match fst e, snd e with
  | TBg i, LCbB c =>
      let (co, k) := comp_of c in
      if (owner co =? i) && match get_busy s i with None => true | Some _ => false end then
        match pnext co (get_p s co) k with
        | Some p => Some (set_busy (set_p s co p) i (Some c))
        | None => None
        end
      else None
  | TBg i, LCbE c =>
      match get_busy s i with
      | Some c' => if cbn_eqb c c' then Some (set_busy s i None) else None
      | None => None
      end
  | TBg i, LCbRaise c =>
      match get_busy s i with
      | Some c' =>
          let (co, k) := comp_of c in
          if cbn_eqb c c' then Some (set_busy (set_p s co (match k with KTeardown => PTorn | _ => PBroken end)) i None) else None
      | None => None
      end
  | _, (LCbB _ | LCbE _ | LCbRaise _) => None
  | _, _ => Some s
  end.

Lemma c09_mon_step m e r :
  c09_mon m (e :: r) = match c09_step m e with Some m' => c09_mon m' r | None => false end.
Proof.
  destruct e as [t l]. unfold c09_step. cbn [fst snd c09_mon].
  destruct t; destruct l; try reflexivity;
    repeat match goal with
           | |- context [let (_, _) := ?x in _] => destruct x
           | |- context [if ?b then _ else _] => destruct b
           | |- context [match ?x with _ => _ end] => destruct x
           end; reflexivity.
Qed.

(* ---- which protocol states go with which position of the owning thread ---- *)
Definition pst_eqb (a b : pst) : bool :=
  match a, b with PNew, PNew | PReady, PReady | PPaused, PPaused | PTorn, PTorn | PBroken, PBroken => true | _, _ => false end.
Definition live (p : pst) : bool := match p with PTorn => false | _ => true end.
Definition none (b : option cbn) : bool := match b with None => true | Some _ => false end.
Definition busy_is (b : option cbn) (c : cbn) : bool := match b with Some c' => cbn_eqb c c' | None => false end.
Definition is3 (a e : pst) (b : option cbn) (a0 e0 : pst) (b0 : option cbn) : bool :=
  pst_eqb a a0 && pst_eqb e e0 && match b0 with None => none b | Some c => busy_is b c end.

(* the inference thread: agent, environment, the callback in progress *)
Definition rel0 (p : bpc) (a e : pst) (b : option cbn) : bool :=
  match p with
  | BNotStarted => is3 a e b PNew PNew None
  | BRun PSetup [ASetup; ESetup] None => is3 a e b PNew PNew None
  | BRun PSetup [ESetup] (Some ASetup) => is3 a e b PReady PNew (Some ASetup)
  | BRun PSetup [ESetup] None => is3 a e b PReady PNew None
  | BRun PSetup [] (Some ESetup) => is3 a e b PReady PReady (Some ESetup)
  | BRun PStep [AStep] None => is3 a e b PReady PReady None
  | BRun PStep [] (Some AStep) => is3 a e b PReady PReady (Some AStep)
  | BRun PHookP [AHookP; EHookP] None => is3 a e b PReady PReady None
  | BRun PHookP [EHookP] (Some AHookP) => is3 a e b PPaused PReady (Some AHookP)
  | BRun PHookP [EHookP] None => is3 a e b PPaused PReady None
  | BRun PHookP [] (Some EHookP) => is3 a e b PPaused PPaused (Some EHookP)
  | BRun PHookR [AHookR; EHookR] None => is3 a e b PPaused PPaused None
  | BRun PHookR [EHookR] (Some AHookR) => is3 a e b PReady PPaused (Some AHookR)
  | BRun PHookR [EHookR] None => is3 a e b PReady PPaused None
  | BRun PHookR [] (Some EHookR) => is3 a e b PReady PReady (Some EHookR)
  | BRun PTeardown [ATeardown; ETeardown] None => live a && live e && none b
  | BRun PTeardown [ETeardown] (Some ATeardown) => pst_eqb a PTorn && live e && busy_is b ATeardown
  | BRun PTeardown [ETeardown] None => pst_eqb a PTorn && live e && none b
  | BRun PTeardown [] (Some ETeardown) => pst_eqb a PTorn && pst_eqb e PTorn && busy_is b ETeardown
  | BRun _ _ _ => false
  | BGuard | BAct | BSleep => is3 a e b PReady PReady None
  | BSetFlag | BChk | BWaitCall | BWaiting _ | BClr | BRechk | BReSet | BClr2 => is3 a e b PPaused PPaused None
  | BSetExc => live a && live e && none b
  | BExit | BDone => pst_eqb a PTorn && none b          (* the agent's teardown has begun, always *)
  | BTickTrain => false
  end.

(* the training thread: the trainers (no setup, no teardown), the callback in progress *)
Definition rdy (t : pst) : bool := match t with PNew | PReady => true | _ => false end.
Definition rel1 (p : bpc) (t : pst) (b : option cbn) : bool :=
  match p with
  | BNotStarted => pst_eqb t PNew && none b
  | BGuard | BAct | BTickTrain | BSleep => rdy t && none b
  | BRun PStep [] (Some TTrain) => pst_eqb t PReady && busy_is b TTrain
  | BRun PHookP [THookP] None => rdy t && none b
  | BRun PHookP [] (Some THookP) => pst_eqb t PPaused && busy_is b THookP
  | BRun PHookR [THookR] None => pst_eqb t PPaused && none b
  | BRun PHookR [] (Some THookR) => pst_eqb t PReady && busy_is b THookR
  | BRun _ _ _ => false
  | BSetFlag | BChk | BWaitCall | BWaiting _ | BClr | BRechk | BReSet | BClr2 => pst_eqb t PPaused && none b
  | BSetExc | BExit | BDone => none b
  end.

Definition R9 (s : st) (m : c09st) : Prop :=
  rel0 (bp s 0) (ag m) (en m) (busy0 m) = true /\ rel1 (bp s 1) (tr_ m) (busy1 m) = true.

Definition torn (p : pst) : nat := match p with PTorn => 1 | _ => 0 end.
Definition begins (c : cbn) (l : label) : nat := match l with LCbB c' => if cbn_eqb c c' then 1 else 0 | _ => 0 end.

Ltac crush_rel H :=
  repeat match type of H with
         | context [match ?x with _ => _ end] => is_var x; destruct x; cbn in H; try discriminate H
         end.

(* a step of the inference thread *)
Lemma bg0_sim s l s' a e t b0 b1 :
  bg_step s 0 l = Some s' -> rel0 (bp s 0) a e b0 = true ->
  exists a' e' b0',
    c09_step {| ag := a; en := e; tr_ := t; busy0 := b0; busy1 := b1 |} (TBg 0, l)
      = Some {| ag := a'; en := e'; tr_ := t; busy0 := b0'; busy1 := b1 |} /\
    rel0 (bp s' 0) a' e' b0' = true /\
    torn a' = torn a + begins ATeardown l /\ torn e' = torn e + begins ETeardown l.
Proof.
  intros H Hr. unfold Threads.bg_step in H.
  destruct (bp s 0) eqn:Hp; unfold rel0, is3, live, none, busy_is, pst_eqb in Hr; cbn in Hr; try discriminate Hr; crush_rel Hr;
    destruct l; try discriminate H; cbn in H;
    repeat match type of H with
           | context [match ?x with _ => _ end] => is_var x; destruct x; cbn in H; try discriminate H
           | context [match ?x with _ => _ end] => destruct x eqn:?; cbn in H; try discriminate H
           end;
    inversion H; subst; clear H;
    unfold c09_step, fault, set_bp, set_pf, set_ex, enter, after_phase; cbn;
    rewrite ?Hp; cbn;
    do 3 eexists; (split; [reflexivity|]); cbn; rewrite ?Nat.add_0_r; repeat split; reflexivity.
Qed.


(* a step of the training thread *)
Lemma bg1_sim s l s' a e t b0 b1 :
  bg_step s 1 l = Some s' -> rel1 (bp s 1) t b1 = true ->
  exists t' b1',
    c09_step {| ag := a; en := e; tr_ := t; busy0 := b0; busy1 := b1 |} (TBg 1, l)
      = Some {| ag := a; en := e; tr_ := t'; busy0 := b0; busy1 := b1' |} /\
    rel1 (bp s' 1) t' b1' = true /\ begins ATeardown l = 0 /\ begins ETeardown l = 0.
Proof.
  intros H Hr. unfold Threads.bg_step in H.
  destruct (bp s 1) eqn:Hp; unfold rel1, rdy, none, busy_is, pst_eqb in Hr; cbn in Hr; try discriminate Hr; crush_rel Hr;
    destruct l; try discriminate H; cbn in H;
    repeat match type of H with
           | context [match ?x with _ => _ end] => is_var x; destruct x; cbn in H; try discriminate H
           | context [match ?x with _ => _ end] => destruct x eqn:?; cbn in H; try discriminate H
           end;
    inversion H; subst; clear H;
    unfold c09_step, fault, set_bp, set_pf, set_ex, enter, after_phase; cbn;
    rewrite ?Hp; cbn;
    do 2 eexists; (split; [reflexivity|]); cbn; repeat split; reflexivity.
Qed.

(* the other threads never run a callback, and touch the positions of the background threads only by
   starting them (from "not started") and by notifying a waiter *)
Definition same_pos (p p' : bpc) : Prop :=
  p' = p \/ (exists b, p = BWaiting b /\ p' = BWaiting true).

Lemma rel0_same p p' a e b : same_pos p p' -> rel0 p a e b = true -> rel0 p' a e b = true.
Proof. intros [->|(nt & -> & ->)]; auto. Qed.
Lemma rel1_same p p' t b : same_pos p p' -> rel1 p t b = true -> rel1 p' t b = true.
Proof. intros [->|(nt & -> & ->)]; auto. Qed.

Definition is_cb (l : label) : bool := match l with LCbB _ | LCbE _ | LCbRaise _ => true | _ => false end.

Lemma notify_same f j : same_pos (f j) (notify_bg f j).
Proof. unfold notify_bg, same_pos. destruct (f j); eauto. Qed.

Lemma ctl_sim s l s' : Inv s -> ctl_step s l = Some s' ->
  is_cb l = false /\
  forall j, same_pos (bp s j) (bp s' j) \/ (bp s j = BNotStarted /\ bp s' j = enter kind2 j PSetup).
Proof.
  intros HI H. destruct HI as (_ & _ & _ & _ & _ & C). unfold CI in C.
  unfold Threads.ctl_step in H.
  destruct (cp s) eqn:Hc; destruct l; try discriminate;
    repeat match type of H with
           | context [match ?x with _ => _ end] => destruct x eqn:?; try discriminate
           end;
    inversion H; subst; clear H; (split; [reflexivity|]); intros jj;
    unfold exc_goto, ctl, set_cp, set_res, set_misc, set_pp, set_bp; cbn [bp];
    try (left; left; reflexivity); try (left; apply notify_same).
  (* CStart k: thread k leaves "not started" *)
  all: destruct C as (_ & _ & NS); unfold upd; destruct (Nat.eqb_spec jj k);
    [subst; right; split; [apply NS; lia|reflexivity]|left; left; reflexivity].
Qed.

Lemma other_sim s t l s' : step s t l = Some s' -> (forall i, t <> TBg i) -> t <> TCtl ->
  is_cb l = false /\ bp s' = bp s.
Proof.
  intros H N1 N2. unfold Threads.step in H. destruct t as [|i|j| |]; try congruence; try (exfalso; eapply N1; reflexivity).
  - destruct (j <? 2); [|discriminate]. unfold pool_step in H.
    destruct (pp s j); destruct l; try discriminate;
      repeat match type of H with context [match ?x with _ => _ end] => destruct x eqn:?; try discriminate end;
      inversion H; subst; split; reflexivity.
  - unfold client_step in H. destruct (client_done s); [discriminate|].
    destruct l; try discriminate;
      repeat match type of H with context [if ?x then _ else _] => destruct x eqn:?; try discriminate end;
      inversion H; subst; split; reflexivity.
  - unfold web_step in H. destruct (web s) as [|[|w]]; try discriminate. destruct l; try discriminate.
    destruct raised; [discriminate|]. inversion H; subst; split; reflexivity.
Qed.

Lemma c09_step_nocb m t l : (forall i, t <> TBg i) -> is_cb l = false -> c09_step m (t, l) = Some m.
Proof. intros N H. unfold c09_step; cbn [fst snd]. destruct t; try (exfalso; eapply N; reflexivity); destruct l; try discriminate; reflexivity. Qed.

(* one step of the simulation *)
Lemma sim_step s t l s' m : Inv s -> R9 s m -> step s t l = Some s' ->
  exists m', c09_step m (t, l) = Some m' /\ R9 s' m' /\
    torn (ag m') = torn (ag m) + begins ATeardown l /\ torn (en m') = torn (en m) + begins ETeardown l.
Proof.
  intros HI [R0 R1] H. destruct m as [a e t0 b0 b1]. cbn [ag en tr_ busy0 busy1] in *.
  destruct t as [|i|j| |].
  - (* the control thread *)
    unfold Threads.step in H. destruct (ctl_sim _ _ _ HI H) as (Hcb & Hbp).
    exists {| ag := a; en := e; tr_ := t0; busy0 := b0; busy1 := b1 |}.
    split; [apply c09_step_nocb; [discriminate|exact Hcb]|].
    assert (B0 : begins ATeardown l = 0 /\ begins ETeardown l = 0) by (destruct l; try discriminate; split; reflexivity).
    destruct B0 as [-> ->]. rewrite !Nat.add_0_r. split; [|split; reflexivity].
    split; cbn [ag en tr_ busy0 busy1].
    + destruct (Hbp 0) as [S|(E1 & E2)]; [eapply rel0_same; eassumption|].
      rewrite E1 in R0. rewrite E2. exact R0.
    + destruct (Hbp 1) as [S|(E1 & E2)]; [eapply rel1_same; eassumption|].
      rewrite E1 in R1. rewrite E2. cbn. cbn in R1. unfold pst_eqb in R1. destruct t0; try discriminate. exact R1.
  - unfold Threads.step in H. destruct (i <? 2) eqn:Hi; [|discriminate]. apply Nat.ltb_lt in Hi.
    destruct (bg_frame kind2 _ _ _ _ H) as (_ & _ & _ & _ & _ & _ & Fr).
    destruct i as [|[|i]]; [| |lia].
    + destruct (bg0_sim _ _ _ a e t0 b0 b1 H R0) as (a' & e' & b0' & Hs & Hr & Ta & Te).
      eexists; split; [exact Hs|]. split; [|split; assumption].
      split; cbn [ag en tr_ busy0 busy1]; [exact Hr|]. destruct (Fr 1) as (-> & _); [discriminate|exact R1].
    + destruct (bg1_sim _ _ _ a e t0 b0 b1 H R1) as (t' & b1' & Hs & Hr & Ba & Be).
      eexists; split; [exact Hs|]. rewrite Ba, Be, !Nat.add_0_r. split; [|split; reflexivity].
      split; cbn [ag en tr_ busy0 busy1]; [|exact Hr]. destruct (Fr 0) as (-> & _); [discriminate|exact R0].
  - destruct (other_sim _ _ _ _ H) as (Hcb & Hbp); try discriminate.
    exists {| ag := a; en := e; tr_ := t0; busy0 := b0; busy1 := b1 |}.
    split; [apply c09_step_nocb; [discriminate|exact Hcb]|].
    assert (B0 : begins ATeardown l = 0 /\ begins ETeardown l = 0) by (destruct l; try discriminate; split; reflexivity).
    destruct B0 as [-> ->]. rewrite !Nat.add_0_r. split; [|split; reflexivity]. split; cbn [ag en tr_ busy0 busy1]; rewrite Hbp; assumption.
  - destruct (other_sim _ _ _ _ H) as (Hcb & Hbp); try discriminate.
    exists {| ag := a; en := e; tr_ := t0; busy0 := b0; busy1 := b1 |}.
    split; [apply c09_step_nocb; [discriminate|exact Hcb]|].
    assert (B0 : begins ATeardown l = 0 /\ begins ETeardown l = 0) by (destruct l; try discriminate; split; reflexivity).
    destruct B0 as [-> ->]. rewrite !Nat.add_0_r. split; [|split; reflexivity]. split; cbn [ag en tr_ busy0 busy1]; rewrite Hbp; assumption.
  - destruct (other_sim _ _ _ _ H) as (Hcb & Hbp); try discriminate.
    exists {| ag := a; en := e; tr_ := t0; busy0 := b0; busy1 := b1 |}.
    split; [apply c09_step_nocb; [discriminate|exact Hcb]|].
    assert (B0 : begins ATeardown l = 0 /\ begins ETeardown l = 0) by (destruct l; try discriminate; split; reflexivity).
    destruct B0 as [-> ->]. rewrite !Nat.add_0_r. split; [|split; reflexivity]. split; cbn [ag en tr_ busy0 busy1]; rewrite Hbp; assumption.
Qed.

Lemma count_cbb_cons c t l r : count_cbb c ((t, l) :: r) = begins c l + count_cbb c r.
Proof. cbn [count_cbb]. destruct l; reflexivity. Qed.

Lemma c09_from : forall tr s s' m, Inv s -> R9 s m -> run s tr = Some s' ->
  c09_mon m tr = true /\
  exists m', R9 s' m' /\ torn (ag m') = torn (ag m) + count_cbb ATeardown tr /\ torn (en m') = torn (en m) + count_cbb ETeardown tr.
Proof.
  induction tr as [|[t l] tr IH]; intros s s' m HI HR H.
  - inversion H; subst. split; [reflexivity|]. exists m. cbn [count_cbb]. rewrite !Nat.add_0_r. auto.
  - cbn [Threads.run] in H. destruct (step s t l) as [s1|] eqn:E; [|discriminate].
    pose proof (inv_step _ _ _ _ _ _ _ _ _ HI E) as HI1.
    destruct (sim_step _ _ _ _ _ HI HR E) as (m1 & Hs & HR1 & Ta & Te).
    destruct (IH s1 s' m1 HI1 HR1 H) as (Hm & m' & HR' & Ta' & Te').
    rewrite c09_mon_step, Hs. split; [exact Hm|].
    exists m'. rewrite !count_cbb_cons. split; [exact HR'|]. lia.
Qed.

Definition m0 : c09st := {| ag := PNew; en := PNew; tr_ := PNew; busy0 := None; busy1 := None |}.

Lemma R9_init : R9 init m0.
Proof. split; reflexivity. Qed.

(* once the main thread has exited, the control thread is at its last position, where everything is joined *)
Lemma cp_other s t l s' : step s t l = Some s' -> t <> TCtl -> cp s' = cp s.
Proof.
  intros H N. destruct t as [|i|j| |]; [congruence| | | |].
  - unfold Threads.step in H. destruct (i <? 2); [|discriminate]. destruct (bg_frame kind2 _ _ _ _ H) as (_ & _ & _ & Ec & _). exact Ec.
  - destruct (other_sim _ _ _ _ H) as (_ & _); try discriminate.
    unfold Threads.step in H. destruct (j <? 2); [|discriminate]. unfold pool_step in H.
    destruct (pp s j); destruct l; try discriminate;
      repeat match type of H with context [match ?x with _ => _ end] => destruct x eqn:?; try discriminate end;
      inversion H; subst; reflexivity.
  - unfold Threads.step, client_step in H. destruct (client_done s); [discriminate|].
    destruct l; try discriminate;
      repeat match type of H with context [if ?x then _ else _] => destruct x eqn:?; try discriminate end;
      inversion H; subst; reflexivity.
  - unfold Threads.step, web_step in H. destruct (web s) as [|[|w]]; try discriminate. destruct l; try discriminate.
    destruct raised; [discriminate|]. inversion H; subst; reflexivity.
Qed.

Lemma main_done_stays : forall tr s s', cp s = CMainDone -> run s tr = Some s' -> cp s' = CMainDone.
Proof.
  induction tr as [|[t l] tr IH]; intros s s' Hc H; [inversion H; subst; exact Hc|].
  cbn [Threads.run] in H. destruct (step s t l) as [s1|] eqn:E; [|discriminate].
  apply (IH s1 s'); [|exact H].
  destruct t; try (rewrite (cp_other _ _ _ _ E); [exact Hc|discriminate]).
  unfold Threads.step, Threads.ctl_step in E. rewrite Hc in E. destruct l; discriminate.
Qed.

Lemma main_exited_end : forall tr s s', run s tr = Some s' -> main_exited tr = true -> cp s' = CMainDone.
Proof.
  induction tr as [|[t l] tr IH]; intros s s' H Hm; [discriminate|].
  cbn [Threads.run] in H. destruct (step s t l) as [s1|] eqn:E; [|discriminate].
  unfold main_exited in Hm. cbn [existsb] in Hm. apply orb_true_iff in Hm. destruct Hm as [Hm|Hm].
  - destruct t; try discriminate. destruct l; try discriminate.
    apply (main_done_stays tr s1 s'); [|exact H].
    unfold Threads.step, Threads.ctl_step in E. destruct (cp s); try discriminate. inversion E; subst. reflexivity.
  - apply (IH s1 s' H Hm).
Qed.

Theorem C09_monitor_holds tr s : run init tr = Some s -> C09_ok tr = true.
Proof. intros H. apply (c09_from tr init s m0 (inv_init 2) R9_init H). Qed.

(* teardown: the agent's at most once at any time and exactly once when launch() has returned; the
   environment's at most once *)
Theorem C09_teardown_counts tr s : run init tr = Some s ->
  count_cbb ATeardown tr <= 1 /\ count_cbb ETeardown tr <= 1 /\ (main_exited tr = true -> count_cbb ATeardown tr = 1).
Proof.
  intros H. destruct (c09_from tr init s m0 (inv_init 2) R9_init H) as (_ & m' & [R0 _] & Ta & Te).
  cbn in Ta, Te. repeat split.
  - rewrite <- Ta. destruct (ag m'); cbn; lia.
  - rewrite <- Te. destruct (en m'); cbn; lia.
  - intros Hm. pose proof (main_exited_end _ _ _ H Hm) as Hc.
    pose proof (inv2_reachable _ _ _ _ _ _ _ H) as (_ & (_ & _ & J3 & _)).
    rewrite Hc in J3. cbn in J3. rewrite (J3 0) in R0 by lia. cbn in R0.
    rewrite <- Ta. destruct (ag m'); cbn in *; try discriminate; reflexivity.
Qed.

Theorem C09_complete_holds tr s : run init tr = Some s -> C09_complete_ok tr = true.
Proof.
  intros H. destruct (C09_teardown_counts _ _ H) as (A & E & M). unfold C09_complete_ok.
  destruct (started0 tr); [|reflexivity]. destruct (main_exited tr) eqn:Hm; [|reflexivity]. cbn [andb].
  rewrite (M eq_refl). cbn. apply Nat.leb_le in E. exact E.
Qed.

End Proto.
