(* C17 on the thread model: commands accepted by the web API queue are taken once, in acceptance order, and
   none after a shutdown command has been taken. *)
From Coq Require Import List Bool Arith Lia.
From Pamiq Require Import Model.Threads Check.Sys Proofs.ThreadsInv Proofs.ThreadsInv2.
Import ListNotations.

Section Q.
Variable n : nat.
Variable kind : nat -> bkind.
Variable max_attempts : nat.
Variable qmax : nat.
Variable with_web : bool.

Notation step := (step n kind max_attempts qmax with_web).
Notation run := (run n kind max_attempts qmax with_web).
Notation ctl_step := (ctl_step n kind max_attempts with_web).
Notation bg_step := (bg_step kind).

(* the control thread is executing the shutdown command it took from the queue ... *)
Definition shutAD (c : cpc) : bool :=
  match c with
  | CShut0 KAfterDrain | CShut1 KAfterDrain | CShut2 KAfterDrain | CShut3 KAfterDrain | CShut4 KAfterDrain => true
  (* ... or, an interrupt having cut that short, the shutdown of its finally clause *)
  | CShut0 KFinally | CShut1 KFinally | CShut2 KFinally | CShut3 KFinally | CShut4 KFinally => true
  | _ => false
  end.

Definition is_get (l : label) : bool := match l with LQGet _ => true | _ => false end.

Lemma ctl_queue s l s' : ctl_step s l = Some s' ->
  match l with
  | LQGet c => exists q, queue s = c :: q /\ queue s' = q /\ cp s = CGet /\
                         (match c with CmdShutdown => shutAD (cp s') = true | _ => True end)
  | _ => queue s' = queue s
  end.
Proof.
  unfold Threads.ctl_step. intros H.
  destruct (cp s) eqn:Hc; destruct l; try discriminate;
    repeat match type of H with
           | context [match ?x with _ => _ end] => destruct x eqn:?; try discriminate
           end;
    inversion H; subst; clear H; unfold exc_goto, ctl, set_cp, set_res, set_misc, set_pp, set_bp; simpl; auto;
    eexists; repeat split; reflexivity.
Qed.

Lemma ctl_stop s l s' : ctl_step s l = Some s' -> is_get l = false ->
  (shutAD (cp s) = true \/ running s = false) -> (shutAD (cp s') = true \/ running s' = false).
Proof.
  unfold Threads.ctl_step. intros H Hg Hs.
  destruct (cp s) eqn:Hc; destruct l; try discriminate;
    repeat match type of H with
           | context [match ?x with _ => _ end] => destruct x eqn:?; try discriminate
           end;
    inversion H; subst; clear H; unfold exc_goto, ctl, set_cp, set_res, set_misc, set_pp, set_bp in *; simpl in *;
    destruct Hs as [Hs|Hs]; try discriminate; auto.
Qed.

Lemma get_only_at_cget s c s' : ctl_step s (LQGet c) = Some s' -> cp s = CGet.
Proof. intros H. destruct (ctl_queue _ _ _ H) as (q & _ & _ & E & _). exact E. Qed.

Lemma bg_no_q s i c ok : bg_step s i (LQPut c ok) = None /\ bg_step s i (LQGet c) = None.
Proof. unfold Threads.bg_step. destruct (bp s i) as [|ph r ins| | | | |nt| | | | | | | | | |]; auto; destruct r; destruct ins; auto. Qed.

Lemma c17_from : forall tr s s' stopped,
  Inv n s -> Inv2 n s -> (stopped = true -> shutAD (cp s) = true \/ running s = false) ->
  run s tr = Some s' -> c17_mon (queue s) stopped tr = true.
Proof.
  induction tr as [|[t l] tr IH]; intros s s' stopped HI HJ Hst H; [reflexivity|].
  simpl in H. destruct (step s t l) as [s1|] eqn:E; [|discriminate].
  pose proof (inv_step _ _ _ _ _ _ _ _ _ HI E) as HI1.
  pose proof (inv2_step _ _ _ _ _ _ _ _ _ HI HJ E) as HJ1.
  cbn [c17_mon]. unfold Threads.step in E.
  destruct t as [|i|j| |].
  - pose proof (ctl_queue _ _ _ E) as Q.
    destruct l; try (rewrite <- Q; apply (IH s1 s' stopped HI1 HJ1); [|exact H];
                     intros Hs; apply (ctl_stop _ _ _ E eq_refl); auto).
    { exfalso. unfold Threads.ctl_step in E. destruct (cp s); discriminate. }
    (* LQGet c *)
    destruct Q as (q & Eq & Eq' & Hc & Hsh). rewrite Eq.
    assert (Hns : stopped = false).
    { destruct stopped; [|reflexivity]. destruct (Hst eq_refl) as [Hx|Hx].
      - rewrite Hc in Hx. discriminate.
      - destruct HJ as (_ & _ & _ & _ & _ & _ & J7 & _). specialize (J7 Hx). rewrite Hc in J7. discriminate. }
    rewrite Hns. cbn [negb andb]. assert (Ec : cmd_eqb c c = true) by (destruct c; reflexivity). rewrite Ec. cbn [andb].
    rewrite <- Eq'. apply (IH s1 s' _ HI1 HJ1); [|exact H].
    destruct c; try (intros Hx; discriminate). intros _. left. exact Hsh.
  - destruct (i <? n); [|discriminate].
    assert (Eq : queue s1 = queue s /\ cp s1 = cp s /\ running s1 = running s).
    { apply bg_step_shape in E. destruct E; try destruct ph; unfold set_bp, set_pf, set_ex, fault; simpl; auto. }
    destruct Eq as (Eq & Ec & Er).
    assert (Hrec : c17_mon (queue s) stopped tr = true).
    { rewrite <- Eq. apply (IH s1 s' stopped HI1 HJ1); [|exact H]. rewrite Ec, Er. exact Hst. }
    destruct l; try exact Hrec; exfalso; [destruct (bg_no_q s i c ok) as [X _]|destruct (bg_no_q s i c true) as [_ X]]; congruence.
  - destruct (j <? n); [|discriminate].
    assert (Eq : queue s1 = queue s /\ cp s1 = cp s /\ running s1 = running s).
    { apply pool_cases in E. destruct E as [(_ & _ & ->)|[(_ & ->)|[(nt & b & _ & _ & ->)|(_ & ->)]]]; auto. }
    destruct Eq as (Eq & Ec & Er).
    assert (Hrec : c17_mon (queue s) stopped tr = true).
    { rewrite <- Eq. apply (IH s1 s' stopped HI1 HJ1); [|exact H]. rewrite Ec, Er. exact Hst. }
    destruct l; try exact Hrec; unfold pool_step in E; destruct (pp s j); discriminate.
  - (* the client: puts go to the back of the queue *)
    unfold client_step in E. destruct (client_done s); [discriminate|].
    destruct l; try discriminate;
      repeat match type of E with context [if ?x then _ else _] => destruct x eqn:?; try discriminate end;
      inversion E; subst; clear E;
      try (apply (IH _ s' stopped HI1 HJ1); [exact Hst|exact H]).
    all: try (match goal with |- c17_mon ?q _ _ = true =>
                change q with (queue (set_misc s (cp s) (clk s) (acked s) (saving s) (running s) (craised s) (shut s) q)) end;
              apply (IH _ s' stopped HI1 HJ1); [exact Hst|exact H]).
  - unfold web_step in E. destruct (web s) as [|[|w]]; try discriminate. destruct l; try discriminate.
    destruct raised; [discriminate|]. inversion E; subst; clear E.
    apply (IH _ s' stopped HI1 HJ1); [exact Hst|exact H].
Qed.

Theorem C17_monitor_holds tr s : run init tr = Some s -> C17_ok tr = true.
Proof.
  intros H. unfold C17_ok. change (@nil cmd) with (queue init).
  apply (c17_from tr init s false); [apply inv_init|apply inv2_init|discriminate|exact H].
Qed.

(* the status decision table says 'paused' exactly when not shutting down, the resume event is cleared and
   every thread's flag is set - for any number of threads *)
Theorem status_paused_iff sh rs flags :
  status_of sh rs flags = StPaused <-> sh = false /\ rs = false /\ forallb (fun b => b) flags = true.
Proof.
  unfold status_of. destruct sh, rs; simpl; try (split; [discriminate|intros (A & B & C); discriminate]).
  - destruct (existsb (fun b => b) flags); split; try discriminate; intros (A & B & C); discriminate.
  - destruct (forallb (fun b => b) flags); split; try discriminate; auto. intros (_ & _ & C); discriminate.
Qed.

End Q.
