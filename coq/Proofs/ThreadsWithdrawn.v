(* C02: a pause that was given up is withdrawn.  On every trace accepted by the thread model (with or without the web
   API, any number of threads, attempt limit and queue size), whenever a control tick begins the resume event is set or
   the pause has been acknowledged: a failed try_pause() ends with resume(), whichever attempt was the last one. *)
From Coq Require Import List Bool Arith Lia.
From Pamiq Require Import Model.Threads Check.Sys Proofs.ThreadsInv Proofs.ThreadsInv2.
Import ListNotations.

Section W.
Variable n : nat.
Variable kind : nat -> bkind.
Variable max_attempts : nat.
Variable qmax : nat.
Variable with_web : bool.

Notation step := (step n kind max_attempts qmax with_web).
Notation run := (run n kind max_attempts qmax with_web).
Notation ctl_step := (ctl_step n kind max_attempts with_web).

(* the monitor's two flags are the model's: the resume event and the ghost "acknowledged" *)
Lemma ctl_wd s l s' : ctl_step s l = Some s' ->
  res s' = wd_res TCtl l (res s) /\ acked s' = wd_ack TCtl l (acked s) /\ (wd_tick TCtl l = true -> cp s = CTickCond).
Proof.
  intros H. unfold Threads.ctl_step in H.
  destruct (cp s) eqn:Hc; destruct l; try discriminate;
    repeat match type of H with
           | context [match ?x with _ => _ end] => destruct x eqn:?; try discriminate
           end;
    inversion H; subst; clear H;
    unfold exc_goto, ctl, set_cp, set_res, set_misc, set_pp, set_bp, wd_res, wd_ack, wd_tick; cbn [res acked];
    repeat split; try reflexivity; intros X; try discriminate X; reflexivity.
Qed.

Lemma wd_from : forall tr s s', Inv n s -> Inv2 n s -> run s tr = Some s' -> c02_wd (res s) (acked s) tr = true.
Proof.
  induction tr as [|[t l] tr IH]; intros s s' HI HJ H; [reflexivity|].
  simpl in H. destruct (step s t l) as [s1|] eqn:E; [|discriminate].
  pose proof (inv_step _ _ _ _ _ _ _ _ _ HI E) as HI1.
  pose proof (inv2_step _ _ _ _ _ _ _ _ _ HI HJ E) as HJ1.
  cbn [c02_wd].
  assert (F : res s1 = wd_res t l (res s) /\ acked s1 = wd_ack t l (acked s) /\ (wd_tick t l = true -> cp s = CTickCond)).
  { unfold Threads.step in E. destruct t as [|i|j| |].
    - apply ctl_wd; exact E.
    - destruct (i <? n); [|discriminate]. apply bg_frame in E. destruct E as (Er & _ & _ & _ & Ea & _).
      cbn. repeat split; try assumption; intros X; discriminate X.
    - destruct (j <? n); [|discriminate].
      apply pool_cases in E. cbn.
      destruct E as [(_ & _ & ->)|[(_ & ->)|[(nt & b & _ & _ & ->)|(_ & ->)]]]; repeat split; try reflexivity; intros X; discriminate X.
    - unfold client_step in E. destruct (client_done s); [discriminate|].
      destruct l; try discriminate;
        repeat match type of E with (if ?x then _ else _) = _ => destruct x eqn:?; [|discriminate] end;
        inversion E; subst; clear E; cbn; repeat split; try reflexivity; intros X; discriminate X.
    - unfold web_step in E. destruct (web s) as [|[|w]]; try discriminate. destruct l; try discriminate.
      destruct raised; [discriminate|]. inversion E; subst; clear E. cbn. repeat split; try reflexivity; intros X; discriminate X. }
  destruct F as (Fr & Fa & Ft).
  rewrite <- Fr, <- Fa. rewrite (IH s1 s' HI1 HJ1 H). rewrite andb_true_r.
  destruct (wd_tick t l) eqn:T; [|reflexivity].
  specialize (Ft eq_refl).
  destruct HJ as (_ & J2 & _).
  destruct (res s) eqn:R; [reflexivity|].
  destruct (J2 eq_refl) as [A|A]; [rewrite A; reflexivity|]. rewrite Ft in A. discriminate A.
Qed.

Theorem C02_withdrawn_holds tr s : run init tr = Some s -> C02_withdrawn tr = true.
Proof. intros H. exact (wd_from tr init s (inv_init n) (inv2_init n) H). Qed.

End W.
