(* C19 on the model M7 (Model/TorchSync.v), for every accepted trace = every interleaving of single parameter
   reads and writes, every parameter / gradient content, any number of parameters. *)
From Coq Require Import ZArith List Bool Arith Lia.
From Pamiq Require Import Model.TorchSync Check.C19.
Import ListNotations.

Section Proofs.
Variable n : nat.

Notation step := (step n false).
Notation run := (run n false).
Notation istep := (istep n false).
Notation tstep := (tstep n).

Definition outside_hold (p : tph) : bool := match p with THold => false | _ => true end.

Definition Inv (s : st) : Prop :=
  (outside_hold (tp s) = true -> tref s <> iref s /\ lk s <> Some WTrain) /\
  (tp s = THold -> lk s = Some WTrain /\ tref s = iref s /\ exists b, stash s n = Some b /\ Z.to_nat b <> iref s /\ md s (Z.to_nat b) = false) /\
  ((forall m, isc s = IIn m -> lk s = Some WInf /\ m = iref s) /\ (forall ch, isc s = IWant ch -> ch = None)) /\
  (forall k, tp s = TStash k -> md s (tref s) = false) /\
  (forall k, tp s = TCopy k -> (forall i, i < k -> pv s (tref s) i = pv s (iref s) i) /\ md s (iref s) = false) /\
  (forall k, tp s = TRestore k -> (forall i, i < n -> pv s (tref s) i = pv s (iref s) i) /\
                                   (forall i, i < k -> gv s (tref s) i = stash s i) /\ md s (iref s) = false).

Lemma inv_init v0 : Inv (init v0).
Proof. unfold Inv, init; cbn. repeat split; intros; try discriminate; auto. Qed.

Lemma upd2_same {A} (f : nat -> nat -> A) m i x : upd2 f m i x m i = x.
Proof. unfold upd2. rewrite !Nat.eqb_refl. reflexivity. Qed.
Lemma upd2_other_mod {A} (f : nat -> nat -> A) m i x m' i' : m' <> m -> upd2 f m i x m' i' = f m' i'.
Proof. unfold upd2. intros H. destruct (Nat.eqb_spec m' m); [contradiction|reflexivity]. Qed.
Lemma upd2_other_idx {A} (f : nat -> nat -> A) m i x m' i' : i' <> i -> upd2 f m i x m' i' = f m' i'.
Proof. unfold upd2. intros H. destruct (Nat.eqb_spec i' i); [contradiction|]. rewrite andb_false_r. reflexivity. Qed.
Lemma upd1_same {A} (f : nat -> A) i x : upd1 f i x i = x.
Proof. unfold upd1. rewrite Nat.eqb_refl. reflexivity. Qed.
Lemma upd1_other {A} (f : nat -> A) i x j : j <> i -> upd1 f i x j = f j.
Proof. unfold upd1. intros H. destruct (Nat.eqb_spec j i); [contradiction|reflexivity]. Qed.

Ltac split_and H :=
  repeat match type of H with (_ && _) = true => let H1 := fresh H in apply andb_true_iff in H as [H H1] end.

(* a step of the inference thread *)
Lemma inv_set_i_same s x : Inv s -> (forall m, x <> IIn m) -> (forall ch, x = IWant ch -> ch = None) -> Inv (set_i s x (lk s)).
Proof.
  intros (A & B & C & D & E & F) Hx Hw. unfold Inv, set_i; cbn.
  split; [exact A|split; [exact B|split; [split; [intros m Hm; exfalso; eapply Hx; exact Hm|exact Hw]|split; [exact D|split; [exact E|exact F]]]]].
Qed.

Lemma inv_istep s l s' : Inv s -> istep s l = Some s' -> Inv s'.
Proof.
  intros HI H. pose proof HI as (A & B & (C & C') & D & E & F). unfold TorchSync.istep in H.
  destruct (isc s) eqn:Hi; destruct l; try discriminate; cbn [andb] in H.
  - (* section begins *) inversion H; subst; clear H. apply inv_set_i_same; [exact HI|discriminate|intros ch X; inversion X; reflexivity].
  - (* acquire *) destruct (lk s) eqn:Hl; [discriminate|]. inversion H; subst; clear H.
    unfold Inv, set_i; cbn. split; [|split; [|split]].
    + intros O. destruct (A O) as [A1 _]. split; [exact A1|discriminate].
    + intros T. destruct (B T) as (L & _). congruence.
    + rewrite (C' chosen eq_refl). split; [intros m Hm; inversion Hm; subst; split; reflexivity|intros; discriminate].
    + split; [exact D|split; [exact E|exact F]].
  - (* release *) inversion H; subst; clear H. destruct (C m eq_refl) as (L & _).
    unfold Inv, set_i; cbn. split; [|split; [|split]].
    + intros O. destruct (A O) as [A1 _]. split; [exact A1|discriminate].
    + intros T. destruct (B T) as (L2 & _). congruence.
    + split; intros; discriminate.
    + split; [exact D|split; [exact E|exact F]].
  - (* read *) match type of H with context [if ?c then _ else _] => destruct c; [|discriminate] end. inversion H; subst. exact HI.
  - (* the inference thread assigns a grad of the module it holds: that is the inference module, not the training one *)
    destruct (Nat.eqb m m0 && (i <? n)) eqn:G; [|discriminate]. inversion H; subst; clear H.
    apply andb_true_iff in G as [G _]. apply Nat.eqb_eq in G. subst m0.
    destruct (C m eq_refl) as (L & Em).
    unfold Inv; cbn [tp lk tref iref pv gv md isc stash]. split; [exact A|split; [exact B|split; [split; [exact C|exact C']|split; [exact D|split; [exact E|]]]]].
    intros k Hk. destruct (F k Hk) as (F1 & F2 & F3). split; [exact F1|split; [|exact F3]].
    intros j Hj. rewrite upd2_other_mod; [apply F2; exact Hj|].
    assert (O : outside_hold (tp s) = true) by (rewrite Hk; reflexivity). destruct (A O) as [Ne _]. congruence.
  - (* section ends *) inversion H; subst; clear H. apply inv_set_i_same; [exact HI|discriminate|discriminate].
Qed.

(* a step of the training thread *)
Lemma inv_tstep s l s' : Inv s -> tstep s l = Some s' -> Inv s'.
Proof.
  intros (A & B & CC & D & E & F) H. pose proof CC as (C & C'). unfold TorchSync.tstep in H.
  destruct (tp s) eqn:Ht; destruct l; try discriminate.
  - (* TFree, write *)
    destruct (Nat.eqb m (tref s) && (i <? n)) eqn:G; [|discriminate]. inversion H; subst; clear H.
    unfold Inv; cbn [tp lk tref iref pv gv md isc stash outside_hold]. repeat split; intros; try discriminate; try apply A; try reflexivity; try (eapply C; eassumption); try (eapply C'; eassumption); eauto.
  - (* TFree, eval *)
    destruct training; [discriminate|]. destruct (Nat.eqb m (tref s)) eqn:G; [|discriminate]. apply Nat.eqb_eq in G. subst m.
    inversion H; subst; clear H. unfold Inv; cbn [tp lk tref iref pv gv md isc stash outside_hold]. repeat split; intros; try discriminate; try apply A; try reflexivity; try (eapply C; eassumption); try (eapply C'; eassumption); eauto.
    apply upd1_same.
  - (* TFree, grad *)
    destruct (Nat.eqb m (tref s) && (i <? n)) eqn:G; [|discriminate]. inversion H; subst; clear H.
    unfold Inv; cbn [tp lk tref iref pv gv md isc stash outside_hold]. repeat split; intros; try discriminate; try apply A; try reflexivity; try (eapply C; eassumption); try (eapply C'; eassumption); eauto.
  - (* TStash, acquire *)
    destruct (Nat.eqb k n) eqn:G; [|discriminate]. destruct (lk s) eqn:Hl; [discriminate|]. inversion H; subst; clear H.
    destruct (A eq_refl) as [A1 A2].
    unfold Inv; cbn [tp lk tref iref pv gv md isc stash outside_hold]. split; [|split; [|split]].
    + intros; discriminate.
    + intros _. split; [reflexivity|split; [reflexivity|]]. exists (Z.of_nat (tref s)). rewrite upd1_same, Nat2Z.id.
      split; [reflexivity|split; [exact A1|apply (D k eq_refl)]].
    + split; [intros m Hm; destruct (C m Hm) as (L & _); congruence|exact C'].
    + repeat split; intros; discriminate.
  - (* TStash, clear one grad *)
    destruct g; [discriminate|]. destruct (Nat.eqb m (tref s) && Nat.eqb i k && (k <? n)) eqn:G; [|discriminate].
    inversion H; subst; clear H. unfold Inv; cbn [tp lk tref iref pv gv md isc stash outside_hold]. repeat split; intros; try discriminate; try apply A; try reflexivity; try (eapply C; eassumption); try (eapply C'; eassumption); eauto.
  - (* THold, release: the inference reference now is the old training module *)
    destruct (B eq_refl) as (L & TI & b & Sb & Nb & Mb). rewrite Sb in H. inversion H; subst; clear H.
    unfold Inv; cbn [tp lk tref iref pv gv md isc stash outside_hold]. split; [|split; [|split; [|split; [|split]]]].
    + intros _. split; [rewrite TI; auto|discriminate].
    + intros X. destruct (Nat.eqb n 0); discriminate.
    + split; [intros m Hm; destruct (C m Hm) as (L2 & _); congruence|exact C'].
    + intros k X. destruct (Nat.eqb n 0); discriminate.
    + intros k X. destruct (Nat.eqb n 0) eqn:N0; [discriminate|]. inversion X; subst. split; [intros i Hi; lia|exact Mb].
    + intros k X. destruct (Nat.eqb n 0) eqn:N0; [|discriminate]. apply Nat.eqb_eq in N0. inversion X; subst.
      split; [intros i Hi; lia|split; [intros i Hi; lia|exact Mb]].
  - (* TCopy, one parameter *)
    destruct (Nat.eqb m (tref s) && Nat.eqb i k && (k <? n) && Z.eqb v (pv s (iref s) k)) eqn:G; [|discriminate].
    split_and G. apply Nat.eqb_eq in G. apply Nat.eqb_eq in G2. apply Nat.ltb_lt in G1. apply Z.eqb_eq in G0. subst m i v.
    remember (Nat.eqb (S k) n) as e eqn:N1 in H. symmetry in N1.
    inversion H; subst s'; clear H. destruct (A eq_refl) as [A1 A2]. destruct (E k eq_refl) as [E1 E2].
    assert (P : forall i, i < S k -> upd2 (pv s) (tref s) k (pv s (iref s) k) (tref s) i = upd2 (pv s) (tref s) k (pv s (iref s) k) (iref s) i).
    { intros i Hi. rewrite (upd2_other_mod _ _ _ _ (iref s)) by auto.
      destruct (Nat.eq_dec i k) as [->|Ne]; [apply upd2_same|rewrite upd2_other_idx by exact Ne; apply E1; lia]. }
    unfold Inv; cbn [tp lk tref iref pv gv md isc stash outside_hold]. split; [|split; [|split; [|split; [|split]]]].
    + intros _. split; assumption.
    + intros X. destruct e; discriminate.
    + exact CC.
    + intros k' X. destruct e; discriminate.
    + intros k' X. destruct e; [discriminate|]. inversion X; subst. split; [exact P|exact E2].
    + intros k' X. destruct e; [|discriminate]. apply Nat.eqb_eq in N1. inversion X; subst.
      split; [intros i Hi; apply P; lia|split; [intros i Hi; lia|exact E2]].
  - (* TRestore, train() *)
    destruct training; [|discriminate]. destruct (Nat.eqb m (tref s) && Nat.eqb k n) eqn:G; [|discriminate].
    inversion H; subst; clear H. destruct (A eq_refl) as [A1 A2].
    unfold Inv; cbn [tp lk tref iref pv gv md isc stash outside_hold]. repeat split; intros; try discriminate; try (eapply C; eassumption); try (eapply C'; eassumption); auto.
  - (* TRestore, one grad *)
    destruct (Nat.eqb m (tref s) && Nat.eqb i k && (k <? n) && oz_eqb g (stash s k)) eqn:G; [|discriminate].
    split_and G. apply Nat.eqb_eq in G. apply Nat.eqb_eq in G2. subst m i.
    assert (Eg : g = stash s k) by (destruct g, (stash s k); cbn in G0; try discriminate; try reflexivity; apply Z.eqb_eq in G0; congruence).
    inversion H; subst; clear H. destruct (A eq_refl) as [A1 A2]. destruct (F k eq_refl) as (F1 & F2 & F3).
    unfold Inv; cbn [tp lk tref iref pv gv md isc stash outside_hold]. split; [|split; [|split; [|split; [|split]]]]; intros; try discriminate; auto.
    inversion H; subst. split; [exact F1|split; [|exact F3]].
    intros i Hi. destruct (Nat.eq_dec i k) as [->|Ne]; [apply upd2_same|rewrite upd2_other_idx by exact Ne; apply F2; lia].
Qed.

Lemma inv_step s w l s' : Inv s -> step s w l = Some s' -> Inv s'.
Proof. destruct w; [apply inv_istep|apply inv_tstep]. Qed.

Lemma inv_run : forall tr s s', Inv s -> run s tr = Some s' -> Inv s'.
Proof.
  induction tr as [|[w l] tr IH]; intros s s' HI H; [inversion H; subst; exact HI|].
  cbn [TorchSync.run] in H. destruct (step s w l) as [s1|] eqn:E; [|discriminate].
  apply (IH s1 s'); [eapply inv_step; eassumption|exact H].
Qed.

(* ---------- never a module the training thread is modifying ---------- *)
(* state form: whenever the inference thread holds the lock and reads module m, m is the inference reference,
   the training reference is another module, and every training write goes to the training reference *)
Theorem never_shared v0 tr s m : run (init v0) tr = Some s -> isc s = IIn m ->
  m = iref s /\ tref s <> iref s /\
  forall l s', tstep s l = Some s' -> match l with LWrite m' _ _ | LCopy m' _ _ => m' <> m | _ => True end.
Proof.
  intros H Hm. pose proof (inv_run _ _ _ (inv_init v0) H) as (A & B & (C & _) & _).
  destruct (C m Hm) as (L & ->).
  assert (O : outside_hold (tp s) = true).
  { destruct (tp s) eqn:T; try reflexivity. destruct (B eq_refl) as (L2 & _). congruence. }
  destruct (A O) as [A1 _]. split; [reflexivity|split; [exact A1|]].
  intros l s' Hs. unfold TorchSync.tstep in Hs. destruct (tp s) eqn:T; destruct l; try exact I; try discriminate.
  - destruct (Nat.eqb m (tref s) && (i <? n)) eqn:G; [|discriminate]. apply andb_true_iff in G as [G _]. apply Nat.eqb_eq in G. congruence.
  - destruct (Nat.eqb m (tref s) && Nat.eqb i k && (k <? n) && Z.eqb v (pv s (iref s) k)) eqn:G; [|discriminate].
    split_and G. apply Nat.eqb_eq in G. congruence.
Qed.

(* trace form: the monitor of Check/C19.v holds on every accepted trace *)
Definition G19 (s : st) (insec : bool) (rd : option nat) (ws : list nat) : Prop :=
  (insec = true <-> exists m, isc s = IIn m) /\
  (forall m, rd = Some m -> isc s = IIn m) /\
  (insec = true -> forall x, In x ws -> x <> iref s).

Lemma c19_from : forall tr s s' insec rd ws, Inv s -> G19 s insec rd ws -> run s tr = Some s' ->
  c19_mon insec rd ws tr = true.
Proof.
  induction tr as [|[w l] tr IH]; intros s s' insec rd ws HI (G1 & G2 & G3) H; [reflexivity|].
  cbn [TorchSync.run] in H. destruct (step s w l) as [s1|] eqn:E; [|discriminate].
  pose proof (inv_step _ _ _ _ HI E) as HI1.
  destruct HI as (A & B & (C & C') & _).
  destruct w; cbn [TorchSync.step] in E.
  - (* inference *)
    unfold TorchSync.istep in E. destruct (isc s) eqn:Hi; destruct l as [uw| | |rm ri rv| |wm wi wv|mm mt|gm gi gg|cm ci cv]; try discriminate; cbn [andb] in E; cbn [c19_mon].
    + inversion E; subst; clear E. apply (IH _ s' insec rd ws HI1); [|exact H].
      unfold G19, set_i; cbn. split; [|split].
      * split; [intros X; apply G1 in X; destruct X as (m & X); discriminate|intros (m & X); discriminate].
      * intros m X. apply G2 in X. discriminate.
      * intros X. apply G1 in X. destruct X as (m & X). discriminate.
    + destruct (lk s) eqn:Hl; [discriminate|]. inversion E; subst; clear E.
      apply (IH _ s' true None [] HI1); [|exact H]. unfold G19, set_i; cbn.
      split; [split; [intros _; eexists; reflexivity|reflexivity]|split; [intros; discriminate|intros _ x []]].
    + inversion E; subst; clear E. apply (IH _ s' false None [] HI1); [|exact H]. unfold G19, set_i; cbn.
      split; [split; [discriminate|intros (m' & X); discriminate]|split; [intros; discriminate|discriminate]].
    + destruct (Nat.eqb m rm && (ri <? n) && Z.eqb rv (pv s m ri)) eqn:Q; [|discriminate]. inversion E; subst; clear E.
      split_and Q. apply Nat.eqb_eq in Q. subst rm.
      assert (Hin : insec = true) by (apply G1; eexists; reflexivity).
      destruct (C m eq_refl) as (L & Em).
      assert (R1 : match rd with Some m' => Nat.eqb m m' | None => true end = true).
      { destruct rd as [m'|]; [|reflexivity]. specialize (G2 m' eq_refl). inversion G2. apply Nat.eqb_refl. }
      assert (R2 : existsb (Nat.eqb m) ws = false).
      { destruct (existsb (Nat.eqb m) ws) eqn:X; [|reflexivity]. apply existsb_exists in X as (x & Hx & Ex).
        apply Nat.eqb_eq in Ex. subst x. exfalso. apply (G3 Hin m Hx). exact Em. }
      rewrite Hin, R1, R2. cbn [andb negb].
      apply (IH _ s' true (Some m) ws HI1); [|exact H]. unfold G19. rewrite Hi.
      split; [split; [intros _; eexists; reflexivity|reflexivity]|split; [intros m' X; inversion X; reflexivity|intros _; apply G3; exact Hin]].
    + (* a grad assigned by the inference thread: no effect on who reads and writes what *)
      destruct (Nat.eqb m gm && (gi <? n)); [|discriminate]. inversion E; subst; clear E.
      eapply IH; [exact HI1| |exact H]. unfold G19; cbn [isc iref]. split; [exact G1|split; [exact G2|exact G3]].
    + inversion E; subst; clear E. apply (IH _ s' insec rd ws HI1); [|exact H].
      unfold G19, set_i; cbn. split; [|split].
      * split; [intros X; apply G1 in X; destruct X as (m & X); discriminate|intros (m & X); discriminate].
      * intros m X. apply G2 in X. discriminate.
      * intros X. apply G1 in X. destruct X as (m & X). discriminate.
  - (* training *)
    assert (Keep : forall s2, isc s2 = isc s -> iref s2 = iref s -> G19 s2 insec rd ws).
    { intros s2 E1 E2. unfold G19. rewrite E1, E2. auto. }
    unfold TorchSync.tstep in E. destruct (tp s) eqn:T; destruct l; try discriminate; cbn [c19_mon].
    + (* write of a training step *)
      destruct (Nat.eqb m (tref s) && (i <? n)) eqn:Q; [|discriminate]. inversion E; subst; clear E.
      apply andb_true_iff in Q as [Q _]. apply Nat.eqb_eq in Q. subst m.
      destruct (A eq_refl) as [A1 _].
      assert (R : (if insec then match rd with Some m' => negb (Nat.eqb (tref s) m') | None => true end else true) = true).
      { destruct insec; [|reflexivity]. destruct rd as [m'|]; [|reflexivity]. specialize (G2 m' eq_refl).
        destruct (C m' G2) as (_ & ->). apply negb_true_iff. apply Nat.eqb_neq. exact A1. }
      rewrite R. cbn [andb]. eapply IH; [exact HI1| |exact H].
      unfold G19; cbn. split; [exact G1|split; [exact G2|]].
      intros X x Hx. destruct insec; [|discriminate]. destruct Hx as [<-|Hx]; [exact A1|apply G3; auto].
    + destruct training; [discriminate|]. destruct (Nat.eqb m (tref s)); [|discriminate]. inversion E; subst; clear E.
      eapply IH; [exact HI1|apply Keep; reflexivity|exact H].
    + destruct (Nat.eqb m (tref s) && (i <? n)); [|discriminate]. inversion E; subst; clear E.
      eapply IH; [exact HI1|apply Keep; reflexivity|exact H].
    + destruct (Nat.eqb k n); [|discriminate]. destruct (lk s) eqn:Hl; [discriminate|]. inversion E; subst; clear E.
      eapply IH; [exact HI1|apply Keep; reflexivity|exact H].
    + destruct g; [discriminate|]. destruct (Nat.eqb m (tref s) && Nat.eqb i k && (k <? n)); [|discriminate]. inversion E; subst; clear E.
      eapply IH; [exact HI1|apply Keep; reflexivity|exact H].
    + (* release after the swap: the inference thread is not inside a section *)
      destruct (B eq_refl) as (L & _). destruct (stash s n) eqn:Sb; [|discriminate]. inversion E; subst; clear E.
      assert (Nin : insec = false).
      { destruct insec; [|reflexivity]. destruct (proj1 G1 eq_refl) as (m & Hm). destruct (C m Hm) as (L2 & _). congruence. }
      eapply IH; [exact HI1| |exact H]. subst insec. unfold G19; cbn.
      split; [exact G1|split; [exact G2|discriminate]].
    + (* copy of one parameter *)
      destruct (Nat.eqb m (tref s) && Nat.eqb i k && (k <? n) && Z.eqb v (pv s (iref s) k)) eqn:Q; [|discriminate].
      inversion E; subst; clear E. split_and Q. apply Nat.eqb_eq in Q. subst m.
      destruct (A eq_refl) as [A1 _].
      assert (R : (if insec then match rd with Some m' => negb (Nat.eqb (tref s) m') | None => true end else true) = true).
      { destruct insec; [|reflexivity]. destruct rd as [m'|]; [|reflexivity]. specialize (G2 m' eq_refl).
        destruct (C m' G2) as (_ & ->). apply negb_true_iff. apply Nat.eqb_neq. exact A1. }
      rewrite R. cbn [andb]. eapply IH; [exact HI1| |exact H].
      unfold G19; cbn. split; [exact G1|split; [exact G2|]].
      intros X x Hx. destruct insec; [|discriminate]. destruct Hx as [<-|Hx]; [exact A1|apply G3; auto].
    + destruct training; [|discriminate]. destruct (Nat.eqb m (tref s) && Nat.eqb k n); [|discriminate]. inversion E; subst; clear E.
      eapply IH; [exact HI1|apply Keep; reflexivity|exact H].
    + destruct (Nat.eqb m (tref s) && Nat.eqb i k && (k <? n) && oz_eqb g (stash s k)); [|discriminate]. inversion E; subst; clear E.
      eapply IH; [exact HI1|apply Keep; reflexivity|exact H].
Qed.

Theorem C19_monitor_holds v0 tr s : run (init v0) tr = Some s -> C19_ok tr = true.
Proof.
  intros H. apply (c19_from tr (init v0) s false None [] (inv_init v0)); [|exact H].
  unfold G19, init; cbn. split; [split; [discriminate|intros (m & X); discriminate]|split; [intros; discriminate|discriminate]].
Qed.

(* ---------- what a completed sync leaves ---------- *)
Theorem sync_effect v0 tr s m s' : run (init v0) tr = Some s -> tstep s (LMode m true) = Some s' ->
  (forall i, i < n -> pv s' (tref s') i = pv s' (iref s') i) /\      (* inference holds a complete copy; training equal values *)
  (forall i, i < n -> gv s' (tref s') i = stash s' i) /\             (* the grads that were stashed are back *)
  md s' (tref s') = true /\ md s' (iref s') = false /\               (* training mode restored; the inference module stays in eval *)
  tref s' <> iref s'.                                                (* two different module objects *)
Proof.
  intros H Hs. pose proof (inv_run _ _ _ (inv_init v0) H) as (A & B & C & D & E & F).
  unfold TorchSync.tstep in Hs. destruct (tp s) eqn:T; try discriminate.
  destruct (Nat.eqb m (tref s) && Nat.eqb k n) eqn:Q; [|discriminate]. inversion Hs; subst; clear Hs. cbn.
  apply andb_true_iff in Q as [Q1 Q2]. apply Nat.eqb_eq in Q1. apply Nat.eqb_eq in Q2. subst m k.
  destruct (F n eq_refl) as (F1 & F2 & F3). destruct (A eq_refl) as [A1 _].
  repeat split; auto.
  - apply upd1_same.
  - rewrite upd1_other by auto. exact F3.
Qed.

End Proofs.

(* ---------- the pinned unwrap() (D9) ---------- *)
(* unwrap() reads the module reference before taking the lock: a sync in between hands the inference thread the
   module that is now the training side's, and the copy of that sync writes it while it is being read *)
Definition d9_trace : trace :=
  [(WInf, LSecB true);
   (WTrain, LWrite 0 0 5%Z); (WTrain, LWrite 0 1 5%Z);
   (WTrain, LMode 0 false); (WTrain, LGrad 0 0 None); (WTrain, LGrad 0 1 None); (WTrain, LAcq); (WTrain, LRel);
   (WInf, LAcq); (WInf, LRead 1 0 0%Z);
   (WTrain, LCopy 1 0 5%Z);
   (WInf, LRead 1 1 0%Z); (WInf, LRel); (WInf, LSecE)].

Theorem pinned_unwrap_refuted :
  (exists s, run 2 true (init (fun _ => 0%Z)) d9_trace = Some s) /\ C19_ok d9_trace = false.
Proof. split; [eexists; vm_compute; reflexivity|vm_compute; reflexivity]. Qed.

(* ... and the same events are impossible once the reference is read under the lock *)
Example fixed_rejects_d9 : run 2 false (init (fun _ => 0%Z)) d9_trace = None.
Proof. vm_compute. reflexivity. Qed.
