From Coq Require Import ZArith List Bool Arith Lia.
From Pamiq Require Import Model.Buffers Model.DataPipe Model.Trainer Check.C13 Proofs.BuffersProofs Proofs.DataPipeProofs.
Import ListNotations.

Lemma tev_eqb_refl e : tev_eqb e e = true. Proof. destruct e; reflexivity. Qed.
Lemma tevs_eqb_refl l : tevs_eqb l l = true.
Proof. induction l as [|e l IH]; simpl; [reflexivity|]. now rewrite tev_eqb_refl, IH. Qed.
Lemma opt_nat_eqb_refl o : opt_nat_eqb o o = true.
Proof. destruct o; simpl; auto using Nat.eqb_refl. Qed.

Lemma map_lastn {A B} (f : A -> B) n l : map f (lastn n l) = lastn n (map f l).
Proof. unfold lastn. rewrite skipn_map, map_length. reflexivity. Qed.
Lemma map_lastn_opt {A B} (f : A -> B) q l : map f (lastn_opt q l) = lastn_opt q (map f l).
Proof. destruct q; simpl; [apply map_lastn|reflexivity]. Qed.
Lemma map_bapp {A B} (f : A -> B) q l x : map f (bapp q l x) = bapp q (map f l) (f x).
Proof. destruct q; simpl; [rewrite map_lastn|]; rewrite map_app; reflexivity. Qed.

Lemma succ_mod c n : (0 < n)%nat -> Nat.modulo (S (Nat.modulo c n)) n = Nat.modulo (S c) n.
Proof.
  intros Hn. replace (S (Nat.modulo c n)) with (Nat.modulo c n + 1)%nat by lia.
  replace (S c) with (c + 1)%nat by lia. apply Nat.add_mod_idemp_l. lia.
Qed.

Definition rel (q bc : option nat) (s : tsys) (pending delivered : list Z) (nd : nat) (trs0 : list trainer) (ticks : nat) : Prop :=
  qsz (pipe_ s) = q /\ map snd (cq (pipe_ s)) = lastn_opt q pending /\ tss (pipe_ s) = lastn_opt q delivered /\
  nadds s = nd /\ bcap s = bc /\ trs s = trs0 /\
  (trs0 <> [] -> cursor s = Nat.modulo ticks (length trs0)) /\ (trs0 = [] -> cursor s = 0).

Lemma nth_error_nil {A} n : nth_error (@nil A) n = None.
Proof. destruct n; reflexivity. Qed.

Lemma trun_spec incl q bc : forall ops s pending delivered nd trs0 ticks,
  rel q bc s pending delivered nd trs0 ticks ->
  tspec incl q bc pending delivered nd trs0 ticks ops (trun incl s ops) = true.
Proof.
  induction ops as [|o ops IH]; intros s pending delivered nd trs0 ticks Hrel; [reflexivity|].
  destruct Hrel as (Hq & Hc & Ht & Hn & Hb & Htr & Hcur & Hcur0).
  assert (Hnth : nth_error trs0 (cursor s) = nth_error trs0 (Nat.modulo ticks (length trs0))).
  { destruct trs0 as [|a l]; [now rewrite !nth_error_nil|]. rewrite Hcur by discriminate. reflexivity. }
  cbn [trun]. destruct o as [x t|t]; cbn [tstep tspec].
  - (* collect *)
    apply IH. unfold rel; cbn [pipe_ nadds bcap trs cursor pstep fst qsz cq tss].
    repeat split; try assumption. rewrite map_bapp, Hq, Hc. cbn [snd]. apply bapp_lastn.
  - (* tick *)
    rewrite Htr, <- Hnth. destruct (nth_error trs0 (cursor s)) as [tr|] eqn:Enth.
    + assert (Hne : trs0 <> []) by (intros ->; destruct (cursor s); discriminate).
      specialize (Hcur Hne). rewrite <- Hcur.
      assert (Hlen : (0 < length trs0)%nat) by (destruct trs0; [congruence|simpl; lia]).
      destruct (cond tr) as [[ms mn]|] eqn:Econd.
      * cbn [handover fst tss cq qsz pipe_ nadds bcap trs cursor].
        set (kept := lastn_opt q pending).
        assert (Hk : length (cq (pipe_ s)) = length kept).
        { unfold kept. rewrite <- Hc. now rewrite map_length. }
        assert (Htss : fold_left (bapp (qsz (pipe_ s))) (map snd (cq (pipe_ s))) (tss (pipe_ s)) = lastn_opt q (delivered ++ kept)).
        { rewrite Hq, Ht, Hc. apply fold_bapp. }
        rewrite Htss. unfold buf_len, count_new. cbn [bcap nadds]. rewrite Hb, Hn, Hk.
        set (due := Nat.leb ms (match bc with None => nd + length kept | Some c => Nat.min c (nd + length kept) end) &&
                    Nat.leb mn (length (take_while (newer incl (marker tr)) (rev (lastn_opt q (delivered ++ kept)))))).
        rewrite opt_nat_eqb_refl, tevs_eqb_refl, eqb_reflx. cbn [andb].
        apply IH. unfold rel; cbn [pipe_ nadds bcap trs cursor qsz cq tss].
        repeat split; try assumption; try reflexivity.
        -- symmetry. apply lastn_opt_nil.
        -- intros _. destruct due; [rewrite upd_nth_length|]; rewrite Hcur; apply succ_mod; assumption.
        -- intros He. exfalso. destruct due; [|congruence].
           apply (f_equal (@length trainer)) in He. rewrite upd_nth_length in He. simpl in He. lia.
      * rewrite opt_nat_eqb_refl, tevs_eqb_refl. cbn [andb].
        apply IH. unfold rel; cbn [pipe_ nadds bcap trs cursor].
        repeat split; try assumption; [intros _; rewrite Hcur; apply succ_mod; assumption | congruence].
    + (* no trainer under the cursor: there are no trainers at all *)
      assert (He : trs0 = []).
      { destruct trs0 as [|a l]; [reflexivity|]. exfalso.
        assert (Hlt : (cursor s < length (a :: l))%nat).
        { rewrite Hcur by discriminate. apply Nat.mod_upper_bound. simpl; lia. }
        apply nth_error_None in Enth. lia. }
      cbn [opt_nat_eqb negb tevs_eqb andb].
      apply IH. unfold rel. repeat split; try assumption. congruence.
Qed.

Theorem model_ok i : i_incl i = false -> prop_ok (i, model_outs i) = true.
Proof.
  intros Hincl. unfold prop_ok, model_outs. cbn [fst snd]. rewrite Hincl. apply trun_spec.
  unfold rel, tinit; cbn [pipe_ nadds bcap trs cursor pinit qsz cq tss map].
  repeat split; try (symmetry; apply lastn_opt_nil).
  intros Hne. symmetry. apply Nat.mod_0_l. destruct (map _ (i_conds i)); [congruence|discriminate].
Qed.

(* the round-robin order alone: the k-th tick offers trainer (k mod n), whatever happened before *)
Fixpoint offered_list (outs : list tout) : list (option nat) :=
  match outs with [] => [] | TTickOut o _ _ :: r => o :: offered_list r | _ :: r => offered_list r end.

Definition nv_input : input :=
  {| i_incl := false; i_q := Some 3; i_bcap := None; i_conds := [Some (2, 2); None; Some (0, 1)];
     i_ops := [TTick 1; TTick 2; TTick 3; TCollect 1 5; TCollect 2 6; TTick 7; TTick 8; TTick 9; TTick 10; TCollect 3 11; TTick 12; TTick 13; TTick 14] |}.
Lemma nv_run : map (fun y => match y with TTickOut o r _ => (o, r) | TNone => (None, false) end) (model_outs nv_input) =
  [(Some 0, false); (Some 1, true); (Some 2, false); (None, false); (None, false); (Some 0, true); (Some 1, true); (Some 2, true);
   (Some 0, false); (None, false); (Some 1, true); (Some 2, true); (Some 0, false)].
Proof. vm_compute. reflexivity. Qed.
