(* C08, uptime part, on the abstract clock of C06 (Model/Clock.v [spec], which the TimeController refines:
   Proofs/ClockProofs.v): over any history of reads, pauses, resumes, sleeps and passing real time - but no
   change of scale and no load - the system clock advances by exactly  scale * (real time spent un-paused).
   Hence  time.time() - start > U   <->   un-paused real time > U / scale. *)
From Coq Require Import QArith List Bool Lia Lqa.
From Pamiq Require Import Model.Clock.
Import ListNotations.
Open Scope Q_scope.

Definition keeps_scale (o : op) : bool := match o with SetScale _ | Load _ => false | _ => true end.

(* real time that passes during an operation while the clock is not paused *)
Definition real_unpaused (x : spec) (o : op) : Q :=
  match o with
  | Advance d => if sp x then 0 else d
  | Sleep d => if sp x then 0 else d / sk x
  | _ => 0
  end.

Fixpoint unpaused (x : spec) (ops : list op) : Q :=
  match ops with
  | [] => 0
  | o :: r => real_unpaused x o + unpaused (fst (sstep x o)) r
  end.

Definition sfinal (x : spec) (ops : list op) : spec := fold_left (fun y o => fst (sstep y o)) ops x.

Lemma step_keeps x o : keeps_scale o = true -> sk (fst (sstep x o)) == sk x.
Proof. destruct o; try discriminate; intros _; cbn; try reflexivity; destruct (sp x); reflexivity. Qed.

Lemma step_uptime x o : 0 < sk x -> keeps_scale o = true ->
  v (fst (sstep x o)) == v x + sk x * real_unpaused x o.
Proof.
  intros Hk Ho. destruct o; try discriminate; cbn; try ring.
  - destruct (sp x); cbn; [ring|]. field. intros E. rewrite E in Hk. apply (Qlt_irrefl 0). exact Hk.
  - destruct (sp x); cbn; ring.
Qed.

Theorem uptime_is_scaled_unpaused_time : forall ops x, 0 < sk x -> forallb keeps_scale ops = true ->
  v (sfinal x ops) == v x + sk x * unpaused x ops.
Proof.
  induction ops as [|o r IH]; intros x Hk Ho; [cbn; ring|].
  cbn [forallb] in Ho. apply andb_true_iff in Ho as [Ho Hr].
  cbn [sfinal fold_left unpaused]. fold (sfinal (fst (sstep x o)) r).
  assert (Hk' : 0 < sk (fst (sstep x o))) by (rewrite (step_keeps x o Ho); exact Hk).
  rewrite (IH _ Hk' Hr), (step_uptime x o Hk Ho), (step_keeps x o Ho). ring.
Qed.

(* the decision of the control thread *)
Corollary uptime_decision ops x U : 0 < sk x -> forallb keeps_scale ops = true ->
  (U < v (sfinal x ops) - v x <-> U / sk x < unpaused x ops).
Proof.
  intros Hk Ho. pose proof (uptime_is_scaled_unpaused_time ops x Hk Ho) as E.
  assert (Hn : ~ sk x == 0) by (intros Z; rewrite Z in Hk; apply (Qlt_irrefl 0); exact Hk).
  split; intros H.
  - apply Qlt_shift_div_r; [exact Hk|]. rewrite E in H.
    setoid_replace (unpaused x ops * sk x) with (sk x * unpaused x ops) by ring.
    set (p := sk x * unpaused x ops) in *. clearbody p. lra.
  - assert (H' : U < sk x * unpaused x ops).
    { setoid_replace U with ((U / sk x) * sk x) by (field; exact Hn).
      setoid_replace (sk x * unpaused x ops) with (unpaused x ops * sk x) by ring.
      apply Qmult_lt_compat_r; assumption. }
    rewrite E. set (p := sk x * unpaused x ops) in *. clearbody p. lra.
Qed.

Lemma unpaused_app : forall a x b, unpaused x (a ++ b) == unpaused x a + unpaused (sfinal x a) b.
Proof.
  induction a as [|o a IH]; intros x b; [cbn; ring|].
  cbn [app unpaused sfinal fold_left]. fold (sfinal (fst (sstep x o)) a). rewrite IH. ring.
Qed.

(* noticed at the first check after the crossing: if the limit was not exceeded at one check and is at the
   next, the un-paused run time exceeds U / scale by no more than the un-paused real time between the two *)
Corollary uptime_overshoot a b x U : 0 < sk x -> forallb keeps_scale (a ++ b) = true ->
  ~ (U < v (sfinal x a) - v x) -> U < v (sfinal x (a ++ b)) - v x ->
  U / sk x < unpaused x (a ++ b) /\ unpaused x (a ++ b) <= U / sk x + unpaused (sfinal x a) b.
Proof.
  intros Hk Ho Hn Hy. rewrite forallb_app in Ho. apply andb_true_iff in Ho as [Ha Hb].
  assert (Hab : forallb keeps_scale (a ++ b) = true) by (rewrite forallb_app, Ha, Hb; reflexivity).
  split; [apply (uptime_decision (a ++ b) x U Hk Hab); exact Hy|].
  rewrite unpaused_app.
  assert (Hle : unpaused x a <= U / sk x).
  { destruct (Qlt_le_dec (U / sk x) (unpaused x a)) as [L|L]; [|exact L].
    exfalso. apply Hn. apply (uptime_decision a x U Hk Ha). exact L. }
  lra.
Qed.

(* the premises are satisfiable: 3 s at scale 2 with one second paused in the middle is 4 s of uptime *)
Example uptime_example :
  let x := {| v := 100; sk := 2; sp := false |} in
  let ops := [Advance 1; Read; Pause; Advance 1; Resume; Advance 1; Read] in
  forallb keeps_scale ops = true /\ v (sfinal x ops) == 104 /\ unpaused x ops == 2.
Proof. cbn. repeat split; reflexivity. Qed.
