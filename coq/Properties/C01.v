(* C01 — an acknowledged pause means every background thread is quiescent.
   Only statements; proofs in Proofs/ThreadsInv.v and Proofs/ThreadsMon.v. *)
From Coq Require Import List Bool Arith.
From Pamiq Require Import Model.Threads Check.Sys Proofs.ThreadsInv Proofs.ThreadsMon Proofs.ThreadsExample.
Import ListNotations.

(* For ANY number n of background threads of any kinds, any attempt limit, any queue size, and
   EVERY trace the model accepts - i.e. every interleaving of the control, background, worker and
   client threads at the granularity of synchronisation operations and callback boundaries,
   every callback duration and outcome, every timeout firing, every number of retries, every
   sequence of pause / resume / save / shutdown commands: *)

(* in every reachable state in which a pause is acknowledged (from the successful return of the
   pause request until a resume or shutdown is issued) the clock is frozen, the resume event is
   cleared, and every background thread is in the quiescent region of the handshake: it is not
   inside a step, a training run or a hook, and cannot enter one *)
Theorem C01_quiescent : forall n kind max_attempts qmax with_web tr s,
  run n kind max_attempts qmax with_web init tr = Some s -> acked s = true ->
  clk s = true /\ res s = false /\ forall i, i < n -> Qb (bp s i) = true /\ executing (bp s i) = false.
Proof. exact acked_quiescent. Qed.
Print Assumptions C01_quiescent.

(* no accepted trace violates the monitor that is evaluated on the implementation's traces *)
Theorem C01_monitor_holds_on_model : forall n kind max_attempts qmax with_web tr s,
  run n kind max_attempts qmax with_web init tr = Some s -> C01_ok tr = true.
Proof. exact C01_monitor_holds. Qed.
Print Assumptions C01_monitor_holds_on_model.

(* the invariant behind both, for every reachable state *)
Theorem C01_invariant : forall n kind max_attempts qmax with_web tr s,
  run n kind max_attempts qmax with_web init tr = Some s -> Inv n s.
Proof. exact inv_reachable. Qed.
Print Assumptions C01_invariant.

(* non-vacuity: a trace recorded from the real system is accepted and contains two acknowledged pauses *)
Theorem C01_nonvacuous : accepted example_sys example_trace = true.
Proof. exact example_accepted. Qed.
