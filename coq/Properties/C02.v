(* C02 — shutdown always terminates cleanly; pause and resume make progress.
   Only statements; proofs in Proofs/ThreadsInv.v, Proofs/ThreadsInv2.v, Proofs/ThreadsMon.v, Proofs/ThreadsLive.v, Proofs/ThreadsInterrupt.v, Proofs/ThreadsWithdrawn.v. *)
From Coq Require Import List Bool Arith.
From Pamiq Require Import Model.Threads Check.Sys Proofs.ThreadsInv Proofs.ThreadsInv2 Proofs.ThreadsMon Proofs.ThreadsLive Proofs.ThreadsInterrupt Proofs.ThreadsWithdrawn.
Import ListNotations.

(* For any number of threads, any attempt limit, EVERY accepted trace (all command histories incl.
   shutdown while paused / racing a pause, an uptime limit, a keyboard interrupt, all interleavings): *)

(* once the shutdown event is set the resume event stays set, so nothing blocks any more *)
Theorem C02_shutdown_releases : forall n kind max_attempts qmax with_web tr s,
  run n kind max_attempts qmax with_web init tr = Some s -> shut s = true -> res s = true /\ running s = false.
Proof. exact shutdown_releases. Qed.
Print Assumptions C02_shutdown_releases.

(* when launch() is through its epilogue every background thread has exited, the system clock runs and no
   pause is acknowledged any more *)
Theorem C02_clean_end : forall n kind max_attempts qmax with_web tr s,
  run n kind max_attempts qmax with_web init tr = Some s -> cp s = CDone ->
  (forall i, i < n -> bp s i = BDone) /\ running s = false /\ clk s = false /\ acked s = false.
Proof. exact launch_done. Qed.
Print Assumptions C02_clean_end.

(* the final state is written only after every background thread has exited *)
Theorem C02_final_save_after_threads : forall n kind max_attempts qmax with_web tr s,
  run n kind max_attempts qmax with_web init tr = Some s ->
  (cp s = CFinSave0 \/ cp s = CFinSave1 \/ cp s = CDone) -> forall i, i < n -> bp s i = BDone.
Proof. exact final_save_after_threads. Qed.
Print Assumptions C02_final_save_after_threads.

(* no accepted trace violates the C02 monitor (only not-yet-joined threads act; everybody has been joined
   when the main thread exits) *)
Theorem C02_monitor_holds_on_model : forall n kind max_attempts qmax with_web tr s,
  run n kind max_attempts qmax with_web init tr = Some s -> c02_mon 0 0 tr = true.
Proof. exact C02_monitor_holds. Qed.
Print Assumptions C02_monitor_holds_on_model.

(* a background thread is never blocked without having acknowledged (first-attempt clause): in the
   blocked region its paused flag is set; and a worker only waits for a flag that is not set *)
Theorem C02_never_blocked_unacknowledged : forall n kind max_attempts qmax with_web tr s i,
  run n kind max_attempts qmax with_web init tr = Some s -> blockpc (bp s i) = true -> pf s i = true.
Proof. exact blocked_means_acknowledged. Qed.
Print Assumptions C02_never_blocked_unacknowledged.

(* no deadlock, progress: a live background thread always has an enabled operation of its own that is not a
   timeout, unless it waits for a resume that has not been issued (and then the timed wait still returns) *)
Theorem C02_bg_progress : forall n kind max_attempts qmax with_web tr s i,
  run n kind max_attempts qmax with_web init tr = Some s -> i < n ->
  bp s i <> BNotStarted -> bp s i <> BDone ->
  (exists l, bg_step kind s i l <> None /\ l <> LWaitRet ERes false) \/ (bp s i = BWaiting false /\ res s = false).
Proof. exact bg_progress. Qed.
Print Assumptions C02_bg_progress.

(* a resume restarts every paused thread: setting the resume event notifies every waiter, and a notified
   or re-checking thread proceeds by its own steps *)
Theorem C02_resume_restarts : forall n kind max_attempts qmax with_web tr s i,
  run n kind max_attempts qmax with_web init tr = Some s -> bp s i = BWaiting false -> res s = false.
Proof. exact waiting_unnotified_means_paused. Qed.
Print Assumptions C02_resume_restarts.

(* after the shutdown every own step of a background thread brings it strictly closer to its exit: it
   terminates within [dist] own operations (callbacks are assumed to return) *)
Theorem C02_shutdown_terminates : forall n kind max_attempts qmax with_web tr s i l s',
  run n kind max_attempts qmax with_web init tr = Some s -> shut s = true ->
  bg_step kind s i l = Some s' -> l <> LSleep \/ executing (bp s i) = false ->
  dist kind i (bp s' i) < dist kind i (bp s i).
Proof. exact shutdown_decreases. Qed.
Print Assumptions C02_shutdown_terminates.

(* ... and so does the control thread: once a shutdown has lowered the loop flag, every own operation of the control
   thread (the rest of the tick, the finally-shutdown, each join - enabled as soon as that thread has exited -, the
   final save, the return of launch()) brings it strictly closer to its end; only the marks that components emit
   while the final state is written do not count.  With C02_shutdown_terminates this bounds the number of operations
   between the shutdown request and the return of launch() (user callbacks are assumed to return). *)
Theorem C02_control_thread_winds_down : forall n kind max_attempts qmax with_web tr s l s',
  run n kind max_attempts qmax with_web init tr = Some s -> running s = false ->
  ctl_step n kind max_attempts with_web s l = Some s' -> l <> LOther ->
  cdist n (cp s') < cdist n (cp s).
Proof. exact control_thread_winds_down. Qed.
Print Assumptions C02_control_thread_winds_down.

(* Keyboard interrupts: the model accepts one before every operation of the control tick except inside the
   worker-pool section of try_pause and inside a state save (not during start-up, not inside the finally clause,
   not in the epilogue of launch()), ... *)
Theorem C02_interrupt_accepted_iff : forall n kind max_attempts with_web s,
  (exists s', ctl_step n kind max_attempts with_web s LInterrupt = Some s') <-> interruptible (cp s) = true.
Proof. exact interrupt_accepted_iff. Qed.
Print Assumptions C02_interrupt_accepted_iff.

(* ... and there it leaves the tick for the finally clause, whose shutdown starts from the beginning - also when
   the interrupt cut a shutdown short - with everything else as it was.  From that position the theorems above
   apply: the shutdown goes through (C02_control_thread_winds_down), releases everybody (C02_shutdown_releases)
   and launch() ends cleanly (C02_clean_end, C02_shutdown_terminates). *)
Theorem C02_interrupt_enters_finally : forall n kind max_attempts with_web s s',
  ctl_step n kind max_attempts with_web s LInterrupt = Some s' ->
  cp s' = CShut0 KFinally /\ saving s' = false /\
  res s' = res s /\ shut s' = shut s /\ queue s' = queue s /\ acked s' = acked s /\ clk s' = clk s /\
  running s' = running s /\ craised s' = craised s /\ bp s' = bp s /\ pf s' = pf s /\ ex s' = ex s.
Proof. exact interrupt_enters_finally. Qed.
Print Assumptions C02_interrupt_enters_finally.

(* "Pause and resume make progress": a pause that was given up is withdrawn.  On every accepted trace, whenever a
   control tick begins the resume event is set or the pause has been acknowledged (the clock is paused): a try_pause()
   that fails ends with resume(), whichever attempt was the last one, so no thread is left waiting for a resume on
   behalf of a request the control thread has abandoned. *)
Theorem C02_abandoned_pause_is_withdrawn : forall n kind max_attempts qmax with_web tr s,
  run n kind max_attempts qmax with_web init tr = Some s -> C02_withdrawn tr = true.
Proof. exact C02_withdrawn_holds. Qed.
Print Assumptions C02_abandoned_pause_is_withdrawn.
