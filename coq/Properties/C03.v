(* C03 — a failure in any thread stops the whole system instead of hanging it.
   Only statements; proofs in Proofs/ThreadsFault.v, Proofs/ThreadsProto.v, Proofs/ThreadsInv2.v, Proofs/ThreadsLive.v. *)
From Coq Require Import List Bool Arith.
From Pamiq Require Import Model.Threads Check.Sys Proofs.ThreadsInv Proofs.ThreadsInv2 Proofs.ThreadsLive Proofs.ThreadsProto Proofs.ThreadsFault Proofs.ThreadsFlag.
Import ListNotations.

(* For any number of threads and EVERY accepted trace (every failing callback and occurrence, in either
   thread, every command history and interleaving, incl. failures while a pause is negotiated or while paused):
   once a background thread has flagged a failure at most ONE more control tick begins (the flag is never
   cleared and every tick polls every flag) and the control thread sleeps its loop delay at most TWICE more; a failure of the control loop itself (save condition, state save)
   lets no further tick begin; and launch() raises exactly when the control loop or the final save failed. *)
Theorem C03_monitor_holds_on_model : forall n kind max_attempts qmax with_web tr s,
  run n kind max_attempts qmax with_web init tr = Some s -> C03_ok tr = true.
Proof. exact C03_monitor_holds. Qed.
Print Assumptions C03_monitor_holds_on_model.

(* a control-loop failure is never survived: the control thread is in its finally-shutdown or in the epilogue
   of launch(), which joins every background thread before re-raising (C02_monitor: everybody joined at exit) *)
Theorem C03_control_failure_leaves_loop : forall n kind max_attempts qmax with_web tr s,
  run n kind max_attempts qmax with_web init tr = Some s -> craised s = true -> fin_pc (cp s) = true.
Proof. exact control_failure_leaves_loop. Qed.
Print Assumptions C03_control_failure_leaves_loop.

(* after a flagged failure the number of ticks that can still begin is bounded by the potential of the control
   thread's position: 0 while the current tick still has the poll of that flag ahead, else 1 *)
Theorem C03_ticks_bounded_by_potential : forall n kind max_attempts qmax with_web tr s,
  run n kind max_attempts qmax with_web init tr = Some s -> flagged_from n (ex s) 0 = true ->
  forall tr' s', run n kind max_attempts qmax with_web s tr' = Some s' -> ticks_after_flag true tr' <= pot n s.
Proof. exact flagged_then_no_tick_after_poll. Qed.
Print Assumptions C03_ticks_bounded_by_potential.

(* the shutdown that follows releases everybody and is terminating (shared with C02) *)
Theorem C03_shutdown_releases : forall n kind max_attempts qmax with_web tr s,
  run n kind max_attempts qmax with_web init tr = Some s -> shut s = true -> res s = true /\ running s = false.
Proof. exact shutdown_releases. Qed.
Print Assumptions C03_shutdown_releases.

Theorem C03_shutdown_terminates : forall n kind max_attempts qmax with_web tr s i l s',
  run n kind max_attempts qmax with_web init tr = Some s -> shut s = true ->
  bg_step kind s i l = Some s' -> l <> LSleep \/ executing (bp s i) = false ->
  dist kind i (bp s' i) < dist kind i (bp s i).
Proof. exact shutdown_decreases. Qed.
Print Assumptions C03_shutdown_terminates.

(* the interaction's teardown still runs exactly once if its thread was started (real configuration) *)
Theorem C03_teardown_exactly_once : forall max_attempts qmax with_web tr s,
  run 2 kind2 max_attempts qmax with_web init tr = Some s ->
  count_cbb ATeardown tr <= 1 /\ count_cbb ETeardown tr <= 1 /\ (main_exited tr = true -> count_cbb ATeardown tr = 1).
Proof. exact C09_teardown_counts. Qed.
Print Assumptions C03_teardown_exactly_once.

(* at most two more loop delays of the control thread after a flagged failure *)
Theorem C03_at_most_two_more_delays_on_model : forall n kind max_attempts qmax with_web tr s,
  run n kind max_attempts qmax with_web init tr = Some s -> sleeps_after_flag false tr <= 2.
Proof. exact C03_at_most_two_more_delays. Qed.
Print Assumptions C03_at_most_two_more_delays_on_model.

(* the monitor is not vacuous *)
Example C03_rejects_carrying_on :
  C03_ok [(TBg 0, LSet (EExc 0)); (TCtl, LSaveCond false); (TCtl, LSaveCond false)] = false.
Proof. reflexivity. Qed.
Example C03_rejects_idling_with_a_dead_thread :
  C03_ok [(TBg 0, LSet (EExc 0)); (TCtl, LSleep); (TCtl, LSleep); (TCtl, LSleep)] = false.
Proof. reflexivity. Qed.
Example C03_rejects_swallowed_control_failure :
  C03_ok [(TCtl, LSaveCondRaise); (TCtl, LLaunchDone false)] = false.
Proof. reflexivity. Qed.

(* For any number of background threads of any kinds and on EVERY accepted trace: a background thread whose
   callback raised - setup, a step, a training run, a pause or resume hook; not its teardown, after which
   nothing more runs - sets its exception flag before it ends, whatever else fails on the way (a callback that
   keeps failing included).  Without the flag the control thread never learns of the dead thread and the
   system carries on without it. *)
Theorem C03_failure_is_flagged_on_model : forall n kind max_attempts qmax with_web tr s,
  run n kind max_attempts qmax with_web init tr = Some s -> C03_flagged tr = true.
Proof. exact C03_failure_is_flagged. Qed.
Print Assumptions C03_failure_is_flagged_on_model.
