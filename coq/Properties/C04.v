(* C04 — a state saved while running is one consistent snapshot.
   Only statements; proofs in Proofs/ThreadsInv2.v, Proofs/ThreadsMon.v, Proofs/DataPipeProofs.v, Proofs/ClockProofs.v. *)
From Coq Require Import List Bool Arith QArith.
From Pamiq Require Import Model.Threads Check.Sys Proofs.ThreadsInv Proofs.ThreadsInv2 Proofs.ThreadsMon.
From Pamiq Require Model.DataPipe Check.C07 Proofs.DataPipeProofs Model.Clock Proofs.ClockProofs.
Import ListNotations.
Local Close Scope Q_scope.

(* For any number of threads and EVERY accepted trace (every instant at which a save is triggered by a
   command or by the save condition, every interleaving, every preceding pause/resume history incl. a
   save while already paused): whenever a state is being written, either a pause is acknowledged - the
   clock is frozen and every background thread is in the quiescent region of the handshake - or launch()
   is in its epilogue and every background thread has exited. *)
Theorem C04_written_while_quiescent : forall n kind max_attempts qmax with_web tr s,
  run n kind max_attempts qmax with_web init tr = Some s -> saving s = true ->
  (acked s = true /\ clk s = true /\ forall i, i < n -> Qb (bp s i) = true) \/
  (forall i, i < n -> bp s i = BDone).
Proof. exact saving_quiescent. Qed.
Print Assumptions C04_written_while_quiescent.

(* no accepted trace violates the C04 monitor: saves only inside an acknowledged pause or after all joins,
   the clock and the threads are never released while a state is being written, and background threads
   perform handshake operations only meanwhile *)
Theorem C04_monitor_holds_on_model : forall n kind max_attempts qmax with_web tr s,
  run n kind max_attempts qmax with_web init tr = Some s -> C04_ok tr = true.
Proof. exact C04_monitor_holds. Qed.
Print Assumptions C04_monitor_holds_on_model.

(* nothing is left in transit: DataUser.save_state hands over before writing, and a hand-over delivers the
   whole collector queue (Model/DataPipe.v; for an unbounded queue: everything collected so far) *)
Theorem C04_nothing_in_transit : forall p,
  DataPipe.cq (fst (DataPipe.pstep p DataPipe.SaveState)) = [].
Proof. intros p. reflexivity. Qed.
Print Assumptions C04_nothing_in_transit.

(* the clock state exported while frozen is the value every later reading shows until the resume *)
Theorem C04_clock_frozen_export : forall x o, Clock.sp x = true ->
  match o with Clock.Resume | Clock.Load _ => True | _ => (Clock.v (fst (Clock.sstep x o)) == Clock.v x)%Q /\ Clock.sp (fst (Clock.sstep x o)) = true end.
Proof. exact ClockProofs.spec_still. Qed.
Print Assumptions C04_clock_frozen_export.
