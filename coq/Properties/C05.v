(* C05 — loading a saved state reproduces it exactly.
   Only statements; proofs in Proofs/RoundtripProofs.v and, for the parts shared with other properties,
   Proofs/ClockProofs.v (C06), Proofs/CompositeProofs.v (C12), Proofs/ModelsProofs.v (C14). *)
From Coq Require Import ZArith QArith List Bool Arith.
From Pamiq Require Import Model.Buffers Model.DataPipe Model.Roundtrip Check.C05 Proofs.RoundtripProofs.
From Pamiq Require Model.Clock Proofs.ClockProofs Model.Composite Proofs.CompositeProofs.
Import ListNotations.
Local Close Scope Q_scope.

(* Buffer contents and order, length and per-sample arrival counts: for every buffer kind, capacity, queue size,
   history of collects (ids with timestamps, also more than the capacity) and every probe timestamp, loading
   into a fresh buffer of the same configuration shows through get_data / len / count_data_added_since exactly
   what was there at the save. *)
Theorem C05_roundtrip_exact : forall c ids tss probes,
  u_cap2 c = u_cap1 c -> u_q2 c = u_q1 c -> after_load c ids tss probes = before_save c ids tss probes.
Proof. exact roundtrip_exact. Qed.
Print Assumptions C05_roundtrip_exact.

(* loading into a smaller buffer: newest samples of a sequential buffer, first ones of a random-replacement
   buffer, in order, never more than the capacity; arrival counts exact up to the queue size *)
Theorem C05_load_smaller_seq : forall c ids, u_kind c = KSeq ->
  loaded_items c (saved_items c ids) = lastn (Nat.min (u_cap2 c) (u_cap1 c)) ids.
Proof. exact load_smaller_seq. Qed.
Print Assumptions C05_load_smaller_seq.
Theorem C05_load_smaller_rr : forall c ids, u_kind c = KRR ->
  loaded_items c (saved_items c ids) = firstn (Nat.min (u_cap2 c) (u_cap1 c)) ids.
Proof. exact load_smaller_rr. Qed.
Print Assumptions C05_load_smaller_rr.
Theorem C05_loaded_fits : forall c items, length (loaded_items c items) <= u_cap2 c.
Proof. exact loaded_fits. Qed.
Print Assumptions C05_loaded_fits.
Theorem C05_count_after_load : forall n tss p, count_since (lastn n tss) p = Nat.min n (count_since tss p).
Proof. exact count_after_load. Qed.
Print Assumptions C05_count_after_load.

(* the oracle of the correspondence check holds on the model *)
Theorem C05_oracle_holds_on_model : forall c ids tss probes,
  c05_prop_ok (CUser c ids tss probes (before_save c ids tss probes) (after_load c ids tss probes)) = true.
Proof. exact model_ok. Qed.
Print Assumptions C05_oracle_holds_on_model.

(* the clock continues from the saved instant instead of restarting or jumping: on the abstract clock that
   the TimeController refines, a load sets the value, and from then on it advances with real time *)
Theorem C05_clock_continues : forall x w d, Clock.sp x = false ->
  (Clock.v (fst (Clock.sstep (fst (Clock.sstep x (Clock.Load w))) (Clock.Advance d))) == w + Clock.sk x * d)%Q.
Proof. exact ClockProofs.spec_load_continues. Qed.
Print Assumptions C05_clock_continues.

(* the state of every nested component: load visits, for every component, exactly the path it saved to, and
   no two components share a path *)
Theorem C05_nested_paths : forall n p, Composite.save_paths (Composite.save_ops n p) = Composite.load_paths n p.
Proof. exact CompositeProofs.load_path_eq_save_path. Qed.
Print Assumptions C05_nested_paths.
