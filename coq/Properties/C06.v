(* C06 — the system clock is the scaled, pausable image of real time.
   Only statements; proofs in Proofs/ClockProofs.v. *)
From Coq Require Import QArith List Bool.
From Pamiq Require Import Model.Clock Proofs.ClockProofs.
From Pamiq Require Proofs.LockSerial.
Import ListNotations.
Open Scope Q_scope.

(* For every history of read / set-scale / get-scale / is-paused / pause / resume /
   export / load / sleep operations with ANY rational arguments and any pattern of
   real-time advance between them, every output of the code's anchor arithmetic
   equals the output of the abstract clock "value grows at rate scale while not
   paused" (no well-formedness hypothesis is needed: a non-positive scale is the
   rejected branch on both sides). *)
Theorem C06_refines : forall off now ops,
  outs_eqb (run false off (init off now) now ops) (srun (sinit off now) ops) = true.
Proof. exact refines. Qed.
Print Assumptions C06_refines.

Theorem C06_monotone : forall x o, spec_wf x ->
  match o with
  | Load _ => True
  | Advance d | Sleep d => 0 <= d -> v x <= v (fst (sstep x o))
  | _ => v x <= v (fst (sstep x o))
  end.
Proof. exact spec_monotone. Qed.
Print Assumptions C06_monotone.

Theorem C06_scale_stays_positive : forall x o, spec_wf x -> spec_wf (fst (sstep x o)).
Proof. exact spec_wf_step. Qed.
Print Assumptions C06_scale_stays_positive.

Theorem C06_still_while_paused : forall x o, sp x = true ->
  match o with Resume | Load _ => True | _ => v (fst (sstep x o)) == v x /\ sp (fst (sstep x o)) = true end.
Proof. exact spec_still. Qed.
Print Assumptions C06_still_while_paused.

Theorem C06_continuous : forall x o,
  match o with Load _ | Advance _ | Sleep _ => True | _ => v (fst (sstep x o)) == v x end.
Proof. exact spec_continuous. Qed.
Print Assumptions C06_continuous.

Theorem C06_read_export_pure : forall x, fst (sstep x Read) = x /\ fst (sstep x Export) = x.
Proof. exact spec_read_export_pure. Qed.
Print Assumptions C06_read_export_pure.

Theorem C06_load_continues : forall x w d, sp x = false ->
  let x1 := fst (sstep x (Load w)) in v (fst (sstep x1 (Advance d))) == w + sk x * d.
Proof. exact spec_load_continues. Qed.
Print Assumptions C06_load_continues.

Theorem C06_sleep : forall x d, snd (sstep x (Sleep d)) = OQ (if sp x then 0 else d / sk x).
Proof. exact spec_sleep. Qed.
Print Assumptions C06_sleep.

(* state_dict() as pinned shifts a running clock *)
Theorem C06_refuted_D5 :
  outs_eqb (run true 0 (init 0 0) 0 d5_ops) (srun (sinit 0 0) d5_ops) = false.
Proof. exact orig_export_refuted. Qed.
Print Assumptions C06_refuted_D5.

Theorem C06_nonvacuous : outs_eqb (srun (sinit 1000 0) nv_ops)
  [ONone; ONone; ONone; OQ 1004; ONone; ONone; OQ 1004; ONone; OQ 1004; ONone; OQ (1005); ONone; OQ 2; OQ 104; OErr] = true.
Proof. exact nv_outputs. Qed.

(* "Concurrent callers always observe values of one single clock": every public method of TimeController runs
   under one re-entrant lock, and for ANY set of threads, ANY programs of lock-protected operations (each a list of
   micro-steps on the shared state) and EVERY schedule, whenever the lock is free the shared state is exactly the
   sequential run of the operations in the order in which they took the lock; nobody but the holder changes it.
   (Generic theorem, Proofs/LockSerial.v; the line-level runs check on the real time.py that the interleaved
   outputs equal the sequential model in lock-acquisition order.) *)
Theorem C06_every_interleaving_is_serial : forall (Sh : Type) (s0 : Sh) progs sched s,
  Pamiq.Proofs.LockSerial.run Sh (Pamiq.Proofs.LockSerial.init Sh s0 progs) sched = Some s ->
  Pamiq.Proofs.LockSerial.holder Sh s = None ->
  Pamiq.Proofs.LockSerial.sh Sh s = Pamiq.Proofs.LockSerial.run_ops Sh (Pamiq.Proofs.LockSerial.done Sh s) s0.
Proof. exact Pamiq.Proofs.LockSerial.every_interleaving_is_serial. Qed.
Print Assumptions C06_every_interleaving_is_serial.
