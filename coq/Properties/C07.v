(* C07 — collected samples reach the buffer exactly once, in order (atomic operations;
   the interleaving part is Properties/C07_lock.v).  Only statements. *)
From Coq Require Import ZArith List Bool Arith Sorted.
From Pamiq Require Import Model.Buffers Model.DataPipe Check.C07 Proofs.DataPipeProofs.
From Pamiq Require Proofs.LockSerial.
Import ListNotations.

(* For every queue size (None, 0, n), every sequence of collect / update / get_data /
   count_data_added_since / save_state with any samples, timestamps and thresholds:
   each hand-over delivers exactly the last queue-size samples collected since the
   previous hand-over, once, in collection order, and every count equals the number of
   the most recent queue-size delivered timestamps that are newer than the threshold. *)
Theorem C07_oracle_holds_on_model : forall i : input, prop_ok (i, model_outs i) = true.
Proof. exact model_ok. Qed.
Print Assumptions C07_oracle_holds_on_model.

(* what the oracle implies with an unbounded queue: nothing lost, duplicated or reordered *)
Theorem C07_exactly_once_in_order : forall ops outs pending delivered,
  spec None pending delivered ops outs = true ->
  exists rest, map fst pending ++ collected ops = all_adds outs ++ rest.
Proof. exact spec_unbounded. Qed.
Print Assumptions C07_exactly_once_in_order.

Theorem C07_bounded_queue_keeps_newest : forall (A : Type) q (xs l : list A),
  fold_left (bapp q) xs (lastn_opt q l) = lastn_opt q (l ++ xs).
Proof. exact @fold_bapp. Qed.
Print Assumptions C07_bounded_queue_keeps_newest.

Theorem C07_count : forall ts l, Sorted Z.le l ->
  length (take_while (fun t => Z.ltb ts t) (rev l)) = length (filter (fun t => Z.ltb ts t) l).
Proof. exact take_while_sorted. Qed.
Print Assumptions C07_count.

Theorem C07_exclusive_acquire : forall names reqs acquired,
  acq_spec names acquired reqs (acq_run names acquired reqs) = true.
Proof. exact acq_ok. Qed.
Print Assumptions C07_exclusive_acquire.

Theorem C07_nonvacuous : model_outs nv_input =
  [PNone; PNone; PNone; PAdds [2; 3]%Z; PCount 2; PCount 1; PNone; PAdds [4]%Z; PCount 2; PAdds []].
Proof. exact nv_run. Qed.

(* "for every interleaving of collecting with updating, reading and saving": collect and the hand-over both run under
   the collector's lock; for any threads, any programs of lock-protected operations and EVERY schedule of their
   micro-steps, the shared state (the collector queue) is the sequential run of the operations in lock-acquisition
   order, and only the holder changes it (generic theorem, Proofs/LockSerial.v).  The line-level runs check on the real
   data/interface.py that an interleaved execution equals the atomic model run in that order. *)
Theorem C07_every_interleaving_is_serial : forall (Sh : Type) (s0 : Sh) progs sched s,
  Pamiq.Proofs.LockSerial.run Sh (Pamiq.Proofs.LockSerial.init Sh s0 progs) sched = Some s ->
  Pamiq.Proofs.LockSerial.holder Sh s = None ->
  Pamiq.Proofs.LockSerial.sh Sh s = Pamiq.Proofs.LockSerial.run_ops Sh (Pamiq.Proofs.LockSerial.done Sh s) s0.
Proof. exact Pamiq.Proofs.LockSerial.every_interleaving_is_serial. Qed.
Print Assumptions C07_every_interleaving_is_serial.

Theorem C07_only_the_holder_writes : forall (Sh : Type) s i s',
  Pamiq.Proofs.LockSerial.step Sh s i = Some s' -> Pamiq.Proofs.LockSerial.sh Sh s' <> Pamiq.Proofs.LockSerial.sh Sh s ->
  Pamiq.Proofs.LockSerial.holder Sh s = Some i.
Proof. exact Pamiq.Proofs.LockSerial.only_the_holder_writes. Qed.
Print Assumptions C07_only_the_holder_writes.
