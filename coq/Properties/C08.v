(* C08 — the system runs until told to stop; the uptime limit is in system time.
   Only statements; proofs in Proofs/ThreadsFault.v, Proofs/BookkeepProofs.v, Proofs/UptimeProofs.v. *)
From Coq Require Import ZArith QArith List Bool.
From Pamiq Require Import Model.Threads Check.Sys Model.Sched Model.Bookkeep Check.C08.
From Pamiq Require Import Proofs.ThreadsFault Proofs.BookkeepProofs.
From Pamiq Require Model.Clock Proofs.UptimeProofs.
Notation sk := Clock.sk. Notation v := Clock.v. Notation sfinal := UptimeProofs.sfinal. Notation unpaused := UptimeProofs.unpaused.
Notation keeps_scale := UptimeProofs.keeps_scale.
Import ListNotations.

(* For any number of threads and EVERY accepted trace: the shutdown event is set, background threads are joined
   and launch() is over only after a cause - a shutdown command taken from the queue, an uptime check that
   answered "reached", an interrupt, an exception flag read as set, a failing save condition or state save. *)
Theorem C08_stops_only_for_a_cause : forall n kind max_attempts qmax with_web tr s,
  run n kind max_attempts qmax with_web init tr = Some s -> C08_ok tr = true.
Proof. exact C08_monitor_holds. Qed.
Print Assumptions C08_stops_only_for_a_cause.

(* Framework bookkeeping never terminates the inference thread: for every sequence of clock readings (any step
   durations), every logging interval (zero, shorter than two steps, ...), both boundary policies and any
   number of ticks, no tick raises, every tick happens, and the logged step counts add up. *)
Theorem C08_bookkeeping_never_raises : forall i : binput,
  book_ok i (inf_trace false (b_strict i) (b_ivl i) (b_reads i) (b_ticks i)) = true.
Proof. exact model_ok. Qed.
Print Assumptions C08_bookkeeping_never_raises.

(* the tree as pinned (defect D6, repaired): an interval holding exactly one step kills the thread *)
Theorem C08_pinned_statistics_refuted : no_raise (snd (inf_trace true true 5 d6_reads 2)) = false.
Proof. exact orig_refuted. Qed.
Print Assumptions C08_pinned_statistics_refuted.

(* The uptime limit is in system time: on the abstract clock (which the TimeController refines, C06), over any
   history without a change of scale, the system clock advances by scale x (real time spent un-paused) ... *)
Theorem C08_uptime_is_scaled_unpaused_time : forall ops x, (0 < sk x)%Q -> forallb keeps_scale ops = true ->
  (v (sfinal x ops) == v x + sk x * unpaused x ops)%Q.
Proof. exact UptimeProofs.uptime_is_scaled_unpaused_time. Qed.
Print Assumptions C08_uptime_is_scaled_unpaused_time.

(* ... so the check  time() - start > U  answers "reached" exactly when the un-paused real time exceeds U / scale, *)
Theorem C08_uptime_decision : forall ops x U, (0 < sk x)%Q -> forallb keeps_scale ops = true ->
  ((U < v (sfinal x ops) - v x)%Q <-> (U / sk x < unpaused x ops)%Q).
Proof. exact UptimeProofs.uptime_decision. Qed.
Print Assumptions C08_uptime_decision.

(* ... and it is noticed at the first check after the crossing: the overshoot is at most the un-paused real
   time between two consecutive checks (one loop period plus whatever the tick in flight executes) *)
Theorem C08_uptime_overshoot : forall a b x U, (0 < sk x)%Q -> forallb keeps_scale (a ++ b) = true ->
  ~ (U < v (sfinal x a) - v x)%Q -> (U < v (sfinal x (a ++ b)) - v x)%Q ->
  (U / sk x < unpaused x (a ++ b))%Q /\ (unpaused x (a ++ b) <= U / sk x + unpaused (sfinal x a) b)%Q.
Proof. exact UptimeProofs.uptime_overshoot. Qed.
Print Assumptions C08_uptime_overshoot.

(* the oracles are not vacuous *)
Example C08_rejects_spontaneous_stop : C08_ok [(TCtl, LSaveCond false); (TCtl, LSet EShut)] = false.
Proof. reflexivity. Qed.
Example C08_rejects_early_uptime :
  timeline_ok {| tl_scale := 2; tl_limit := Some 10000000%Z; tl_period := 1000000%Z;
                 tl_evs := [TStart 0; TCheck 1000000 false; TPause 2000000; TResume 9000000; TCheck 9500000 true] |} = false.
Proof. vm_compute. reflexivity. Qed.
Example C08_accepts_paused_window :
  timeline_ok {| tl_scale := 2; tl_limit := Some 10000000%Z; tl_period := 1000000%Z;
                 tl_evs := [TStart 0; TCheck 1000000 false; TPause 2000000; TResume 9000000; TCheck 11500000 false; TCheck 12500000 true] |} = true.
Proof. vm_compute. reflexivity. Qed.
