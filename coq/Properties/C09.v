(* C09 — component callbacks follow a fixed protocol on their owning thread.
   Only statements; proofs in Proofs/ThreadsProto.v (simulation of the protocol automaton by the thread
   model) and Proofs/ThreadsInv2.v. *)
From Coq Require Import List Bool Arith.
From Pamiq Require Import Model.Threads Check.Sys Proofs.ThreadsInv Proofs.ThreadsInv2 Proofs.ThreadsProto.
From Pamiq Require Proofs.ThreadsMon.
Import ListNotations.

(* The configuration of the real system: background thread 0 is the inference thread (agent, environment),
   thread 1 the training thread (trainers).  For EVERY accepted trace - every command history, interleaving,
   timeout firing and injected failure - the callback log satisfies the protocol automaton [C09_ok]:
   per component  setup, then (step | pause-hook resume-hook)*, then teardown at most once;  hooks strictly
   alternate starting with pause;  no step / training run between a pause hook and its resume hook;  after a
   raising callback only teardown;  callbacks of agent and environment only on thread 0, of trainers only on
   thread 1, never on any other thread;  two callbacks of one thread never overlap. *)
Theorem C09_protocol_holds_on_model : forall max_attempts qmax with_web tr s,
  run 2 kind2 max_attempts qmax with_web init tr = Some s -> C09_ok tr = true.
Proof. exact C09_monitor_holds. Qed.
Print Assumptions C09_protocol_holds_on_model.

(* teardown on every exit path of a started inference thread: the agent's teardown begins at most once at any
   time, the environment's at most once, and when launch() has returned the agent's has begun exactly once *)
Theorem C09_teardown_exactly_once : forall max_attempts qmax with_web tr s,
  run 2 kind2 max_attempts qmax with_web init tr = Some s ->
  count_cbb ATeardown tr <= 1 /\ count_cbb ETeardown tr <= 1 /\ (main_exited tr = true -> count_cbb ATeardown tr = 1).
Proof. exact C09_teardown_counts. Qed.
Print Assumptions C09_teardown_exactly_once.

Theorem C09_complete_holds_on_model : forall max_attempts qmax with_web tr s,
  run 2 kind2 max_attempts qmax with_web init tr = Some s -> C09_complete_ok tr = true.
Proof. exact C09_complete_holds. Qed.
Print Assumptions C09_complete_holds_on_model.

(* save happens only while the owning threads are quiescent or gone (any number of threads) *)
Theorem C09_save_only_when_quiescent : forall n kind max_attempts qmax with_web tr s,
  run n kind max_attempts qmax with_web init tr = Some s -> saving s = true ->
  (acked s = true /\ clk s = true /\ forall i, i < n -> Qb (bp s i) = true) \/
  (forall i, i < n -> bp s i = BDone).
Proof. exact saving_quiescent. Qed.
Print Assumptions C09_save_only_when_quiescent.

(* the automaton is not vacuous: it rejects a step between a pause hook and the resume hook, a second
   teardown, and a trainer callback on the inference thread *)
Example C09_rejects_step_while_paused :
  C09_ok [(TBg 0, LCbB ASetup); (TBg 0, LCbE ASetup); (TBg 0, LCbB AHookP); (TBg 0, LCbE AHookP); (TBg 0, LCbB AStep)] = false.
Proof. reflexivity. Qed.
Example C09_rejects_second_teardown :
  C09_ok [(TBg 0, LCbB ATeardown); (TBg 0, LCbE ATeardown); (TBg 0, LCbB ATeardown)] = false.
Proof. reflexivity. Qed.
Example C09_rejects_wrong_thread : C09_ok [(TBg 0, LCbB TTrain)] = false.
Proof. reflexivity. Qed.

(* ... as a monitor on traces (the C04 monitor): a state is written only inside an acknowledged pause or after all
   joins, and while it is being written the background threads perform handshake operations only - no callback of an
   owning thread, teardown included, overlaps a save *)
Theorem C09_no_callback_overlaps_a_save : forall n kind max_attempts qmax with_web tr s,
  run n kind max_attempts qmax with_web init tr = Some s -> C04_ok tr = true.
Proof. exact Pamiq.Proofs.ThreadsMon.C04_monitor_holds. Qed.
Print Assumptions C09_no_callback_overlaps_a_save.
