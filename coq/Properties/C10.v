(* C10 — a crash while saving never damages older states nor yields a loadable torn one.
   Only statements; proofs in Proofs/PersistProofs.v. *)
From Coq Require Import List Bool Arith.
From Pamiq Require Import Model.Persist Proofs.PersistProofs.
Import ListNotations.

(* For every save of the shape [ops_wf root] (creates the fresh directory first, stays below it, writes the
   clock file last), every file system [f] it starts from, EVERY crash point: k operations done and, if the
   next is a write, any number j of its bytes - every path outside the new directory is what it was. *)
Theorem C10_old_states_intact : forall root ops f k j p,
  ops_wf root ops = true -> under root p = false -> lookup (crash f ops k j) p = lookup f p.
Proof. exact old_states_intact. Qed.
Print Assumptions C10_old_states_intact.

(* ... and unless the crash state is the complete one, StateStore.load_state fails on it, whatever the loaders
   of the other components accept: the clock file is absent or short. *)
Theorem C10_torn_state_rejected : forall root ops f k j others,
  ops_wf root ops = true -> lookup f (time_path root) = None ->
  complete ops k j = false -> store_load others (crash f ops k j) root = false.
Proof. exact torn_state_rejected. Qed.
Print Assumptions C10_torn_state_rejected.

Theorem C10_complete_state_accepted : forall root ops f,
  ops_wf root ops = true -> time_loadable (apply_all f ops) root = true.
Proof. exact complete_state_accepted. Qed.
Print Assumptions C10_complete_state_accepted.

(* every component set saves in that shape: any layouts of nested directories and files registered under names
   other than the clock's, then the clock file *)
Theorem C10_every_layout_is_wellformed : forall root comps tlen,
  0 < tlen -> (forall c, In c comps -> fst c <> n_time) -> ops_wf root (state_ops root comps tlen) = true.
Proof. exact state_ops_wf. Qed.
Print Assumptions C10_every_layout_is_wellformed.

(* what it rests on: with the clock file written first a torn state is accepted *)
Theorem C10_needs_time_last :
  let root := [7] in
  let ops := [FMkdir root; FWrite (time_path root) 10; FWrite (root ++ [3]) 20] in
  complete ops 2 None = false /\ store_load [fun _ => true] (crash [] ops 2 None) root = true.
Proof. exact needs_time_last. Qed.
Print Assumptions C10_needs_time_last.
