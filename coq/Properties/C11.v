(* C11 — built-in buffers keep exactly what their contract says.
   Only statements; proofs are in Proofs/BuffersProofs.v. *)
From Coq Require Import ZArith QArith List Bool Arith.
From Pamiq Require Import Model.Buffers Check.C11 Proofs.BuffersProofs.
Import ListNotations.
Local Close Scope Q_scope.

(* For every buffer class (plain = one pseudo key, dict = any non-empty key set),
   capacity >= 1, probability (any rational; outside [0,1] the constructor must
   refuse), and every sequence of add / get / len / mutate-returned-data /
   save+load(into any capacity) with any random draws that Python's random module
   can produce (random() >= 0, randint within its bounds), the model's outputs pass
   the black-box contract oracle that is also evaluated on the implementation. *)
Theorem C11_oracle_holds_on_model :
  forall i : input, valid i -> prop_ok (i, model_observed false i) = true.
Proof. exact model_ok. Qed.
Print Assumptions C11_oracle_holds_on_model.

Theorem C11_seq : forall K c p ids,
  items (final false (empty KSeq c p K) (adds K ids)) = lastn c ids.
Proof. exact seq_spec. Qed.
Print Assumptions C11_seq.

Theorem C11_seq_len : forall K c p ids,
  length (items (final false (empty KSeq c p K) (adds K ids))) = Nat.min c (length ids).
Proof. exact seq_len. Qed.
Print Assumptions C11_seq_len.

Theorem C11_rr_fill : forall b id ks r idx, kind b = KRR -> ks = keys b -> length (items b) < cap b ->
  items (fst (step false b (BAdd id ks r idx))) = items b ++ [id].
Proof. exact rr_fill. Qed.
Print Assumptions C11_rr_fill.

Theorem C11_rr_p1 : forall b id r idx, kind b = KRR -> (prob b == 1)%Q -> (r < 1)%Q -> full b ->
  items (fst (step false b (BAdd id (keys b) r idx))) = upd_nth (items b) idx id.
Proof. exact rr_p1. Qed.
Print Assumptions C11_rr_p1.

Theorem C11_rr_p0 : forall b id r idx, kind b = KRR -> (prob b == 0)%Q -> (0 <= r)%Q -> full b ->
  items (fst (step false b (BAdd id (keys b) r idx))) = items b.
Proof. exact rr_p0. Qed.
Print Assumptions C11_rr_p0.

Theorem C11_rr_subset : forall orig ops b x,
  In x (items (final orig b ops)) -> In x (items b) \/ In x (added ops).
Proof. exact only_added. Qed.
Print Assumptions C11_rr_subset.

Theorem C11_rr_ctor_total : forall c p, (0 <= p)%Q -> (p <= 1)%Q -> 1 <= c ->
  exists q, rr_ctor false c p = CtorOk q /\ (Z.of_nat c <= q)%Z.
Proof. exact rr_ctor_total. Qed.
Print Assumptions C11_rr_ctor_total.

Theorem C11_dict_reject : forall orig b id ks r idx, ks <> keys b ->
  step orig b (BAdd id ks r idx) = (b, OAdd true false None).
Proof. exact reject_wrong_keys. Qed.
Print Assumptions C11_dict_reject.

(* the tree as pinned: probability 0.0 is refused with ZeroDivisionError (D7b), and
   [random() > p] replaces on the draw 0.0 although p = 0.0 (D7a) *)
Theorem C11_refuted_D7b :
  rr_ctor true 2 0 = CtorZeroDivision /\ prop_ok (d7_input, model_observed true d7_input) = false.
Proof. exact orig_ctor_refuted. Qed.
Print Assumptions C11_refuted_D7b.

Theorem C11_refuted_D7a :
  let b := {| kind := KRR; cap := 2; prob := 0; keys := [0]; items := [1; 2]%Z |} in
  items (fst (step true b (BAdd 3 [0] 0 1))) <> items b.
Proof. exact orig_p0_refuted. Qed.
Print Assumptions C11_refuted_D7a.

Theorem C11_nonvacuous : valid nv_input /\ valid d7_input.
Proof. exact (conj nv_valid d7_valid). Qed.
