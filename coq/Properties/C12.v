(* C12 — composite components are transparent for events, state and data.
   Only statements; proofs in Proofs/CompositeProofs.v and Proofs/CompositeOracle.v. *)
From Coq Require Import List Bool Arith.
From Pamiq Require Import Model.Composite Proofs.CompositeProofs Check.C12 Proofs.CompositeOracle.
Import ListNotations.

(* For every agent tree and every environment tree of ANY depth and fan-out built from the
   composite classes (distinct sibling names), and every action value, the model passes the
   oracle that is evaluated on the implementation. *)
Theorem C12_oracle_holds_on_model : forall i : input, valid i -> prop_ok (i, model_observed i) = true.
Proof. exact model_ok. Qed.
Print Assumptions C12_oracle_holds_on_model.

Theorem C12_exactly_once : forall e ag en, agents_only ag = true -> no_agents en = true ->
  dispatch e (interaction ag en) = targets e (interaction ag en).
Proof. exact dispatch_targets. Qed.
Print Assumptions C12_exactly_once.

Theorem C12_load_path_eq_save_path : forall n p, save_paths (save_ops n p) = load_paths n p.
Proof. exact load_path_eq_save_path. Qed.
Print Assumptions C12_load_path_eq_save_path.

Theorem C12_paths_injective : forall n p, names_ok n -> NoDup (map snd (load_paths n p)).
Proof. exact paths_injective. Qed.
Print Assumptions C12_paths_injective.

Theorem C12_parents_exist : forall n p dirs, pmem (removelast p) dirs = true -> parents_ok dirs (save_ops n p) = true.
Proof. exact parents_exist. Qed.
Print Assumptions C12_parents_exist.

Theorem C12_observation_complete : forall n, wf_sensor n = true -> raws (observe n) = sensor_leaves n.
Proof. exact observation_complete. Qed.
Print Assumptions C12_observation_complete.

Theorem C12_action_reaches_all : forall n, wf_actuator n = true -> forall v, map fst (affect n v) = actuator_leaves n.
Proof. exact action_reaches_all. Qed.
Print Assumptions C12_action_reaches_all.

Theorem C12_dict_routing : forall id cs v,
  affect (Node NActuatorsDict id cs) v = flat_map (fun c => affect (snd c) (lookup (fst c) v)) cs.
Proof. exact dict_routing. Qed.
Print Assumptions C12_dict_routing.

Theorem C12_wrappers_once : forall id e ko wo ka wa v, is_wrapper (Leaf ko wo) = true -> is_wrapper (Leaf ka wa) = true ->
  observe (Node NEnvWrap id [(n_env, e); (n_obs_wrapper, Leaf ko wo); (n_act_wrapper, Leaf ka wa)]) = App wo (observe e) /\
  affect (Node NEnvWrap id [(n_env, e); (n_obs_wrapper, Leaf ko wo); (n_act_wrapper, Leaf ka wa)]) v = affect e (App wa v).
Proof. exact env_wrapper_once. Qed.
Print Assumptions C12_wrappers_once.

Theorem C12_nonvacuous : valid nv_input.
Proof. exact nv_valid. Qed.
