(* C13 — every trainer gets its turn and trains only when its data condition holds.
   Only statements; proofs in Proofs/TrainerProofs.v. *)
From Coq Require Import ZArith List Bool Arith.
From Pamiq Require Import Model.Buffers Model.DataPipe Model.Trainer Check.C13 Proofs.TrainerProofs.
From Pamiq Require Proofs.ArrivalProofs.
Import ListNotations.

(* For every number of trainers (incl. none), every pair of thresholds per trainer (or no
   condition), every queue size and buffer capacity, every interleaving of sample arrivals
   (any timestamps) with ticks (a timestamp equal to the marker does not count as new): the k-th tick offers trainer (k mod n) whatever the others did; a conditioned
   trainer runs iff len(buffer) >= min size and the number of delivered samples newer than
   its previous positive decision, within the last queue-size deliveries, >= min new; a
   run is exactly setup, train, sync, teardown; the marker moves only on a run. *)
Theorem C13_oracle_holds_on_model : forall i : input, i_incl i = false -> prop_ok (i, model_outs i) = true.
Proof. exact model_ok. Qed.
Print Assumptions C13_oracle_holds_on_model.

(* arrivals racing with decisions: whatever the queue size and capacity, for every history in which the clock does
   not run backwards, every arrival supports at most one run of a conditional trainer: min_new * runs <= arrivals *)
Theorem C13_each_arrival_counts_once : forall q bc ms mn ops, ArrivalProofs.monotone [] ops ->
  mn * ArrivalProofs.runs (trun false (tinit q bc [Some (ms, mn)]) ops) <= length (ArrivalProofs.collected ops).
Proof. exact ArrivalProofs.each_arrival_counts_once. Qed.
Print Assumptions C13_each_arrival_counts_once.

Theorem C13_round_robin_cursor : forall c n, (0 < n)%nat ->
  Nat.modulo (S (Nat.modulo c n)) n = Nat.modulo (S c) n.
Proof. exact succ_mod. Qed.
Print Assumptions C13_round_robin_cursor.

Theorem C13_nonvacuous :
  map (fun y => match y with TTickOut o r _ => (o, r) | TNone => (None, false) end) (model_outs nv_input) =
  [(Some 0, false); (Some 1, true); (Some 2, false); (None, false); (None, false); (Some 0, true); (Some 1, true); (Some 2, true);
   (Some 0, false); (None, false); (Some 1, true); (Some 2, true); (Some 0, false)].
Proof. exact nv_run. Qed.
