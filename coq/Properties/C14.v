(* C14 — each side sees only its own models, and trained parameters reach inference.
   Only statements; proofs in Proofs/ModelsProofs.v. *)
From Coq Require Import List Bool Arith.
From Pamiq Require Import Model.Models Check.C14 Proofs.ModelsProofs.
Import ListNotations.

(* For every set of models with every (valid) combination of the two flags, every assignment
   of requested names to trainers (incl. hidden, unknown and repeated names) and every history
   of trainer runs and state loads: agents can fetch exactly the models that have an inference
   model, trainers exactly those not inference-only; a run synchronises exactly the retrieved
   models that have a separate inference model, a load all such models; and what the agent sees
   is always the latest trained / loaded version. *)
Theorem C14_oracle_holds_on_model : forall i : input, prop_ok (i, model_observed i) = true.
Proof. exact model_ok. Qed.
Print Assumptions C14_oracle_holds_on_model.

Theorem C14_latest : forall flags ops, all_fresh (final (minit flags) ops).
Proof. exact always_fresh. Qed.
Print Assumptions C14_latest.

Theorem C14_visible_is_latest : forall m, fresh m -> has_inf m = true -> visible m = Some (tver m).
Proof. exact visible_is_latest. Qed.
Print Assumptions C14_visible_is_latest.

Theorem C14_views : forall hi io, ctor_ok hi io = true ->
  let m := {| has_inf := hi; inf_only := io; tver := 0; iver := 0 |} in
  (agent_can_get m = true <-> hi = true) /\ (trainer_can_get m = true <-> io = false) /\
  (need_sync m = true -> agent_can_get m = true /\ trainer_can_get m = true).
Proof. exact views. Qed.
Print Assumptions C14_views.

Theorem C14_sync_after_run : forall ms reqs n,
  In n (fst (snd (mstep ms (MRun reqs)))) ->
  In n reqs /\ exists m, nth_error ms n = Some m /\ need_sync m = true.
Proof. exact synced_subset. Qed.
Print Assumptions C14_sync_after_run.

Theorem C14_nonvacuous : mrun (minit nv_flags) [MRun [0; 1; 2; 7; 0]; MRun [3]; MLoad [5; 6; 7; 8]; MRun [2; 3]] =
  [([0], [Some 1; Some 0; None; Some 0]); ([3], [Some 1; Some 0; None; Some 1]);
   ([0; 3], [Some 5; Some 6; None; Some 8]); ([3], [Some 5; Some 6; None; Some 9])].
Proof. exact nv_run. Qed.
