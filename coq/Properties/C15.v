(* C15 — periodic triggers fire when due and never skip an interval silently.
   Only statements, each closed by [exact]; proofs are in Proofs/SchedProofs.v. *)
From Coq Require Import ZArith List Bool.
From Pamiq Require Import Model.Sched Check.C15 Proofs.SchedProofs.
Import ListNotations.
Open Scope Z_scope.

(* For every interval, every callback list, every clock behaviour between any
   two reads (no monotonicity assumed), every operation sequence and both
   boundary policies, the trace of the model passes the oracle that the
   correspondence check evaluates on the implementation's traces. *)
Theorem C15_oracle_holds_on_model :
  forall i : input, valid i -> prop_ok (i, model_trace i) = true.
Proof. exact model_ok. Qed.
Print Assumptions C15_oracle_holds_on_model.

Theorem C15_only_when : forall strict s c s' es c',
  t_update strict s c = (s', es, c') -> seg_cbs es <> [] -> ivl s <= fst (read c) - prev s.
Proof. exact t_update_only_when. Qed.
Print Assumptions C15_only_when.

Theorem C15_when : forall strict s c s' es c',
  t_update strict s c = (s', es, c') -> ivl s < fst (read c) - prev s ->
  seg_cbs es = map cb_id (cbs s).
Proof. exact t_update_when. Qed.
Print Assumptions C15_when.

Theorem C15_restart_implies_fired : forall strict s c s' es c',
  t_update strict s c = (s', es, c') -> prev s' <> prev s -> seg_cbs es = map cb_id (cbs s).
Proof. exact t_update_restart. Qed.
Print Assumptions C15_restart_implies_fired.

Theorem C15_step_every_nth : forall n l c ops, (1 <= n)%nat ->
  C15_step_ok n l ops (s_trace n l c ops) = true.
Proof. exact s_model_ok. Qed.
Print Assumptions C15_step_every_nth.

Theorem C15_condition_latch : forall strict I c n,
  C15_cond_ok I n (p_trace false strict I c n) = true.
Proof. exact p_model_ok. Qed.
Print Assumptions C15_condition_latch.

(* the tree as pinned (double evaluation of the availability test) violates it *)
Theorem C15_refuted_D8 :
  valid d8_input /\ prop_ok (d8_input, model_trace_orig d8_input) = false.
Proof. exact orig_refuted. Qed.
Print Assumptions C15_refuted_D8.

Theorem C15_nonvacuous : flat_map seg_cbs (model_trace nv_input) = [1; 2; 1; 2]%nat.
Proof. exact nv_fires. Qed.
