(* C16 — fixed-interval interaction paces steps in system time.
   Only statements; proofs in Proofs/IntervalProofs.v. *)
From Coq Require Import QArith List Bool.
From Pamiq Require Import Model.Interval Check.C16 Proofs.IntervalProofs.
Import ListNotations.
Open Scope Q_scope.

(* For every interval and offset (W = interval - offset, any sign), every time scale, every
   sequence of overheads and step durations (shorter than, equal to, longer than W) and pauses
   of any length at the loop guard, the start instants produced by the model obey the spacing
   law that is evaluated on the implementation's observed start instants. *)
Theorem C16_spacing_holds_on_model : forall i : input, prop_ok (i, model_starts i) = true.
Proof. exact model_ok. Qed.
Print Assumptions C16_spacing_holds_on_model.

Theorem C16_spacing_law : forall k W e d e', e' == e ->
  let gap := qmax W (k * (e + d)) + k * e' - k * e in
  W <= gap /\ (k * (e + d) <= W -> gap == W).
Proof. exact spacing_law. Qed.
Print Assumptions C16_spacing_law.

Theorem C16_pause_free : forall k W s t p,
  istep k W s {| pause_len := p; eps := eps t; dur := dur t |} = istep k W s t.
Proof. exact pause_free. Qed.
Print Assumptions C16_pause_free.

Theorem C16_reset_spacing : forall k W s t, now s == last s ->
  let s' := fst (istep k W s t) in
  now s' == last s' /\ last s' == last s + qmax W (k * (eps t + dur t)) /\ snd (istep k W s t) == last s + k * eps t.
Proof. exact istep_reset. Qed.
Print Assumptions C16_reset_spacing.

Theorem C16_nonvacuous : qs_eqb (model_starts nv_input)
  [5 + (1 # 512); 5 + (1 # 4) + (1 # 512); 5 + (1 # 4) + (513 # 512) + (1 # 512); 5 + (1 # 4) + (513 # 512) + (129 # 512) + (1#512)] = true.
Proof. exact nv_starts. Qed.
