(* C17 — remote commands are executed once, in order; status is truthful.
   Only statements; proofs in Proofs/ThreadsQueue.v. *)
From Coq Require Import List Bool Arith.
From Pamiq Require Import Model.Threads Check.Sys Proofs.ThreadsQueue Proofs.StatusWindow Proofs.ThreadsDrain.
Import ListNotations.

(* For any number of threads, any queue size (0 = unbounded) and EVERY accepted trace - every sequence of
   requests at arbitrary instants against the running control loop, every interleaving: each command the
   queue accepted is taken by the control loop exactly once and in acceptance order, a refused one never,
   and nothing is taken after a shutdown command has been taken. *)
Theorem C17_monitor_holds_on_model : forall n kind max_attempts qmax with_web tr s,
  run n kind max_attempts qmax with_web init tr = Some s -> C17_ok tr = true.
Proof. exact C17_monitor_holds. Qed.
Print Assumptions C17_monitor_holds_on_model.

(* ... and an accepted command is taken soon: with the web API, for any number of threads, attempt limit and queue size,
   on EVERY accepted trace no accepted command is still waiting when the second control tick after its acceptance begins
   (every tick drains the queue until it is seen empty).  So a command the API answered 200 cannot be left behind while
   the control loop keeps ticking. *)
Theorem C17_accepted_commands_are_taken_soon : forall n kind max_attempts qmax tr s,
  run n kind max_attempts qmax true init tr = Some s -> C17_live tr = true.
Proof. exact C17_live_holds. Qed.
Print Assumptions C17_accepted_commands_are_taken_soon.

(* the status table, for every combination of controller and thread flags and any number of threads *)
Theorem C17_status_paused_iff : forall sh rs flags,
  status_of sh rs flags = StPaused <-> sh = false /\ rs = false /\ forallb (fun b => b) flags = true.
Proof. exact status_paused_iff. Qed.
Print Assumptions C17_status_paused_iff.

Theorem C17_get_only_from_queue_head : forall n kind max_attempts with_web s c s',
  ctl_step n kind max_attempts with_web s (LQGet c) = Some s' ->
  exists q, queue s = c :: q /\ queue s' = q /\ cp s = CGet /\
            (match c with CmdShutdown => shutAD (cp s') = true | _ => True end).
Proof. intros n kind ma ww s c s' H. exact (ctl_queue n kind ma ww s (LQGet c) s' H). Qed.
Print Assumptions C17_get_only_from_queue_head.

(* The status half, "consistent with the flags at some instant during the request".  [truthful] is the oracle
   evaluated on the flag writes and status requests of every observed run.  It never objects to a provider
   that takes all its readings at one instant - for any number of threads, any writes by the other threads
   before and after that instant inside the request, any number of requests - ... *)
Theorem C17_snapshot_provider_is_truthful : forall n h, snapshot_history (flags0 n) h -> truthful n h = true.
Proof. exact snapshot_truthful. Qed.
Print Assumptions C17_snapshot_provider_is_truthful.

(* ... and it does object to readings taken one after the other with no common lock, which is what the
   provider of the pinned tree does: the history recorded there (open known finding D10) and a retried pause
   in which 'paused' is answered although at no instant every thread had acknowledged. *)
Theorem C17_sequential_reads_refuted :
  (reads_current (flags0 2) d10_history = true /\ truthful 2 d10_history = false) /\
  (reads_current (flags0 2) retry_history = true /\ truthful 2 retry_history = false).
Proof. exact sequential_reads_refuted. Qed.
Print Assumptions C17_sequential_reads_refuted.
