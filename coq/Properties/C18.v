(* C18 — state retention keeps the newest states and deletes nothing else.
   Only statements; proofs in Proofs/KeeperProofs.v. *)
From Coq Require Import List Bool Arith Sorted Permutation.
From Pamiq Require Import Model.Buffers Model.Keeper Check.C18 Proofs.KeeperProofs Proofs.KeeperSort.
Import ListNotations.

(* For every max_keep >= 0, every set of pre-existing state directories (any distinct
   modification times), unrelated entries, and every history of saves (directory created
   or already gone), cleanups, removals and creations by others - provided state names are
   pairwise distinct and nobody else creates an entry with the name of a state (names_ok) -
   after every cleanup: none of the max_keep most recently saved states was deleted, every
   older tracked one is gone, and nothing else in the directory was touched. *)
Theorem C18_oracle_holds_on_model : forall i : input, valid i -> prop_ok (i, model_obs i) = true.
Proof. exact model_ok. Qed.
Print Assumptions C18_oracle_holds_on_model.

Theorem C18_scan_keeps_matching : forall key l y, In y (sort_by key l) <-> In y l.
Proof. exact sort_by_In. Qed.
Print Assumptions C18_scan_keeps_matching.

(* The start-up scan tracks exactly the matching entries, oldest first - for every modification-time
   assignment; with distinct modification times that order is the only one (so "the max_keep newest"
   is determined by the modification times alone, not by the order the directory was listed in). *)
Theorem C18_scan_oldest_first : forall key l,
  Permutation (sort_by key l) l /\ StronglySorted (older key) (sort_by key l).
Proof. exact (fun key l => conj (sort_by_perm key l) (sort_by_sorted key l)). Qed.
Print Assumptions C18_scan_oldest_first.

Theorem C18_scan_order_is_determined : forall key l1 l2,
  (forall a b, In a l1 -> In b l1 -> key a = key b -> a = b) ->
  Permutation l1 l2 -> sort_by key l1 = sort_by key l2.
Proof. exact sort_by_determined. Qed.
Print Assumptions C18_scan_order_is_determined.

(* One cleanup, any keeper state and any directory contents: what stays tracked is exactly the max_keep
   newest tracked states (so at most max_keep), what is reported removed was an older tracked state that
   existed and is gone afterwards, and an entry that is not tracked survives every keeper operation. *)
Theorem C18_cleanup_keeps_exactly_the_newest : forall k fs,
  tracked (fst (fst (kstep k fs KCleanup))) = lastn (max_keep k) (tracked k) /\
  length (tracked (fst (fst (kstep k fs KCleanup)))) <= max_keep k.
Proof. exact (fun k fs => conj (cleanup_tracked k fs) (cleanup_bound k fs)). Qed.
Print Assumptions C18_cleanup_keeps_exactly_the_newest.

Theorem C18_removed_are_old_tracked_states : forall k fs p,
  In p (snd (kstep k fs KCleanup)) ->
  In p (firstn (length (tracked k) - max_keep k) (tracked k)) /\ In p fs /\ ~ In p (snd (fst (kstep k fs KCleanup))).
Proof. exact cleanup_removed. Qed.
Print Assumptions C18_removed_are_old_tracked_states.

Theorem C18_untracked_entries_survive : forall k fs o p,
  ~ In p (tracked k) -> (forall q c, o = KAppend q c -> q <> p) -> (forall q, o = KExtRemove q -> q <> p) ->
  In p fs -> In p (snd (fst (kstep k fs o))).
Proof. exact keeper_touches_only_tracked. Qed.
Print Assumptions C18_untracked_entries_survive.

Theorem C18_nonvacuous : valid nv_input /\ model_obs nv_input =
  [([2], [1; 3; 90]); ([], [1; 3; 90; 4]); ([], [1; 3; 90; 4; 5]); ([], [1; 3; 90; 5]); ([], [1; 3; 90; 5; 91]); ([3; 1], [90; 5; 91]); ([], [90; 5; 91])].
Proof. exact (conj nv_valid nv_run). Qed.
