(* C18 — state retention keeps the newest states and deletes nothing else.
   Only statements; proofs in Proofs/KeeperProofs.v. *)
From Coq Require Import List Bool Arith.
From Pamiq Require Import Model.Buffers Model.Keeper Check.C18 Proofs.KeeperProofs.
Import ListNotations.

(* For every max_keep >= 0, every set of pre-existing state directories (any distinct
   modification times), unrelated entries, and every history of saves (directory created
   or already gone), cleanups, removals and creations by others - provided state names are
   pairwise distinct and nobody else creates an entry with the name of a state (names_ok) -
   after every cleanup: none of the max_keep most recently saved states was deleted, every
   older tracked one is gone, and nothing else in the directory was touched. *)
Theorem C18_oracle_holds_on_model : forall i : input, valid i -> prop_ok (i, model_obs i) = true.
Proof. exact model_ok. Qed.
Print Assumptions C18_oracle_holds_on_model.

Theorem C18_scan_keeps_matching : forall key l y, In y (sort_by key l) <-> In y l.
Proof. exact sort_by_In. Qed.
Print Assumptions C18_scan_keeps_matching.

Theorem C18_nonvacuous : valid nv_input /\ model_obs nv_input =
  [([2], [1; 3; 90]); ([], [1; 3; 90; 4]); ([], [1; 3; 90; 4; 5]); ([], [1; 3; 90; 5]); ([], [1; 3; 90; 5; 91]); ([3; 1], [90; 5; 91]); ([], [90; 5; 91])].
Proof. exact (conj nv_valid nv_run). Qed.
