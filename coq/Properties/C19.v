(* C19 — PyTorch synchronisation is atomic for inference and never shares a module.
   Only statements; proofs in Proofs/TorchProofs.v. *)
From Coq Require Import ZArith List Bool Arith.
From Pamiq Require Import Model.TorchSync Check.C19 Proofs.TorchProofs.
Import ListNotations.

(* For any number n of parameters, any initial contents and EVERY accepted trace - every interleaving of an
   inferring thread (infer and unwrap sections) with a training thread that updates parameters in place with
   any values and synchronises repeatedly, at the granularity of single parameter reads and writes: inside one
   locked section all reads name one module and no training write (a step's update or a sync's copy) targets
   it.  Hence a section sees one parameter vector in full: the old or the new one. *)
Theorem C19_sections_are_atomic : forall n v0 tr s,
  run n false (init v0) tr = Some s -> C19_ok tr = true.
Proof. exact C19_monitor_holds. Qed.
Print Assumptions C19_sections_are_atomic.

(* state form: while the inference thread holds the lock and reads module m, m is the inference-side reference,
   the training-side reference is a different module, and every write the training thread can perform goes
   to another module *)
Theorem C19_never_shares_a_module : forall n v0 tr s m,
  run n false (init v0) tr = Some s -> isc s = IIn m ->
  m = iref s /\ tref s <> iref s /\
  forall l s', tstep n s l = Some s' -> match l with LWrite m' _ _ | LCopy m' _ _ => m' <> m | _ => True end.
Proof. exact never_shared. Qed.
Print Assumptions C19_never_shares_a_module.

(* what a completed sync leaves: inference holds a complete copy, the training model equal values, its
   gradients (the stashed ones) and its training mode; the two sides are different module objects *)
Theorem C19_sync_effect : forall n v0 tr s m s',
  run n false (init v0) tr = Some s -> tstep n s (LMode m true) = Some s' ->
  (forall i, i < n -> pv s' (tref s') i = pv s' (iref s') i) /\
  (forall i, i < n -> gv s' (tref s') i = stash s' i) /\
  md s' (tref s') = true /\ md s' (iref s') = false /\ tref s' <> iref s'.
Proof. exact sync_effect. Qed.
Print Assumptions C19_sync_effect.

(* the pinned unwrap() - module reference read before the lock is taken (defect D9, repaired) - is refuted:
   an accepted trace of that variant reads a module while the copy of a sync writes it *)
Theorem C19_pinned_unwrap_refuted :
  (exists s, run 2 true (init (fun _ => 0%Z)) d9_trace = Some s) /\ C19_ok d9_trace = false.
Proof. exact pinned_unwrap_refuted. Qed.
Print Assumptions C19_pinned_unwrap_refuted.
