(* C20 — the Gymnasium adapter respects the episode protocol.
   Only statements; proofs in Proofs/GymProofs.v. *)
From Coq Require Import List Bool Arith.
From Pamiq Require Import Model.Gym Check.C20 Proofs.GymProofs.
Import ListNotations.

(* For every sequence of terminated/truncated flags the environment produces and every
   pattern of reset requests by the agent (in on_step, on the terminal step, inside
   on_reset), over any number of interaction steps, the call log is accepted by the
   protocol automaton: reset at setup and exactly after an episode end or a pending
   request, no step while a reset is due, each step gets the latest callback's action,
   every environment output is delivered once, in order. *)
Theorem C20_protocol_holds_on_model : forall inps, prop_ok (inps, glog inps) = true.
Proof. exact model_ok. Qed.
Print Assumptions C20_protocol_holds_on_model.

Theorem C20_no_step_after_done : forall o a t u a' t' u', (t || u) = true ->
  match oev o (GStep a t u) with Some o1 => oev o1 (GStep a' t' u') = None | None => True end.
Proof. exact no_step_after_done. Qed.
Print Assumptions C20_no_step_after_done.

Theorem C20_action_is_latest : forall o a t u, oev o (GStep a t u) <> None -> last_ret o = Some a.
Proof. exact action_is_latest. Qed.
Print Assumptions C20_action_is_latest.

Theorem C20_delivery_in_order : forall o r, oev o (AOnReset r) <> None -> exists q, queue o = QR r :: q.
Proof. exact delivery_in_order. Qed.
Print Assumptions C20_delivery_in_order.

Theorem C20_nonvacuous : glog nv_inps =
  [GReset; AOnReset 0; AReq; ARet 0; GStep 0 false false; GReset;
   AOnStep 0 false false; ARet 1; AOnReset 1; ARet 2; GStep 2 false false;
   AOnStep 1 false false; AReq; ARet 3; GStep 3 true false; GReset;
   AOnStep 2 true false; AReq; ARet 4; AOnReset 2; ARet 5; GStep 5 false false;
   AOnStep 3 false false; ARet 6; GStep 6 false true; GReset].
Proof. exact nv_log. Qed.
