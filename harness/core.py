"""Generic driver of the /verif checks.

One check = (1) rebuild the Coq development and re-read the Print Assumptions of the
property file, (2) run the *implementation* from /repo/src on generated cases in fresh
sub-processes, (3) let Coq (vm_compute on generated cases files) compare every observed
output with the model and evaluate the property oracle on it, (4) search / shrink /
report, (5) write the evidence file.
"""
from __future__ import annotations

import concurrent.futures
import fcntl
import hashlib
import importlib
import json
import os
import random
import re
import shutil
import subprocess
import sys
import tempfile
import time
from pathlib import Path

VERIF = Path(__file__).resolve().parent.parent
REPO = Path(os.environ.get("PAMIQ_REPO", "/repo"))
PY = os.environ.get("PAMIQ_PY", "/venv/bin/python")
COQ = VERIF / "coq"
GUARD = "PAMIQ_CORE_VERIF"
FORBIDDEN = re.compile(
    r"\b(Admitted|admit|Axiom|Axioms|Parameter|Parameters|Conjecture|Admit Obligations|bypass_check|"
    r"Unset Guard Checking|Unset Positivity Checking|Unset Universe Checking|type-in-type|impredicative-set|native_compute)\b"
)
# axioms declared by Coq's standard library that a theorem may depend on (named in DESIGN.md)
STDLIB_AXIOMS = {
    "functional_extensionality_dep", "FunctionalExtensionality.functional_extensionality_dep",
    "classic", "Classical_Prop.classic", "proof_irrelevance", "ProofIrrelevance.proof_irrelevance",
    "JMeq_eq", "JMeq.JMeq_eq", "Eqdep.Eq_rect_eq.eq_rect_eq", "eq_rect_eq",
}
NCPU = os.cpu_count() or 4

_tmp_root: Path | None = None


def tmp_root() -> Path:
    global _tmp_root
    if _tmp_root is None:
        _tmp_root = Path(tempfile.mkdtemp(prefix="pamiq_verif_"))
    return _tmp_root


def cleanup_tmp() -> None:
    global _tmp_root
    if _tmp_root is not None:
        shutil.rmtree(_tmp_root, ignore_errors=True)
        _tmp_root = None


# ----------------------------------------------------------------------------------------------
# Coq: build, hygiene, assumptions
# ----------------------------------------------------------------------------------------------
def build_coq(timeout: int = 1500) -> tuple[bool, str]:
    """Full .vo build (never -vos), serialised between concurrently running checks."""
    lock = open(COQ / ".build.lock", "w")
    fcntl.flock(lock, fcntl.LOCK_EX)
    try:
        if not (COQ / "Makefile").exists() or (COQ / "Makefile").stat().st_mtime < (COQ / "_CoqProject").stat().st_mtime:
            r = subprocess.run(["coq_makefile", "-f", "_CoqProject", "-o", "Makefile"], cwd=COQ,
                               capture_output=True, text=True)
            if r.returncode != 0:
                return False, r.stdout + r.stderr
        r = subprocess.run(["timeout", str(timeout), "make", f"-j{NCPU}"], cwd=COQ, capture_output=True, text=True)
        return r.returncode == 0, (r.stdout + r.stderr)[-6000:]
    finally:
        fcntl.flock(lock, fcntl.LOCK_UN)
        lock.close()


def hygiene() -> list[str]:
    """Lines of the development that declare an axiom / leave a proof open / switch off a check."""
    bad = []
    for p in sorted(COQ.rglob("*.v")):
        txt = p.read_text()
        # strip comments (non-nested is enough for this development; nested handled conservatively)
        depth, out = 0, []
        i = 0
        while i < len(txt):
            if txt.startswith("(*", i):
                depth += 1; i += 2; continue
            if txt.startswith("*)", i) and depth > 0:
                depth -= 1; i += 2; continue
            if depth == 0:
                out.append(txt[i])
            elif txt[i] == "\n":
                out.append("\n")
            i += 1
        for n, line in enumerate("".join(out).splitlines(), 1):
            if FORBIDDEN.search(line):
                bad.append(f"{p.relative_to(COQ)}:{n}: {line.strip()}")
    proj = (COQ / "_CoqProject").read_text()
    if re.search(r"type-in-type|impredicative-set|-vos|-vok|-native", proj):
        bad.append("_CoqProject: forbidden flag")
    return bad


def theorem_assumptions(prop_file: str) -> tuple[bool, dict[str, list[str]], str]:
    """Re-compile the property file alone (its dependencies are built) and parse the output of
    its Print Assumptions commands.  Returns (compiled, {theorem: [axioms]}, log)."""
    src = (COQ / prop_file).read_text()
    names = re.findall(r"^Print Assumptions\s+([A-Za-z0-9_']+)\s*\.", src, flags=re.M)
    thms = re.findall(r"^(?:Theorem|Lemma|Corollary)\s+([A-Za-z0-9_']+)", src, flags=re.M)
    d = tmp_root() / "pa"
    d.mkdir(exist_ok=True)
    out_vo = d / (Path(prop_file).stem + ".vo")
    r = subprocess.run(["timeout", "600", "coqc", "-Q", ".", "Pamiq", prop_file, "-o", str(out_vo)],
                       cwd=COQ, capture_output=True, text=True)
    log = r.stdout + r.stderr
    if r.returncode != 0:
        return False, {t: ["<did not compile>"] for t in thms}, log
    # split the output in blocks, one per Print Assumptions, in order
    blocks = re.split(r"(?=Closed under the global context|Axioms:)", r.stdout)
    blocks = [b for b in blocks if b.startswith("Closed") or b.startswith("Axioms:")]
    res: dict[str, list[str]] = {t: [] for t in thms}
    for name, b in zip(names, blocks):
        if b.startswith("Closed"):
            res[name] = []
        else:
            res[name] = re.findall(r"^([A-Za-z0-9_.']+)\s*:", b, flags=re.M)
    for t in thms:
        if t not in names:
            res[t] = res.get(t, [])
    if len(blocks) != len(names):
        return False, res, log + "\n<Print Assumptions output could not be matched>"
    return True, res, log


# ----------------------------------------------------------------------------------------------
# Coq literals
# ----------------------------------------------------------------------------------------------
def cz(n: int) -> str:
    return f"({int(n)})%Z"


def cn(n: int) -> str:
    assert n >= 0
    return f"{int(n)}%nat"


def cb(b: bool) -> str:
    return "true" if b else "false"


def cl(items) -> str:
    return "[" + "; ".join(items) + "]"


def cq(fr) -> str:
    from fractions import Fraction
    fr = Fraction(fr)
    return f"({fr.numerator} # {fr.denominator})%Q"


def copt(x) -> str:
    return "None" if x is None else f"(Some {x})"


def cpair(*xs) -> str:
    return "(" + ", ".join(xs) + ")"


# ----------------------------------------------------------------------------------------------
# evaluating cases inside Coq
# ----------------------------------------------------------------------------------------------
CASES_PER_FILE = 250


def _mem_gb() -> float:
    try:
        for line in open("/proc/meminfo"):
            if line.startswith("MemAvailable:"):
                return int(line.split()[1]) / 2**20
    except OSError:
        pass
    return 16.0


COQ_WORKERS = max(2, min(NCPU, int((_mem_gb() - 14) // 6)))


def _coqc_file(path: Path) -> tuple[int, str]:
    # memory and time caps: a cases file that blows up must fail, not take the machine down
    r = subprocess.run(["bash", "-c", 'ulimit -v 6000000; exec timeout 300 coqc -Q "$0" Pamiq "$1"', str(COQ), str(path)],
                       capture_output=True, text=True, cwd=path.parent)
    return r.returncode, r.stdout + r.stderr


def coq_verdicts(prop, items: list[tuple[int, str]], tag: str = "cases") -> tuple[set[int], set[int], list[str]]:
    """items = [(case id, Coq term of the property's [case] type)].
    Returns (ids where model and implementation disagree, ids where the oracle fails, errors)."""
    if not items:
        return set(), set(), []
    d = tmp_root() / f"{prop.ID}_{tag}_{os.getpid()}_{time.time_ns()}"
    d.mkdir(parents=True)
    files = []
    for k in range(0, len(items), CASES_PER_FILE):
        chunk = items[k:k + CASES_PER_FILE]
        f = d / f"cases_{k // CASES_PER_FILE}.v"
        body = [prop.COQ_IMPORT, "From Coq Require Import ZArith QArith List Bool.", "From Pamiq Require Import Check.Lib.",
                "Import ListNotations.", "Set Printing Width 1000000.", "Set Printing Depth 1000000.",
                f"Definition cases : list (nat * {prop.COQ_CASE_TYPE}) := ["]
        body.append(";\n".join(f"({cn(i)}, {t})" for i, t in chunk))
        body.append("].")
        body.append(f"Eval vm_compute in (verdict {prop.COQ_AGREE} {prop.COQ_PROP_OK} cases).")
        f.write_text("\n".join(body) + "\n")
        files.append(f)
    disagree, fail, errs = set(), set(), []
    # at most COQ_WORKERS coqc processes at a time: each may use up to its 6 GB cap (cases files made from very long traces
    # do), and the machine must not run out of memory - a check that is killed reports nothing
    with concurrent.futures.ThreadPoolExecutor(max_workers=COQ_WORKERS) as ex:
        for f, (rc, out) in zip(files, ex.map(_coqc_file, files)):
            m = re.search(r"=\s*\(\s*(\[[^\]]*\])\s*,\s*(\[[^\]]*\])\s*\)", out, flags=re.S)
            if rc != 0 or not m:
                errs.append(f"{f.name}: rc={rc}: {out[-1500:]}")
                continue
            disagree |= {int(x) for x in re.findall(r"\d+", m.group(1))}
            fail |= {int(x) for x in re.findall(r"\d+", m.group(2))}
    shutil.rmtree(d, ignore_errors=True)
    return disagree, fail, errs


def coq_eval_text(prop, term: str) -> str:
    """Evaluate one Coq term and return the printed value (used for replay files)."""
    d = tmp_root() / f"{prop.ID}_eval_{time.time_ns()}"
    d.mkdir(parents=True)
    f = d / "e.v"
    f.write_text("\n".join([prop.COQ_IMPORT, "From Coq Require Import ZArith QArith List Bool.", "Import ListNotations.",
                            "Set Printing Width 200.", "Set Printing Depth 100000.",
                            f"Eval vm_compute in ({term})."]) + "\n")
    rc, out = _coqc_file(f)
    shutil.rmtree(d, ignore_errors=True)
    return out.strip()[-20000:]


# ----------------------------------------------------------------------------------------------
# running the implementation
# ----------------------------------------------------------------------------------------------
def impl_env() -> dict[str, str]:
    env = dict(os.environ)
    env["PYTHONPATH"] = f"{REPO / 'src'}:{VERIF}"
    env["PYTHONHASHSEED"] = "0"
    env["PYTHONDONTWRITEBYTECODE"] = "1"
    env[GUARD] = "1"
    env["PAMIQ_REPO"] = str(REPO)
    return env


def _run_impl_chunk(args) -> list:
    runner, chunk, timeout = args
    p = subprocess.run([PY, str(VERIF / "harness" / "impl" / f"{runner}.py")], input=json.dumps(chunk),
                       capture_output=True, text=True, env=impl_env(), timeout=timeout, cwd=str(tmp_root()))
    if p.returncode != 0:
        return [{"crash": (p.stderr or p.stdout)[-3000:]} for _ in chunk]
    try:
        # the last line of stdout is the JSON answer (anything a component printed comes before)
        res = json.loads(p.stdout.strip().splitlines()[-1])
    except Exception as e:  # noqa: BLE001
        return [{"crash": f"unparsable runner output: {e}: {p.stdout[-1500:]} {p.stderr[-1500:]}"} for _ in chunk]
    assert len(res) == len(chunk)
    return res


def run_impl(runner: str, cases: list, chunk_size: int = 200, timeout: int = 900, workers: int | None = None) -> list:
    """Run the real code on the cases, in fresh interpreters (PYTHONPATH=/repo/src), in parallel."""
    if not cases:
        return []
    chunks = [cases[i:i + chunk_size] for i in range(0, len(cases), chunk_size)]
    out: list = []
    with concurrent.futures.ThreadPoolExecutor(max_workers=workers or NCPU) as ex:
        for res in ex.map(_run_impl_chunk, [(runner, c, timeout) for c in chunks]):
            out.extend(res)
    return out


# ----------------------------------------------------------------------------------------------
# known findings
# ----------------------------------------------------------------------------------------------
def known_findings(pid: str) -> list[dict]:
    f = VERIF / "known_findings.json"
    if not f.exists():
        return []
    return [e for e in json.loads(f.read_text()).get("findings", []) if e.get("property") == pid]


# ----------------------------------------------------------------------------------------------
# the check
# ----------------------------------------------------------------------------------------------
def case_hash(case) -> str:
    return hashlib.sha1(json.dumps(case, sort_keys=True).encode()).hexdigest()[:16]


def load_corpus(pid: str) -> list:
    d = VERIF / "corpus" / pid
    out = []
    if d.is_dir():
        for f in sorted(d.glob("*.json")):
            j = json.loads(f.read_text())
            out.append(j["case"] if isinstance(j, dict) and "case" in j else j)
    return out


class Outcome:
    def __init__(self):
        self.lines: list[str] = []
        self.violations = 0
        self.known = 0

    def say(self, s: str):
        print(s, flush=True)
        self.lines.append(s)


def error_origin(o) -> str:
    """who failed when a run ended in an exception: 'impl' = the innermost frame that belongs to either side is the
    library's (the code under test raised), 'harness' = it is the harness' own (a private name it reaches for is gone,
    a stand-in lacks a part of the real API): then the correspondence is broken, but no failing input has been seen"""
    if not isinstance(o, dict) or not ("error" in o or "crash" in o):
        return "none"
    if "crash" in o or str(o.get("error", "")).startswith("StubIncomplete"):
        return "harness"
    files = re.findall(r'File "([^"]+)", line \d+', o.get("tb") or "")
    side = [("impl" if "/pamiq_core/" in f else "harness") for f in files if "/pamiq_core/" in f or "/verif/harness/" in f]
    if not side:
        return "impl"          # no traceback kept: as before, the run counts as a failure of the code under test
    return side[-1]


def evaluate(prop, cases: list, tag: str):
    """run implementation + Coq on the cases -> (obs, disagree ids, failing ids, unencodable ids, errors)"""
    obs = run_impl(prop.IMPL, cases, chunk_size=getattr(prop, "IMPL_CHUNK", 200),
                   timeout=getattr(prop, "IMPL_TIMEOUT", 900))
    items, hard = [], set()
    pre_dis, pre_fail = set(), set()
    for i, (c, o) in enumerate(zip(cases, obs)):
        v = prop.precheck(c, o) if hasattr(prop, "precheck") else None
        if v is not None:  # decided on the Python side (e.g. the implementation raised)
            if not v.get("agree", True):
                pre_dis.add(i)
            if error_origin(o) == "harness":
                hard.add(i)            # the harness could not drive the code: a broken correspondence, not a failing input
                continue
            if not v.get("prop_ok", True):
                pre_fail.add(i)
            continue
        try:
            t = prop.coq_case(c, o)
        except Exception as e:  # noqa: BLE001  the observation cannot be put into the model's vocabulary
            if isinstance(o, dict):
                o.setdefault("crash", f"observation not encodable for the model: {type(e).__name__}: {e}")
            pre_dis.add(i)
            hard.add(i)
            continue
        for term in (t if isinstance(t, list) else [t]):     # one observed run may yield several Coq cases
            items.append((i, term))
    dis, fail, errs = coq_verdicts(prop, items, tag)
    return obs, dis | pre_dis, fail | pre_fail, hard, errs


def shrink_failure(prop, case, budget_s: float = 120.0, keep_signature: str | None = None):
    """Greedy shrinking: keep a smaller case while the oracle still fails on the implementation - in the same way
    (same signature), so that shrinking cannot drift from a new failure to a known one."""
    if not hasattr(prop, "shrink"):
        return case
    t0 = time.time()
    cur = case
    while time.time() - t0 < budget_s:
        cands = list(prop.shrink(cur))[:200]
        if not cands:
            break
        cobs, _, fail, _, _ = evaluate(prop, cands, "shrink")
        ok = [i for i in sorted(fail)
              if keep_signature is None or not hasattr(prop, "signature") or prop.signature(cands[i], cobs[i]) == keep_signature]
        if not ok:
            break
        cur = cands[ok[0]]
    return cur


def write_replay(prop, kind: str, case, obs, broken: list[str], extra: dict | None = None) -> Path:
    d = VERIF / "replays"
    d.mkdir(exist_ok=True)
    name = f"{prop.ID}_{kind}_{case_hash(case) if case is not None else 'none'}.json"
    body = {"property": prop.ID, "kind": kind, "broken": broken, "case": case, "observed": obs}
    if case is not None and obs is not None and hasattr(prop, "coq_expected"):
        try:
            body["expected_by_model"] = coq_eval_text(prop, prop.coq_expected(case, obs))
        except Exception as e:  # noqa: BLE001
            body["expected_by_model"] = f"<not available: {e}>"
    if case is not None and obs is not None and hasattr(prop, "signature"):
        body["signature"] = prop.signature(case, obs)
    if extra:
        body.update(extra)
    p = d / name
    p.write_text(json.dumps(body, indent=1, default=str))
    return p


def run_check(prop, tier: str, seed: int) -> int:
    t0 = time.time()
    out = Outcome()
    rng = random.Random(f"{prop.ID}/{seed}")
    broken: list[str] = []

    ok_build, build_log = build_coq()
    hyg = hygiene()
    compiled, assum, pa_log = theorem_assumptions(prop.THEOREM_FILE) if ok_build else (False, {}, build_log)
    bad_axioms = {t: [a for a in ax if a not in STDLIB_AXIOMS and a.split(".")[-1] not in STDLIB_AXIOMS]
                  for t, ax in assum.items()}
    bad_axioms = {t: a for t, a in bad_axioms.items() if a}
    obligations = len(assum) if assum else len(getattr(prop, "THEOREMS", [])) or 1
    discharged = 0 if not (ok_build and compiled) else sum(1 for t in assum if t not in bad_axioms)
    if not ok_build:
        broken.append("coq build: " + build_log[-800:])
    elif not compiled:
        broken.append(f"{prop.THEOREM_FILE} does not compile: {pa_log[-800:]}")
    if hyg:
        broken.append("hygiene: " + "; ".join(hyg[:5]))
    if bad_axioms:
        broken.append(f"axioms outside the trusted base: {bad_axioms}")

    # ---- correspondence + oracle on the implementation
    corpus = load_corpus(prop.ID)
    gen_cases = prop.gen(rng, tier)
    cases = corpus + gen_cases
    obs, dis, fail, hard, errs = ([], set(), set(), set(), [])
    if ok_build:
        obs, dis, fail, hard, errs = evaluate(prop, cases, "main")
        if errs:
            broken.append("cases files did not evaluate: " + errs[0][-600:])
        if hard:
            h0 = obs[min(hard)]
            broken.append(f"the harness could not drive the implementation on {len(hard)} of {len(cases)} cases (not a failing input): "
                          + str(h0.get("error") or h0.get("crash"))[:300])
    seen = {}
    for c, o in zip(cases, obs):
        if prop.nontrivial(c, o):
            seen[case_hash(c)] = 1
    distinct_nontrivial = len(seen)

    findings_open = [e for e in known_findings(prop.ID) if e.get("status") == "open"]
    reported: set[str] = set()

    def report_failure(case, o, found_by: str):
        sig0 = prop.signature(case, o) if hasattr(prop, "signature") else "unspecified"
        if sig0 in reported:
            return
        reported.add(sig0)
        small = shrink_failure(prop, case, budget_s=60.0 if tier == "quick" else 180.0, keep_signature=sig0)
        so = run_impl(prop.IMPL, [small])[0] if small is not case else o
        sig = prop.signature(small, so) if hasattr(prop, "signature") else "unspecified"
        reported.add(sig)
        match = [e for e in findings_open if e.get("signature") in (sig, sig0)]
        if match:
            out.known += 1
            out.say(f"KNOWN-FINDING: property={prop.ID} {match[0].get('id', '')} {match[0].get('description', sig)}")
            return
        rp = write_replay(prop, "failing-input", small, so, broken + [f"oracle {prop.COQ_PROP_OK} false on the implementation ({found_by})"])
        out.violations += 1
        out.say(f"VIOLATION property={prop.ID} replay={rp}")

    if fail:
        # every failing case is looked at (cheap: its signature); only a new signature is shrunk and reported
        for i in sorted(fail):
            if len(reported) >= 16:
                break
            report_failure(cases[i], obs[i], "main run")
    unexplained = dis - fail
    if (unexplained or broken) and not out.violations:
        # a proof obligation or the correspondence is broken and no (unlisted) oracle failure was seen:
        # search the implementation for a failing input at a larger volume
        if dis:
            broken.append(f"correspondence {prop.ID}: model and implementation differ on {len(dis)} of {len(cases)} cases")
        found = False
        if ok_build:
            for r in range(getattr(prop, "SEARCH_ROUNDS", 3)):
                srng = random.Random(f"{prop.ID}/{seed}/search/{r}")
                sc = prop.gen(srng, "search")
                so, sdis, sfail, shard, serrs = evaluate(prop, sc, f"search{r}")
                new = [i for i in sorted(sfail)]
                for i in new[:4]:
                    before = out.violations
                    report_failure(sc[i], so[i], f"search round {r}")
                    found = found or out.violations > before
                if found:
                    break
        if not found and not out.violations:
            wit_i = min(dis) if dis else None
            rp = write_replay(prop, "no-failing-input-found", cases[wit_i] if wit_i is not None else None,
                              obs[wit_i] if wit_i is not None else None, broken)
            out.violations += 1
            out.say(f"VIOLATION property={prop.ID} replay={rp} no-failing-input-found")

    # ---- evidence
    samples = []
    for c, o in list(zip(cases, obs))[:3] + list(zip(cases, obs))[-2:]:
        samples.append(prop.describe(c, o) if hasattr(prop, "describe") else {"case": c, "observed": o})
    dist = prop.distribution(cases, obs) if hasattr(prop, "distribution") else {}
    ev = {
        "property_id": prop.ID, "tier": tier, "seed": seed, "level": "proof",
        "coverage": {
            "obligations": obligations, "discharged": discharged,
            "checker_cmd": f"cd /verif/coq && coq_makefile -f _CoqProject -o Makefile && make -j{NCPU}  (coqc 8.16.1, full .vo build) ; coqc {prop.THEOREM_FILE} (Print Assumptions)",
            "trusted_base": prop.TRUSTED,
            "theorems": [{"name": t, "assumptions": (ax or "Closed under the global context")} for t, ax in assum.items()],
            "evaluations": len(cases), "distinct_nontrivial": distinct_nontrivial, "rule": prop.RULE,
            "samples": samples, "traces_validated_against_impl": len(cases) - len(dis) if ok_build else 0,
            "disagreements_checked": len(dis), "oracle_failures_on_impl": len(fail),
            "corpus_cases": len(corpus), "distribution": dist,
            "broken": broken,
        },
        "assumptions": prop.ASSUMPTIONS,
        "wall_s": round(time.time() - t0, 2),
        "violations": out.violations,
        "known_findings_seen": out.known,
    }
    (VERIF / "evidence").mkdir(exist_ok=True)
    (VERIF / "evidence" / f"{prop.ID}.json").write_text(json.dumps(ev, indent=1, default=str))
    print(f"[{prop.ID}] tier={tier} seed={seed} cases={len(cases)} nontrivial={distinct_nontrivial} "
          f"theorems={discharged}/{obligations} disagree={len(dis)} oracle_fail={len(fail)} "
          f"violations={out.violations} known={out.known} wall={ev['wall_s']}s", flush=True)
    cleanup_tmp()
    return 1 if out.violations else 0


def run_replay(prop, path: str) -> int:
    j = json.loads(Path(path).read_text())
    case = j.get("case")
    ok_build, log = build_coq()
    if not ok_build:
        print("coq build failed:\n" + log)
        return 1
    if case is None:
        print(f"replay {path}: no concrete input was found when this was reported; broken: {j.get('broken')}")
        compiled, assum, pa_log = theorem_assumptions(prop.THEOREM_FILE)
        print("property file compiles now:", compiled)
        return 0 if compiled else 1
    obs, dis, fail, hard, errs = evaluate(prop, [case], "replay")
    print(json.dumps({"case": case, "observed": obs[0]}, indent=1, default=str)[:6000])
    print(f"agrees with model: {0 not in dis}; oracle holds on implementation: {0 not in fail}; errors: {errs}")
    cleanup_tmp()
    if 0 in fail:
        print(f"VIOLATION property={prop.ID} replay={path}")
        return 1
    return 0


def main(argv=None) -> int:
    import argparse
    ap = argparse.ArgumentParser()
    ap.add_argument("prop")
    ap.add_argument("--tier", default=os.environ.get("VERIF_TIER", "quick"), choices=["quick", "thorough"])
    ap.add_argument("--replay")
    ap.add_argument("--seed", type=int, default=int(os.environ.get("VERIF_SEED", "0") or 0))
    a = ap.parse_args(argv)
    sys.path.insert(0, str(VERIF))
    prop = importlib.import_module(f"harness.props.{a.prop.lower()}")
    try:
        if a.replay:
            return run_replay(prop, a.replay)
        return run_check(prop, a.tier, a.seed)
    except Exception:  # noqa: BLE001
        # the check's own machinery failed on this tree: the property is no longer shown to hold
        import traceback
        tb = traceback.format_exc()
        rp = write_replay(prop, "no-failing-input-found", None, None, ["the check's own harness failed on this tree: " + tb[-1500:]])
        print(f"VIOLATION property={prop.ID} replay={rp} no-failing-input-found", flush=True)
        return 1
    finally:
        cleanup_tmp()


if __name__ == "__main__":
    sys.exit(main())
