"""C05 implementation runner.
kind "store": real DataUsersDict / buffers / TrainersDict / TrainingModelsDict / nested Agents / a TimeController on
  a virtual raw clock, registered in a real StateStore in the launcher's order, saved, then loaded into FRESHLY
  constructed components (optionally smaller buffers; the clock a new controller on a raw clock with another
  origin).  Observed through public getters before the save and after the load.
kind "relaunch": a whole launch() under the deterministic harness (run 1, random history), then - in a fresh
  interpreter - a second launch(saved_state_path = the state saved at shutdown); end values of run 1 against
  the values the relaunched system starts from."""
import json
import os
import shutil
import subprocess
import sys
import tempfile
from fractions import Fraction
from pathlib import Path

TICK = 64.0


def fr(x):
    f = Fraction(x)
    return [f.numerator, f.denominator]


def run_store(case):
    import pamiq_core.time as ptime
    from pamiq_core import Agent
    from pamiq_core.data.container import DataUsersDict
    from pamiq_core.data.impls import DictRandomReplacementBuffer, DictSequentialBuffer, RandomReplacementBuffer, SequentialBuffer
    from pamiq_core.model import InferenceModel, TrainingModel, TrainingModelsDict
    from pamiq_core.state_persistence import StateStore
    from pamiq_core.trainer import Trainer, TrainersDict
    from harness.sim.faketime import FakeTime, fresh_pamiq_time

    KEYS = ["k0", "k1"]

    def mkbuf(kind, cap, p=1.0):
        if kind == "seq":
            return SequentialBuffer(cap)
        if kind == "rr":
            return RandomReplacementBuffer(cap, replace_probability=p)
        if kind == "dseq":
            return DictSequentialBuffer(KEYS, cap)
        return DictRandomReplacementBuffer(KEYS, cap, replace_probability=p)

    def sample(kind, i):
        return {k: i * 16 + n for n, k in enumerate(KEYS)} if kind.startswith("d") else i

    def ids_of(kind, data):
        if kind.startswith("d"):
            a, b = list(data[KEYS[0]]), list(data[KEYS[1]])
            if [x // 16 for x in a] != [x // 16 for x in b] or any(x % 16 != 0 for x in a) or any(x % 16 != 1 for x in b):
                return ["misaligned", a, b]
            return [x // 16 for x in a]
        return list(data)

    class Ag(Agent):
        def __init__(self, spec):
            super().__init__({k: Ag(v) for k, v in spec.get("children", {}).items()} or None)
            self.val = spec["val"]

        def step(self, observation):
            return 0

        def save_state(self, path):
            path.mkdir()
            (path / "val").write_text(str(self.val))
            super().save_state(path)

        def load_state(self, path):
            self.val = int((path / "val").read_text())
            super().load_state(path)

        def flat(self, prefix=""):
            out = [[prefix, self.val]]
            for k, a in self._agents.items():
                out += a.flat(prefix + "/" + k)
            return out

    class Inf(InferenceModel):
        def __init__(self):
            self.v = None

        def infer(self, *a, **k):
            return self.v

    class TM(TrainingModel):
        def __init__(self, v):
            super().__init__(has_inference_model=True, inference_thread_only=False)
            self.v = v

        def _create_inference_model(self):
            return Inf()

        def forward(self, *a, **k):
            return self.v

        def sync_impl(self, inference_model):
            inference_model.v = self.v

        def save_state(self, path):
            path.mkdir()
            (path / "v").write_text(str(self.v))

        def load_state(self, path):
            self.v = int((path / "v").read_text())

    class Tr(Trainer):
        def train(self):
            pass

    def blank(spec):
        return {"val": -1, "children": {k: blank(v) for k, v in spec.get("children", {}).items()}}

    state = {"now": 0}
    orig_time = ptime.time
    ptime.time = lambda: state["now"] / TICK
    tmp = tempfile.mkdtemp(prefix="c05_")
    try:
        # ---- side A: the components that get saved
        usersA = DataUsersDict.from_data_buffers({f"u{i}": mkbuf(u["kind"], u["cap1"], u.get("p", 1.0)) for i, u in enumerate(case["users"])})
        colls = usersA.data_collectors_dict
        import random as _r
        _r.seed(case.get("seed", 0))
        for i, u in enumerate(case["users"]):
            c = colls.acquire(f"u{i}")
            for sid, ts in u["adds"]:
                state["now"] = ts
                c.collect(sample(u["kind"], sid))
                if u.get("update_each"):
                    usersA[f"u{i}"].update()
        trainersA = TrainersDict({f"t{i}": Tr() for i, _ in enumerate(case["trainers"])})
        for i, t in enumerate(case["trainers"]):
            if t["marker"] is not None:
                trainersA[f"t{i}"]._previous_training_time = float(t["marker"])     # harness shortcut: any float value of progress
        modelsA = TrainingModelsDict({f"m{i}": TM(m["v"]) for i, m in enumerate(case["models"])})
        agentA = Ag(case["agent"])
        fakeA = FakeTime()
        modA = fresh_pamiq_time(fakeA)
        ck = case["clock"]
        fakeA.now = ck["raw_a"]
        tcA = modA.TimeController()
        tcA.set_time_scale(ck["scale"])
        fakeA.now += ck["adv1"]
        if ck.get("paused"):
            tcA.pause()
            fakeA.now += ck["adv1"]
        store = StateStore(Path(tmp) / "states")
        for name, obj in (("interaction", agentA), ("models", modelsA), ("data", usersA), ("trainers", trainersA), ("time", tcA)):
            store.register(name, obj)

        def observe(users, kinds):
            out = []
            for i, k in enumerate(kinds):
                du = users[f"u{i}"]
                out.append({"items": ids_of(k, du.get_data()), "len": len(du), "counts": [du.count_data_added_since(p / TICK) for p in case["probes"]],
                            "q": du._buffer.max_queue_size})
            return out

        kinds = [u["kind"] for u in case["users"]]
        p = store.save_state()
        # observation of side A is taken AFTER the save (save_state hands over first; getters do not change anything)
        before = {"users": observe(usersA, kinds), "markers": [repr(trainersA[f"t{i}"]._previous_training_time) for i in range(len(case["trainers"]))],
                  "versions": [modelsA.inference_models_dict[f"m{i}"].infer() if False else modelsA[f"m{i}"].v for i in range(len(case["models"]))],
                  "agents": agentA.flat(), "clock": fr(tcA.time())}
        # ---- side B: freshly constructed, then loaded
        usersB = DataUsersDict.from_data_buffers({f"u{i}": mkbuf(u["kind"], u["cap2"], u.get("p", 1.0)) for i, u in enumerate(case["users"])})
        trainersB = TrainersDict({f"t{i}": Tr() for i, _ in enumerate(case["trainers"])})
        modelsB = TrainingModelsDict({f"m{i}": TM(-7) for i, _ in enumerate(case["models"])})
        infB = modelsB.inference_models_dict
        agentB = Ag(blank(case["agent"]))
        fakeB = FakeTime()
        modB = fresh_pamiq_time(fakeB)
        fakeB.now = ck["raw_b"]
        tcB = modB.TimeController()
        tcB.set_time_scale(ck["scale_b"])
        fakeB.now += 1.25
        store2 = StateStore(Path(tmp) / "states")
        for name, obj in (("interaction", agentB), ("models", modelsB), ("data", usersB), ("trainers", trainersB), ("time", tcB)):
            store2.register(name, obj)
        store2.load_state(p)
        clock_loaded = fr(tcB.time())
        fakeB.now += ck["adv2"]
        after_users = observe(usersB, kinds)
        # the loaded components go on living: further arrivals on side B (sequential buffers only)
        collsB = usersB.data_collectors_dict
        any_more = False
        for i, u in enumerate(case["users"]):
            if u.get("more"):
                any_more = True
                cB = collsB.acquire(f"u{i}")
                for sid, ts in u["more"]:
                    state["now"] = ts
                    cB.collect(sample(u["kind"], sid))
        more_users = observe(usersB, kinds) if any_more else None
        after = {"users": after_users, "more_users": more_users, "markers": [repr(trainersB[f"t{i}"]._previous_training_time) for i in range(len(case["trainers"]))],
                 "versions": [infB[f"m{i}"].infer() for i in range(len(case["models"]))],
                 "agents": agentB.flat(), "clock": clock_loaded, "clock_later": fr(tcB.time()),
                 "expect_later": fr(Fraction(clock_loaded[0], clock_loaded[1]) + Fraction(ck["scale_b"]) * Fraction(ck["adv2"]))}
        return {"before": before, "after": after}
    finally:
        ptime.time = orig_time
        shutil.rmtree(tmp, ignore_errors=True)


def second_run(arg):
    """fresh interpreter: launch from the saved state and report what the system starts from"""
    a = json.loads(arg)
    import logging
    logging.disable(logging.CRITICAL)
    from harness.sim.system import run_scenario
    spec = a["spec"]
    r = run_scenario(spec)
    r.pop("choices", None)
    print("RESULT " + json.dumps({"loaded": r.get("loaded"), "first": r.get("first"), "outcome": r.get("outcome"), "deadlock": r.get("deadlock")}))


def run_relaunch(case):
    from harness.sim.system import run_scenario
    tmp = tempfile.mkdtemp(prefix="c05r_")
    try:
        spec1 = dict(case["run1"], states_root=tmp)
        r1 = run_scenario(spec1)
        if r1.get("deadlock") is not None or not r1.get("states"):
            return {"error": f"run 1 did not finish: {r1.get('deadlock')}", "outcome": r1.get("outcome")}
        last = r1["states"][-1]
        fin = [e for e in r1["trace"] if e[1] == "save_e"][-1]
        spec2 = dict(case["run2"], states_root=tmp, load_from=last)
        env = dict(os.environ)
        ch = subprocess.run([sys.executable, "-B", __file__, "--second", json.dumps({"spec": spec2})], capture_output=True, text=True, env=env, timeout=300)
        line = [l for l in ch.stdout.splitlines() if l.startswith("RESULT ")]
        if not line:
            return {"error": "second run produced nothing", "stderr": ch.stderr[-800:]}
        r2 = json.loads(line[-1][7:])
        return {"end": {"steps": r1["steps"], "trains": r1["trains"], "hidden": r1.get("hidden"), "info": fin[4] if len(fin) > 4 else None}, "second": r2}
    finally:
        shutil.rmtree(tmp, ignore_errors=True)


def run_torch_trainer(case):
    """trainer progress of the PyTorch trainer (optimizer state) across runs, saves and loads into fresh trainers - also a save
    that follows a load with no run in between; the stand-in torch.optim counts optimizer steps and persists the count"""
    stubs = os.path.join(os.path.dirname(os.path.dirname(os.path.abspath(__file__))), "stubs")
    if stubs not in sys.path:
        sys.path.insert(0, stubs)
    import torch.nn as nn
    import torch.optim as optim
    from pamiq_core.model import TrainingModelsDict
    from pamiq_core.torch import TorchTrainer, TorchTrainingModel

    class Net(nn.Module):
        def __init__(self):
            super().__init__(2, 0)

        def forward(self):
            return [p.read() for p in self.parameters()]

    class HT(TorchTrainer):
        def on_training_models_attached(self):
            self.mm = self.get_torch_training_model("m")

        def create_optimizers(self):
            return {"opt": optim.SGD(self.mm.model.parameters(), lr=1)}

        def train(self):
            for p in self.mm.model.parameters():
                p.grad = 1
            self.optimizers["opt"].step()

    def fresh():
        ht = HT()
        ht.attach_training_models(TrainingModelsDict({"m": TorchTrainingModel(Net(), has_inference_model=True)}))
        return ht

    tmp = tempfile.mkdtemp(prefix="c05t_")
    try:
        ht, steps = fresh(), []
        for k, op in enumerate(case["ops"]):
            if op == "run":
                ht.run()
                steps.append(ht.optimizers["opt"].steps)
            else:                                   # a relaunch: save, then load into a fresh trainer
                p = Path(tmp) / f"t{k}"
                ht.save_state(p)
                ht = fresh()
                ht.load_state(p)
        return {"opt_steps": steps}
    finally:
        shutil.rmtree(tmp, ignore_errors=True)


def main():
    if len(sys.argv) > 2 and sys.argv[1] == "--second":
        return second_run(sys.argv[2])
    import logging
    logging.disable(logging.CRITICAL)
    cases = json.load(sys.stdin)
    out = []
    for c in cases:
        try:
            out.append(run_torch_trainer(c) if c.get("kind") == "torchtrainer" else run_relaunch(c) if c.get("kind") == "relaunch" else run_store(c))
        except BaseException as e:  # noqa: BLE001
            import traceback
            out.append({"error": f"{type(e).__name__}: {e}", "tb": traceback.format_exc()[-1500:]})
    print(json.dumps(out))


if __name__ == "__main__":
    main()
