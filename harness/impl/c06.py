"""C06 implementation runner: a fresh TimeController on a virtual raw clock, driven through its public
methods; outputs are reported as exact fractions of the returned floats."""
import json
import sys
from fractions import Fraction

from harness.sim.faketime import FakeTime, fresh_pamiq_time


def fr(x):
    f = Fraction(x)
    return [f.numerator, f.denominator]


def run_case(case, fake, mod):
    fake.now = case["now0"][0] / case["now0"][1]
    fake.sleeps = []
    tc = mod.TimeController()
    outs = []
    for op in case["ops"]:
        k = op[0]
        if k == "read":
            outs.append(["q", fr({"T": tc.time, "P": tc.perf_counter, "M": tc.monotonic}[op[1]]())])
        elif k == "setscale":
            try:
                tc.set_time_scale(op[1][0] / op[1][1])
                outs.append(["none"])
            except AssertionError:
                outs.append(["err"])
        elif k == "getscale":
            outs.append(["q", fr(tc.get_time_scale())])
        elif k == "ispaused":
            outs.append(["b", bool(tc.is_paused())])
        elif k == "pause":
            tc.pause(); outs.append(["none"])
        elif k == "resume":
            tc.resume(); outs.append(["none"])
        elif k == "export":
            d = tc.state_dict()
            outs.append(["tri", fr(d["scaled_anchor_time"]), fr(d["scaled_anchor_perf_counter"]), fr(d["scaled_anchor_monotonic"])])
        elif k == "load":
            tc.load_state_dict({"scaled_anchor_time": op[1][0] / op[1][1], "scaled_anchor_perf_counter": op[2][0] / op[2][1],
                                "scaled_anchor_monotonic": op[3][0] / op[3][1]})
            outs.append(["none"])
        elif k == "sleep":
            before = fake.now
            tc.sleep(op[1][0] / op[1][1])
            outs.append(["q", fr(fake.now - before)])
        elif k == "advance":
            fake.now += op[1][0] / op[1][1]
            outs.append(["none"])
    return {"outs": outs}


def main():
    cases = json.load(sys.stdin)
    fake = FakeTime()
    mod = fresh_pamiq_time(fake)
    out = []
    for c in cases:
        try:
            if c.get("kind") == "line":
                from harness.impl.c06line import run_line_case
                out.append(run_line_case(c))
                continue
            out.append(run_case(c, fake, mod))
        except Exception as e:  # noqa: BLE001
            import traceback
            out.append({"error": f"{type(e).__name__}: {e}", "tb": traceback.format_exc()[-600:]})
    print(json.dumps(out))


if __name__ == "__main__":
    main()
