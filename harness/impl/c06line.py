"""C06 at source-line granularity: two sim threads call the public methods of one real TimeController (imported on top
of the sim threading / time modules, so its RLock is the sim lock and its raw clocks are the virtual clock); every
'line' event inside pamiq_core/time.py and every lock operation is a scheduling point; the schedule is 'stay on the
current thread, switch at the given choice indices'.  Real time passes through ["adv", d] operations (a virtual
sleep outside the lock: nobody else is running meanwhile) and through ["tick", d] operations (the clock jumps while the other
thread is suspended between two of its lines, anywhere outside the clock's lock).

The run is reported as ONE sequential history: the operations in the order in which they took the lock, with the real
time that passed between two consecutive ones, and the outputs observed - i.e. as an ordinary C06 case, which Coq then
compares with the sequential model ("concurrent callers observe values of one single clock")."""
import sys
import warnings
from fractions import Fraction


def fr(x):
    f = Fraction(x)
    return [f.numerator, f.denominator]


def run_line_case(case):
    """preemption points are given either as choice indices ("preempt") or as fractions of the length of the
    un-preempted run ("preempt_frac"): then the program is first run straight through to measure that length"""
    if case.get("preempt_frac"):
        n = _run(dict(case, preempt=[], preempt_frac=None)).get("choices", 0)
        pts = sorted({min(max(int(f * n), 0), max(n - 1, 0)) for f in case["preempt_frac"]})
        r = _run(dict(case, preempt=pts, preempt_frac=None))
        r["preempt_used"] = pts
        return r
    return _run(case)


def _run(case):
    from harness.sim import sched as S
    from harness.sim.boot import boot
    boot()
    import pamiq_core.time as ptime

    warnings.simplefilter("ignore")
    preempt = set(case.get("preempt", []))
    state = {"k": 0}

    import random as _random
    pick = _random.Random(case.get("pick", 0))

    def chooser(s, runnable):
        k = state["k"]
        state["k"] += 1
        cur = s.cur
        others = [t for t in runnable if t is not cur]
        if cur in runnable and (k not in preempt or not others):
            return cur
        # the current thread cannot go on (or is preempted): who goes next is part of the schedule too
        return pick.choice(others) if others else runnable[0]

    sched = S.Sched(chooser, budget=10.0 ** 9, max_events=40000)
    sched.now = case["now0"][0] / case["now0"][1]
    sched.lock_yields = True
    S.set_sched(sched)
    fname = ptime.__file__

    def tracer(frame, event, arg):
        if frame.f_code.co_filename != fname:
            return None

        def local(frame, event, arg):
            if event == "line":
                S.SCHED.yield_point()
            return local
        return local

    tc = ptime.TimeController()
    tc._lock.name = "clock"
    log = []

    def acq(thread):
        # index in the trace, and the raw instant, of the latest outermost acquisition of the clock's lock by this thread
        for i in range(len(sched.trace) - 1, -1, -1):
            e = sched.trace[i]
            if e[0] == thread and e[1] == "acquire":
                return i
        return -1

    stamps = {}
    orig_log = sched.log

    def logf(*label):
        orig_log(*label)
        if label and label[0] == "acquire":
            stamps[len(sched.trace) - 1] = sched.now
    sched.log = logf

    def worker(name, ops):
        def run():
            sys.settrace(tracer)
            try:
                for op in ops:
                    k = op[0]
                    if k == "adv":
                        sys.settrace(None)
                        S.sim_sleep(op[1][0] / op[1][1])
                        sys.settrace(tracer)
                        continue
                    if k == "tick":
                        # real time passes while the OTHER thread is suspended wherever it happens to be - but not while
                        # somebody is inside the clock's lock (all of an operation's raw readings are taken at one instant)
                        if tc._lock.owner is None:
                            sched.now += op[1][0] / op[1][1]
                        continue
                    if k == "read":
                        out = ["q", fr({"T": tc.time, "P": tc.perf_counter, "M": tc.monotonic}[op[1]]())]
                    elif k == "setscale":
                        try:
                            tc.set_time_scale(op[1][0] / op[1][1]); out = ["none"]
                        except AssertionError:
                            out = ["err"]
                    elif k == "getscale":
                        out = ["q", fr(tc.get_time_scale())]
                    elif k == "ispaused":
                        out = ["b", bool(tc.is_paused())]
                    elif k == "pause":
                        tc.pause(); out = ["none"]
                    elif k == "resume":
                        tc.resume(); out = ["none"]
                    elif k == "export":
                        d = tc.state_dict()
                        out = ["tri", fr(d["scaled_anchor_time"]), fr(d["scaled_anchor_perf_counter"]), fr(d["scaled_anchor_monotonic"])]
                    elif k == "load":
                        tc.load_state_dict({"scaled_anchor_time": op[1][0] / op[1][1], "scaled_anchor_perf_counter": op[2][0] / op[2][1],
                                            "scaled_anchor_monotonic": op[3][0] / op[3][1]})
                        out = ["none"]
                    else:
                        raise ValueError(k)
                    if k == "setscale" and out == ["err"]:
                        # the assertion fails before the lock is taken: serialise it at its own position in program order
                        log.append({"op": op, "out": out, "stamp": None, "thread": name})
                    else:
                        log.append({"op": op, "out": out, "stamp": acq(name), "thread": name})
            finally:
                sys.settrace(None)
        return run

    def main():
        a = S.Thread(target=worker("A", case["A"]), name="A")
        b = S.Thread(target=worker("B", case["B"]), name="B")
        a.start(); b.start()
        a.join(); b.join()

    now0 = sched.now
    try:
        sched.run(main, "main", wall_timeout=30.0)
    finally:
        S.set_sched(None)
    if sched.deadlock is not None:
        return {"error": f"deadlock: {sched.deadlock}"}
    # operations that never took the lock (a rejected set_time_scale) have no effect and no position of their own:
    # place each right after the previous operation of its thread
    last = {}
    for e in log:
        if e["stamp"] is None:
            e["stamp"] = last.get(e["thread"], -1) + 0.5
        else:
            last[e["thread"]] = e["stamp"]
    order = sorted(log, key=lambda e: e["stamp"])
    ops, outs, t = [], [], now0
    for e in order:
        st = e["stamp"]
        at = stamps.get(int(st), None) if float(st).is_integer() else None
        if at is not None and at != t:
            ops.append(["advance", fr(Fraction(at) - Fraction(t))]); outs.append(["none"])
            t = at
        ops.append(e["op"]); outs.append(e["out"])
    return {"outs": outs, "serial_ops": ops, "choices": state["k"],
            "switches": sum(1 for a, b in zip(sched.trace, sched.trace[1:]) if a[0] != b[0] and a[0] in "AB" and b[0] in "AB")}
