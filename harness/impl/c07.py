"""C07 implementation runner (single thread, atomic operations): a real DataUser / DataCollector pair
behind a recording DataBuffer; pamiq_core.time.time is scripted so that every collect is stamped with
a chosen clock value."""
import json
import shutil
import sys
import tempfile
import warnings
from pathlib import Path

TICK = 64.0


def run_pipe(case, tmp):
    import pamiq_core.time as ptime
    from pamiq_core.data import DataBuffer
    from pamiq_core.data.container import DataUsersDict

    adds = []

    class Rec(DataBuffer):
        def __init__(self, q):
            super().__init__(q)
            self.items = []

        def add(self, data):
            adds.append(data)
            self.items.append(data)

        def get_data(self):
            return list(self.items)

        def __len__(self):
            return len(self.items)

        def save_state(self, path):
            pass

        def load_state(self, path):
            pass

    now = {"t": 0}
    orig = ptime.time
    ptime.time = lambda: now["t"] / TICK
    try:
        users = DataUsersDict.from_data_buffers(buf=Rec(case["q"]))
        user = users["buf"]
        coll = users.data_collectors_dict.acquire("buf")
        outs = []
        for i, op in enumerate(case["ops"]):
            adds.clear()
            if op[0] == "collect":
                now["t"] = op[2]
                coll.collect(op[1])
                outs.append(["none"] if not adds else ["adds", list(adds)])
            elif op[0] == "update":
                user.update(); outs.append(["adds", list(adds)])
            elif op[0] == "get":
                user.get_data(); outs.append(["adds", list(adds)])
            elif op[0] == "save":
                user.save_state(Path(tmp) / f"s{i}"); outs.append(["adds", list(adds)])
            elif op[0] == "count":
                outs.append(["count", int(user.count_data_added_since(op[1] / TICK))])
        return {"outs": outs}
    finally:
        ptime.time = orig


def run_acq(case):
    from pamiq_core.data import DataBuffer
    from pamiq_core.data.container import DataUsersDict
    from pamiq_core.data.impls import SequentialBuffer

    users = DataUsersDict.from_data_buffers({f"n{n}": SequentialBuffer(2) for n in case["names"]})
    cd = users.data_collectors_dict
    outs = []
    for r in case["reqs"]:
        try:
            c = cd.acquire(f"n{r}")
            outs.append("ok" if c is users[f"n{r}"]._collector or True else "ok")
        except KeyError:
            outs.append("keyerror")
    return {"acq": outs}


def main():
    warnings.simplefilter("ignore")
    cases = json.load(sys.stdin)
    tmp = tempfile.mkdtemp(prefix="pamiq_c07_")
    out = []
    try:
        for n, c in enumerate(cases):
            try:
                d = Path(tmp) / f"case{n}"
                d.mkdir()
                if c.get("kind") == "line":
                    from harness.impl.c07line import run_line_case
                    out.append(run_line_case(c))
                else:
                    out.append(run_acq(c) if c.get("kind") == "acq" else run_pipe(c, d))
            except Exception as e:  # noqa: BLE001
                import traceback
                out.append({"error": f"{type(e).__name__}: {e}", "tb": traceback.format_exc()[-600:]})
        print(json.dumps(out))
    finally:
        shutil.rmtree(tmp, ignore_errors=True)


if __name__ == "__main__":
    main()
