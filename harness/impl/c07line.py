"""C07 at source-line granularity: one collecting and one consuming sim thread over the real DataCollector /
DataUser; every 'line' event inside pamiq_core/data/interface.py and every lock operation is a yield point;
the schedule is 'run the current thread, but switch at the given choice indices' (bounded preemption).

The run is reported as the serialised operation list (order of lock acquisitions) with the outputs observed,
i.e. as an ordinary C07 pipe case: Coq then checks that the interleaved execution equals the atomic one."""
import sys
import warnings


def run_line_case(case):
    if case.get("preempt_frac"):
        n = _run(dict(case, preempt=[], preempt_frac=None)).get("choices", 0)
        pts = sorted({min(max(int(f * n), 0), max(n - 1, 0)) for f in case["preempt_frac"]})
        r = _run(dict(case, preempt=pts, preempt_frac=None))
        r["preempt_used"] = pts
        return r
    return _run(case)


def _run(case):
    from harness.sim import sched as S
    from harness.sim.boot import boot
    boot()
    import pamiq_core.time as ptime
    from pamiq_core.data import DataBuffer
    from pamiq_core.data.container import DataUsersDict
    import pamiq_core.data.interface as iface

    warnings.simplefilter("ignore")
    TICK = 64.0
    adds = []

    class Rec(DataBuffer):
        def __init__(self, q):
            super().__init__(q)
            self.items = []

        def add(self, data):
            adds.append(data)
            self.items.append(data)

        def get_data(self):
            return list(self.items)

        def __len__(self):
            return len(self.items)

        def save_state(self, path):
            pass

        def load_state(self, path):
            pass

    preempt = set(case.get("preempt", []))
    state = {"k": 0}

    def chooser(s, runnable):
        k = state["k"]
        state["k"] += 1
        cur = s.cur
        others = [t for t in runnable if t is not cur]
        if cur in runnable and (k not in preempt or not others):
            return cur
        return others[0] if others else runnable[0]

    sched = S.Sched(chooser, budget=10.0, max_events=20000)
    sched.lock_yields = True
    S.set_sched(sched)
    fname = iface.__file__

    def tracer(frame, event, arg):
        if frame.f_code.co_filename != fname:
            return None

        def local(frame, event, arg):
            if event == "line":
                S.SCHED.yield_point()
            return local
        return local

    now = {"t": 0}
    orig_time = ptime.time
    ptime.time = lambda: now["t"] / TICK
    users = DataUsersDict.from_data_buffers(buf=Rec(case["q"]))
    user = users["buf"]
    coll = users.data_collectors_dict.acquire("buf")
    coll._lock.name = "collector"
    log = []          # completed operations in completion order, each with its lock-acquisition stamp
    import tempfile, shutil
    from pathlib import Path
    tmp = tempfile.mkdtemp(prefix="pamiq_c07l_")

    def acq_since(thread, start):
        """the operation's linearisation point: its (first) acquisition of the collector's lock since it began; an
        operation that never took the lock is placed where it began"""
        for i in range(start, len(sched.trace)):
            e = sched.trace[i]
            if e[0] == thread and e[1] == "acquire":
                return i
        return start - 0.25

    def acq_index(thread):
        # index in the trace of the latest 'acquire collector' by this thread
        for i in range(len(sched.trace) - 1, -1, -1):
            e = sched.trace[i]
            if e[0] == thread and e[1] == "acquire":
                return i
        return -1

    def collector():
        sys.settrace(tracer)
        try:
            for ident, t in case["collects"]:
                now["t"] = t                      # the clock value this collect reads (set just before the call)
                start = len(sched.trace)
                coll.collect(ident)
                log.append({"op": ["collect", ident, t], "out": ["none"], "stamp": acq_since("collector", start)})
        finally:
            sys.settrace(None)

    def consumer():
        sys.settrace(tracer)
        try:
            for n, op in enumerate(case["consumer"]):
                before = len(adds)
                start = len(sched.trace)
                if op[0] == "update":
                    user.update()
                elif op[0] == "get":
                    user.get_data()
                elif op[0] == "save":
                    user.save_state(Path(tmp) / f"s{n}")
                if op[0] == "count":
                    log.append({"op": op, "out": ["count", int(user.count_data_added_since(op[1] / TICK))], "stamp": None})
                else:
                    log.append({"op": op, "out": ["adds", list(adds[before:])], "stamp": acq_since("consumer", start)})
        finally:
            sys.settrace(None)

    def main():
        a = S.Thread(target=collector, name="collector")
        b = S.Thread(target=consumer, name="consumer")
        a.start(); b.start()
        a.join(); b.join()

    try:
        sched.run(main, "main", wall_timeout=30.0)
    finally:
        ptime.time = orig_time
        S.set_sched(None)
        shutil.rmtree(tmp, ignore_errors=True)
    if sched.deadlock is not None:
        return {"error": f"deadlock: {sched.deadlock}"}
    # serialise: lock-taking operations by their acquisition stamp; a count goes right after the consumer
    # operation that precedes it in program order
    cons = [e for e in log if e["op"][0] != "collect"]
    last = -1
    for e in cons:
        if e["stamp"] is None:
            e["stamp"] = last + 0.5
        else:
            last = e["stamp"]
    order = sorted(log, key=lambda e: e["stamp"])
    # the timestamp a collect recorded is the clock value when it ran; with the clock set per collect this is its own t,
    # unless another collect's assignment intervened - there is only one collecting thread, so it cannot
    return {"ops": [e["op"] for e in order], "outs": [e["out"] for e in order], "choices": state["k"],
            "switches": sum(1 for a, b in zip(sched.trace, sched.trace[1:]) if a[0] != b[0])}
