"""C08 implementation runner.
kind "book": a real InferenceThread.on_tick driven directly (no threads) with a scripted, adversarial clock:
  pamiq_core.time.time and pamiq_core.time.fixed_time return the next value of a list on every read; the
  interaction is a stub; what log_tick_time_statistics logs is captured from the thread's logger.
otherwise: a whole launch() under the deterministic scheduler (harness/sim/system.run_scenario)."""
import json
import logging
import re
import sys

TICK = 64.0


def run_book(case):
    import pamiq_core.time as ptime
    from pamiq_core.thread.threads.inference import InferenceThread

    seg: list = []
    state = {"pending": list(case["reads"]), "last": 0}

    unit = case.get("unit")          # seconds per tick (non-dyadic on purpose); default: 1/64 s, exact in floats

    def clock():
        if state["pending"]:
            state["last"] = state["pending"].pop(0)
        v = state["last"]
        seg.append(["r", v])
        return v * unit if unit else v / TICK

    class StubInteraction:
        def setup(self): pass
        def step(self): pass
        def teardown(self): pass

    logged: list = []

    class H(logging.Handler):
        def emit(self, record):
            m = re.search(r"in (\d+) steps", record.getMessage())
            if m:
                logged.append(int(m.group(1)))

    orig_time, orig_fixed = ptime.time, ptime.fixed_time
    ptime.time = clock
    ptime.fixed_time = clock
    h = H()
    try:
        # with a non-dyadic unit the interval lies half a tick beyond ivl ticks, so that no comparison is decided by rounding
        ivl_s = (case["ivl"] + 0.5) * unit if unit else case["ivl"] / TICK
        th = InferenceThread(StubInteraction(), log_tick_time_statistics_interval=ivl_s)
        th._logger.addHandler(h)
        th._logger.setLevel(logging.INFO)
        th._logger.disabled = False
        # the statistics callback is entered through the scheduler: mark its begin in the event stream
        inner = th._log_tick_time_scheduler._callbacks[0] if hasattr(th._log_tick_time_scheduler, "_callbacks") else None
        if inner is not None:
            def marked():
                seg.append(["c", 0])
                try:
                    inner()
                except BaseException:
                    seg.append(["raise"])
                    raise
            th._log_tick_time_scheduler._callbacks[0] = marked
        ctor = list(seg); seg.clear()
        ticks = []
        for _ in range(case["ticks"]):
            logged.clear()
            try:
                th.on_tick()
                out = ["logged", logged[-1]] if logged else ["quiet"]
            except Exception as e:  # noqa: BLE001
                out = ["raise", type(e).__name__]
            ticks.append([list(seg), out]); seg.clear()
            if out[0] == "raise":
                break
        from harness.impl.c15 import probe_strict
        ptime.time, ptime.fixed_time = orig_time, orig_fixed
        return {"ctor": ctor, "ticks": ticks, "marked": inner is not None, "strict": probe_strict()}
    finally:
        ptime.time, ptime.fixed_time = orig_time, orig_fixed


def main():
    prev_disable = logging.root.manager.disable
    cases = json.load(sys.stdin)
    out = []
    for c in cases:
        try:
            if c.get("kind") == "book":
                logging.disable(logging.NOTSET)
                out.append(run_book(c))
            else:
                logging.disable(logging.CRITICAL)
                from harness.sim.system import run_scenario
                r = run_scenario(c)
                r.pop("choices", None)
                out.append(r)
        except BaseException as e:  # noqa: BLE001
            import traceback
            out.append({"error": f"{type(e).__name__}: {e}", "tb": traceback.format_exc()[-1200:]})
    logging.disable(prev_disable)
    print(json.dumps(out))


if __name__ == "__main__":
    main()
