"""C10 implementation runner: real launch() (real threads, a few milliseconds of uptime) over a generated
component set, with a recorder of the file-system operations of one StateStore.save_state (runtime or final).
Every crash state of that save (each operation prefix, and truncations of the file being written) is
materialised in the states directory next to the older states, and a fresh launch(saved_state_path=that) is
attempted with Thread.start counted.  A sample of crash points is produced by a REAL kill (os._exit in a
child process at the k-th operation)."""
import builtins
import hashlib
import io
import json
import os
import shutil
import subprocess
import sys
import tempfile
import threading
from pathlib import Path


def build(case):
    from pamiq_core import Agent, Environment, Interaction
    from pamiq_core.data.impls import RandomReplacementBuffer, SequentialBuffer
    from pamiq_core.model import InferenceModel, TrainingModel
    from pamiq_core.trainer import Trainer

    class Ag(Agent):
        def __init__(self, spec):
            super().__init__({k: Ag(v) for k, v in spec.get("children", {}).items()} or None)
            self.own = spec.get("own", True)
            self.n = 0

        def step(self, observation):
            self.n += 1
            return 0

        def save_state(self, path):
            if self.own:
                path.mkdir()
                (path / "steps").write_text(str(self.n))
            super().save_state(path)

        def load_state(self, path):
            if self.own:
                self.n = int((path / "steps").read_text())
            super().load_state(path)

    class Env(Environment):
        def __init__(self, own):
            self.own = own

        def observe(self):
            return 0

        def affect(self, action):
            pass

        def save_state(self, path):
            if self.own:
                path.mkdir()
                (path / "env.bin").write_bytes(b"e" * 17)

        def load_state(self, path):
            if self.own:
                if len((path / "env.bin").read_bytes()) != 17:
                    raise ValueError("env state truncated")

    class Inf(InferenceModel):
        def infer(self, *a, **k):
            return None

    class TM(TrainingModel):
        def __init__(self):
            super().__init__(has_inference_model=True, inference_thread_only=False)
            self.w = 0

        def _create_inference_model(self):
            return Inf()

        def forward(self, *a, **k):
            return None

        def sync_impl(self, inference_model):
            pass

        def save_state(self, path):
            path.mkdir()
            (path / "w.bin").write_bytes(b"w" * 33)

        def load_state(self, path):
            if len((path / "w.bin").read_bytes()) != 33:
                raise ValueError("model state truncated")

    class Tr(Trainer):
        def train(self):
            pass

    def buf(b):
        if b["kind"] == "rr":
            return RandomReplacementBuffer(b["size"])
        return SequentialBuffer(b["size"])

    inter = Interaction(Ag(case["agent"]), Env(case.get("env_own", True)))
    models = {f"m{i}": TM() for i in range(case["models"])}
    buffers = {b["name"]: buf(b) for b in case["buffers"]}
    trainers = {t: Tr() for t in case["trainers"]}
    return inter, models, buffers, trainers


class Recorder:
    """records mkdir / open-for-writing under [base] while active"""

    def __init__(self, base):
        self.base = str(base)
        self.ops = []
        self.active = False
        self.kill_at = None
        self._mkdir, self._bopen, self._iopen = os.mkdir, builtins.open, io.open

    def _rel(self, p):
        p = os.fspath(p)
        return p if p.startswith(self.base) else None

    def _tick(self):
        if self.kill_at is not None and len(self.ops) == self.kill_at:
            os._exit(9)

    def install(self):
        rec = self

        def mkdir(path, *a, **k):
            if rec.active and rec._rel(path):
                rec._tick()
                r = rec._mkdir(path, *a, **k)
                rec.ops.append(["mkdir", os.fspath(path)])
                return r
            return rec._mkdir(path, *a, **k)

        def mk_open(orig):
            def op(file, mode="r", *a, **k):
                if rec.active and not isinstance(file, int) and rec._rel(file) and any(c in mode for c in "wax+"):
                    rec._tick()
                    f = orig(file, mode, *a, **k)
                    rec.ops.append(["write", os.fspath(file)])
                    if rec.kill_at is not None and len(rec.ops) == rec.kill_at + 1 and rec.kill_bytes is not None:
                        # die while this file is being written: flush exactly kill_bytes bytes
                        w = f.write

                        def write(data):
                            d = data[: rec.kill_bytes]
                            w(d); f.flush(); os._exit(9)
                        f.write = write
                    return f
                return orig(file, mode, *a, **k)
            return op
        os.mkdir = mkdir
        builtins.open = mk_open(self._bopen)
        io.open = mk_open(self._iopen)

    def uninstall(self):
        os.mkdir, builtins.open, io.open = self._mkdir, self._bopen, self._iopen

    kill_bytes = None


def tree_hash(d):
    h = hashlib.sha256()
    for root, dirs, files in sorted(os.walk(d)):
        dirs.sort()
        h.update(os.path.relpath(root, d).encode())
        for f in sorted(files):
            h.update(f.encode()); h.update(Path(root, f).read_bytes())
    return h.hexdigest()


def do_launch(case, states_dir, saved=None, record=None, target=None, fill=True):
    """one real launch; returns (exception or None, threads started, list of state paths saved by it)"""
    import pamiq_core as pc
    from pamiq_core.state_persistence import StateStore
    inter, models, buffers, trainers = build(case)
    saved_paths = []
    orig_save = StateStore.save_state
    ncall = {"n": 0}

    def save(self):
        ncall["n"] += 1
        me = ncall["n"]
        if record is not None and me == target:
            record.active = True
        try:
            p = orig_save(self)
        finally:
            if record is not None:
                record.active = False
        saved_paths.append(str(p))
        return p

    started = {"n": 0}
    orig_start = threading.Thread.start

    def start(self):
        started["n"] += 1
        return orig_start(self)

    ticks = {"n": 0}

    def cond():
        ticks["n"] += 1
        return case["mode"] == "runtime" and ticks["n"] == 2

    StateStore.save_state = save
    threading.Thread.start = start
    exc = None
    try:
        if fill:
            for b in case["buffers"]:
                for i in range(b["items"]):
                    buffers[b["name"]].add(i)
        cfg = pc.LaunchConfig(states_dir=states_dir, saved_state_path=saved, max_uptime=case.get("uptime", 0.02),
                              save_state_condition=cond, web_api_address=None, timeout_for_all_threads_pause=5.0)
        pc.launch(inter, models, buffers, trainers, cfg)
    except BaseException as e:  # noqa: BLE001
        exc = e
    finally:
        StateStore.save_state = orig_save
        threading.Thread.start = orig_start
    return exc, started["n"], saved_paths


def crash_points(ops, sizes, trunc):
    pts = []
    for k in range(len(ops) + 1):
        pts.append((k, None))
        if k < len(ops) and ops[k][0] == "write":
            n = sizes[k]
            js = range(0, n + 1) if trunc == "all" else sorted({0, 1, n // 2, n - 1, n} & set(range(0, n + 1)))
            for j in js:
                pts.append((k, j))
    return pts


def materialise(complete_dir, target_dir, ops, k, j):
    """rebuild [target_dir] as the crash state (k, j) of the recorded save, copying content from the complete state"""
    if os.path.exists(target_dir):
        shutil.rmtree(target_dir)
    for i, (kind, p) in enumerate(ops[:k]):
        dst = p
        if kind == "mkdir":
            os.mkdir(dst)
        else:
            shutil.copyfile(os.path.join(complete_dir, os.path.relpath(p, target_dir)), dst)
    if j is not None:
        kind, p = ops[k]
        data = Path(os.path.join(complete_dir, os.path.relpath(p, target_dir))).read_bytes()
        Path(p).write_bytes(data[:j])


def run_case(case):
    tmp = tempfile.mkdtemp(prefix="c10_")
    try:
        states = Path(tmp) / "states"
        states.mkdir()
        # older, complete states
        older = []
        for _ in range(case["older"]):
            e, _, sp = do_launch(dict(case, mode="final"), states)
            if e is not None:
                return {"error": f"older launch failed: {type(e).__name__}: {e}"}
            older.append(sp[-1])
        rec = Recorder(states)
        rec.install()
        try:
            target = 1 if case["mode"] == "runtime" else None
            # the recorded launch: the target save is the first (runtime) or the last (final) call
            if case["mode"] == "runtime":
                e, _, sp = do_launch(case, states, record=rec, target=1)
            else:
                e, _, sp = do_launch(case, states, record=rec, target=1)   # no runtime save: the final one is call 1
        finally:
            rec.uninstall()
        if e is not None:
            return {"error": f"recorded launch failed: {type(e).__name__}: {e}"}
        if not sp or not rec.ops:
            return {"error": "nothing recorded", "saved": sp}
        root = sp[0]
        later = [p for p in sp[1:]]
        for p in later:           # a runtime save is followed by the final one: keep only states older than the target
            shutil.rmtree(p)
        ops = rec.ops
        if ops[0] != ["mkdir", root]:
            return {"error": "first op is not the state directory", "ops": ops[:3], "root": root}
        complete = os.path.join(tmp, "complete")
        shutil.copytree(root, complete)
        sizes = [os.path.getsize(p) if k == "write" else 0 for k, p in ops]
        older_hash = {p: tree_hash(p) for p in older}
        results = []
        for k, j in crash_points(ops, sizes, case.get("trunc", "sample")):
            materialise(complete, root, ops, k, j)
            if not os.path.exists(root):
                # the crash came before the state directory existed: nothing to load from; older states only
                results.append({"k": k, "j": j, "rejected": True, "threads": 0, "exc": "no-directory",
                                "older_intact": all(tree_hash(p) == h for p, h in older_hash.items())})
                continue
            before = set(os.listdir(states))
            e, nthreads, sp2 = do_launch(dict(case, mode="final", uptime=0.0), states, saved=root, fill=False)
            for p in set(os.listdir(states)) - before:
                shutil.rmtree(states / p)
            results.append({"k": k, "j": j, "rejected": e is not None, "threads": nthreads, "exc": type(e).__name__ if e else None,
                            "older_intact": all(tree_hash(p) == h for p, h in older_hash.items())})
        # a sample of REAL kills: a child process dies at the k-th operation of the same save
        kills = []
        for k, jb in case.get("kills", []):
            if k >= len(ops):
                continue
            shutil.rmtree(root, ignore_errors=True)
            env = dict(os.environ)
            child = subprocess.run([sys.executable, "-B", __file__, "--child", json.dumps({"case": case, "states": str(states), "k": k, "jb": jb})],
                                   capture_output=True, text=True, env=env, timeout=120)
            new = [str(states / p) for p in os.listdir(states) if str(states / p) not in older]
            torn = new[0] if new else None
            rej, nthreads, exn = True, 0, "no-directory"
            if torn is not None:
                before = set(os.listdir(states))
                e, nthreads, _ = do_launch(dict(case, mode="final", uptime=0.0), states, saved=torn, fill=False)
                for p in set(os.listdir(states)) - before:
                    shutil.rmtree(states / p)
                rej, exn = e is not None, (type(e).__name__ if e else None)
            kills.append({"k": k, "jb": jb, "child_exit": child.returncode, "rejected": rej, "threads": nthreads, "exc": exn,
                          "older_intact": all(tree_hash(p) == h for p, h in older_hash.items()), "left": sorted(os.listdir(torn)) if torn else None})
            for p in new:
                shutil.rmtree(p, ignore_errors=True)
        rel = lambda p: list(Path(p).relative_to(states).parts)  # noqa: E731
        return {"root": rel(root), "ops": [[k, rel(p), s] for (k, p), s in zip(ops, sizes)], "older": [rel(p) for p in older],
                "results": results, "kills": kills, "collision": name_collision(Path(tmp) / "coll")}
    finally:
        shutil.rmtree(tmp, ignore_errors=True)


def name_collision(d):
    """a save that fails because its directory name is taken (a coarse name format, two saves within one clock tick):
    it must raise and leave the completed state that owns the name exactly as it was"""
    from pamiq_core.state_persistence import PersistentStateMixin, StateStore

    class Blob(PersistentStateMixin):
        def __init__(self, payload):
            self.payload = payload

        def save_state(self, path):
            path.mkdir()
            (path / "blob.bin").write_bytes(self.payload)

        def load_state(self, path):
            self.payload = (path / "blob.bin").read_bytes()

    d.mkdir()
    st = StateStore(d, state_name_format="fixed-name.state")
    st.register("a", Blob(b"first " * 50))
    st.register("b", Blob(b"second " * 20))
    first = st.save_state()
    before = tree_hash(first)
    raised = None
    try:
        st.save_state()
    except BaseException as e:  # noqa: BLE001
        raised = type(e).__name__
    return {"raised": raised, "intact": os.path.isdir(first) and tree_hash(first) == before}


def child_main(arg):
    a = json.loads(arg)
    import logging
    logging.disable(logging.CRITICAL)
    rec = Recorder(a["states"])
    rec.kill_at, rec.kill_bytes = a["k"], a["jb"]
    rec.install()
    do_launch(a["case"], Path(a["states"]), record=rec, target=1)
    os._exit(0)


def main():
    if len(sys.argv) > 2 and sys.argv[1] == "--child":
        return child_main(sys.argv[2])
    import logging
    logging.disable(logging.CRITICAL)
    cases = json.load(sys.stdin)
    out = []
    for c in cases:
        try:
            out.append(run_case(c))
        except BaseException as e:  # noqa: BLE001
            import traceback
            out.append({"error": f"{type(e).__name__}: {e}", "tb": traceback.format_exc()[-1500:]})
    print(json.dumps(out))


if __name__ == "__main__":
    main()
