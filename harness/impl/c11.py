"""C11 implementation runner: drives the four built-in buffer classes through their public API with
scripted random draws (module attribute `random` of random_replacement_buffer is replaced)."""
import json
import shutil
import sys
import tempfile
import warnings
from fractions import Fraction
from pathlib import Path


class ScriptedRandom:
    def __init__(self):
        self.r = 0.0
        self.idx = 0
        self.calls = []

    def random(self):
        self.calls.append(["random"])
        return self.r

    def randint(self, a, b):
        self.calls.append(["randint", a, b])
        return self.idx


def run_case(case, tmp):
    import pamiq_core.data.impls.random_replacement_buffer as rrb
    from pamiq_core.data.impls import (DictRandomReplacementBuffer, DictSequentialBuffer,
                                       RandomReplacementBuffer, SequentialBuffer)

    rnd = ScriptedRandom()
    orig_random = rrb.random
    rrb.random = rnd
    warnings.simplefilter("ignore")
    K = case["keys"]
    is_dict = case["dict"]
    try:
        p = None
        surv = case.get("survival")
        if case["kind"] == "rr":
            if surv is not None:
                pf = RandomReplacementBuffer.compute_replace_probability_from_expected_survival_length(case["cap"], surv)
                fr = Fraction(pf)
                p = [fr.numerator, fr.denominator]
            else:
                p = case["p"]

        def make(cap, reload=False):
            if case["kind"] == "seq":
                return DictSequentialBuffer([f"k{k}" for k in K], cap) if is_dict else SequentialBuffer(cap)
            kw = {}
            if surv is not None and not reload:
                kw["expected_survival_length"] = surv
            elif surv is not None:
                kw["replace_probability"] = pf  # the reloaded buffer keeps the probability of the saved one
            else:
                kw["replace_probability"] = case["p"][0] / case["p"][1]
            if case.get("both"):
                kw["expected_survival_length"] = 10
            return DictRandomReplacementBuffer([f"k{k}" for k in K], cap, **kw) if is_dict else RandomReplacementBuffer(cap, **kw)

        try:
            buf = make(case["cap"])
            q = buf.max_queue_size
            ctor = ["ok", q if q is not None else -1]
        except ValueError:
            return {"ctor": ["ValueError"], "obs": [], "p": p}
        except ZeroDivisionError:
            return {"ctor": ["ZeroDivisionError"], "obs": [], "p": p}

        def view(b):
            d = b.get_data()
            if is_dict:
                out = []
                for key in sorted(d, key=lambda s: int(s[1:]) if s[1:].isdigit() else 10**6):
                    out.append([int(key[1:]) if key[1:].isdigit() else 10**6, list(d[key])])
                return out
            return [[0, [x * 16 for x in d]]]

        obs = []
        cap = case["cap"]
        for op in case["ops"]:
            if op[0] == "add":
                _, ident, ks, r, idx = op
                rnd.r = r[0] / r[1]
                rnd.idx = idx
                rnd.calls = []
                err = False
                try:
                    if is_dict:
                        buf.add({f"k{k}": ident * 16 + k for k in ks})
                    else:
                        buf.add(ident)
                except ValueError:
                    err = True
                drew = any(c[0] == "random" for c in rnd.calls)
                bounds = next(([c[1], c[2]] for c in rnd.calls if c[0] == "randint"), None)
                out = ["add", err, drew, bounds]
            elif op[0] == "get":
                out = ["get", view(buf)]
            elif op[0] == "len":
                out = ["len", len(buf)]
            elif op[0] == "mutget":
                d = buf.get_data()
                if is_dict:
                    for v in d.values():
                        v.append(123456)
                        if len(v) > 1:
                            v[0] = 654321
                    d["zzz"] = [1]
                else:
                    d.append(123456)
                    if len(d) > 1:
                        d[0] = 654321
                out = ["get", view(buf)]
            elif op[0] == "saveload":
                path = Path(tmp) / f"s{len(obs)}"
                buf.save_state(path)
                cap = op[1]
                buf = make(cap, reload=True)
                # the buffer that is loaded into need not be empty: loading REPLACES its content
                for j in range(op[2] if len(op) > 2 else 0):
                    rnd.r, rnd.idx, rnd.calls = 0.0, 0, []
                    junk = 9000 + j
                    buf.add({f"k{k}": junk * 16 + k for k in K} if is_dict else junk)
                if len(op) > 3 and op[3]:
                    buf.get_data(); len(buf)        # the buffer that is loaded into has been read before (views may be cached)
                buf.load_state(path)
                out = ["saveload"]
            obs.append([out, view(buf)])
        return {"ctor": ctor, "obs": obs, "p": p}
    except Exception as e:  # noqa: BLE001
        import traceback
        return {"error": f"{type(e).__name__}: {e}", "tb": traceback.format_exc()[-800:]}
    finally:
        rrb.random = orig_random


def main():
    cases = json.load(sys.stdin)
    tmp = tempfile.mkdtemp(prefix="pamiq_c11_")
    try:
        print(json.dumps([run_case(c, tmp) for c in cases]))
    finally:
        shutil.rmtree(tmp, ignore_errors=True)


if __name__ == "__main__":
    main()
