"""C12 implementation runner: builds arbitrary trees from the public composite classes with recording
leaves, issues the eight root events, and records who was reached, under which path, and what data
the leaves saw.  Values are symbolic: a recording wrapper turns v into App(w, v)."""
import json
import shutil
import sys
import tempfile
from pathlib import Path

NAMES = {"agent": 1000, "environment": 1001, "sensor": 1002, "actuator": 1003, "wrapper": 1004, "env": 1005,
         "obs_wrapper": 1006, "act_wrapper": 1007}


class App:
    def __init__(self, w, v):
        self.w, self.v = w, v

    def __getitem__(self, k):
        return App(self.w, self.v[k])


NONE_VALUE = 4999      # the number that stands for Python's None in the model's values


def enc(v):
    if isinstance(v, App):
        return ["app", v.w, enc(v.v)]
    if isinstance(v, dict):
        return ["dict", [[int(k), enc(x)] for k, x in v.items()]]
    if isinstance(v, tuple) and v[0] == "raw":
        return ["raw", v[1]]
    if v is None:
        return ["raw", NONE_VALUE]      # the action leaf the generator made None: a value like any other
    return ["bad"]


def enc_n(v):
    """like enc, but with the reading number every leaf reading carries: two readings of one sensor differ"""
    if isinstance(v, App):
        return ["app", v.w, enc_n(v.v)]
    if isinstance(v, dict):
        return ["dict", [[int(k), enc_n(x)] for k, x in v.items()]]
    if isinstance(v, tuple) and v[0] == "raw":
        return ["raw", v[1], v[2] if len(v) > 2 else None]
    return ["bad"]


def run_case(case, tmp):
    from pamiq_core.data.container import DataCollectorsDict
    from pamiq_core.interaction import Agent, Environment, Interaction
    from pamiq_core.interaction.modular_env import Actuator, ActuatorsDict, ModularEnvironment, Sensor, SensorsDict
    from pamiq_core.interaction.wrappers import ActuatorWrapper, EnvironmentWrapper, SensorWrapper, Wrapper
    from pamiq_core.model import InferenceModelsDict

    log = []
    state = {"root": None, "own": True}

    def rel(path):
        parts = Path(path).relative_to(state["root"]).parts
        return [NAMES[p] if p in NAMES else int(p) for p in parts]

    eq_all = bool(case.get("eq_all"))

    class RecMixin:
        # value-like components (think of dataclasses built with the same parameters): distinct objects of one class
        # compare equal and hash alike - they are still different components, each with its own events and state
        def __eq__(self, other):
            return (type(self) is type(other)) if eq_all else (self is other)

        def __hash__(self):
            return hash(type(self)) if eq_all else id(self)

        def setup(self):
            log.append(["setup", self.ident]); super().setup()

        def teardown(self):
            log.append(["teardown", self.ident]); super().teardown()

        def on_paused(self):
            log.append(["paused", self.ident]); super().on_paused()

        def on_resumed(self):
            log.append(["resumed", self.ident]); super().on_resumed()

        def save_state(self, path):
            log.append(["save", self.ident, rel(path)])
            Path(str(path) + ".leaf").write_text(str(self.ident))
            super().save_state(path)

        def load_state(self, path):
            log.append(["load", self.ident, rel(path)])
            try:
                if Path(str(path) + ".leaf").read_text() != str(self.ident):
                    state["own"] = False
            except OSError:
                state["own"] = False
            super().load_state(path)

    class RAgent(RecMixin, Agent):
        def __init__(self, ident, children):
            Agent.__init__(self, children)
            self.ident = ident

        def on_inference_models_attached(self):
            log.append(["attach_models", self.ident])

        def on_data_collectors_attached(self):
            log.append(["attach_collectors", self.ident])

        def step(self, observation):
            return None

    class RSensor(RecMixin, Sensor):
        def __init__(self, ident):
            self.ident = ident
            self.reads = 0

        def read(self):
            self.reads += 1
            return ("raw", self.ident, self.reads)      # every reading is a new value

    class RActuator(RecMixin, Actuator):
        def __init__(self, ident):
            self.ident = ident

        def operate(self, action):
            log.append(["deliver", self.ident, enc(action)])

    class REnv(RecMixin, Environment):
        def __init__(self, ident):
            self.ident = ident
            self.reads = 0

        def observe(self):
            self.reads += 1
            return ("raw", self.ident, self.reads)

        def affect(self, action):
            log.append(["deliver", self.ident, enc(action)])

    class RWrapper(RecMixin, Wrapper):
        def __init__(self, ident):
            self.ident = ident

        def wrap(self, value):
            return App(self.ident, value)

    # user subclasses of the two dictionary composites, with callbacks, a state and a data hook of their own: the library
    # must keep the very objects it was given in the tree.  Their callbacks and state are part of the log (the model has
    # them as a pseudo-child of the composite, visited after the real children); the data hook is counted here.
    comp = []
    NSELF = 1008

    class SelfMixin:
        def setup(self):
            super().setup(); log.append(["setup", self.ident])

        def teardown(self):
            super().teardown(); log.append(["teardown", self.ident])

        def on_paused(self):
            super().on_paused(); log.append(["paused", self.ident])

        def on_resumed(self):
            super().on_resumed(); log.append(["resumed", self.ident])

        def save_state(self, path):
            super().save_state(path)
            log.append(["save", self.ident, rel(path) + [NSELF]])
            (Path(path) / "self.own").write_text(str(self.ident))

        def load_state(self, path):
            super().load_state(path)
            log.append(["load", self.ident, rel(path) + [NSELF]])
            try:
                if (Path(path) / "self.own").read_text() != str(self.ident):
                    state["own"] = False
            except OSError:
                state["own"] = False

    class CSensorsDict(SelfMixin, SensorsDict):
        def __init__(self, d, ident):
            super().__init__(d)
            self.ident = ident
            self.data_calls = 0
            comp.append(self)

        def read(self):
            self.data_calls += 1
            return super().read()

    class CActuatorsDict(SelfMixin, ActuatorsDict):
        def __init__(self, d, ident):
            super().__init__(d)
            self.ident = ident
            self.data_calls = 0
            comp.append(self)

        def operate(self, action):
            self.data_calls += 1
            super().operate(action)

    def wrapper(s):
        if s["t"] == "wobj":
            return RWrapper(s["id"])
        w = s["id"]
        return lambda v: App(w, v)

    def sensor(s):
        if s["t"] == "sensor":
            return RSensor(s["id"])
        if s["t"] == "sdict":
            d = {str(k): sensor(c) for k, c in s["children"]}
            out = CSensorsDict(d, s["sid"])
            d.clear()                      # the caller goes on using the mapping it passed: the composite must have its own
            return out
        return SensorWrapper(sensor(s["sensor"]), wrapper(s["wrapper"]))

    def actuator(s):
        if s["t"] == "actuator":
            return RActuator(s["id"])
        if s["t"] == "adict":
            d = {str(k): actuator(c) for k, c in s["children"]}
            out = CActuatorsDict(d, s["sid"])
            d.clear()
            return out
        return ActuatorWrapper(actuator(s["actuator"]), wrapper(s["wrapper"]))

    def env(s):
        if s["t"] == "leafenv":
            return REnv(s["id"])
        if s["t"] == "modenv":
            return ModularEnvironment(sensor(s["sensor"]), actuator(s["actuator"]))
        if s["t"] == "modenv_from_dict":
            ds, da = {str(k): sensor(c) for k, c in s["sensors"]}, {str(k): actuator(c) for k, c in s["actuators"]}
            out = ModularEnvironment.from_dict(ds, da)
            ds.clear(); da.clear()
            return out
        return EnvironmentWrapper(env(s["env"]), wrapper(s["obs"]), wrapper(s["act"]))

    def agent(s):
        d = {str(k): agent(c) for k, c in s["children"]}
        out = RAgent(s["id"], d)
        d.clear()
        d["777"] = RAgent(7000 + s["id"], {})     # never part of the tree: must get no event
        return out

    def action(a):
        if a[0] == "dict":
            return {str(k): action(v) for k, v in a[1]}
        return None if a[1] == NONE_VALUE else ("raw", a[1])

    if case.get("fixed_root"):
        # the other root class: the same composite with a pacing adjustor; it must be just as transparent
        from pamiq_core.interaction import FixedIntervalInteraction
        inter = FixedIntervalInteraction.with_sleep_adjustor(agent(case["agent"]), env(case["env"]), 0.0)
    else:
        inter = Interaction(agent(case["agent"]), env(case["env"]))
    root = Path(tmp) / "state"
    state["root"] = root
    ok = True
    events = {}
    try:
        for name, call in [("setup", inter.setup), ("teardown", inter.teardown), ("paused", inter.on_paused), ("resumed", inter.on_resumed),
                           ("attach_models", lambda: inter.agent.attach_inference_models(InferenceModelsDict())),
                           ("attach_collectors", lambda: inter.agent.attach_data_collectors(DataCollectorsDict()))]:
            log.clear(); call()
            events[name] = [e[1] for e in log if e[0] == name]
            if any(e[0] != name for e in log):
                events[name].append(-1)
        log.clear(); inter.save_state(root)
        saved = [[e[1], e[2]] for e in log if e[0] == "save"]
        log.clear(); inter.load_state(root)
        loaded = [[e[1], e[2]] for e in log if e[0] == "load"]
        log.clear()
        first = inter.environment.observe()
        obs, first_n = enc(first), enc_n(first)
        inter.environment.affect(action(case["action"]))
        delivered = [[e[1], e[2]] for e in log if e[0] == "deliver"]
        data_calls = [c.data_calls for c in comp]
        # a later observation must not rewrite an earlier one that somebody still holds
        second = inter.environment.observe()
        kept = enc_n(first) == first_n and (enc_n(second) != first_n or "raw" not in json.dumps(first_n))
    except Exception as e:  # noqa: BLE001
        import traceback
        return {"error": f"{type(e).__name__}: {e}", "tb": traceback.format_exc()[-800:]}
    return {"events": [events[k] for k in ["setup", "teardown", "paused", "resumed", "attach_models", "attach_collectors"]],
            "saved": saved, "loaded": loaded, "own": state["own"], "ok": ok, "obs": obs, "delivered": delivered,
            "composites": data_calls, "first_observation_kept": kept}


def main():
    cases = json.load(sys.stdin)
    tmp = tempfile.mkdtemp(prefix="pamiq_c12_")
    out = []
    try:
        for n, c in enumerate(cases):
            d = Path(tmp) / f"c{n}"; d.mkdir()
            try:
                out.append(run_case(c, d))
            except Exception as e:  # noqa: BLE001
                import traceback
                out.append({"error": f"{type(e).__name__}: {e}", "tb": traceback.format_exc()[-800:]})
        print(json.dumps(out))
    finally:
        shutil.rmtree(tmp, ignore_errors=True)


if __name__ == "__main__":
    main()
