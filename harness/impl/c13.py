"""C13 implementation runner: a real TrainingThread.on_tick over real Trainer / TrainersDict / DataUser
objects; the buffer and the trainers' callbacks are recording subclasses; pamiq_core.time.time scripted."""
import json
import sys
import warnings

TICK = 64.0


def build(case, log, now):
    from pamiq_core.data import DataBuffer
    from pamiq_core.data.container import DataUsersDict
    from pamiq_core.model import InferenceModel, TrainingModel, TrainingModelsDict
    from pamiq_core.thread.threads.training import TrainingThread
    from pamiq_core.trainer import Trainer, TrainersDict

    class Rec(DataBuffer):
        def __init__(self, q, cap):
            super().__init__(q)
            self.n = 0
            self.cap = cap

        def add(self, data):
            self.n += 1

        def get_data(self):
            return None

        def __len__(self):
            return self.n if self.cap is None else min(self.cap, self.n)

    class Inf(InferenceModel):
        def infer(self, *a, **k):
            return None

    class TM(TrainingModel):
        def _create_inference_model(self):
            return Inf()

        def forward(self, *a, **k):
            return None

        def sync_impl(self, inference_model):
            log.append("sync")

    class RecTrainer(Trainer):
        def __init__(self, idx, cond):
            if cond is None:
                super().__init__()
            else:
                super().__init__("buf", cond[0], cond[1])
            self.idx = idx

        def on_training_models_attached(self):
            self.model = self.get_training_model(f"m{self.idx}")

        def is_trainable(self):
            log.append(["offered", self.idx])
            return super().is_trainable()

        def setup(self):
            log.append("setup")

        def train(self):
            log.append("train")

        def teardown(self):
            log.append("teardown")

    users = DataUsersDict.from_data_buffers(buf=Rec(case["q"], case["bcap"]))
    coll = users.data_collectors_dict.acquire("buf")
    trainers = TrainersDict()
    models = TrainingModelsDict()
    for i, c in enumerate(case["conds"]):
        trainers[f"t{i}"] = RecTrainer(i, c)
        models[f"m{i}"] = TM()
    trainers.attach_training_models(models)
    trainers.attach_data_users(users)
    th = TrainingThread(trainers)
    return th, coll


def run_case(case):
    import pamiq_core.time as ptime
    log, now = [], {"t": 0}
    orig = ptime.time
    ptime.time = lambda: now["t"] / TICK
    try:
        th, coll = build(case, log, now)
        outs = []
        for op in case["ops"]:
            log.clear()
            if op[0] == "collect":
                now["t"] = op[2]
                coll.collect(op[1])
                outs.append(["none"] if not log else ["junk", list(log)])
            else:
                now["t"] = op[1]
                th.on_tick()
                offered = [e[1] for e in log if isinstance(e, list)]
                evs = [e for e in log if isinstance(e, str)]
                outs.append(["tick", offered, evs])
        return {"outs": outs}
    finally:
        ptime.time = orig


def probe_incl():
    o = run_case({"q": 5, "bcap": None, "conds": [[0, 1]], "ops": [["collect", 1, 320], ["tick", 320], ["collect", 2, 320], ["tick", 320]]})
    return bool(o["outs"][3][2])


def main():
    warnings.simplefilter("ignore")
    cases = json.load(sys.stdin)
    incl = probe_incl()
    out = []
    for c in cases:
        try:
            if c.get("kind") == "line":
                from harness.impl.c13line import run_line_case
                out.append(run_line_case(c))
                continue
            o = run_case(c); o["incl"] = incl
            out.append(o)
        except Exception as e:  # noqa: BLE001
            import traceback
            out.append({"error": f"{type(e).__name__}: {e}", "tb": traceback.format_exc()[-700:]})
    print(json.dumps(out))


if __name__ == "__main__":
    main()
