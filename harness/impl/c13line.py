"""C13 under concurrency: one collecting sim thread (the inference side) and one deciding sim thread (the training
thread calling trainer.run()) over a real Trainer / DataUser / DataCollector; every 'line' event inside
pamiq_core/trainer/base.py and pamiq_core/data/interface.py and every lock operation is a scheduling point; the
schedule is 'stay on the current thread, switch at the given points'.  The clock is LOGICAL: every read of
pamiq_core.time.time() returns the next integer, so all clock reads of the run are totally ordered.

Reported: the global order of events  collect (a sample handed to the collector)  and  run b  (a decision, with
whether the trainer ran) - to be judged by the counting law 'every arrival supports at most one run'."""
import sys
import warnings


def run_line_case(case):
    if case.get("preempt_frac"):
        n = _run(dict(case, preempt=[], preempt_frac=None)).get("choices", 0)
        pts = sorted({min(max(int(f * n), 0), max(n - 1, 0)) for f in case["preempt_frac"]})
        r = _run(dict(case, preempt=pts, preempt_frac=None))
        r["preempt_used"] = pts
        return r
    return _run(case)


def _run(case):
    from harness.sim import sched as S
    from harness.sim.boot import boot
    boot()
    import random as _random
    import pamiq_core.time as ptime
    import pamiq_core.data.interface as iface
    import pamiq_core.trainer.base as tbase
    from pamiq_core.data import DataBuffer
    from pamiq_core.data.container import DataUsersDict
    from pamiq_core.trainer import Trainer

    warnings.simplefilter("ignore")
    preempt = set(case.get("preempt", []))
    state = {"k": 0}
    pick = _random.Random(case.get("pick", 0))

    def chooser(s, runnable):
        k = state["k"]
        state["k"] += 1
        cur = s.cur
        others = [t for t in runnable if t is not cur]
        if cur in runnable and (k not in preempt or not others):
            return cur
        return pick.choice(others) if others else runnable[0]

    sched = S.Sched(chooser, budget=10.0, max_events=40000)
    sched.lock_yields = True
    S.set_sched(sched)
    files = {iface.__file__, tbase.__file__}

    def tracer(frame, event, arg):
        if frame.f_code.co_filename not in files:
            return None

        def local(frame, event, arg):
            if event == "line":
                S.SCHED.yield_point()
            return local
        return local

    class Rec(DataBuffer):
        def __init__(self, q):
            super().__init__(q)
            self.items = []

        def add(self, data):
            self.items.append(data)

        def get_data(self):
            return list(self.items)

        def __len__(self):
            return len(self.items)

    clock = {"t": 0}

    def logical_time():
        clock["t"] += 1
        return float(clock["t"])

    orig_time = ptime.time
    ptime.time = logical_time
    events = []

    class T(Trainer):
        def __init__(self):
            super().__init__("buf", case["min_size"], case["min_new"])

        def train(self):
            pass

    users = DataUsersDict.from_data_buffers(buf=Rec(case.get("q")))
    coll = users.data_collectors_dict.acquire("buf")
    tr = T()
    tr.attach_data_users(users)

    def collector():
        sys.settrace(tracer)
        try:
            for i in range(case["collects"]):
                events.append(["collect"])          # the sample exists from here on: it has been handed to collect()
                coll.collect(i + 1)
                if case.get("yield_between"):
                    S.SCHED.yield_point()
        finally:
            sys.settrace(None)

    def decider():
        sys.settrace(tracer)
        try:
            for _ in range(case["runs"]):
                ran = bool(tr.run())
                events.append(["run", ran])
                S.SCHED.yield_point()
        finally:
            sys.settrace(None)

    def main():
        a = S.Thread(target=collector, name="collector")
        b = S.Thread(target=decider, name="decider")
        a.start(); b.start()
        a.join(); b.join()

    try:
        sched.run(main, "main", wall_timeout=30.0)
    finally:
        ptime.time = orig_time
        S.set_sched(None)
    if sched.deadlock is not None:
        return {"error": f"deadlock: {sched.deadlock}"}
    return {"events": events, "choices": state["k"],
            "switches": sum(1 for a, b in zip(sched.trace, sched.trace[1:]) if a[0] != b[0])}
