"""C14 implementation runner: versioned harness models in a real TrainingModelsDict, a recording Agent
and recording Trainers; histories of trainer runs and state loads."""
import json
import shutil
import sys
import tempfile
from pathlib import Path


def run_case(case, tmp):
    from pamiq_core.interaction import Agent
    from pamiq_core.model import InferenceModel, TrainingModel, TrainingModelsDict
    from pamiq_core.trainer import Trainer, TrainersDict

    sync_log = []
    held = {}

    class VInf(InferenceModel):
        def __init__(self, owner=None):
            self.version = 0
            self.owner = owner

        def infer(self):
            return self.owner.version if self.owner is not None else self.version

    class EmptyVInf(VInf):
        """an inference model that is falsy (a container-like model with nothing in it yet): still an inference model"""
        def __len__(self):
            return 0

    class VTrain(TrainingModel):
        def __init__(self, idx, hi, io, falsy=False):
            super().__init__(hi, io)
            self.idx = idx
            self.version = 0
            self.falsy = falsy

        def _create_inference_model(self):
            return (EmptyVInf if self.falsy else VInf)(self if self.inference_thread_only else None)

        def forward(self):
            return self.version

        def sync_impl(self, inference_model):
            sync_log.append([self.idx, held.get(self.idx) is inference_model])
            inference_model.version = self.version

        def save_state(self, path):
            path.mkdir()
            (path / "v").write_text(str(self.version))

        def load_state(self, path):
            self.version = int((path / "v").read_text())

    flags = case["flags"]
    falsy = case.get("falsy") or [False] * len(flags)
    models = {}
    for i, (hi, io) in enumerate(flags):
        try:
            models[f"m{i}"] = VTrain(i, hi, io, falsy[i])
        except ValueError:
            return {"ctor_error": i}
    tmd = TrainingModelsDict(models)

    agent_view = []

    class A(Agent):
        def on_inference_models_attached(self):
            for i in range(len(flags)):
                try:
                    held[i] = self.get_inference_model(f"m{i}")
                    agent_view.append(True)
                except KeyError:
                    agent_view.append(False)

        def step(self, observation):
            return None

    A().attach_inference_models(tmd.inference_models_dict)

    class T(Trainer):
        def __init__(self, reqs):
            super().__init__()
            self.reqs = reqs
            self.got = []
            self.ok = []

        def on_training_models_attached(self):
            for n in self.reqs:
                try:
                    self.got.append(self.get_training_model(f"m{n}"))
                    self.ok.append(True)
                except KeyError:
                    self.ok.append(False)

        def train(self):
            seen = set()
            for m in self.got:
                if id(m) not in seen:
                    seen.add(id(m)); m.version += 1

    class LazyT(Trainer):
        """a persistent trainer that retrieves further models lazily, inside train()"""
        def __init__(self):
            super().__init__()
            self.pending = []
            self.got = []

        def train(self):
            for n in self.pending:
                try:
                    self.got.append(self.get_training_model(f"m{n}"))
                except KeyError:
                    pass
            self.pending = []
            seen = set()
            for m in self.got:
                if id(m) not in seen:
                    seen.add(id(m)); m.version += 1

    lazy = {}

    probe = T(list(range(len(flags))))
    probe.attach_training_models(tmd)
    trainer_view = probe.ok

    obs = []
    for k, op in enumerate(case["ops"]):
        sync_log.clear()
        if op[0] == "run":
            t = T(op[1])
            TrainersDict({"t": t}).attach_training_models(tmd)
            t.run()
        elif op[0] == "runt":
            if op[1] not in lazy:
                lazy[op[1]] = LazyT()
                TrainersDict({"t": lazy[op[1]]}).attach_training_models(tmd)
            lazy[op[1]].pending = list(op[2])
            lazy[op[1]].run()
        else:
            # produce a state directory holding the requested versions, then load it
            src = TrainingModelsDict({f"m{i}": VTrain(i, hi, io, falsy[i]) for i, (hi, io) in enumerate(flags)})
            for i, v in enumerate(op[1]):
                if f"m{i}" in src.data:
                    src.data[f"m{i}"].version = v
            p = Path(tmp) / f"st{k}"
            src.save_state(p)
            tmd.load_state(p)
        vis = [held[i].infer() if i in held else None for i in range(len(flags))]
        obs.append([sorted(e[0] for e in sync_log), vis, all(e[1] for e in sync_log)])
    return {"agent_view": agent_view, "trainer_view": trainer_view, "obs": obs}


def main():
    cases = json.load(sys.stdin)
    tmp = tempfile.mkdtemp(prefix="pamiq_c14_")
    out = []
    try:
        for n, c in enumerate(cases):
            try:
                d = Path(tmp) / f"c{n}"; d.mkdir()
                out.append(run_case(c, d))
            except Exception as e:  # noqa: BLE001
                import traceback
                out.append({"error": f"{type(e).__name__}: {e}", "tb": traceback.format_exc()[-700:]})
        print(json.dumps(out))
    finally:
        shutil.rmtree(tmp, ignore_errors=True)


if __name__ == "__main__":
    main()
