"""C15 implementation runner: drives the real schedulers / PeriodicSaveCondition with a scripted,
adversarial clock (pamiq_core.time.time is replaced by a function that returns the next value of a
list on every read) and records, per operation, the clock reads and callback invocations."""
import json
import sys

TICK = 64.0  # one model tick = 2**-6 s: every value and difference below is an exact float


def run_case(case):
    import pamiq_core.time as ptime
    from pamiq_core.state_persistence import PeriodicSaveCondition
    from pamiq_core.utils.schedulers import StepIntervalScheduler, TimeIntervalScheduler

    seg: list = []
    state = {"pending": list(case["reads"]), "last": 0}

    def clock():
        if state["pending"]:
            state["last"] = state["pending"].pop(0)
        v = state["last"]
        seg.append(["r", v])
        return v / TICK

    class Boom(Exception):
        pass

    def make_cb(i, nreads):
        def cb():
            seg.append(["c", i])
            if state.get("bad") == i:
                seg.append(["raise"])
                raise Boom()
            for _ in range(nreads):
                ptime.time()
        cb.ident = i
        return cb

    orig = ptime.time
    ptime.time = clock
    try:
        segs = []
        cbs = {}
        lst = []
        for i, n in case["cbs"]:
            cbs[i] = make_cb(i, n)
            lst.append(cbs[i])
        kind = case["kind"]
        try:
            if kind == "time":
                obj = TimeIntervalScheduler(case["ivl"] / TICK, lst)
            elif kind == "step":
                obj = StepIntervalScheduler(case["n"], lst)
            else:
                obj = PeriodicSaveCondition(case["ivl"] / TICK)
        except Exception as e:  # noqa: BLE001
            return {"ctor_error": type(e).__name__, "segs": [list(seg)]}
        # the caller goes on using ITS list (empties it, puts something else in): the callbacks registered with the
        # scheduler are still registered, nothing else is
        lst.clear()
        lst.append(make_cb(999, 0))
        segs.append(list(seg)); seg.clear()
        if kind == "cond":
            for _ in range(case["calls"]):
                r = obj()
                seg.append(["ret", bool(r)])
                segs.append(list(seg)); seg.clear()
        else:
            for op in case["ops"]:
                if op[0] == "u":
                    obj.update()
                elif op[0] == "ur":
                    state["bad"] = op[1]
                    try:
                        obj.update()
                    except Boom:
                        pass
                    finally:
                        state["bad"] = None
                elif op[0] == "reg":
                    cbs[op[1]] = make_cb(op[1], op[2])
                    obj.register_callback(cbs[op[1]])
                elif op[0] == "rm":
                    obj.remove_callback(cbs[op[1]])
                segs.append(list(seg)); seg.clear()
        return {"segs": segs}
    except Exception as e:  # noqa: BLE001
        return {"error": f"{type(e).__name__}: {e}", "segs": []}
    finally:
        ptime.time = orig


def probe_strict():
    """Is the boundary elapsed == interval exclusive (the property leaves it open)?"""
    o = run_case({"kind": "time", "ivl": 64, "n": 1, "cbs": [[1, 0]], "reads": [0, 64, 64, 64], "ops": [["u"]], "calls": 0})
    return not any(e[0] == "c" for s in o.get("segs", []) for e in s)


def main():
    cases = json.load(sys.stdin)
    strict = probe_strict()
    out = []
    for c in cases:
        o = run_case(c)
        o["strict"] = strict
        out.append(o)
    print(json.dumps(out))


if __name__ == "__main__":
    main()
