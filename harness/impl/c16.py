"""C16 implementation runner: the real FixedIntervalInteraction / SleepIntervalAdjustor driven tick by
tick on a real TimeController that sits on a virtual raw clock.  The public functions of the module
pamiq_core.time are pointed at that controller (module attributes), so that the adjustor's
time.perf_counter() / time.sleep() and the pause/resume issued at the loop guard all act on it."""
import json
import sys
from fractions import Fraction

from harness.sim.faketime import FakeTime, fresh_pamiq_time


def run_case(case, fake, mod):
    import pamiq_core.time as ptime
    from pamiq_core.interaction import Agent, Environment, FixedIntervalInteraction

    fake.now = 0.0
    tc = mod.TimeController()
    saved = {n: getattr(ptime, n) for n in ("time", "perf_counter", "monotonic", "sleep", "pause", "resume", "set_time_scale", "get_time_scale", "is_paused")}
    for n in saved:
        setattr(ptime, n, getattr(tc, n))
    try:
        k = case["k"][0] / case["k"][1]
        tc.set_time_scale(k)
        starts, ref_starts = [], []
        cur = {"d": 0.0}
        acc = {"paused": Fraction(0), "off": None}
        kq = Fraction(case["k"][0], case["k"][1])

        def ref_now():
            """the reference system time: scale x raw time spent un-paused (same origin as the library's perf_counter)"""
            return acc["off"] + kq * (Fraction(fake.now) - acc["paused"])

        class A(Agent):
            def setup(self):
                sd = case.get("setup_dur")
                if sd:
                    fake.now += sd[0] / sd[1]   # setting the components up takes real time: it is not part of the first interval

            def step(self, observation):
                starts.append(Fraction(tc.perf_counter()))
                ref_starts.append(ref_now())
                fake.now += cur["d"]          # the step body takes d of real time
                return None

        class E(Environment):
            def observe(self):
                return None

            def affect(self, action):
                pass

        interval = case["interval"][0] / case["interval"][1]
        offset = case["offset"][0] / case["offset"][1]
        inter = FixedIntervalInteraction.with_sleep_adjustor(A(), E(), interval, offset)
        inter.setup()
        acc["off"] = Fraction(0)
        t0 = Fraction(tc.perf_counter())
        acc["off"] = t0 - kq * (Fraction(fake.now) - acc["paused"])
        for t in case["ticks"]:
            p = t["pause"][0] / t["pause"][1]
            if p > 0:                          # a system pause takes effect at the loop guard
                tc.pause()
                if t.get("save"):              # the pause of a state save: the clock's state is exported in the middle of it
                    fake.now += p / 2; tc.state_dict(); fake.now += p / 2
                else:
                    fake.now += p
                tc.resume()
                acc["paused"] += Fraction(p)
            fake.now += t["eps"][0] / t["eps"][1]
            cur["d"] = t["dur"][0] / t["dur"][1]
            inter.step()
        out = {"t0": [t0.numerator, t0.denominator], "starts": [[s.numerator, s.denominator] for s in starts],
               "ref_starts": [[s.numerator, s.denominator] for s in ref_starts]}
        # a raw clock that moves a little on every single read: a step that ends within a few such ticks of its deadline must be
        # paced without an exception (a real clock never reads the same twice)
        delta = 1 / 4096
        W = interval - offset
        if W > 0:
            fake.on_read = lambda kind: setattr(fake, "now", fake.now + delta)
            try:
                inter2 = FixedIntervalInteraction.with_sleep_adjustor(A(), E(), interval, offset)
                inter2.setup()
                for m in range(-2, 10):
                    cur["d"] = max(W / k - m * delta / 2, 0.0)
                    inter2.step()
            except Exception as e:  # noqa: BLE001
                out["edge_error"] = f"{type(e).__name__}: {e}"
            finally:
                fake.on_read = None
        return out
    finally:
        for n, v in saved.items():
            setattr(ptime, n, v)


def run_sys(case):
    """whole system (fresh interpreter, deterministic scheduler): launch() with a fixed-interval interaction and a time scale;
    the step starts, step durations and loop overheads of the inference thread are read off the run"""
    import os
    import subprocess
    runner = os.path.join(os.path.dirname(os.path.abspath(__file__)), "sys.py")
    ch = subprocess.run([sys.executable, "-B", runner], input=json.dumps([case["spec"]]), capture_output=True, text=True, env=dict(os.environ), timeout=300)
    try:
        r = json.loads(ch.stdout)[0]
    except Exception:  # noqa: BLE001
        return {"crash": "whole-system runner produced nothing: " + ch.stderr[-500:]}
    if r.get("error"):
        return {"error": r["error"], "tb": r.get("tb")}
    p = r.get("pacing")
    if r.get("deadlock") is not None or not p or "t0" not in p:
        return {"error": f"run did not finish: {r.get('deadlock')}", "outcome": r.get("outcome")}
    fx = lambda h: Fraction(float.fromhex(h))                                           # noqa: E731
    kq = Fraction(case["k"][0], case["k"][1])
    steps = [s for s in p["steps"] if s[2] is not None and len(s) > 3]
    aas = p.get("after_adjust_sys") or []
    n = min(len(steps), len(aas) + 1, 40)
    # the step durations and the loop overheads are measured on the SYSTEM clock (and divided by the scale): time spent
    # paused between two steps does not enter them, which is what the property says about pauses
    ticks, prev = [], fx(p["t0"])
    for i in range(n):
        T, Te = fx(steps[i][0]), fx(steps[i][3])
        ticks.append({"eps": (T - prev) / kq, "dur": (Te - T) / kq})
        if i < len(aas):
            prev = fx(aas[i])
    q = lambda x: [x.numerator, x.denominator]                                           # noqa: E731
    return {"t0": q(fx(p["t0"])), "starts": [q(fx(s[0])) for s in steps[:n]], "ref_starts": [q(fx(s[0])) for s in steps[:n]],
            "derived_ticks": [{"pause": [0, 1], "eps": q(t["eps"]), "dur": q(t["dur"])} for t in ticks], "outcome": r.get("outcome"),
            "pauses": sum(1 for e in (r.get("trace") or []) if e[1] == "clock_pause")}


def main():
    cases = json.load(sys.stdin)
    if cases and all(c.get("kind") == "sys" for c in cases):
        print(json.dumps([run_sys(c) for c in cases]))
        return
    fake = FakeTime()
    mod = fresh_pamiq_time(fake)
    out = []
    for c in cases:
        try:
            out.append(run_sys(c) if c.get("kind") == "sys" else run_case(c, fake, mod))
        except Exception as e:  # noqa: BLE001
            import traceback
            out.append({"error": f"{type(e).__name__}: {e}", "tb": traceback.format_exc()[-700:]})
    print(json.dumps(out))


if __name__ == "__main__":
    main()
