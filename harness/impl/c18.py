"""C18 implementation runner: a real LatestStatesKeeper on real directories with controlled mtimes."""
import json
import os
import re
import shutil
import sys
import tempfile
from pathlib import Path


def listing(d):
    out = []
    for e in sorted(os.listdir(d)):
        m = re.fullmatch(r"s(\d+)\.state|f(\d+)\.txt", e)
        out.append(int(m.group(1) or m.group(2)) if m else -1)
    return out


def run_case(case, root):
    from pamiq_core.state_persistence import LatestStatesKeeper
    d = Path(root)
    d.mkdir()

    def spath(i):
        return d / f"s{i}.state"

    for i in case["matching"]:
        spath(i).mkdir()
        (spath(i) / "x.pkl").write_bytes(b"x")
    for i, mt in case["mtimes"]:
        os.utime(spath(i), (1_000_000 + mt, 1_000_000 + mt))
    for i in case["foreign"]:
        (d / f"f{i}.txt").write_text("keep me")
    try:
        k = LatestStatesKeeper(d, case["mk"])
    except ValueError:
        return {"ctor": "ValueError"}
    obs = []
    for op in case["ops"]:
        rem = []
        if op[0] == "append":
            if op[2]:
                spath(op[1]).mkdir()
                (spath(op[1]) / "x.pkl").write_bytes(b"x")
            k.append(spath(op[1]))
        elif op[0] == "cleanup":
            for p in k.cleanup():
                m = re.fullmatch(r"s(\d+)\.state", Path(p).name)
                rem.append(int(m.group(1)) if m else -1)
        elif op[0] == "extrm":
            if spath(op[1]).exists():
                shutil.rmtree(spath(op[1]))
            elif (d / f"f{op[1]}.txt").exists():
                (d / f"f{op[1]}.txt").unlink()
        elif op[0] == "extmk":
            (d / f"f{op[1]}.txt").write_text("new")
        obs.append([rem, listing(d)])
    return {"obs": obs}


def main():
    cases = json.load(sys.stdin)
    tmp = tempfile.mkdtemp(prefix="pamiq_c18_")
    out = []
    try:
        for n, c in enumerate(cases):
            try:
                out.append(run_case(c, os.path.join(tmp, f"c{n}")))
            except Exception as e:  # noqa: BLE001
                import traceback
                out.append({"error": f"{type(e).__name__}: {e}", "tb": traceback.format_exc()[-600:]})
        print(json.dumps(out))
    finally:
        shutil.rmtree(tmp, ignore_errors=True)


if __name__ == "__main__":
    main()
