"""C18 implementation runner: a real LatestStatesKeeper on real directories with controlled mtimes."""
import json
import os
import re
import shutil
import sys
import tempfile
from pathlib import Path


def listing(d):
    out = []
    for e in sorted(os.listdir(d)):
        m = re.fullmatch(r"s(\d+)\.state|f(\d+)\.txt", e)
        out.append(int(m.group(1) or m.group(2)) if m else -1)
    return out


def run_case(case, root):
    from pamiq_core.state_persistence import LatestStatesKeeper
    d = Path(root)
    d.mkdir()

    def spath(i):
        return d / f"s{i}.state"

    for i in case["matching"]:
        spath(i).mkdir()
        (spath(i) / "x.pkl").write_bytes(b"x")
    for i, mt in case["mtimes"]:
        os.utime(spath(i), (1_000_000 + mt, 1_000_000 + mt))
    for i in case["foreign"]:
        (d / f"f{i}.txt").write_text("keep me")
    try:
        k = LatestStatesKeeper(d, case["mk"])
    except ValueError:
        return {"ctor": "ValueError"}
    obs = []
    for op in case["ops"]:
        rem = []
        if op[0] == "append":
            if op[2]:
                spath(op[1]).mkdir()
                (spath(op[1]) / "x.pkl").write_bytes(b"x")
            k.append(spath(op[1]))
        elif op[0] == "cleanup":
            for p in k.cleanup():
                m = re.fullmatch(r"s(\d+)\.state", Path(p).name)
                rem.append(int(m.group(1)) if m else -1)
        elif op[0] == "extrm":
            if spath(op[1]).exists():
                shutil.rmtree(spath(op[1]))
            elif (d / f"f{op[1]}.txt").exists():
                (d / f"f{op[1]}.txt").unlink()
        elif op[0] == "extmk":
            (d / f"f{op[1]}.txt").write_text("new")
        obs.append([rem, listing(d)])
    return {"obs": obs}


def second_run(arg):
    """fresh interpreter: relaunch from a saved state with a LatestStatesKeeper on the same states directory"""
    a = json.loads(arg)
    import logging
    logging.disable(logging.CRITICAL)
    from harness.sim.system import run_scenario
    r = run_scenario(a["spec"])
    print("RESULT " + json.dumps({"keeper_log": r.get("keeper_log"), "outcome": r.get("outcome"), "deadlock": r.get("deadlock"), "error": r.get("error"), "tb": r.get("tb")}))


def run_sys(case):
    """whole system: a first launch() leaves states behind; a second one resumes from one of them with a
    LatestStatesKeeper on the same directory.  What was saved comes from the StateStore (not from what the keeper was
    told), what was deleted and what is left from the keeper's return values and directory listings."""
    import subprocess
    from harness.sim.system import run_scenario
    tmp = tempfile.mkdtemp(prefix="c18s_")
    try:
        r1 = run_scenario(dict(case["run1"], states_root=tmp))
        if r1.get("deadlock") is not None or not r1.get("states"):
            return {"error": f"run 1 did not finish: {r1.get('deadlock')}", "outcome": r1.get("outcome")}
        sd = Path(tmp) / "states"
        pre = sorted(p.name for p in sd.glob("*.state"))
        # modification times in an order of their own (the keeper must go by them, not by the names)
        perm = case["mt_perm"][:len(pre)] + list(range(len(case["mt_perm"]), len(pre)))
        rank = sorted(range(len(pre)), key=lambda i: perm[i])
        mt = {}
        for r, i in enumerate(rank):
            os.utime(sd / pre[i], (1_000_000 + 10 * r, 1_000_000 + 10 * r)); mt[pre[i]] = 10 * r + 1
        (sd / "notes.txt").write_text("keep me")
        resume = pre[case["load"] % len(pre)]
        spec2 = dict(case["run2"], states_root=tmp, load_from=resume, same_states_dir=True, keeper_max_keep=case["mk"])
        ch = subprocess.run([sys.executable, "-B", __file__, "--second", json.dumps({"spec": spec2})], capture_output=True, text=True, env=dict(os.environ), timeout=300)
        line = [l for l in ch.stdout.splitlines() if l.startswith("RESULT ")]
        if not line:
            return {"error": "second run produced nothing", "stderr": ch.stderr[-800:]}
        r2 = json.loads(line[-1][7:])
        if r2.get("error"):
            return {"error": r2["error"], "tb": r2.get("tb")}
        if r2.get("deadlock") is not None or r2.get("keeper_log") is None:
            return {"error": f"run 2 did not finish: {r2.get('deadlock')}", "outcome": r2.get("outcome")}
        ids = {n: i + 1 for i, n in enumerate(pre)}
        ids["notes.txt"] = 90

        def num(n):
            if n not in ids:
                ids[n] = 10 + len(ids)
            return ids[n]
        ops, obs, last = [], [], None
        for e in r2["keeper_log"]:
            if e[0] == "saved":
                ops.append(["append", num(e[1]), True]); obs.append([[], sorted(num(x) for x in e[2])])
            else:
                rem, lst = [num(x) for x in e[1]], sorted(num(x) for x in e[2])
                if not rem and last == lst and ops and ops[-1][0] == "cleanup":
                    continue            # an idle cleanup right after another one: nothing new
                ops.append(["cleanup"]); obs.append([rem, lst])
            last = obs[-1][1]
        derived = {"mk": case["mk"], "matching": [ids[n] for n in pre], "mtimes": [[ids[n], mt[n]] for n in pre], "foreign": [90], "ops": ops}
        return {"derived": derived, "obs": obs, "resumed_from": ids[resume]}
    finally:
        shutil.rmtree(tmp, ignore_errors=True)


def main():
    if len(sys.argv) > 2 and sys.argv[1] == "--second":
        return second_run(sys.argv[2])
    cases = json.load(sys.stdin)
    tmp = tempfile.mkdtemp(prefix="pamiq_c18_")
    out = []
    try:
        for n, c in enumerate(cases):
            try:
                out.append(run_sys(c) if c.get("kind") == "sys" else run_case(c, os.path.join(tmp, f"c{n}")))
            except Exception as e:  # noqa: BLE001
                import traceback
                out.append({"error": f"{type(e).__name__}: {e}", "tb": traceback.format_exc()[-600:]})
        print(json.dumps(out))
    finally:
        shutil.rmtree(tmp, ignore_errors=True)


if __name__ == "__main__":
    main()
