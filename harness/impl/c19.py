"""C19 implementation runner: the real pamiq_core/torch/model.py (TorchTrainingModel / TorchInferenceModel /
UnwrappedContextManager) over the stand-in torch package (harness/stubs/torch), with one inferring and one
training sim thread under the deterministic scheduler.  Every source line of torch/model.py, every lock
operation and every observed tensor operation (parameter read / in-place write, grad assignment, mode
change) is a scheduling point; the schedule is 'stay on the current thread, switch at the given choice
indices'.  The result is the global sequence of observed events."""
import json
import os
import sys

sys.path.insert(0, os.path.join(os.path.dirname(os.path.dirname(os.path.abspath(__file__))), "stubs"))


def load_torch_model():
    from harness.sim.boot import boot
    b = boot()
    if "pamiq_core.torch.model" in sys.modules and getattr(sys.modules["pamiq_core.torch.model"], "_on_sim", False):
        return sys.modules["pamiq_core.torch.model"]
    saved = sys.modules["threading"], sys.modules["time"]
    sys.modules["threading"], sys.modules["time"] = b["simthreading"], b["simtime"]
    try:
        for n in [m for m in sys.modules if m.startswith("pamiq_core.torch")]:
            del sys.modules[n]
        import importlib
        mod = importlib.import_module("pamiq_core.torch.model")
    finally:
        sys.modules["threading"], sys.modules["time"] = saved
    mod._on_sim = True
    return mod


def run_case(case):
    if case.get("preempt_frac"):
        n = _run(dict(case, preempt=[], preempt_frac=None)).get("choices", 0)
        pts = sorted({min(max(int(f * n), 0), max(n - 1, 0)) for f in case["preempt_frac"]})
        r = _run(dict(case, preempt=pts, preempt_frac=None))
        r["preempt_used"] = pts
        return r
    return _run(case)


def _run(case):
    from harness.sim import sched as S
    tmod = load_torch_model()
    import torch
    import torch.nn as nn

    preempt = set(case.get("preempt", []))
    state = {"k": 0}

    def chooser(s, runnable):
        k = state["k"]
        state["k"] += 1
        cur = s.cur
        others = [t for t in runnable if t is not cur]
        if cur in runnable and (k not in preempt or not others):
            return cur
        return others[0] if others else runnable[0]

    sched = S.Sched(chooser, budget=10.0, max_events=40000)
    sched.lock_yields = True
    S.set_sched(sched)
    fname = tmod.__file__
    events = []
    phase = {"t": "step"}

    def observer(kind, *a):
        me = sched.cur.name if sched.cur else "?"
        if kind == "write" and me == "train":
            kind = "copy" if phase["t"] == "sync" else "write"
        events.append([me, kind, *a])

    def yielder():
        if S.SCHED and S.SCHED.me():
            S.SCHED.yield_point()

    def tracer(frame, event, arg):
        if frame.f_code.co_filename != fname:
            return None

        def local(frame, event, arg):
            if event == "line":
                S.SCHED.yield_point()
            return local
        return local

    n = case["nparams"]

    class Net(nn.Module):
        def __init__(self):
            super().__init__(n, 0)

        def forward(self):
            return [p.read() for p in self.parameters()]

        def predict(self):          # a named inference procedure: resolved from the class by its name
            return [p.read() for p in self.parameters()]

    torch._OBSERVER, torch._YIELD = None, None
    kw = {"inference_procedure": "predict"} if case.get("named_proc") else {}
    net = Net()
    if case.get("frozen"):
        net.requires_grad_(False)
    tm = tmod.TorchTrainingModel(net, has_inference_model=True, inference_thread_only=False, **kw)
    im = tm.inference_model
    im._lock.name = "L"
    ids = {"train0": tm.model.mid, "inf0": im._raw_model.mid}
    torch._OBSERVER, torch._YIELD = observer, yielder
    secs = []

    thread_errors = []

    def guarded(fn):
        """an exception that ends a sim thread is part of the observation (it is not to be lost with the thread)"""
        def run():
            try:
                fn()
            except S.Abort:
                raise
            except BaseException as e:  # noqa: BLE001
                import traceback
                thread_errors.append({"error": f"{type(e).__name__}: {e}", "tb": traceback.format_exc()[-1500:]})
        return run

    def inferrer():
        sys.settrace(tracer)
        try:
            for op in case["inf"]:
                S.SCHED.yield_point()
                events.append(["inf", "sec_b", "unwrap" if op[0] == "backprop" else op[0]])
                if op[0] == "infer":
                    vals = im.infer()
                elif op[0] == "backprop":
                    # gradient-based planning: the inference thread back-propagates through the module it holds
                    with im.unwrap() as m:
                        vals = [p.read() for p in m.parameters()]
                        for p in m.parameters():
                            p.grad = 7
                else:
                    with im.unwrap() as m:
                        vals = [p.read() for p in m.parameters()]
                events.append(["inf", "sec_e"])
                secs.append(list(vals))
        finally:
            sys.settrace(None)

    ver = {"v": 0}
    ht = None
    sync_grads = []      # per completed synchronisation: the training model's gradients just before it and just after it (silent reads)

    def tgrads():
        return [p._grad for p in tm.model.parameters()]
    if case.get("via_trainer"):
        # the training side is a real TorchTrainer (optimizers created in setup(), kept states, sync_models after train())
        import torch.optim as optim
        from pamiq_core.model import TrainingModelsDict
        ttr = sys.modules["pamiq_core.torch.trainer"]

        class Critic(nn.Module):
            def __init__(self):
                super().__init__(0, 0)

        class HT(ttr.TorchTrainer):
            def on_training_models_attached(self):
                self.mm = self.get_torch_training_model("m")
                if case.get("critic"):
                    self.cc = self.get_torch_training_model("critic")      # a train-only model: never synchronised

            def create_optimizers(self):
                return {"opt": optim.SGD(self.mm.model.parameters(), lr=1)}

            def train(self):
                phase["t"] = "step"
                ver["v"] += 1
                for p in self.mm.model.parameters():
                    p.grad = 100 + ver["v"]
                self.optimizers["opt"].step()
                if case.get("zero_grad"):
                    self.optimizers["opt"].zero_grad()

            def sync_models(self):
                phase["t"] = "sync"
                before = tgrads()
                try:
                    r = super().sync_models()
                    sync_grads.append([before, tgrads()])
                    return r
                finally:
                    phase["t"] = "step"

        torch._OBSERVER, torch._YIELD = None, None
        mods = {"m": tm}
        if case.get("critic"):
            mods["critic"] = tmod.TorchTrainingModel(Critic(), has_inference_model=False)
        ht = HT()
        ht.attach_training_models(TrainingModelsDict(mods))
        torch._OBSERVER, torch._YIELD = observer, yielder

    def trainer():
        sys.settrace(tracer)
        try:
            for op in case["train"]:
                if op[0] == "run":
                    ht.run()
                elif op[0] == "step":
                    phase["t"] = "step"
                    ver["v"] += 1
                    for i, p in enumerate(tm.model.parameters()):
                        p.copy_(ver["v"] * 10 + (i if case.get("distinct") else 0))
                    for i, p in enumerate(tm.model.parameters()):
                        p.grad = 100 + ver["v"]
                else:
                    phase["t"] = "sync"
                    before = tgrads()
                    tm.sync()
                    sync_grads.append([before, tgrads()])
                    phase["t"] = "step"
        finally:
            sys.settrace(None)

    orig_log = sched.log

    def log(*label):
        orig_log(*label)
        if label and label[0] in ("acquire", "release") and sched.cur is not None and sched.cur.name in ("inf", "train"):
            events.append([sched.cur.name, label[0]])
    sched.log = log

    def main():
        a = S.Thread(target=guarded(inferrer), name="inf")
        b = S.Thread(target=guarded(trainer), name="train")
        a.start(); b.start()
        a.join(); b.join()

    try:
        sched.run(main, "main", wall_timeout=30.0)
    finally:
        torch._OBSERVER, torch._YIELD = None, None
        S.set_sched(None)
    if sched.deadlock is not None:
        return {"error": f"deadlock: {sched.deadlock}"}
    if thread_errors:
        return thread_errors[0]
    # module ids -> 0 (first training module), 1 (first inference module)
    ren = {ids["train0"]: 0, ids["inf0"]: 1}
    out = []
    for e in events:
        if e[1] in ("read", "write", "copy", "grad", "mode"):
            if e[2] not in ren:
                return {"error": f"unknown module id in event {e}"}
            e = [e[0], e[1], ren[e[2]], *e[3:]]
        out.append(e)
    fin = {"train_ref": ren.get(tm.model.mid), "inf_ref": ren.get(im._raw_model.mid),
           "train_params": [p._v for p in tm.model.parameters()], "inf_params": [p._v for p in im._raw_model.parameters()],
           "train_grads": [p._grad for p in tm.model.parameters()], "train_mode": tm.model.training, "inf_mode": im._raw_model.training}
    return {"events": out, "sections": secs, "final": fin, "choices": state["k"], "sync_grads": sync_grads}


def main():
    cases = json.load(sys.stdin)
    out = []
    for c in cases:
        try:
            out.append(run_case(c))
        except BaseException as e:  # noqa: BLE001
            import traceback
            out.append({"error": f"{type(e).__name__}: {e}", "tb": traceback.format_exc()[-1500:]})
    print(json.dumps(out))


if __name__ == "__main__":
    main()
