"""C20 implementation runner: real GymEnvironment + GymAgent + Interaction.step over a scripted stand-in
gymnasium.Env and a recording agent; the call log is the observation."""
import json
import os
import sys

sys.path.insert(0, os.path.join(os.path.dirname(os.path.dirname(os.path.abspath(__file__))), "stubs"))


def run_case(case):
    import gymnasium
    from pamiq_core.gym import GymAgent, GymEnvironment
    from pamiq_core.interaction import Interaction

    log = []
    mixups = []
    cur = {"i": None}

    class ScriptEnv(gymnasium.Env):
        def __init__(self):
            self.r = 0
            self.s = 0

        def reset(self, *, seed=None, options=None):
            log.append(["greset"])
            r = self.r; self.r += 1
            return ("R", r), {"kind": "reset", "n": r}

        def step(self, action):
            i = cur["i"]
            t, u = (i["term"], i["trunc"]) if i else (False, False)
            log.append(["gstep", action, t, u])
            s = self.s; self.s += 1
            return ("S", s), 1, t, u, {"kind": "step", "n": s}

    class RecAgent(GymAgent):
        def __init__(self):
            super().__init__()
            self.k = 0

        def on_reset(self, obs, info):
            if not (isinstance(info, dict) and info.get("kind") == "reset" and obs[0] == "R" and info.get("n") == obs[1]):
                mixups.append(["onreset", list(obs), info])      # the info dictionary must be the one that came with this observation
            log.append(["onreset", obs[1] if obs[0] == "R" else -1])
            if cur["i"] and cur["i"]["rreq"]:
                log.append(["req"]); self.need_reset = True
            a = self.k; self.k += 1
            log.append(["ret", a])
            return a

        def on_step(self, obs, reward, terminated, truncated, info):
            if not (isinstance(info, dict) and info.get("kind") == "step" and obs[0] == "S" and info.get("n") == obs[1] and reward == 1):
                mixups.append(["onstep", list(obs), info])
            log.append(["onstep", obs[1] if obs[0] == "S" else -1, bool(terminated), bool(truncated)])
            if cur["i"] and cur["i"]["sreq"]:
                log.append(["req"]); self.need_reset = True
            a = self.k; self.k += 1
            log.append(["ret", a])
            return a

    if case.get("via_make"):
        gymnasium.register("Scripted-v0", lambda **kw: ScriptEnv())
        env = GymEnvironment("Scripted-v0")
    else:
        env = GymEnvironment(ScriptEnv())
    inter = Interaction(RecAgent(), env)
    inter.setup()
    for i in case["steps"]:
        cur["i"] = i
        inter.step()
    return {"log": log, "mixups": mixups[:5]}


def main():
    cases = json.load(sys.stdin)
    out = []
    for c in cases:
        try:
            out.append(run_case(c))
        except Exception as e:  # noqa: BLE001
            import traceback
            out.append({"error": f"{type(e).__name__}: {e}", "tb": traceback.format_exc()[-700:]})
    print(json.dumps(out))


if __name__ == "__main__":
    main()
