"""System-level implementation runner: each case is a scenario spec for harness/sim/system.run_scenario
(a whole launch() of the real code under the deterministic scheduler)."""
import json
import sys


def main():
    import logging
    logging.disable(logging.CRITICAL)
    from harness.sim.system import run_scenario
    cases = json.load(sys.stdin)
    out = []
    for c in cases:
        try:
            r = run_scenario(c)
            r.pop("choices", None)
            out.append(r)
        except BaseException as e:  # noqa: BLE001
            import traceback
            out.append({"error": f"{type(e).__name__}: {e}", "tb": traceback.format_exc()[-1200:]})
    print(json.dumps(out))


if __name__ == "__main__":
    main()
