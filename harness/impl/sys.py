"""System-level implementation runner: each case is a scenario spec for harness/sim/system.run_scenario
(a whole launch() of the real code under the deterministic scheduler)."""
import json
import sys


def status_table(c):
    """one row of the status decision table on the real SystemStatusProvider over real controller / status objects"""
    from harness.sim.boot import boot
    boot()
    from pamiq_core.console.system_status import SystemStatusProvider
    from pamiq_core.thread.thread_control import ThreadController, ThreadStatus, ThreadStatusesMonitor
    from pamiq_core.thread.thread_types import ThreadTypes
    ctl = ThreadController()
    if not c["resume"]:
        ctl.pause()
    if c["shutdown"]:
        # the flag alone: every combination of the table is wanted, also unreachable ones
        ev = [v for k, v in vars(ctl).items() if "shut" in k.lower() and hasattr(v, "set")]
        if len(ev) != 1:
            from harness.stub_incomplete import StubIncomplete
            raise StubIncomplete("cannot find the controller's shutdown event")
        ev[0].set()
    sts = []
    for f in c["flags"]:
        st = ThreadStatus()
        if f:
            st.pause()
        sts.append(st)
    keys = [ThreadTypes.INFERENCE, ThreadTypes.TRAINING, ThreadTypes.CONTROL, "x3", "x4"]
    mon = ThreadStatusesMonitor({keys[i]: s.read_only for i, s in enumerate(sts)})
    return {"status": SystemStatusProvider(ctl.read_only, mon).get_current_status().status_name}


def main():
    import logging
    logging.disable(logging.CRITICAL)
    from harness.sim.system import run_scenario
    cases = json.load(sys.stdin)
    out = []
    for c in cases:
        try:
            if c.get("kind") == "table":
                out.append(status_table(c))
                continue
            r = run_scenario(c)
            r.pop("choices", None)
            out.append(r)
        except BaseException as e:  # noqa: BLE001
            import traceback
            out.append({"error": f"{type(e).__name__}: {e}", "tb": traceback.format_exc()[-1200:]})
    print(json.dumps(out))


if __name__ == "__main__":
    main()
