"""C01 — an acknowledged pause means every background thread is quiescent."""
from harness.props.sysbase import *  # noqa: F401,F403
from harness.props import sysbase as B

ID = "C01"
THEOREM_FILE = "Properties/C01.v"
COQ_PROP_OK = "(fun c => C01_ok (snd c))"
RULE = ("seeded whole-system runs of the real launch() under the deterministic scheduler: command histories over pause/resume/save/status (incl. pause right after resume, "
        "pause right after save, back-to-back commands), step/training/hook durations from 0 to beyond the pause timeout, 1-3 attempts, uniform-random and PCT schedules. "
        "Non-trivial = at least one acknowledged pause, one pause requested right after a resume or a failed attempt, and >= 20 context switches; distinct = canonical JSON.")
TRUSTED = B.TRUSTED_SYS
ASSUMPTIONS = B.ASSUMPTIONS_SYS


def gen_one(rng, seed):
    sp = B.base_spec(rng, seed)
    r = rng.random()
    if r < 0.35:     # pause immediately after resume / save, several times
        cmds = [["sleep", rng.choice([0.001, 0.004])]]
        for _ in range(rng.randint(1, 4)):
            cmds += [["pause"], ["sleep", rng.choice([0.0, 0.001, 0.004])], [rng.choice(["resume", "save", "resume"])], ["pause"]]
            if rng.random() < 0.5:
                cmds += [["sleep", rng.choice([0.0, 0.002])], ["resume"]]
        cmds += [["sleep", 0.003], ["shutdown", "retry"]]
        sp["cmds"] = cmds
        sp["queue_size"] = rng.choice([2, 5])
    else:
        sp["cmds"] = B.gen_cmds(rng, ["pause", "resume", "save", "status", "pause", "resume"])
    return sp


def gen(rng, tier):
    n = {"quick": 300, "thorough": 12000, "search": 2500}[tier]
    return [gen_one(rng, rng.randrange(10**9)) for _ in range(n)]


def precheck(case, obs):
    v = B.precheck_common(case, obs)
    if v:
        return v
    if B.clock_moved_while_paused(obs):        # "once the pause request has returned the system clock does not advance"
        return {"agree": True, "prop_ok": False}
    return None


def nontrivial(case, obs):
    tr = obs.get("trace") or []
    acks = sum(1 for e in tr if e[1] == "clock_pause")
    sw = sum(1 for a, b in zip(tr, tr[1:]) if a[0] != b[0])
    # a pause attempt that starts while some thread has not finished waking from the previous one
    tight = False
    last_set = None
    for i, e in enumerate(tr):
        if e[0] == "main" and e[1] == "set" and e[2] == "resume":
            last_set = i
        if e[0] == "main" and e[1] == "clear" and e[2] == "resume" and last_set is not None:
            if not any(x[1] == "cb_b" for x in tr[last_set:i]):
                tight = True
    return acks >= 1 and tight and sw >= 20


def signature(case, obs):
    if "error" in obs or "crash" in obs:
        return "harness-error"
    if B.clock_moved_while_paused(obs):
        return "clock-advances-during-acknowledged-pause"
    tr = B.project(obs.get("trace") or [])
    acked = False
    for e in tr:
        if e[0] == "main" and e[1] == "clock_pause":
            acked = True
        elif e[0] == "main" and (e[1] == "clock_resume" or (e[1] == "set" and e[2] == "resume")):
            acked = False
        elif acked and e[0].startswith("bg") and e[1] in ("cb_b", "cb_e", "cb_raise", "sleep"):
            return "callback-while-acknowledged:" + (e[2].split(".")[1] if len(e) > 2 else e[1])
    return "c01-other"


TECHNIQUE = "Coq invariant proof over the thread-protocol acceptor M6 (any number of threads, every schedule, every timeout) + trace inclusion of real launch() runs under a deterministic scheduler + the C01 monitor on those traces"
LEVEL_TEXT = ("Machine-checked invariant of the thread model M6: in every reachable state of every accepted trace (all interleavings at the granularity of sync operations and callback boundaries, all callback durations, "
              "all timeout firings, all retry counts, all command histories) an acknowledged pause implies that every background thread is in the quiescent region of the handshake and the clock is paused, until resume/shutdown is issued; "
              "hence no accepted trace violates the C01 monitor. The model is tied to /repo by running the real launch() under a deterministic scheduler and checking inside Coq that every recorded trace is accepted by M6 "
              "and passes the same monitor.")
LEVEL_NOTE = "Trusted: Coq kernel + vm_compute; the acceptor Model/Threads.v; the sim primitives and import-time substitution; yield points only at sync operations, callback boundaries and sleeps. Theorems are about the model."
DESIGN_REF = "DESIGN.md §4 C01"

