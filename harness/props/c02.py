"""C02 — shutdown always terminates cleanly; pause and resume make progress."""
from harness.props.sysbase import *  # noqa: F401,F403
from harness.props import sysbase as B

ID = "C02"
THEOREM_FILE = "Properties/C02.v"
COQ_PROP_OK = "(fun c => C02_ok (s_complete (fst c)) (snd c) && C02_withdrawn (snd c))"
RULE = ("seeded whole-system runs ending by a shutdown command at a random position of a pause/resume/save history (incl. while paused, right after a pause request, back to back), "
        "by the uptime limit, or by a KeyboardInterrupt at a random control tick or before a random synchronisation operation of the control loop (anywhere but in the worker-pool section of try_pause and inside a state save); random step/training/hook durations; random and PCT schedules. 30% of the runs use a time scale of 2, 4, 10 or 1/2, 15% have no trainer at all (these are judged by the harness-side clauses only: the thread model describes a training thread with trainers). Checked per run: launch() returned, no deadlock, a pause attempt that fails has waited the configured timeout in real seconds, "
        "both threads exited, final state after the last callback, clock running at scale 1, a pause attempt fails only if a callback was still in flight when its timeout fired, and whenever a control tick begins the resume event is set or the pause was acknowledged (C02_withdrawn: an abandoned pause request is withdrawn). "
        "30% of the runs ended by a command or the uptime limit get a keyboard interrupt in the middle of that shutdown. Non-trivial = the shutdown (or interrupt / uptime) arrived while the system was paused or a pause was in flight; distinct = canonical JSON.")
TRUSTED = B.TRUSTED_SYS
ASSUMPTIONS = B.ASSUMPTIONS_SYS + ["'bounded time' is proved as a bound on own operations (no blocking wait among them); the harness reports the virtual seconds it measured"]


def gen_one(rng, seed):
    sp = B.base_spec(rng, seed)
    r = rng.random()
    if r < 0.6:
        cmds = B.gen_cmds(rng, ["pause", "resume", "save", "pause"], shutdown=False)
        pos = rng.randint(0, len(cmds))
        cmds = cmds[:pos] + [["shutdown", "retry"]] + cmds[pos:]
        sp["cmds"] = cmds
        sp["queue_size"] = rng.choice([1, 2, 5])
    elif r < 0.8:
        sp["cmds"] = B.gen_cmds(rng, ["pause", "resume", "save"], shutdown=False)
        # the uptime limit counts system time, which stands still while paused: make sure the run is not left paused,
        # and keep a late shutdown as a safety net (the client stops as soon as launch() has returned)
        sp["cmds"] += [["sleep", 0.002], ["resume", "retry"], ["sleep", 0.5], ["shutdown", "retry"]]
        sp["max_uptime"] = rng.choice([0.002, 0.01, 0.03])
        sp["time_scale"] = rng.choice([1.0, 2.0, 0.5])
    else:
        sp["cmds"] = B.gen_cmds(rng, ["pause", "resume", "save"], shutdown=False)
        if rng.random() < 0.5:
            sp["interrupt_at"] = rng.randint(1, 25)          # at a tick boundary
        else:
            sp["interrupt_at_op"] = rng.randint(1, 300)      # before any synchronisation operation of the control loop
        sp["cmds"] += [["sleep", 0.5], ["shutdown", "retry"]]
    if rng.random() < 0.15:
        sp["no_trainers"] = True      # an inference-only system: the training thread runs all the same and takes part in every pause
    if "time_scale" not in sp and rng.random() < 0.3:
        # a clock that runs faster or slower than real time: the pause timeout is counted in real seconds all the same
        sp["time_scale"] = rng.choice([2.0, 4.0, 10.0, 0.5])
        sp["pause_timeout"] = rng.choice([0.005, 0.02, 0.05])
        sp["step_dur"] = rng.choice([0.002, 0.004, 0.01])
        sp["train_dur"] = rng.choice([0.004, 0.01, 0.03])
    if "interrupt_at" not in sp and "interrupt_at_op" not in sp and rng.random() < 0.3:
        # a Ctrl-C that lands while the shutdown requested by a command / the uptime limit is in progress: before the k-th
        # synchronisation operation of ControlThread.shutdown()
        sp["interrupt_in_shutdown"] = rng.randint(0, 3)
    return sp


def gen(rng, tier):
    n = {"quick": 300, "thorough": 10000, "search": 2500}[tier]
    return [gen_one(rng, rng.randrange(10**9)) for _ in range(n)]


def first_attempt_ok(obs, case):
    """an attempt's worker timed out although its thread performed no callback operation and no sleep
    between the request and the timeout (i.e. nothing was in flight): the thread was blocked un-acknowledged"""
    tr = obs.get("trace") or []
    last_clear = None
    busy = {}
    for i, e in enumerate(tr):
        if e[0] == "main" and e[1] == "clear" and e[2] == "resume":
            last_clear = i
            busy = {}
        elif last_clear is not None and e[0].startswith("bg") and e[1] in ("cb_b", "cb_e", "sleep", "cb_raise", "exit"):
            busy[e[0]] = True
        elif last_clear is not None and e[0].startswith("pool:") and e[1] == "wait_ret" and e[3] is False:
            t = "bg" + e[0][5:]
            # had this thread anything in flight? it is legitimately late if it performed callback work since the request
            # or was inside a callback / sleep when the request came
            inside = False
            for x in reversed(tr[:last_clear]):
                if x[0] == t:
                    inside = x[1] in ("cb_b", "sleep") or (x[1] == "is_set" and x[2] == "shutdown") or x[1] == "cb_e"
                    break
            if not busy.get(t) and not inside:
                return False
    return True


def attempt_given_up_early(obs, case):
    """a pause attempt that fails must have waited the configured timeout (raw seconds, as Event.wait counts them): an attempt
    that is withdrawn sooner gives a thread less than the timeout to finish what it has in flight"""
    tr, ts = obs.get("trace") or [], obs.get("times") or []
    if len(ts) != len(tr):
        return False
    timeout = case.get("pause_timeout", 60.0)
    t0 = None
    for e, t in zip(tr, ts):
        if e[0] != "main":
            continue
        if e[1] == "clear" and e[2] == "resume":
            t0 = t
        elif e[1] == "clock_pause":
            t0 = None                       # the attempt succeeded
        elif e[1] == "set" and e[2] == "resume" and t0 is not None:
            if t - t0 < timeout * (1 - 1e-9):
                return True                 # withdrawn (or shut down) before the timeout had passed ...
            t0 = None
        elif e[1] in ("interrupt", "q_get") or (e[1] == "set" and e[2] == "shutdown"):
            t0 = None                       # ... unless something else ended the attempt
    return False


def precheck(case, obs):
    v = B.precheck_common(case, obs)
    if v:
        return v
    if obs.get("deadlock") is not None:
        return {"agree": False, "prop_ok": False}
    done = [e for e in obs["trace"] if e[1] == "launch_done"]
    if not done:
        return {"agree": False, "prop_ok": False}
    d = done[0]
    ok = d[2] == "returned" and d[3] is False and d[4] == 1.0 and first_attempt_ok(obs, case) and not attempt_given_up_early(obs, case)
    if not ok:
        return {"agree": True, "prop_ok": False}
    if case.get("no_trainers"):
        # an inference-only system: the thread model describes a training thread that has trainers (with pause / resume hooks),
        # so these runs are judged by the clauses above only (harness-side), not by trace inclusion
        return {"agree": True, "prop_ok": True}
    return None


def nontrivial(case, obs):
    tr = obs.get("trace") or []
    res = True
    for e in tr:
        if e[0] == "main" and e[1] == "clear" and e[2] == "resume":
            res = False
        elif e[0] == "main" and e[1] == "set" and e[2] == "resume":
            res = True
        elif e[0] == "main" and e[1] == "set" and e[2] == "shutdown":
            return False
        elif e[0] == "main" and e[1] in ("interrupt",) and not res:
            return True
        elif e[0] == "main" and e[1] == "q_get" and e[2] == "SHUTDOWN" and not res:
            return True
        elif e[0] == "main" and e[1] == "clock_resume" and not res:
            # shutdown by uptime / interrupt while paused
            return True
    return False


def signature(case, obs):
    if "error" in obs or "crash" in obs:
        return "harness-error"
    if obs.get("deadlock") is not None:
        return "deadlock-or-stall"
    done = [e for e in obs.get("trace", []) if e[1] == "launch_done"]
    if done:
        d = done[0]
        if d[2] != "returned":
            return "launch-raised"
        if d[3] is not False:
            return "clock-left-paused"
        if d[4] != 1.0:
            return "scale-not-reset"
    if attempt_given_up_early(obs, case):
        return "pause-attempt-given-up-before-the-timeout"
    if not first_attempt_ok(obs, case):
        return "blocked-without-acknowledging"
    return "c02-other"


TECHNIQUE = "Coq invariant, progress and measure proofs over the thread-protocol acceptor M6 + C02 trace monitor proved on the model and evaluated on real runs ended by command / uptime / interrupt"
LEVEL_TEXT = ("Machine-checked for any number of threads and every accepted trace: after the shutdown event is set the resume event stays set (nothing blocks), every own operation of a background thread then strictly decreases a "
              "distance to its exit, a live thread always has an enabled non-timeout operation unless it waits for a resume not yet issued, no thread is ever blocked without having acknowledged, a joined thread never acts again, "
              "the final state is written after every thread has exited, and when launch() is through the clock runs and nothing is acknowledged. Tied to /repo by whole-system runs under the deterministic scheduler ended by shutdown at "
              "every position, uptime, or KeyboardInterrupt: traces accepted by M6, monitor evaluated, deadlock detector, clock state after return, first-attempt rule.")
LEVEL_NOTE = "Trusted: as C01. Termination of the control thread itself is argued from: it blocks only in joins (workers' waits are timed, background threads terminate by the measure). Wall-clock bounds are outside the model."
DESIGN_REF = "DESIGN.md §4 C02"
