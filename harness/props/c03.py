"""C03 — a failure in any thread stops the whole system instead of hanging it."""
from harness.props.sysbase import *  # noqa: F401,F403
from harness.props import sysbase as B
from harness.props.c09 import WHERE

ID = "C03"
THEOREM_FILE = "Properties/C03.v"
COQ_PROP_OK = "(fun c => C03_ok (snd c) && C03_flagged (snd c) && C09_complete_ok (snd c) && C02_ok (s_complete (fst c)) (snd c))"
RULE = ("seeded whole-system runs in which exactly one user callback raises (once, or from then on at every call): setup, the k-th step (k<=4), the k-th training run, a pause hook or a resume hook during the n-th pause, of either thread; or the save condition / "
        "a state save raises in the control loop; combined with random command histories (incl. failures while a pause is being negotiated or while paused) and schedules. Checked per run: launch() comes back (no deadlock, "
        "no virtual-time budget overrun), returns normally for background failures and re-raises control failures after joining, teardown exactly once, a thread whose callback raised sets its exception flag before it ends, at most one control tick begins after the exception flag was set. "
        "Non-trivial = the failure happened while the resume event was cleared (pause in flight or paused); distinct = canonical JSON.")
TRUSTED = B.TRUSTED_SYS
ASSUMPTIONS = B.ASSUMPTIONS_SYS


def gen_one(rng, seed):
    sp = B.base_spec(rng, seed)
    sp["cmds"] = B.gen_cmds(rng, ["pause", "resume", "save", "pause", "resume", "pause"], nmax=8, shutdown=False)
    if rng.random() < 0.25:
        # an operator pause that nobody takes back: a failure during it (or while paused) must still end the run
        sp["cmds"] = [["sleep", rng.choice([0.0, 0.002, 0.005])], ["pause"]]
    sp["cmds"] += [["sleep", 0.15], ["shutdown", "retry"]]     # safety net only: the failure must end the run long before
    sp["max_events"] = 30000
    r = rng.random()
    if r < 0.8:
        sp["faults"] = [{"where": rng.choice(WHERE[:10]), "k": rng.randint(1, 4)}]
        if rng.random() < 0.5:
            sp["faults"][0]["persist"] = True     # the component stays broken: every later call of that callback fails too
    elif r < 0.9:
        sp["faults"] = [{"where": "savecond", "k": rng.randint(1, 20)}]
    else:
        sp["faults"] = [{"where": "save", "k": 1}]
        sp["cmds"] = [["sleep", rng.choice([0.0, 0.003])], ["save"]] + sp["cmds"]
    sp["queue_size"] = rng.choice([1, 2, 5])
    sp["budget"] = 60.0
    return sp


def gen(rng, tier):
    n = {"quick": 300, "thorough": 10000, "search": 2500}[tier]
    return [gen_one(rng, rng.randrange(10**9)) for _ in range(n)]


def fault_seen(obs):
    return [e for e in (obs.get("trace") or []) if e[1] in ("cb_raise", "save_raise", "savecond_raise")]


def outcome_ok(case, obs):
    f = fault_seen(obs)
    if not f:
        # the chosen occurrence was never reached: an ordinary run (cut short by the event budget at worst)
        return obs.get("deadlock") in (None, "event budget exceeded")
    if obs.get("deadlock") is not None:
        return False
    ctl_fault = [e for e in f if e[1] in ("save_raise", "savecond_raise")]
    out = obs.get("outcome") or ""
    if ctl_fault:
        # a failing final save also raises: any raised:Injected outcome is the propagated control error
        return out.startswith("raised:")
    return out == "returned"


def precheck(case, obs):
    v = B.precheck_common(case, obs)
    if v:
        return v
    if not outcome_ok(case, obs):
        return {"agree": obs.get("deadlock") is None, "prop_ok": False}
    return None


def nontrivial(case, obs):
    tr = obs.get("trace") or []
    res = True
    for e in tr:
        if e[0] == "main" and e[1] == "clear" and e[2] == "resume":
            res = False
        elif e[0] == "main" and e[1] == "set" and e[2] == "resume":
            res = True
        elif e[1] == "cb_raise" and not res:
            return True
    return False


def signature(case, obs):
    if "error" in obs or "crash" in obs:
        return "harness-error"
    if obs.get("deadlock") is not None:
        return "hang-after-failure"
    if not outcome_ok(case, obs):
        return "wrong-outcome:" + str(obs.get("outcome"))[:20]
    tr = obs.get("trace") or []
    td = sum(1 for e in tr if e[1] == "cb_b" and e[2] == "a.teardown")
    if B.complete(obs) and td != 1:
        return f"teardown-count-{td}"
    return "carries-on-after-failure"


TECHNIQUE = "Coq proofs over the thread-protocol acceptor M6 (potential argument: at most one more control tick after an exception flag; control failures leave the loop and are re-raised by launch(); progress and measure lemmas give termination) + C03 trace monitor evaluated on real runs with one injected failure each"
LEVEL_TEXT = ("Machine-checked on the thread model for every accepted trace: a raising callback leads to the exception flag being set (except for a raising teardown), the flag is never cleared, every control tick polls every flag and starts the "
              "shutdown when one is set, after which the resume event stays set and every thread's own operations strictly approach its exit; the control thread's own failures run its finally-shutdown and the epilogue joins before re-raising. "
              "Tied to /repo by whole-system runs with one failure injected at a chosen callback and occurrence (either thread, incl. during a negotiated pause and while paused) or in the control loop: traces accepted by M6, launch() outcome, "
              "deadlock / budget detector, teardown count, and the 'at most one more tick' monitor.")
LEVEL_NOTE = "Trusted: as C01. 'launch() comes back' is a liveness statement: on the model it is carried by the progress/measure theorems (callbacks are assumed to return), on the implementation by the harness' deadlock and budget detector."
DESIGN_REF = "DESIGN.md §4 C03"
