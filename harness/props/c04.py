"""C04 — a state saved while running is one consistent snapshot."""
from harness.props.sysbase import *  # noqa: F401,F403
from harness.props import sysbase as B

ID = "C04"
THEOREM_FILE = "Properties/C04.v"
COQ_PROP_OK = "(fun c => C04_ok (snd c))"
RULE = ("seeded whole-system runs with saves triggered by command and by the save condition at random control ticks, relative to steps, collections and training runs of random durations; "
        "saves while already paused; preceding pause/resume histories; uniform-random and PCT schedules. Every written state is read back (buffer pickle, agent counter, trainer counter, clock). "
        "Non-trivial = at least two runtime saves, one of them while steps/training runs of non-zero duration were in flight at the request; distinct = canonical JSON.")
TRUSTED = B.TRUSTED_SYS + ["harness/sim/system.py reads every written state directory back right after StateStore.save_state returned (no yield point in between)"]
ASSUMPTIONS = B.ASSUMPTIONS_SYS


def gen_one(rng, seed):
    sp = B.base_spec(rng, seed)
    sp["save_at_ticks"] = sorted(rng.sample(range(1, 60), rng.randint(0, 4)))
    cmds = []
    for _ in range(rng.randint(1, 6)):
        cmds.append(["sleep", rng.choice([0.0, 0.001, 0.003, 0.008])])
        cmds.append([rng.choice(["save", "save", "pause", "resume", "save"])])
    cmds += [["sleep", 0.003], ["shutdown", "retry"]]
    sp["cmds"] = cmds
    sp["queue_size"] = rng.choice([1, 2, 5])
    if rng.random() < 0.25:
        # a background thread dies (its teardown may take a while) around the moment a save is requested
        sp["faults"] = [{"where": rng.choice(["a.step", "t.train", "a.hookP", "t.hookP", "a.hookR", "e.setup"]), "k": rng.randint(1, 3)}]
        sp["teardown_dur"] = rng.choice([0, 0.002, 0.01])
        sp["save_at_ticks"] = sorted(set(sp["save_at_ticks"]) | set(rng.sample(range(1, 12), 3)))
    return sp


def gen(rng, tier):
    n = {"quick": 300, "thorough": 10000, "search": 2500}[tier]
    return [gen_one(rng, rng.randrange(10**9)) for _ in range(n)]


def save_infos(obs):
    return [e for e in (obs.get("trace") or []) if e[1] == "save_e"]


def data_consistent(e, last):
    """the read-back of one written state: nothing in transit, all parts agree, clock frozen (runtime saves)"""
    info = e[4] if len(e) > 4 else {}
    if "readback_error" in info or not info:
        return False
    ok = info["buf_ok"] and info["agent_steps"] == info["steps_now"] and info["trainer_trains"] == info["trains_now"]
    ok = ok and (info["steps_now"] == 0 or info["buf_last"] == info["steps_now"])
    if not last:
        ok = ok and e[3] is True and info["clock_saved"] == info["clock_now"]
    return bool(ok)


def precheck(case, obs):
    v = B.precheck_common(case, obs)
    if v:
        return v
    saves = save_infos(obs)
    fin = B.complete(obs)
    for k, e in enumerate(saves):
        if not data_consistent(e, last=(fin and k == len(saves) - 1)):
            return {"agree": True, "prop_ok": False}
    if B.clock_moved_while_paused(obs):        # the clock value written is the one the pause froze
        return {"agree": True, "prop_ok": False}
    return None


def nontrivial(case, obs):
    saves = save_infos(obs)
    return len(saves) >= 3 and (case.get("step_dur", 0) > 0 or case.get("train_dur", 0) > 0)


def signature(case, obs):
    if "error" in obs or "crash" in obs:
        return "harness-error"
    if B.clock_moved_while_paused(obs):
        return "clock-moves-during-the-save-pause"
    saves = save_infos(obs)
    fin = B.complete(obs)
    for k, e in enumerate(saves):
        if not data_consistent(e, last=(fin and k == len(saves) - 1)):
            info = e[4] if len(e) > 4 else {}
            if not info.get("buf_ok", True) or info.get("buf_last") != info.get("steps_now"):
                return "sample-in-transit-or-lost"
            if e[3] is not True:
                return "saved-while-clock-running"
            return "saved-parts-disagree"
    return "save-not-quiescent"


TECHNIQUE = "Coq invariant proofs over the thread-protocol acceptor M6 (saving implies acknowledged quiescence or all threads gone) + C04 trace monitor proved on the model and evaluated on real runs + read-back of every written state"
LEVEL_TEXT = ("Machine-checked: in every reachable state of every accepted trace a state is being written only inside an acknowledged pause (clock frozen, every background thread quiescent) or after every thread has exited; "
              "the clock and the threads are never released meanwhile; DataUser.save_state leaves nothing in transit (pipe model); the exported clock value is the one every reading shows while frozen. "
              "Tied to /repo by whole-system runs of the real launch() under the deterministic scheduler: traces accepted by M6, C04 monitor evaluated on them, and every written state read back and compared with the "
              "counters of the harness components (all collected samples present, agent/trainer/clock values agree).")
LEVEL_NOTE = "Trusted: as C01, plus the read-back of state directories in the harness. 'Running again iff it ran before' is enforced by trace acceptance (the model's save procedure resumes iff it paused itself)."
DESIGN_REF = "DESIGN.md §4 C04"
