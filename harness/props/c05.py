"""C05 — loading a saved state reproduces it exactly."""
import json
from fractions import Fraction

from harness.core import cb, cl, cn, copt, cz
from harness.props import sysbase as B

ID = "C05"
IMPL = "c05"
IMPL_CHUNK = 20
IMPL_TIMEOUT = 1500
THEOREM_FILE = "Properties/C05.v"
COQ_IMPORT = "From Pamiq Require Import Model.Buffers Model.DataPipe Model.Roundtrip Check.C05."
COQ_CASE_TYPE = "c05case"
COQ_AGREE = "c05_agree"
COQ_PROP_OK = "c05_prop_ok"
RULE = ("(a) a whole StateStore in the launcher's registration order over real components: 1-3 data users over every buffer class (sequential, random-replacement, and their dict variants; capacities 1-7; 0-3x capacity collected, with and without "
        "intermediate hand-overs; timestamp patterns with ties and plateaus), loaded into fresh buffers of equal or smaller capacity; trainers whose progress marker is any float (+-inf, denormal, huge, negative); 0-3 models with versions; "
        "nested agents (depth 0-3) with a value each; a TimeController on a virtual raw clock saved running or paused at scale 0.5-4 and loaded into a fresh controller whose raw clock has another origin. Compared through public getters: "
        "get_data, len, count_data_added_since at probe timestamps around every stored timestamp, inference output, per-agent value, time() right after the load and after a further raw advance. "
        "(b) relaunch: a launch() under the deterministic harness with a random command history, then in a fresh interpreter a second launch(saved_state_path = state saved at shutdown): step counter, buffer, trainer count and marker, "
        "clock value at the load and at the first callback against the end values of run 1. (c) the PyTorch trainer over the stand-in torch: runs, and relaunches (save, load into a fresh trainer; also two in a row): the optimizer goes on counting where it was (harness-side clause). Non-trivial = a store case with more samples than capacity and a non-default marker, or a relaunch with at least 3 steps and a training run; distinct = canonical JSON.")
TRUSTED = [
    "Coq 8.16.1 kernel incl. vm_compute",
    "hand-written model coq/Model/Roundtrip.v over Model/Buffers.v, Model/DataPipe.v (and Model/Models.v, Model/Composite.v, Model/Clock.v for the parts restated from C14, C12, C06)",
    "harness/impl/c05.py: scripted pamiq_core.time.time for the collect timestamps; TimeControllers on harness/sim/faketime.FakeTime; trainer markers set through the private attribute _previous_training_time (any float); harness Agent / TrainingModel subclasses",
    "harness/sim/system.py for the relaunch (as C01), second launch in a fresh interpreter",
]
ASSUMPTIONS = [
    "pickle and str/float round-trip Python values exactly (observed, not modelled: the comparison is on the values read back)",
    "for a random-replacement buffer the retained set at the save is taken from the observation (it is random once the buffer had to replace; C11 covers replacement); its timestamp window (max_queue_size, longer than the buffer when replace_probability < 1) is modelled",
    "loading into a SMALLER buffer keeps the newest (sequential) / first (random-replacement) samples: the code's documented behaviour, the property itself speaks of equal configuration",
]

FLOATS = ["inf", "-inf", "0.0", "-0.0", "5e-324", "1.5e-320", "1.7976931348623157e+308", "-123456.78901234567", "1000.0239999999999", "3.0000000000000004", "0.1"]


def gen_agent(rng, depth):
    a = {"val": rng.randint(0, 99)}
    if depth > 0 and rng.random() < 0.6:
        a["children"] = {f"c{i}": gen_agent(rng, depth - 1) for i in range(rng.randint(1, 2))}
    return a


def gen_store(rng):
    users = []
    for _ in range(rng.randint(1, 3)):
        kind = rng.choice(["seq", "seq", "rr", "dseq", "drr"])
        cap1 = rng.choice([1, 2, 3, 4, 7])
        cap2 = cap1 if rng.random() < 0.6 else rng.randint(1, cap1)
        n = rng.choice([0, 1, cap1, cap1, 2 * cap1, 3 * cap1])
        t, adds = rng.randint(0, 5), []
        for i in range(n):
            t += rng.choice([0, 0, 1, 1, 2, 5])
            adds.append([i + 1, t])
        # random-replacement buffers: with probability < 1 the timestamp window (max_queue_size) is longer than the buffer
        u = {"kind": kind, "cap1": cap1, "cap2": cap2, "adds": adds, "update_each": rng.random() < 0.3,
             "p": rng.choice([1.0, 1.0, 0.5, 0.25])}
        if kind in ("seq", "dseq") and rng.random() < 0.5:
            # load into a LARGER buffer sometimes, and let further samples arrive after the load
            if rng.random() < 0.5:
                u["cap2"] = cap1 + rng.choice([1, 2, 5])
            m, mt = [], t
            for j in range(rng.choice([1, cap1, 2 * u["cap2"] + 1])):
                mt += rng.choice([0, 1, 1, 3])
                m.append([1000 + j, mt])
            u["more"] = m
        users.append(u)
    ts = sorted({t for u in users for _, t in u["adds"] + u.get("more", [])})
    probes = sorted({p for t in ts for p in (t - 1, t, t + 1)} | {-5, 10**6})[:40]
    ck = {"scale": rng.choice([0.5, 1.0, 2.0, 4.0]), "raw_a": float(rng.choice([0, 100, 12345])), "adv1": rng.choice([0.0, 0.5, 3.0, 100.25]),
          "raw_b": float(rng.choice([0, 7, 5000, 99999])), "scale_b": rng.choice([0.5, 1.0, 2.0]), "adv2": rng.choice([0.0, 0.25, 1.5, 64.0]),
          "paused": rng.random() < 0.3}
    return {"kind": "store", "users": users, "probes": probes, "trainers": [{"marker": rng.choice(FLOATS + [None])} for _ in range(rng.randint(0, 3))],
            "models": [{"v": rng.randint(0, 50)} for _ in range(rng.randint(0, 3))], "agent": gen_agent(rng, 3), "clock": ck, "seed": rng.randrange(10**6)}


def gen_relaunch(rng):
    def spec(seed, long):
        sp = B.base_spec(rng, seed)
        sp["buf_size"] = rng.choice([1, 3, 5, 1000])
        sp["time_scale"] = rng.choice([1.0, 2.0, 0.5])
        sp["train_cond"] = [rng.randint(0, 3), rng.randint(0, 2)] if rng.random() < 0.7 else None
        if not sp["train_cond"]:
            sp.pop("train_cond")
        sp.pop("save_at_ticks", None)
        sp["cmds"] = (B.gen_cmds(rng, ["pause", "resume", "save", "pause", "resume"], nmax=5, shutdown=False) if long else []) + \
                     [["sleep", rng.choice([0.002, 0.006])], ["resume"], ["sleep", 0.001], ["shutdown", "retry"]]
        sp["max_events"] = 12000
        return sp
    r1 = spec(rng.randrange(10**9), True)
    r2 = spec(rng.randrange(10**9), False)
    r2["buf_size"], r2["time_scale"] = r1["buf_size"], r1["time_scale"]
    if "train_cond" in r1:
        r2["train_cond"] = r1["train_cond"]
    else:
        r2.pop("train_cond", None)
    return {"kind": "relaunch", "run1": r1, "run2": r2}


def gen_torch_trainer(rng):
    """the PyTorch trainer's progress (optimizer state): runs, and relaunches (save, load into a fresh trainer) - also two
    relaunches with no run in between"""
    return {"kind": "torchtrainer", "ops": [rng.choice(["run", "run", "relaunch"]) for _ in range(rng.randint(2, 10))] + ["relaunch", "relaunch", "run"]}


def gen(rng, tier):
    ns, nr = {"quick": (400, 32), "thorough": (12000, 600), "search": (3000, 100)}[tier]
    return [gen_store(rng) for _ in range(ns)] + [gen_relaunch(rng) for _ in range(nr)] + [gen_torch_trainer(rng) for _ in range(nr)]


def q(fr):
    return f"({fr[0]} # {fr[1]})%Q"


def qf(x):
    f = Fraction(x)
    return f"({f.numerator} # {f.denominator})%Q"


KIND = {"seq": "KSeq", "dseq": "KSeq", "rr": "KRR", "drr": "KRR"}


def cuobs(o):
    return "{| o_items := %s; o_len := %s; o_counts := %s |}" % (cl(cz(i) for i in o["items"]), cn(o["len"]), cl(cn(c) for c in o["counts"]))


def split(case, obs):
    """one observed run -> several Coq cases"""
    out = []
    if case["kind"] == "store":
        for i, u in enumerate(case["users"]):
            b, a = obs["before"]["users"][i], obs["after"]["users"][i]
            cfg = "{| u_kind := %s; u_cap1 := %s; u_cap2 := %s; u_q1 := %s; u_q2 := %s |}" % (
                KIND[u["kind"]], cn(u["cap1"]), cn(u["cap2"]), copt(None if b["q"] is None else cn(b["q"])), copt(None if a["q"] is None else cn(a["q"])))
            # a random-replacement buffer's retained set is random once it had to replace: the model takes what it held at the save
            ids = [x[0] for x in u["adds"]] if KIND[u["kind"]] == "KSeq" else b["items"]
            out.append(f"(CUser {cfg} {cl(cz(x) for x in ids)} {cl(cz(x[1]) for x in u['adds'])} {cl(cz(p) for p in case['probes'])} {cuobs(b)} {cuobs(a)})")
            if u.get("more") and obs["after"].get("more_users"):
                m = obs["after"]["more_users"][i]
                out.append(f"(CMore {cfg} {cl(cz(x) for x in ids)} {cl(cz(x[1]) for x in u['adds'])} {cl(cz(p) for p in case['probes'])} "
                           f"{cl(cz(x[0]) for x in u['more'])} {cl(cz(x[1]) for x in u['more'])} {cuobs(m)})")
        pairs = whole_pairs(obs)
        af = obs["after"]
        out.append(f"(CWhole {cl(f'({cz(x)}, {cz(y)})' for x, y in pairs)} {q(obs['before']['clock'])} {q(af['clock'])} {q(af['clock_later'])} {q(af['expect_later'])})")
    else:
        out.append(f"(CRelaunch {cl(f'({cz(x)}, {cz(y)})' for x, y in relaunch_pairs(obs))} {qf(obs['end']['info']['clock_now'])} {qf(obs['second']['loaded']['clock'])})")
    return out


def intern_pairs(pairs):
    ids = {}
    def ix(v):
        k = json.dumps(v, sort_keys=True)
        if k not in ids:
            ids[k] = len(ids)
        return ids[k]
    return [(ix(a), ix(b)) for a, b in pairs]


def whole_pairs(obs):
    b, a = obs["before"], obs["after"]
    pairs = list(zip(b["markers"], a["markers"])) + list(zip(b["versions"], a["versions"])) + list(zip(b["agents"], a["agents"]))
    return intern_pairs(pairs)


def relaunch_pairs(obs):
    e, s = obs["end"], obs["second"]
    i, l, f = e["info"], s["loaded"], s.get("first") or {}
    pairs = [(e["steps"], l["steps"]), (e["trains"], l["trains"]), (i["buf"], l["buf"]), (len(i["buf"]), l["len"]), (i["marker"], l["marker"]),
             (i["agent_steps"], l["steps"]), (i["trainer_trains"], l["trains"])]
    if f:
        # the values the relaunched system starts from, at its first callback (incl. state the agent builds when it is wired up)
        pairs += [(e["steps"], f["steps_before"]), (i["buf"], f["buf"]), (e.get("hidden"), f.get("hidden_before"))]
    return intern_pairs(pairs)


def precheck(case, obs):
    if "crash" in obs or "error" in obs:
        return {"agree": False, "prop_ok": False, "hard": True}
    if case["kind"] == "torchtrainer":
        # the optimizer goes on counting where the previous run - before any number of saves and loads - left it (harness-side clause)
        n = sum(1 for o in case["ops"] if o == "run")
        ok = obs.get("opt_steps") == list(range(1, n + 1))
        return {"agree": ok, "prop_ok": ok}
    if case["kind"] == "store":
        for u in obs["before"]["users"] + obs["after"]["users"]:
            if u["items"] and u["items"][0] == "misaligned":
                return {"agree": True, "prop_ok": False}
    else:
        s = obs["second"]
        if s.get("deadlock") is not None or s.get("loaded") is None:
            return {"agree": False, "prop_ok": False}
        f, l = s.get("first"), s["loaded"]
        # the clock at the first callback: the loaded value plus scale x raw time since the load
        if f:
            exp = Fraction(l["clock"]) + Fraction(case["run2"].get("time_scale", 1.0)) * (Fraction(f["raw"]) - Fraction(l["raw"]))
            if abs(Fraction(f["clock"]) - exp) > Fraction(1, 10**6):
                return {"agree": True, "prop_ok": False}
    return None


def coq_case(case, obs):
    return split(case, obs)


def coq_expected(case, obs):
    if case["kind"] != "store":
        return "tt"
    u = case["users"][0]
    b, a = obs["before"]["users"][0], obs["after"]["users"][0]
    cfg = "{| u_kind := %s; u_cap1 := %s; u_cap2 := %s; u_q1 := %s; u_q2 := %s |}" % (
        KIND[u["kind"]], cn(u["cap1"]), cn(u["cap2"]), copt(None if b["q"] is None else cn(b["q"])), copt(None if a["q"] is None else cn(a["q"])))
    args = f"{cfg} {cl(cz(x[0]) for x in u['adds'])} {cl(cz(x[1]) for x in u['adds'])} {cl(cz(p) for p in case['probes'])}"
    return f"(before_save {args}, after_load {args})"


def nontrivial(case, obs):
    if case["kind"] == "torchtrainer":
        return False
    if case["kind"] == "store":
        return any(len(u["adds"]) > u["cap1"] for u in case["users"]) and any(t["marker"] not in (None, "-inf") for t in case["trainers"])
    return obs.get("end", {}).get("steps", 0) >= 3 and obs.get("end", {}).get("trains", 0) >= 1


def signature(case, obs):
    if "error" in obs or "crash" in obs:
        return "harness-error"
    if case["kind"] == "torchtrainer":
        return "torch-trainer-progress"
    if case["kind"] == "store":
        b, a = obs["before"], obs["after"]
        if b["clock"] != a["clock"] or a["clock_later"] != a["expect_later"]:
            return "clock-not-continued"
        if b["markers"] != a["markers"]:
            return "trainer-marker"
        if b["versions"] != a["versions"]:
            return "inference-parameters"
        if b["agents"] != a["agents"]:
            return "nested-component"
        if a.get("more_users"):
            for u, y, m in zip(case["users"], a["users"], a["more_users"]):
                if u.get("more"):
                    exp = (y["items"] + [x[0] for x in u["more"]])[-u["cap2"]:]
                    if m["items"] != exp:
                        return "arrivals-after-load:buffer"
        for u, x, y in zip(case["users"], b["users"], a["users"]):
            if u["cap1"] == u["cap2"] and x["q"] == y["q"]:
                if x["items"] != y["items"] or x["len"] != y["len"]:
                    return "buffer-content"
                if x["counts"] != y["counts"]:
                    return "arrival-counts"
        return "smaller-buffer-or-model"
    return "relaunch-differs"


def shrink(case):
    out = []
    if case["kind"] == "torchtrainer":
        return [dict(case, ops=case["ops"][:i] + case["ops"][i + 1:]) for i in range(len(case["ops"]))]
    if case["kind"] == "store":
        if len(case["users"]) > 1:
            for i in range(len(case["users"])):
                c = dict(case); c["users"] = case["users"][:i] + case["users"][i + 1:]; out.append(c)
        for i, u in enumerate(case["users"]):
            if u["adds"]:
                c = dict(case); us = list(case["users"]); us[i] = dict(u, adds=u["adds"][:-1]); c["users"] = us; out.append(c)
        for key in ("trainers", "models"):
            if case[key]:
                c = dict(case); c[key] = case[key][:-1]; out.append(c)
        if case["agent"].get("children"):
            c = dict(case); c["agent"] = {"val": case["agent"]["val"]}; out.append(c)
    else:
        for c1 in B.shrink(case["run1"]):
            out.append(dict(case, run1=c1))
    return out


def describe(case, obs):
    if case["kind"] == "torchtrainer":
        return {"input": case, "optimizer_steps_after_each_run": obs.get("opt_steps"), "error": obs.get("error")}
    if case["kind"] == "store":
        return {"input": case, "before_save": obs.get("before"), "after_load": obs.get("after"), "error": obs.get("error")}
    return {"input": case, "end_of_run_1": obs.get("end"), "start_of_run_2": obs.get("second"), "error": obs.get("error")}


def distribution(cases, obs):
    d = {"store_cases": 0, "relaunch_cases": 0, "users": 0, "buffer_kinds": {}, "smaller_capacity": 0, "over_capacity": 0, "markers": {}, "paused_clock": 0,
         "agents": 0, "relaunch_steps": 0, "relaunch_trains": 0}
    d["torch_trainer_cases"] = sum(1 for c in cases if c["kind"] == "torchtrainer")
    for c, o in zip(cases, obs):
        if c["kind"] == "torchtrainer":
            continue
        if c["kind"] == "store":
            d["store_cases"] += 1
            d["paused_clock"] += int(bool(c["clock"].get("paused")))
            for u in c["users"]:
                d["users"] += 1
                d["buffer_kinds"][u["kind"]] = d["buffer_kinds"].get(u["kind"], 0) + 1
                d["smaller_capacity"] += int(u["cap2"] < u["cap1"])
                d["over_capacity"] += int(len(u["adds"]) > u["cap1"])
            for t in c["trainers"]:
                d["markers"][str(t["marker"])] = d["markers"].get(str(t["marker"]), 0) + 1
            d["agents"] += len(o.get("before", {}).get("agents", []))
        else:
            d["relaunch_cases"] += 1
            d["relaunch_steps"] += o.get("end", {}).get("steps", 0)
            d["relaunch_trains"] += o.get("end", {}).get("trains", 0)
    return d


TECHNIQUE = "Coq round-trip theorems over the data-path model (buffer contents, timestamps and arrival counts; equal configuration => identical getters; truncation lemmas) with the clock / model / nested-component parts restated from C06 / C14 / C12 + differential save-load of real components through a real StateStore and a real relaunch in a fresh interpreter"
LEVEL_TEXT = ("Machine-checked: for every buffer kind, capacity, collect history (also longer than the capacity) and every probe timestamp, the getters get_data / len / count_data_added_since answer after the load exactly what they answered "
              "before the save when the configuration is equal; a smaller sequential buffer keeps the newest min(cap) samples in order, a smaller random-replacement buffer the first ones, never more than the capacity, and arrival counts "
              "are exact up to the timestamp queue's size; the clock continues from the saved instant (C06's load theorems), every nested component reads the path it wrote (C12), inference sees the loaded parameters (C14). Tied to /repo by "
              "saving real component sets through a real StateStore in the launcher's order and loading them into fresh components (getters compared inside Coq with the model and with the property), and by relaunching a real system from the state saved at shutdown in a fresh interpreter.")
LEVEL_NOTE = "Trainer progress markers, model versions and nested values are compared as read-back values (identity), their text / pickle encoders are exercised, not modelled. Trusted: the harness components and the virtual raw clock."
DESIGN_REF = "DESIGN.md §4 C05"
