"""C06 — the system clock is the scaled, pausable image of real time (sequential histories)."""
from fractions import Fraction

from harness.core import cb, cl, cq

ID = "C06"
IMPL = "c06"
THEOREM_FILE = "Properties/C06.v"
COQ_IMPORT = "From Pamiq Require Import Model.Clock Check.C06."
COQ_CASE_TYPE = "case"
COQ_AGREE = "agree"
COQ_PROP_OK = "prop_ok"
RULE = ("seeded histories (length <= 60) over read(time|perf_counter|monotonic) / set_time_scale / get_time_scale / is_paused / pause / resume / "
        "state_dict / load_state_dict / sleep, with real-time advances between operations; all values dyadic so that float arithmetic is exact "
        "(scales 1/4..8 and 3, 5; sleeps are multiples of the current scale); a malformed stream sets scales <= 0. "
        "Non-trivial = contains a scale change, a pause/resume pair with an advance inside, and a read after an export or load; distinct = canonical JSON.")
TRUSTED = [
    "Coq 8.16.1 kernel incl. vm_compute",
    "hand-written model coq/Model/Clock.v of time.py TimeController (one channel; Check/C06.v projects the three channels)",
    "harness/sim/faketime.py: pamiq_core/time.py re-executed on a virtual stdlib `time` module",
    "float arithmetic on the generated dyadic values is exact (values < 2^31 with <= 12 fractional bits)",
]
ASSUMPTIONS = [
    "real time advances only between public operations (the nanoseconds between two raw reads inside one call are not modelled)",
    "float rounding is outside the model",
]

SCALES = [[1, 4], [1, 2], [1, 1], [2, 1], [4, 1], [8, 1], [3, 1], [5, 1]]


def gen_one(rng):
    ops, k = [], Fraction(1)
    n = rng.randint(3, 60)
    for _ in range(n):
        r = rng.random()
        if r < 0.22:
            ops.append(["advance", [rng.randint(0, 4096), rng.choice([1, 4, 64, 1024])]])
        elif r < 0.47:
            ops.append(["read", rng.choice("TPM")])
        elif r < 0.56:
            s = rng.choice(SCALES)
            if rng.random() < 0.08:
                s = rng.choice([[0, 1], [-1, 2], [-3, 1]])
            else:
                k = Fraction(s[0], s[1])
            ops.append(["setscale", s])
        elif r < 0.60:
            ops.append(["getscale"])
        elif r < 0.64:
            ops.append(["ispaused"])
        elif r < 0.72:
            ops.append(["pause"])
        elif r < 0.80:
            ops.append(["resume"])
        elif r < 0.88:
            ops.append(["export"])
        elif r < 0.93:
            ops.append(["load"] + [[rng.randint(0, 2 ** 20), rng.choice([1, 4, 256])] for _ in range(3)])
        else:
            m = Fraction(rng.randint(0, 640), 64) * k
            ops.append(["sleep", [m.numerator, m.denominator]])
    return {"now0": [rng.randint(0, 4096), rng.choice([1, 16])], "ops": ops}


def gen(rng, tier):
    n = {"quick": 1500, "thorough": 50000, "search": 6000}[tier]
    return [gen_one(rng) for _ in range(n)]


def precheck(case, obs):
    if "crash" in obs or "error" in obs:
        return {"agree": False, "prop_ok": False, "hard": True}
    return None


def _q(p):
    return cq(Fraction(p[0], p[1]))


def _op(o):
    k = o[0]
    if k == "read":
        return f"(Read3 C{o[1]})"
    if k == "setscale":
        return f"(SetScale3 {_q(o[1])})"
    if k in ("getscale", "ispaused", "pause", "resume", "export"):
        return {"getscale": "GetScale3", "ispaused": "IsPaused3", "pause": "Pause3", "resume": "Resume3", "export": "Export3"}[k]
    if k == "load":
        return f"(Load3 {_q(o[1])} {_q(o[2])} {_q(o[3])})"
    if k == "sleep":
        return f"(Sleep3 {_q(o[1])})"
    return f"(Advance3 {_q(o[1])})"


def _out(o):
    if o[0] == "q":
        return f"(OQ3 {_q(o[1])})"
    if o[0] == "tri":
        return f"(OTri {_q(o[1])} {_q(o[2])} {_q(o[3])})"
    if o[0] == "b":
        return f"(OBool3 {cb(o[1])})"
    return "ONone3" if o[0] == "none" else "OErr3"


def coq_input(case):
    return "{| offT := 1000; offP := 5; offM := 7; now0 := %s; ops := %s |}" % (_q(case["now0"]), cl(_op(o) for o in case["ops"]))


def coq_case(case, obs):
    return f"({coq_input(case)}, {cl(_out(o) for o in obs['outs'])})"


def coq_expected(case, obs):
    i = coq_input(case)
    return f"map (fun c => srun (sinit (off {i} c) (now0 {i})) (map (proj_op c) (ops {i}))) [CT; CP; CM]"


def nontrivial(case, obs):
    kinds = [o[0] for o in case["ops"]]
    has_scale = "setscale" in kinds
    paused_adv = False
    st = 0
    for k in kinds:
        if k == "pause":
            st = 1
        elif k == "advance" and st == 1:
            st = 2
        elif k == "resume":
            if st == 2:
                paused_adv = True
            st = 0
    after = any(k in ("export", "load") and "read" in kinds[i + 1:] for i, k in enumerate(kinds))
    return has_scale and paused_adv and after


def signature(case, obs):
    if "error" in obs or "crash" in obs:
        return "raises"
    kinds = [o[0] for o in case["ops"]]
    if "export" in kinds and not any(k in ("setscale", "pause", "resume", "load", "sleep") for k in kinds):
        return "clock-shifts-after-export"
    return "clock-law"


def shrink(case):
    out = []
    ops = case["ops"]
    for i in range(len(ops) - 1, -1, -1):
        c = dict(case); c["ops"] = ops[:i] + ops[i + 1:]; out.append(c)
    return out


def describe(case, obs):
    return {"input": case, "outputs": (obs.get("outs") or [])[:12]}


def distribution(cases, obs):
    d = {"ops": {}, "len": {}, "scales": {}}
    for c in cases:
        b = str(len(c["ops"]) // 10 * 10)
        d["len"][b] = d["len"].get(b, 0) + 1
        for o in c["ops"]:
            d["ops"][o[0]] = d["ops"].get(o[0], 0) + 1
            if o[0] == "setscale":
                k = f"{o[1][0]}/{o[1][1]}"
                d["scales"][k] = d["scales"].get(k, 0) + 1
    return d

TECHNIQUE = 'Coq refinement proof: the anchor arithmetic of TimeController refines the abstract scaled/pausable clock, for every operation history over Q + differential correspondence on a virtual raw clock'
LEVEL_TEXT = "Machine-checked refinement: for every history of read/set-scale/pause/resume/export/load/sleep operations with any rational arguments and any real-time advance between them, every output of the model of time.py equals the output of the abstract clock 'value grows at rate scale while not paused' (hence monotone, still while paused, continuous across scale changes / pause / resume, pure reads and exports, continues after load, sleep(d) lasts d/scale). The model is tied to /repo by re-executing pamiq_core/time.py on a virtual stdlib time module and comparing all three channels exactly (dyadic values) inside Coq, against both the code model and the abstract clock."
LEVEL_NOTE = 'Trusted: Coq kernel + vm_compute; coq/Model/Clock.v; harness/sim/faketime.py; exactness of float arithmetic on the generated dyadic values. Real time advances only between operations; float rounding not modelled.'
DESIGN_REF = 'DESIGN.md §4 C06'
