"""C06 — the system clock is the scaled, pausable image of real time (sequential histories, and two threads at source-line granularity)."""
from fractions import Fraction

from harness.core import cb, cl, cq

ID = "C06"
IMPL = "c06"
THEOREM_FILE = "Properties/C06.v"
COQ_IMPORT = "From Pamiq Require Import Model.Clock Check.C06."
COQ_CASE_TYPE = "case"
COQ_AGREE = "agree"
COQ_PROP_OK = "prop_ok"
RULE = ("seeded histories (length <= 60) over read(time|perf_counter|monotonic) / set_time_scale / get_time_scale / is_paused / pause / resume / "
        "state_dict / load_state_dict / sleep, with real-time advances between operations; all values dyadic so that float arithmetic is exact "
        "(scales 1/4..8 and 3, 5; sleeps are multiples of the current scale); a malformed stream sets scales <= 0; plus two-thread programs (2-7 operations each) over one controller, preempted at 0-6 chosen points among all source lines of time.py and lock operations, judged as the sequential history in lock-acquisition order. "
        "Non-trivial = contains a scale change, a pause/resume pair with an advance inside, and a read after an export or load; distinct = canonical JSON.")
TRUSTED = [
    "Coq 8.16.1 kernel incl. vm_compute",
    "hand-written model coq/Model/Clock.v of time.py TimeController (one channel; Check/C06.v projects the three channels)",
    "harness/sim/faketime.py: pamiq_core/time.py re-executed on a virtual stdlib `time` module",
    "harness/impl/c06line.py + harness/sim/sched.py: line-level interleaving of two sim threads over one TimeController (sim RLock, virtual raw clock); serialisation by lock-acquisition order",
    "float arithmetic on the generated dyadic values is exact (values < 2^31 with <= 12 fractional bits)",
]
ASSUMPTIONS = [
    "real time advances only between public operations (the nanoseconds between two raw reads inside one call are not modelled)",
    "float rounding is outside the model",
]

SCALES = [[1, 4], [1, 2], [1, 1], [2, 1], [4, 1], [8, 1], [3, 1], [5, 1]]


def gen_one(rng):
    ops, k = [], Fraction(1)
    n = rng.randint(3, 60)
    for _ in range(n):
        r = rng.random()
        if r < 0.22:
            ops.append(["advance", [rng.randint(0, 4096), rng.choice([1, 4, 64, 1024])]])
        elif r < 0.47:
            ops.append(["read", rng.choice("TPM")])
        elif r < 0.56:
            s = rng.choice(SCALES)
            if rng.random() < 0.08:
                s = rng.choice([[0, 1], [-1, 2], [-3, 1]])
            else:
                k = Fraction(s[0], s[1])
            ops.append(["setscale", s])
        elif r < 0.60:
            ops.append(["getscale"])
        elif r < 0.64:
            ops.append(["ispaused"])
        elif r < 0.72:
            ops.append(["pause"])
        elif r < 0.80:
            ops.append(["resume"])
        elif r < 0.88:
            ops.append(["export"])
        elif r < 0.93:
            ops.append(["load"] + [[rng.randint(0, 2 ** 20), rng.choice([1, 4, 256])] for _ in range(3)])
        else:
            m = Fraction(rng.randint(0, 640), 64) * k
            ops.append(["sleep", [m.numerator, m.denominator]])
    return {"now0": [rng.randint(0, 4096), rng.choice([1, 16])], "ops": ops}


def gen_line(rng):
    """two threads calling the public methods of one controller; preemption at a few chosen scheduling points"""
    def prog():
        ops = []
        for _ in range(rng.randint(2, 7)):
            r = rng.random()
            if r < 0.08:
                ops.append(["adv", [rng.choice([32, 64, 64, 128]), 64]])    # a coarse grid: the two threads often wake at the same instant
            elif r < 0.2:
                ops.append(["tick", [rng.choice([32, 64, 64, 128]), 64]])   # real time passes while the other thread is suspended mid-operation (outside the lock)
            elif r < 0.5:
                ops.append(["read", rng.choice("TPM")])
            elif r < 0.62:
                ops.append(["setscale", rng.choice(SCALES + [[0, 1]])])
            elif r < 0.72:
                ops.append(["pause"])
            elif r < 0.82:
                ops.append(["resume"])
            elif r < 0.92:
                ops.append(["export"])
            else:
                ops.append(["load"] + [[rng.randint(0, 2 ** 16), rng.choice([1, 4])] for _ in range(3)])
        return ops
    k = rng.choice([1, 1, 2, 3, 4, 6])
    # preemption points as fractions of the length of the un-preempted run (measured by the runner)
    return {"kind": "line", "now0": [rng.randint(0, 4096), rng.choice([1, 16])], "A": prog(), "B": prog(),
            "preempt_frac": sorted(round(rng.random(), 3) for _ in range(k)), "pick": rng.randrange(1000), "ops": []}


SYSTEMATIC = [
    {"A": [["adv", [64, 64]], ["setscale", [2, 1]], ["read", "T"]], "B": [["adv", [64, 64]], ["read", "T"], ["read", "P"]]},
    {"A": [["adv", [64, 64]], ["pause"], ["adv", [64, 64]], ["resume"], ["read", "T"]], "B": [["adv", [64, 64]], ["read", "M"], ["adv", [64, 64]], ["read", "T"], ["export"]]},
    {"A": [["adv", [32, 64]], ["export"], ["read", "T"], ["setscale", [1, 2]]], "B": [["adv", [32, 64]], ["load", [100, 1], [200, 1], [300, 1]], ["read", "T"], ["read", "P"]]},
    # real time passes, and the clock is re-anchored, while a reader is suspended somewhere inside its read
    {"A": [["tick", [64, 64]], ["setscale", [2, 1]], ["tick", [64, 64]], ["export"], ["read", "T"]], "B": [["read", "T"], ["read", "P"], ["read", "M"], ["read", "T"]]},
    {"A": [["pause"], ["tick", [64, 64]], ["resume"], ["tick", [32, 64]], ["setscale", [1, 2]]], "B": [["read", "M"], ["read", "T"], ["read", "P"], ["read", "M"]]},
]


def systematic_line_cases(points):
    """every single preemption point (as a fraction of the run's length) of three fixed two-thread programs in which a
    writer (set_time_scale / pause / resume / export / load) and a reader are active at the same instant, for two
    choices of who moves first"""
    out = []
    for prog in SYSTEMATIC:
        for pk in (0, 1):
            for i in range(points):
                out.append({"kind": "line", "now0": [64, 1], "A": prog["A"], "B": prog["B"], "preempt_frac": [i / points], "pick": pk, "ops": []})
    return out


def gen(rng, tier):
    n, nl = {"quick": (1500, 600), "thorough": (50000, 6000), "search": (6000, 2500)}[tier]
    cases = [gen_one(rng) for _ in range(n)] + [gen_line(rng) for _ in range(nl)] + systematic_line_cases(120 if tier == "quick" else 300)
    if tier == "thorough":
        # every single preemption point of a few programs
        for _ in range(12):
            base = gen_line(rng)
            cases += [dict(base, preempt_frac=[i / 250]) for i in range(250)]
        # pairs of preemption points of a few programs in which both threads are active at the same instants
        for _ in range(6):
            base = gen_line(rng)
            for key in ("A", "B"):
                base[key] = [o for o in base[key] if o[0] != "adv"][:4] or [["read", "T"]]
            base["A"] = [["adv", [64, 64]]] + base["A"] + [["setscale", [2, 1]], ["read", "T"]]
            base["B"] = [["adv", [64, 64]]] + base["B"] + [["read", "P"], ["pause"], ["read", "M"]]
            cases += [dict(base, preempt_frac=[a / 60, b / 60], pick=pk) for a in range(60) for b in range(a + 1, 60, 2) for pk in (0, 1)]
    return cases


def precheck(case, obs):
    if "crash" in obs or "error" in obs:
        return {"agree": False, "prop_ok": False, "hard": True}
    return None


def _q(p):
    return cq(Fraction(p[0], p[1]))


def _op(o):
    k = o[0]
    if k == "read":
        return f"(Read3 C{o[1]})"
    if k == "setscale":
        return f"(SetScale3 {_q(o[1])})"
    if k in ("getscale", "ispaused", "pause", "resume", "export"):
        return {"getscale": "GetScale3", "ispaused": "IsPaused3", "pause": "Pause3", "resume": "Resume3", "export": "Export3"}[k]
    if k == "load":
        return f"(Load3 {_q(o[1])} {_q(o[2])} {_q(o[3])})"
    if k == "sleep":
        return f"(Sleep3 {_q(o[1])})"
    return f"(Advance3 {_q(o[1])})"


def _out(o):
    if o[0] == "q":
        return f"(OQ3 {_q(o[1])})"
    if o[0] == "tri":
        return f"(OTri {_q(o[1])} {_q(o[2])} {_q(o[3])})"
    if o[0] == "b":
        return f"(OBool3 {cb(o[1])})"
    return "ONone3" if o[0] == "none" else "OErr3"


def coq_input(case, obs=None):
    # a line-level case is judged as the sequential history in which its operations took the lock
    ops = obs["serial_ops"] if (case.get("kind") == "line" and obs is not None) else case["ops"]
    return "{| offT := 1000; offP := 5; offM := 7; now0 := %s; ops := %s |}" % (_q(case["now0"]), cl(_op(o) for o in ops))


def coq_case(case, obs):
    return f"({coq_input(case, obs)}, {cl(_out(o) for o in obs['outs'])})"


def coq_expected(case, obs):
    i = coq_input(case, obs)
    return f"map (fun c => srun (sinit (off {i} c) (now0 {i})) (map (proj_op c) (ops {i}))) [CT; CP; CM]"


def nontrivial(case, obs):
    if case.get("kind") == "line":
        return obs.get("switches", 0) >= 2
    kinds = [o[0] for o in case["ops"]]
    has_scale = "setscale" in kinds
    paused_adv = False
    st = 0
    for k in kinds:
        if k == "pause":
            st = 1
        elif k == "advance" and st == 1:
            st = 2
        elif k == "resume":
            if st == 2:
                paused_adv = True
            st = 0
    after = any(k in ("export", "load") and "read" in kinds[i + 1:] for i, k in enumerate(kinds))
    return has_scale and paused_adv and after


def signature(case, obs):
    if "error" in obs or "crash" in obs:
        return "raises"
    if case.get("kind") == "line":
        return "concurrent-callers-not-one-clock"
    kinds = [o[0] for o in case["ops"]]
    if "export" in kinds and not any(k in ("setscale", "pause", "resume", "load", "sleep") for k in kinds):
        return "clock-shifts-after-export"
    return "clock-law"


def shrink(case):
    out = []
    if case.get("kind") == "line":
        for key in ("A", "B"):
            for i in range(len(case[key]) - 1, -1, -1):
                c = dict(case); c[key] = case[key][:i] + case[key][i + 1:]; out.append(c)
        pf = case.get("preempt_frac") or []
        for i in range(len(pf)):
            c = dict(case); c["preempt_frac"] = pf[:i] + pf[i + 1:]; out.append(c)
        return out
    ops = case["ops"]
    for i in range(len(ops) - 1, -1, -1):
        c = dict(case); c["ops"] = ops[:i] + ops[i + 1:]; out.append(c)
    return out


def describe(case, obs):
    if case.get("kind") == "line":
        return {"input": case, "serialised_as": obs.get("serial_ops"), "outputs": obs.get("outs"), "error": obs.get("error")}
    return {"input": case, "outputs": (obs.get("outs") or [])[:12]}


def distribution(cases, obs):
    d = {"ops": {}, "len": {}, "scales": {}, "line_level_cases": sum(1 for c in cases if c.get("kind") == "line"),
         "line_level_switches": sum(o.get("switches", 0) for c, o in zip(cases, obs) if c.get("kind") == "line")}
    for c in cases:
        b = str(len(c["ops"]) // 10 * 10)
        d["len"][b] = d["len"].get(b, 0) + 1
        for o in c["ops"]:
            d["ops"][o[0]] = d["ops"].get(o[0], 0) + 1
            if o[0] == "setscale":
                k = f"{o[1][0]}/{o[1][1]}"
                d["scales"][k] = d["scales"].get(k, 0) + 1
    return d

TECHNIQUE = 'Coq refinement proof: the anchor arithmetic of TimeController refines the abstract scaled/pausable clock, for every operation history over Q; every interleaving of lock-protected operations is a serial history (generic lock theorem) + differential correspondence on a virtual raw clock, sequential and two-thread line-level'
LEVEL_TEXT = "Machine-checked refinement: for every history of read/set-scale/pause/resume/export/load/sleep operations with any rational arguments and any real-time advance between them, every output of the model of time.py equals the output of the abstract clock 'value grows at rate scale while not paused' (hence monotone, still while paused, continuous across scale changes / pause / resume, pure reads and exports, continues after load, sleep(d) lasts d/scale). The model is tied to /repo by re-executing pamiq_core/time.py on a virtual stdlib time module and comparing all three channels exactly (dyadic values) inside Coq, against both the code model and the abstract clock."
LEVEL_NOTE = 'Trusted: Coq kernel + vm_compute; coq/Model/Clock.v; harness/sim/faketime.py; exactness of float arithmetic on the generated dyadic values. Real time advances only between operations; float rounding not modelled.'
DESIGN_REF = 'DESIGN.md §4 C06'
