"""C07 — collected samples reach the buffer exactly once, in order (atomic part)."""
from harness.core import cl, cn, cz

ID = "C07"
IMPL = "c07"
IMPL_CHUNK = 60
THEOREM_FILE = "Properties/C07.v"
COQ_IMPORT = "From Pamiq Require Import Model.DataPipe Check.C07."
COQ_CASE_TYPE = "case"
COQ_AGREE = "case_agree"
COQ_PROP_OK = "case_prop_ok"
RULE = ("seeded histories over collect/update/get_data/count_data_added_since/save_state on a real DataUsersDict-created user+collector pair behind a "
        "recording buffer (atomic histories, plus two-thread runs preempted at source-line granularity whose serialisation must be an atomic run); queue size in {None, 0, 1, 2, 5}; up to 40 operations; timestamps non-decreasing with ties, thresholds around existing "
        "timestamps; plus acquisition histories of DataCollectorsDict (known / unknown / repeated names). Non-trivial = at least one epoch longer than "
        "the queue size or at least two hand-overs with a count after each; distinct = canonical JSON.")
TRUSTED = [
    "Coq 8.16.1 kernel incl. vm_compute",
    "hand-written model coq/Model/DataPipe.v of data/interface.py and DataCollectorsDict.acquire",
    "harness/impl/c07.py: recording DataBuffer subclass; module attribute pamiq_core.time.time scripted",
]
ASSUMPTIONS = ["deque(maxlen=n).append drops from the left (bapp in the model)",
               "line-level part: two sim threads, every source line of data/interface.py and every lock operation is a preemption point; schedules are bounded-preemption (random in quick, exhaustive <= 2 preemptions for a few programs in thorough); the interleaved run must equal the atomic run in lock-acquisition order"]


def gen_pipe(rng):
    q = rng.choice([None, 0, 1, 2, 5, 5])
    ops, t, nid = [], rng.randint(0, 50), 1
    for _ in range(rng.randint(1, 40)):
        r = rng.random()
        if r < 0.55:
            t += rng.choice([0, 0, 1, 1, 2, 7])
            ops.append(["collect", nid, t]); nid += 1
        elif r < 0.70:
            ops.append(["update"])
        elif r < 0.78:
            ops.append(["get"])
        elif r < 0.83:
            ops.append(["save"])
        else:
            ops.append(["count", max(0, t + rng.choice([-9, -3, -2, -1, 0, 0, 1]))])
    return {"kind": "pipe", "q": q, "ops": ops}


def gen_acq(rng):
    names = sorted(rng.sample(range(6), rng.randint(0, 4)))
    reqs = [rng.randint(0, 6) for _ in range(rng.randint(1, 8))]
    return {"kind": "acq", "names": names, "reqs": reqs}


def gen_line_program(rng):
    q = rng.choice([None, 0, 1, 2, 2, 3])
    t, collects = rng.randint(0, 20), []
    for i in range(rng.randint(1, 4)):
        t += rng.choice([0, 1, 2])
        collects.append([i + 1, t])
    consumer = []
    for _ in range(rng.randint(1, 4)):
        r = rng.random()
        consumer.append(["update"] if r < 0.45 else ["get"] if r < 0.65 else ["save"] if r < 0.75 else ["count", max(0, t - rng.choice([0, 1, 2, 5]))])
    return {"kind": "line", "q": q, "collects": collects, "consumer": consumer, "preempt": []}


def gen_line(rng, n_prog, per_prog, exhaustive=False):
    """two sim threads at source-line granularity; schedules = run-to-completion with switches at chosen choice indices"""
    out = []
    for _ in range(n_prog):
        prog = gen_line_program(rng)
        horizon = 30 + 22 * (len(prog["collects"]) + len(prog["consumer"]))
        if exhaustive:
            idx = range(0, horizon, 1)
            pre = [[a] for a in idx] + [[a, b] for a in idx for b in idx if a < b and (b - a) % 3 == 0]
        else:
            pre = [sorted(rng.sample(range(horizon), rng.choice([1, 2, 2, 3, 4]))) for _ in range(per_prog)]
        for pset in pre:
            c = dict(prog); c["preempt"] = list(pset); out.append(c)
    return out


SYSTEMATIC = [
    {"kind": "line", "q": None, "collects": [[1, 5], [2, 6]], "consumer": [["update"], ["update"], ["get"], ["count", 0]]},
    {"kind": "line", "q": 2, "collects": [[1, 5], [2, 5], [3, 7]], "consumer": [["update"], ["save"], ["update"]]},
]


def systematic_line_cases():
    """the consumer goes first (an early switch away from the collector), then every later preemption point: this puts a
    collect at every point of a hand-over, in particular right after the lock has been released"""
    out = []
    for n, prog in enumerate(SYSTEMATIC):
        horizon = 30 + 22 * (len(prog["collects"]) + len(prog["consumer"]))
        # the first switch: anywhere in the collector's first collect(s) for the first program, early for the others
        for a in range(0, 26 if n == 0 else 4):
            for b in range(a + 1, horizon):
                out.append(dict(prog, preempt=[a, b]))
    return out


def gen(rng, tier):
    n = {"quick": 2000, "thorough": 40000, "search": 6000}[tier]
    cases = [gen_pipe(rng) if rng.random() < 0.9 else gen_acq(rng) for _ in range(n)]
    cases += systematic_line_cases()
    if tier == "quick":
        cases += gen_line(rng, 40, 12)
    elif tier == "search":
        cases += gen_line(rng, 100, 20)
    else:
        cases += gen_line(rng, 300, 30) + gen_line(rng, 6, 0, exhaustive=True)
    return cases


def precheck(case, obs):
    if "crash" in obs or "error" in obs:
        return {"agree": False, "prop_ok": False, "hard": True}
    return None


def _op(o):
    if o[0] == "collect":
        return f"(Collect {cz(o[1])} {cz(o[2])})"
    if o[0] == "count":
        return f"(Count {cz(o[1])})"
    return {"update": "Update", "get": "GetData", "save": "SaveState"}[o[0]]


def _out(o):
    if o[0] == "none":
        return "PNone"
    if o[0] == "adds":
        return f"(PAdds {cl(cz(x) for x in o[1])})"
    return f"(PCount {cn(o[1])})"


def coq_input(case):
    q = "None" if case["q"] is None else f"(Some {cn(case['q'])})"
    return "{| i_q := %s; i_ops := %s |}" % (q, cl(_op(o) for o in case["ops"]))


def coq_case(case, obs):
    if case["kind"] == "line":
        # the interleaved run, serialised in lock-acquisition order, must be an atomic run of the model
        ser = {"q": case["q"], "ops": obs["ops"]}
        return f"(CPipe {coq_input(ser)} {cl(_out(o) for o in obs['outs'])})"
    if case["kind"] == "acq":
        outs = cl("AcqOk" if o == "ok" else "AcqKeyError" for o in obs["acq"])
        return f"(CAcq {cl(cn(n) for n in case['names'])} {cl(cn(n) for n in case['reqs'])} {outs})"
    return f"(CPipe {coq_input(case)} {cl(_out(o) for o in obs['outs'])})"


def coq_expected(case, obs):
    if case["kind"] == "line":
        return f"model_outs {coq_input({'q': case['q'], 'ops': obs.get('ops', [])})}"
    if case["kind"] == "acq":
        return f"acq_run {cl(cn(n) for n in case['names'])} [] {cl(cn(n) for n in case['reqs'])}"
    return f"model_outs {coq_input(case)}"


def nontrivial(case, obs):
    if case["kind"] == "line":
        return obs.get("switches", 0) >= 4 and len(case["collects"]) >= 2
    if case["kind"] == "acq":
        return len(set(case["reqs"])) < len(case["reqs"]) and bool(case["names"])
    q = case["q"]
    epoch, big, hand, cnt_after = 0, False, 0, 0
    for o in case["ops"]:
        if o[0] == "collect":
            epoch += 1
        elif o[0] in ("update", "get", "save"):
            if q is not None and epoch > q:
                big = True
            epoch = 0; hand += 1
        elif o[0] == "count" and hand:
            cnt_after += 1
    return big or (hand >= 2 and cnt_after >= 2)


def signature(case, obs):
    if "error" in obs or "crash" in obs:
        return "raises"
    if case["kind"] == "line":
        return "pipe-delivery-under-interleaving"
    return "acquire" if case["kind"] == "acq" else "pipe-delivery"


def shrink(case):
    out = []
    if case["kind"] == "line":
        for k in ("preempt", "consumer", "collects"):
            xs = case[k]
            for i in range(len(xs) - 1, -1, -1):
                if k == "preempt" or len(xs) > 1:
                    c = dict(case); c[k] = xs[:i] + xs[i + 1:]; out.append(c)
        return out
    key = "reqs" if case["kind"] == "acq" else "ops"
    xs = case[key]
    for i in range(len(xs) - 1, -1, -1):
        c = dict(case); c[key] = xs[:i] + xs[i + 1:]; out.append(c)
    return out


def describe(case, obs):
    return {"input": case, "observed": obs.get("outs") or obs.get("acq")}


def distribution(cases, obs):
    d = {"kind": {}, "q": {}, "ops": {}, "epochs_over_q": 0}
    for c in cases:
        d["kind"][c["kind"]] = d["kind"].get(c["kind"], 0) + 1
        if c["kind"] == "line":
            d["line_level_schedules"] = d.get("line_level_schedules", 0) + 1
            d["line_level_preemptions"] = d.get("line_level_preemptions", 0) + len(c["preempt"])
        if c["kind"] == "pipe":
            d["q"][str(c["q"])] = d["q"].get(str(c["q"]), 0) + 1
            e = 0
            for o in c["ops"]:
                d["ops"][o[0]] = d["ops"].get(o[0], 0) + 1
                if o[0] == "collect":
                    e += 1
                elif o[0] != "count":
                    if c["q"] is not None and e > c["q"]:
                        d["epochs_over_q"] += 1
                    e = 0
    return d

TECHNIQUE = 'Coq theorems over an executable collector/user pipe model (bounded deques); generic theorem that every interleaving of lock-protected operations is serial + delivery oracle proved on the model and evaluated on the real DataUser/DataCollector, atomically and under line-level two-thread interleavings'
LEVEL_TEXT = 'Machine-checked proof that for every queue size (None, 0, n) and every sequence of collect/update/get_data/count_data_added_since/save_state, each hand-over delivers exactly the last queue-size samples collected since the previous hand-over, once and in order, timestamps stay paired, and counts equal the number of newer timestamps within the last queue-size deliveries (take-while = filter for sorted timestamps); exclusive acquisition of collectors. Tied to /repo by running the real classes behind a recording buffer with a scripted clock. Interleavings: see level_note.'
LEVEL_NOTE = 'Trusted: Coq kernel + vm_compute; coq/Model/DataPipe.v; recording buffer and scripted pamiq_core.time.time; harness/sim/sched.py for the line-level runs. The interleaving quantifier (source-line preemption of collect vs hand-over) is carried by the generic lock-serialisation theorem (Proofs/LockSerial.v: every interleaving of lock-protected operations is the serial run in acquisition order) together with the line-level runs of the real code, which check that the shared queue is touched only under the lock and that the interleaved result equals the atomic model in acquisition order.'
DESIGN_REF = 'DESIGN.md §4 C07'
