"""C08 — the system runs until told to stop; the uptime limit is in system time."""
from fractions import Fraction

from harness.core import cb, cl, cn, cz
from harness.props.sysbase import *  # noqa: F401,F403
from harness.props import sysbase as B

ID = "C08"
IMPL = "c08"
THEOREM_FILE = "Properties/C08.v"
COQ_IMPORT = "From Pamiq Require Import Model.Threads Check.Sys Model.Sched Model.Bookkeep Check.C08."
COQ_CASE_TYPE = "c08case"
COQ_AGREE = "c08_agree"
COQ_PROP_OK = "c08_prop_ok"
RULE = ("(a) seeded whole-system runs with an uptime limit (3-50 ms of system time), time scales 0.5/1/2/4, statistics-logging intervals 0 / shorter than two steps / 60 s, step durations 0-20 ms, random pause / resume / save "
        "commands overlapping the uptime window, with and without a shutdown command; per run the timeline of clock pauses / resumes and of every uptime check (raw virtual instant, answer) is checked inside Coq: "
        "the answer is 'reached' exactly when scale x (un-paused real time since the control thread started) exceeds the limit (2 us tolerance for float rounding), no check follows a positive one, an idle control tick lasts "
        "one loop period; and the trace satisfies the cause monitor (shutdown event set / threads joined / launch over only after a shutdown command, a positive uptime check, an interrupt or an observed exception). "
        "A quarter of the runs use a fixed-interval interaction (interval 0.25 / 0.5 s, scale 2 or 4) whose first step is being computed when the limit is reached: from the positive check to the end of launch() no more real time may pass than two loop periods, the step and training run in flight with their hooks and interval / scale (harness-side clause). "
        "(b) bookkeeping: a real InferenceThread.on_tick driven with a scripted clock (reads advance by 0-4 ticks around the logging interval, intervals incl. 0) for 1-30 ticks: nothing raises and the logged step counts match the model. "
        "Non-trivial = a run ended by the uptime limit with at least one pause inside the window, or a bookkeeping case with a log of exactly one step; distinct = canonical JSON.")
TRUSTED = B.TRUSTED_SYS + [
    "harness/sim/system.py additionally wraps ControlThread.is_max_uptime_reached and ControlThread.on_start (class attributes, harness side) to record the raw virtual instant of each check and of the start",
    "harness/impl/c08.py: scripted pamiq_core.time.time / fixed_time; stub Interaction; log capture by a logging.Handler",
    "hand-written model coq/Model/Bookkeep.v of InferenceThread's tick statistics (on top of Model/Sched.v); abstract clock coq/Model/Clock.v (C06)",
]
ASSUMPTIONS = B.ASSUMPTIONS_SYS + [
    "statistics.mean / statistics.stdev raise only for too few samples (their documented contract); the float values of the durations are not modelled",
    "the uptime arithmetic is compared with a tolerance of 2 microseconds of system time",
    "state retention (StatesKeeper.cleanup) is covered by C18, status queries by C17; they run in the control tick / web thread and are exercised by the whole-system runs here only through the default configuration",
]


def gen_run(rng, seed):
    sp = B.base_spec(rng, seed)
    sp["max_uptime"] = rng.choice([0, 0.0, 0.003, 0.01, 0.02, 0.05])      # also a limit of zero: the first check ends the run
    sp["time_scale"] = rng.choice([1.0, 1.0, 2.0, 0.5, 4.0])
    sp["log_interval"] = rng.choice([0.0, 0.0001, 0.001, 0.004, 60.0])
    sp["step_dur"] = rng.choice([0, 0.0005, 0.002, 0.02])
    kinds = ["pause", "resume", "save", "pause", "resume"]
    sp["cmds"] = B.gen_cmds(rng, kinds, nmax=6, shutdown=False)
    if rng.random() < 0.25:
        sp["cmds"] += [["sleep", rng.choice([0.001, 0.004, 0.02])], ["shutdown", "retry"]]
    else:
        # the limit must end the run: make sure the system is not left paused for ever
        sp["cmds"] += [["sleep", 0.003], ["resume", "retry"], ["sleep", 1.0], ["shutdown", "retry"]]
    sp["max_events"] = 30000
    sp["queue_size"] = rng.choice([1, 2, 5])
    if rng.random() < 0.25:
        # a fixed-interval interaction whose step is being computed when the limit is reached: what remains of the interval is
        # waited for in system time, i.e. interval / scale real seconds at most
        sp["fixed_interval"] = [rng.choice([0.25, 0.5]), 0.0]
        sp["time_scale"] = rng.choice([2.0, 4.0, 4.0])
        sp["step_dur"] = rng.choice([0.01, 0.02])
        sp["max_uptime"] = rng.choice([0.003, 0.01, 0.02])
    return sp


def late_return(case, obs):
    """'within one loop period plus the step in flight': from the uptime check that answered 'reached' to the end of launch()
    no more real time passes than the step and the training run in flight, their hooks, and - with a fixed-interval
    interaction - what is waited for after the step: at most interval / scale real seconds (harness-side clause)"""
    tl = obs.get("timeline") or []
    reached = [e for e in tl if e[0] == "check" and e[3]]
    tr, times = obs.get("trace") or [], obs.get("times") or []
    done = next((i for i, e in enumerate(tr) if e[1] == "launch_done"), None)
    if not reached or done is None or len(times) <= done:
        return None
    over = times[done] - reached[0][1] - return_bound(case)
    return f"launch() ended {over:.4f} s later than the step in flight allows" if over > 0 else None


def return_bound(case):
    fi = case.get("fixed_interval")
    k = case.get("time_scale", 1.0)
    return (2 * case.get("loop_delay", 0.001) * max(1.0, 1.0 / k) + case.get("step_dur", 0) + (fi[0] / case.get("time_scale", 1.0) if fi else 0) + case.get("train_dur", 0)
            + 4 * case.get("hook_dur", 0) + 0.005)


def gen_book(rng):
    ivl = rng.choice([0, 1, 2, 3, 5, 8, 20])
    ticks = rng.randint(1, 30)
    t, reads = 0, []
    for _ in range(4 * ticks + 2):
        r = rng.random()
        t += 0 if r < 0.3 else (rng.randint(0, 2) if r < 0.7 else max(0, ivl // 2 + rng.randint(-1, 2)))
        reads.append(t)
    if rng.random() < 0.15:
        reads = reads[: rng.randint(0, len(reads))]      # the clock then stands still
    c = {"kind": "book", "ivl": ivl, "ticks": ticks, "reads": reads}
    if rng.random() < 0.35:
        # equal step durations on a non-dyadic time base (0.05 s, 1/6 s ...): the statistics see values equal up to rounding
        c["unit"] = rng.choice([0.05, 0.025, 1 / 6, 0.3])
        step = rng.choice([1, 1, 2])
        c["reads"] = [step * (i + 1) for i in range(4 * ticks + 2)]
        c["ivl"] = rng.choice([2, 5, 8, 20, 40])
    return c


def gen(rng, tier):
    nr, nb = {"quick": (200, 600), "thorough": (6000, 20000), "search": (1500, 4000)}[tier]
    return [gen_run(rng, rng.randrange(10**9)) for _ in range(nr)] + [gen_book(rng) for _ in range(nb)]


def precheck(case, obs):
    if "crash" in obs or "error" in obs:
        return {"agree": False, "prop_ok": False, "hard": True}
    if case.get("kind") == "book":
        if not obs.get("marked"):
            return {"agree": False, "prop_ok": False, "hard": True}
        return None
    if obs.get("deadlock") is not None:
        return {"agree": True, "prop_ok": False}
    if framework_exception(obs) or late_return(case, obs):
        return {"agree": False, "prop_ok": False}
    return None


def framework_exception(obs):
    """a background thread flagged an exception although none of its user callbacks had raised: the framework's own
    bookkeeping ended the run"""
    raised = set()
    for e in obs.get("trace") or []:
        if e[1] == "cb_raise":
            raised.add(e[0])
        elif e[1] == "set" and str(e[2]).startswith("exc") and e[0].startswith("bg") and e[0] not in raised:
            return True
    return False


def ns(x):
    return cz(round(x * 1e9))


def cq_frac(x):
    f = Fraction(x).limit_denominator(10**6)
    return f"({f.numerator} # {f.denominator})%Q"


IDLE = {"uptime", "sleep"}


def busy_between(trace, p0, p1):
    for e in trace[p0:p1]:
        if e[0] != "main":
            continue
        if e[1] in IDLE or (e[1] == "savecond" and not e[2]) or (e[1] == "q_empty" and e[2]) or (e[1] == "is_set" and str(e[2]).startswith("exc") and not e[3]):
            continue
        return True
    return False


def coq_timeline(case, obs):
    tr = obs["trace"]
    evs, prev_pos = [], None
    for e in obs.get("timeline", []):
        k, raw, pos = e[0], e[1], e[2]
        if k == "start":
            evs.append(f"(TStart {ns(raw)})")
        elif k == "pause":
            evs.append(f"(TPause {ns(raw)})")
        elif k == "resume":
            evs.append(f"(TResume {ns(raw)})")
        elif k == "check":
            if prev_pos is not None and busy_between(tr, prev_pos, pos):
                evs.append("TBusy")
            evs.append(f"(TCheck {ns(raw)} {cb(e[3])})")
            prev_pos = pos
    u = case.get("max_uptime")
    lim = "None" if u is None or u == float("inf") else f"(Some {ns(u)})"
    return "{| tl_scale := %s; tl_limit := %s; tl_period := %s; tl_evs := %s |}" % (cq_frac(case.get("time_scale", 1.0)), lim, ns(case.get("loop_delay", 0.001)), cl(evs))


def coq_evs(seg, k=1):
    out = []
    for e in seg:
        if e[0] == "r":
            out.append(f"ERead {cz(k * e[1])}")
        elif e[0] == "c":
            out.append(f"ECb {cn(e[1])}")
        elif e[0] == "raise":
            out.append("ERaise")
    return cl(out)


def coq_bout(o):
    return {"quiet": "BQuiet", "raise": "BRaise"}.get(o[0]) or f"(BLogged {cn(o[1])})"


def _scaled(case):
    """with a non-dyadic time base the model counts half-ticks: the interval is ivl + 1/2 ticks"""
    if case.get("unit"):
        return 2 * case["ivl"] + 1, [2 * r for r in case["reads"]], 2
    return case["ivl"], list(case["reads"]), 1


def coq_binput(case, obs):
    ivl, reads, _ = _scaled(case)
    return "{| b_strict := %s; b_ivl := %s; b_reads := %s; b_ticks := %s |}" % (cb(obs.get("strict", True)), cz(ivl), cl(cz(r) for r in reads), cn(case["ticks"]))


def coq_case(case, obs):
    if case.get("kind") == "book":
        k = _scaled(case)[2]
        ticks = cl(f"({coq_evs(s, k)}, {coq_bout(o)})" for s, o in obs["ticks"])
        return f"(C08Book {coq_binput(case, obs)} ({coq_evs(obs['ctor'], k)}, {ticks}))"
    return f"(C08Run {B.coq_sysin(case, obs)} {B.coq_trace(m6_trace(obs))} {coq_timeline(case, obs)})"


def m6_trace(obs):
    """M6 knows the interaction's step as one callback; the sleeps of a fixed-interval interaction's wait (recorded by the
    runner as index spans of the trace) are inside it and are left out of the trace handed to the acceptor"""
    spans = (obs.get("pacing") or {}).get("adjust_spans") or []
    if not spans:
        return obs["trace"]
    inside = set()
    for a, b in spans:
        inside.update(range(a, b))
    return [e for i, e in enumerate(obs["trace"]) if not (i in inside and e[1] == "sleep" and e[0] == "bg0")]


def coq_expected(case, obs):
    if case.get("kind") == "book":
        ivl, reads, _ = _scaled(case)
        return f"inf_trace false {cb(obs.get('strict', True))} {cz(ivl)} {cl(cz(r) for r in reads)} {cn(case['ticks'])}"
    return B.coq_expected(case, dict(obs, trace=m6_trace(obs)))


def nontrivial(case, obs):
    if case.get("kind") == "book":
        return any(o == ["logged", 1] for _, o in obs.get("ticks", []))
    tl = obs.get("timeline", [])
    reached = [e for e in tl if e[0] == "check" and e[3]]
    if not reached:
        return False
    start = next((e[2] for e in tl if e[0] == "start"), 0)
    return any(e[0] == "pause" and start <= e[2] <= reached[0][2] for e in tl)


def signature(case, obs):
    if "error" in obs or "crash" in obs:
        return "harness-error"
    if case.get("kind") == "book":
        if any(o[0] == "raise" for _, o in obs.get("ticks", [])):
            return "bookkeeping-raises:" + next(o[1] for _, o in obs["ticks"] if o[0] == "raise")
        return "bookkeeping-differs"
    if obs.get("deadlock") is not None:
        return "does-not-end"
    if framework_exception(obs):
        return "framework-bookkeeping-ended-the-run"
    if late_return(case, obs):
        return "returns-later-than-the-step-in-flight-allows"
    return "uptime-or-cause"


def shrink(case):
    if case.get("kind") == "book":
        out = []
        if case["ticks"] > 1:
            c = dict(case); c["ticks"] = case["ticks"] - 1; out.append(c)
        if case["reads"]:
            c = dict(case); c["reads"] = case["reads"][:-1]; out.append(c)
        return out
    return B.shrink(case)


def describe(case, obs):
    if case.get("kind") == "book":
        return {"input": case, "observed": obs}
    d = B.describe(case, obs)
    d["timeline"] = obs.get("timeline", [])[:60]
    return d


def distribution(cases, obs):
    runs = [(c, o) for c, o in zip(cases, obs) if c.get("kind") != "book"]
    books = [(c, o) for c, o in zip(cases, obs) if c.get("kind") == "book"]
    d = B.distribution([c for c, _ in runs], [o for _, o in runs])
    d["runs"] = len(runs)
    d["ended_by_uptime"] = sum(1 for _, o in runs if any(e[0] == "check" and e[3] for e in o.get("timeline", [])))
    d["uptime_checks"] = sum(sum(1 for e in o.get("timeline", []) if e[0] == "check") for _, o in runs)
    d["time_scales"] = {}
    for c, _ in runs:
        k = str(c.get("time_scale")); d["time_scales"][k] = d["time_scales"].get(k, 0) + 1
    d["book_cases"] = len(books)
    d["book_ticks"] = sum(len(o.get("ticks", [])) for _, o in books)
    d["book_logs"] = sum(1 for _, o in books for _, x in o.get("ticks", []) if x[0] == "logged")
    d["book_logs_of_one_step"] = sum(1 for _, o in books for _, x in o.get("ticks", []) if x == ["logged", 1])
    d["book_intervals"] = {}
    for c, _ in books:
        k = str(c["ivl"]); d["book_intervals"][k] = d["book_intervals"].get(k, 0) + 1
    return d


TECHNIQUE = ("Coq proofs: cause monitor on the thread-protocol acceptor M6 (nothing but a shutdown command, a positive uptime check, an interrupt or an observed exception stops the system), totality of the tick-statistics model for every clock and interval, "
             "uptime = scale x un-paused real time on the abstract clock + timeline / cause oracles evaluated in Coq on whole-system runs, and differential runs of InferenceThread.on_tick against the bookkeeping model")
LEVEL_TEXT = ("Machine-checked: (1) on the thread model, for every accepted trace, the shutdown event is set, threads are joined and launch() ends only after a shutdown command was taken, an uptime check answered 'reached', an interrupt arrived, "
              "or an exception was observed (flag poll, save condition, state save); (2) the tick-statistics model never raises, for every sequence of clock readings, every logging interval (0, shorter than two steps, ...) and both boundary policies, and "
              "conserves the collected steps (the pinned tree's variant is refuted by a one-step interval: D6); (3) on the abstract clock that the TimeController refines (C06), over any history of pauses, resumes, sleeps and reads the system "
              "clock advances by scale x un-paused real time, so the uptime check fires iff un-paused real time > U/scale, and the overshoot is bounded by the un-paused real time between two consecutive checks. Tied to /repo by whole-system runs "
              "(timeline of raw instants re-computed in Coq with 2 us tolerance; traces accepted by M6) and by bookkeeping runs of the real InferenceThread.on_tick compared event by event with the model.")
LEVEL_NOTE = ("Partial in one respect: 'within one loop period plus the step in flight' is shown as 'noticed at the first uptime check after the crossing' (theorem) plus 'an idle control tick lasts exactly one loop period' (checked on runs); "
              "a control tick that executes a pause with time-outs lasts as long as those time-outs, which the property's bound does not mention; the time from the positive check to the end of launch() (step in flight, interval / scale for a fixed-interval step) is bounded on the runs by a harness-side clause, not by a theorem. Trusted: as C01, plus the harness-side wrappers named in trusted_base.")
DESIGN_REF = "DESIGN.md §4 C08"
