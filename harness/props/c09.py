"""C09 — component callbacks follow a fixed protocol on their owning thread."""
from harness.props.sysbase import *  # noqa: F401,F403
from harness.props import sysbase as B

ID = "C09"
THEOREM_FILE = "Properties/C09.v"
COQ_PROP_OK = "(fun c => C09_ok (snd c) && C09_complete_ok (snd c) && C04_ok (snd c))"
RULE = ("seeded whole-system runs with random command histories (pause/resume/save/shutdown at any position, shutdown while paused) and injected failures in setup, the k-th step, the k-th training run, "
        "a pause or a resume hook, plus control-side failures; random and PCT schedules. The per-component event log (callback, thread) is checked against the protocol automaton, and state saves against the quiescence monitor (no save while a callback of an owning thread - teardown included - is running). "
        "Non-trivial = at least two pause/resume hook pairs and either a fault or a shutdown while paused; distinct = canonical JSON.")
TRUSTED = B.TRUSTED_SYS
ASSUMPTIONS = B.ASSUMPTIONS_SYS + ["components are the harness Agent / Environment / Trainer; attachment and load happen in launch() before any thread is started (launcher order), save is covered by C04"]

WHERE = ["a.setup", "e.setup", "a.step", "t.train", "a.hookP", "e.hookP", "t.hookP", "a.hookR", "e.hookR", "t.hookR", "a.teardown", "e.teardown"]


def gen_one(rng, seed):
    sp = B.base_spec(rng, seed)
    sp["cmds"] = B.gen_cmds(rng, ["pause", "resume", "save", "pause", "resume"], nmax=8, shutdown=rng.random() < 0.8)
    if not any(c[0] == "shutdown" for c in sp["cmds"]):
        sp["max_uptime"] = rng.choice([0.005, 0.02])
        sp["cmds"] += [["sleep", 0.002], ["resume", "retry"], ["sleep", 0.5], ["shutdown", "retry"]]
    if rng.random() < 0.5:
        sp["faults"] = [{"where": rng.choice(WHERE), "k": rng.randint(1, 4)}]
        if rng.random() < 0.2:
            sp["faults"].append({"where": rng.choice(["savecond", "save"]), "k": rng.randint(1, 6)})
    sp["queue_size"] = rng.choice([1, 2, 5])
    if sp.get("faults") and rng.random() < 0.5:
        # a thread dies (its teardown takes a while) around the moment a save is requested: save must not overlap teardown
        sp["teardown_dur"] = rng.choice([0.002, 0.01])
        sp["save_at_ticks"] = sorted(set(sp.get("save_at_ticks", [])) | set(rng.sample(range(1, 12), 3)))
    return sp


def gen(rng, tier):
    n = {"quick": 300, "thorough": 10000, "search": 2500}[tier]
    return [gen_one(rng, rng.randrange(10**9)) for _ in range(n)]


def precheck(case, obs):
    return B.precheck_common(case, obs)


def nontrivial(case, obs):
    tr = obs.get("trace") or []
    hooks = sum(1 for e in tr if e[1] == "cb_b" and e[2].endswith("hookR"))
    fault = any(e[1] == "cb_raise" for e in tr)
    return hooks >= 2 and (fault or B.complete(obs))


def signature(case, obs):
    if "error" in obs or "crash" in obs:
        return "harness-error"
    tr = obs.get("trace") or []
    td = sum(1 for e in tr if e[1] == "cb_b" and e[2] == "a.teardown")
    if B.complete(obs) and td != 1:
        return f"teardown-count-{td}"
    for e in tr:
        if e[1] == "cb_b" and ((e[2][0] in "ae" and e[0] != "bg0") or (e[2][0] == "t" and e[0] != "bg1")):
            return "wrong-thread"
    return "protocol-order"


TECHNIQUE = "Coq simulation proof: the per-component protocol automaton accepts the callback log of every trace accepted by the thread model M6 + the automaton evaluated on logs of real runs with injected faults"
LEVEL_TEXT = ("Machine-checked for every accepted trace of the thread model (every command history, interleaving and injected failure): each component's callbacks follow setup, then (step | pause-hook then resume-hook)*, then teardown; "
              "no step or training run between a pause hook and the matching resume hook; callbacks of agent and environment only on the inference thread, of trainers only on the training thread; two callbacks of one thread never overlap; "
              "teardown at most once and exactly once at the end of a complete run of a started thread. Tied to /repo by whole-system runs with failures injected in setup / k-th step / k-th training run / hooks / control, whose callback logs are "
              "checked by the same automaton inside Coq and whose traces are accepted by M6.")
LEVEL_NOTE = "Trusted: as C01. The automaton speaks about the harness components' callbacks; attachment/load ordering is launcher code executed before Thread.start (visible in every trace as the prefix before the first start label)."
DESIGN_REF = "DESIGN.md §4 C09"
