"""C10 — a crash while saving never damages older states nor yields a loadable torn one."""
from harness.core import cb, cl, cn, copt

ID = "C10"
IMPL = "c10"
IMPL_CHUNK = 4
IMPL_TIMEOUT = 1500
THEOREM_FILE = "Properties/C10.v"
COQ_IMPORT = "From Pamiq Require Import Model.Persist Check.C10."
COQ_CASE_TYPE = "case"
COQ_AGREE = "agree"
COQ_PROP_OK = "prop_ok"
RULE = ("seeded component sets: 0-3 buffers (sequential / random-replacement, sizes 1-8, 0-3x filled), 0-3 trainers, 0-2 models, an agent tree of depth 0-2 (with and without own state), environment with / without state, 0-2 older complete "
        "states in the same directory, runtime save (triggered by the save condition while the threads run) or final save. A real launch() is run with a recorder of mkdir / open-for-writing; then EVERY operation prefix of the recorded "
        "save, and for every file the truncations to 0, 1, half, all-but-one and all bytes (thorough: every byte count), is materialised next to the older states and a fresh launch(saved_state_path=it) is attempted with Thread.start "
        "counted and the older states hashed before / after; a sample of crash points (thorough: more) is produced by really killing a child process (os._exit) at that operation. Non-trivial = at least 12 operations and one "
        "older state; distinct = canonical JSON. Every case also saves twice under one directory name (a fixed name format): the second save must fail and leave the state that owns the name byte-identical (harness-side clause).")
TRUSTED = [
    "Coq 8.16.1 kernel incl. vm_compute",
    "hand-written model coq/Model/Persist.v: a save as a list of mkdir / write operations, crash = operation prefix + truncated write",
    "harness/impl/c10.py: recorder wrapping os.mkdir, builtins.open, io.open; materialisation of crash states by copying from the complete state; os._exit kills in child processes; Thread.start counted by wrapping threading.Thread.start",
    "the operating system applies mkdir / create / append in program order and a killed process leaves what had been flushed (no power-loss reordering is modelled)",
]
ASSUMPTIONS = [
    "pickle.load rejects every strict prefix of a pickle stream (measured at every sampled / every byte count on every run)",
    "a crash is a process kill: completed operations persist, the one in flight leaves the file created with a prefix of its bytes",
    "user components write only below the path they are given (validated on the harness components by the recorder)",
]


def gen_agent(rng, depth):
    a = {"own": rng.random() < 0.8}
    if depth > 0 and rng.random() < 0.5:
        a["children"] = {f"c{i}": gen_agent(rng, depth - 1) for i in range(rng.randint(1, 2))}
    return a


def gen_one(rng, tier):
    bufs = []
    for i in range(rng.choice([0, 1, 1, 2, 3])):
        size = rng.choice([1, 2, 3, 8])
        bufs.append({"name": f"b{i}", "kind": rng.choice(["seq", "rr"]), "size": size, "items": rng.choice([0, 1, size, 3 * size])})
    c = {"agent": gen_agent(rng, 2), "env_own": rng.random() < 0.7, "models": rng.choice([0, 1, 2]), "buffers": bufs,
         "trainers": [f"t{i}" for i in range(rng.choice([0, 1, 2, 3]))], "older": rng.choice([0, 1, 1, 2]),
         "mode": rng.choice(["final", "final", "runtime"]), "trunc": "all" if tier == "thorough" else "sample", "kills": []}
    nk = {"quick": 1 if rng.random() < 0.3 else 0, "thorough": 4, "search": 1}[tier]
    for _ in range(nk):
        c["kills"].append([rng.randint(0, 14), rng.choice([None, 0, 1, 5])])
    return c


def gen(rng, tier):
    n = {"quick": 60, "thorough": 600, "search": 200}[tier]
    return [gen_one(rng, tier) for _ in range(n)]


def precheck(case, obs):
    if "crash" in obs or "error" in obs:
        return {"agree": False, "prop_ok": False, "hard": True}
    for k in obs.get("kills", []):
        if k["child_exit"] != 9:        # the child must have died where it was told to
            return {"agree": False, "prop_ok": False, "hard": True}
    if name_collision_damage(obs):
        return {"agree": False, "prop_ok": False}
    return None


def name_collision_damage(obs):
    """a save whose directory name is already taken fails - and must leave the completed state that owns the name intact
    (harness-side clause: the file-system model has no removals)"""
    c = obs.get("collision")
    return c is not None and not c.get("intact", True)


def intern(obs):
    names = {"time.pkl": 0}
    def idx(n):
        if n not in names:
            names[n] = len(names)
        return names[n]
    return idx


def cpath(idx, parts):
    return cl(cn(idx(p)) for p in parts)


def coq_case(case, obs):
    idx = intern(obs)
    root = cpath(idx, obs["root"])
    ops = cl((f"FMkdir {cpath(idx, p)}" if k == "mkdir" else f"FWrite {cpath(idx, p)} {cn(s)}") for k, p, s in obs["ops"])
    older = cl(cpath(idx, p) for p in obs["older"])
    rs = []
    for r in obs["results"]:
        rs.append("{| c_k := %s; c_j := %s; c_rejected := %s; c_threads := %s; c_older_intact := %s |}" %
                  (cn(r["k"]), copt(None if r["j"] is None else cn(r["j"])), cb(r["rejected"]), cn(r["threads"] if r["rejected"] else 0), cb(r["older_intact"])))
    for r in obs.get("kills", []):
        k = r["k"]
        j = r["jb"] if (r["jb"] is not None and obs["ops"][k][0] == "write") else None
        rs.append("{| c_k := %s; c_j := %s; c_rejected := %s; c_threads := %s; c_older_intact := %s |}" %
                  (cn(k), copt(None if j is None else cn(j)), cb(r["rejected"]), cn(r["threads"] if r["rejected"] else 0), cb(r["older_intact"])))
    return "{| root := %s; ops := %s; older := %s; obs := %s |}" % (root, ops, older, cl(rs))


def coq_expected(case, obs):
    idx = intern(obs)
    root = cpath(idx, obs["root"])
    ops = cl((f"FMkdir {cpath(idx, p)}" if k == "mkdir" else f"FWrite {cpath(idx, p)} {cn(s)}") for k, p, s in obs["ops"])
    return f"(ops_wf {root} {ops}, length {ops})"


def nontrivial(case, obs):
    return len(obs.get("ops", [])) >= 12 and len(obs.get("older", [])) >= 1


def signature(case, obs):
    if "error" in obs or "crash" in obs:
        return "harness-error"
    n = len(obs.get("ops", []))
    if name_collision_damage(obs):
        return "older-state-damaged-by-a-save-whose-name-is-taken"
    for r in obs.get("results", []) + obs.get("kills", []):
        if not r["older_intact"]:
            return "older-state-damaged"
    for r in obs.get("results", []):
        whole = r["k"] >= n or (r["k"] == n - 1 and r["j"] is not None and r["j"] >= obs["ops"][r["k"]][2])
        if not whole and not r["rejected"]:
            return "torn-state-accepted"
        if not whole and r["threads"]:
            return "threads-started-before-rejection"
        if whole and r["rejected"]:
            return "complete-state-rejected"
    for r in obs.get("kills", []):
        if not r["rejected"]:
            return "torn-state-accepted(kill)"
    return "save-shape"


def shrink(case):
    out = []
    for key in ("buffers", "trainers"):
        if case[key]:
            c = dict(case); c[key] = case[key][:-1]; out.append(c)
    if case["models"]:
        c = dict(case); c["models"] -= 1; out.append(c)
    if case["older"]:
        c = dict(case); c["older"] -= 1; out.append(c)
    if case["agent"].get("children"):
        c = dict(case); c["agent"] = {"own": case["agent"]["own"]}; out.append(c)
    if case.get("kills"):
        c = dict(case); c["kills"] = []; out.append(c)
    return out


def describe(case, obs):
    bad = [r for r in obs.get("results", []) if not r["older_intact"]]
    n = len(obs.get("ops", []))
    acc = [r for r in obs.get("results", []) if not r["rejected"]]
    return {"components": case, "operations": obs.get("ops"), "accepted_states": acc[:10], "damaged": bad[:5], "kills": obs.get("kills"), "error": obs.get("error"), "n_ops": n}


def distribution(cases, obs):
    d = {"saves": len(cases), "operations": 0, "crash_states_loaded": 0, "real_kills": 0, "modes": {}, "older_states": {}, "rejecting_exceptions": {}}
    for c, o in zip(cases, obs):
        d["operations"] += len(o.get("ops", []))
        d["crash_states_loaded"] += len(o.get("results", []))
        d["real_kills"] += len(o.get("kills", []))
        d["modes"][c["mode"]] = d["modes"].get(c["mode"], 0) + 1
        d["older_states"][str(c["older"])] = d["older_states"].get(str(c["older"]), 0) + 1
        for r in o.get("results", []):
            if r["rejected"]:
                d["rejecting_exceptions"][r["exc"]] = d["rejecting_exceptions"].get(r["exc"], 0) + 1
    return d


TECHNIQUE = "Coq proof over a file-system operation model (every operation prefix, every truncation of the file in flight; older states untouched; clock file last => torn state unloadable) + recorded real saves checked against the model's shape and every crash state loaded with the real launch()"
LEVEL_TEXT = ("Machine-checked for every operation list of the shape [ops_wf] - proved for every layout of registered components with the clock file last - every crash point k and every truncation j of the file being written: paths outside the "
              "fresh state directory are unchanged (older states intact), and the torn state cannot pass StateStore.load_state because the clock file is missing or short, whatever the other loaders accept; the complete state is accepted; a "
              "counter-example shows the argument needs the clock to be written last. Tied to /repo on every run: the operation list of a real runtime / final save of generated component sets is recorded and must have that shape, "
              "and every crash state is materialised and given to the real launch(): rejected with no thread started, complete state accepted, older directories byte-identical; real kills for a sample.")
LEVEL_NOTE = "The rejection of a truncated clock file rests on pickle.load failing on strict prefixes: an assumption about the pickle format, measured on every run at the sampled (thorough: all) byte counts. Power-loss reordering of file-system operations is outside the model."
DESIGN_REF = "DESIGN.md §4 C10"
