"""C11 — built-in buffers keep exactly what their contract says."""
from fractions import Fraction

from harness.core import cb, cl, cn, cq, cz

ID = "C11"
IMPL = "c11"
THEOREM_FILE = "Properties/C11.v"
COQ_IMPORT = "From Pamiq Require Import Model.Buffers Check.C11."
COQ_CASE_TYPE = "case"
COQ_AGREE = "agree"
COQ_PROP_OK = "prop_ok"
RULE = ("seeded generator over the four public buffer classes: capacity in {1,2,3,5,8}; probability dyadic in [0,1] incl. 0 and 1, "
        "or given through expected_survival_length, plus a malformed stream (p outside [0,1], both parameters); operation lists of up to 60 "
        "add/get/len/mutate-returned/save+load(into equal, smaller, larger capacity; into a fresh buffer or one that already holds samples; read or not before the load) with scripted random()/randint() answers, duplicates, "
        "wrong key sets for dict variants. Non-trivial = at least one add on a full buffer and at least one get; distinct = canonical JSON input.")
TRUSTED = [
    "Coq 8.16.1 kernel incl. vm_compute (no native_compute)",
    "hand-written model coq/Model/Buffers.v of sequential_buffer.py / random_replacement_buffer.py / buffer.py ctor",
    "harness/impl/c11.py: public API only; module attribute `random` of random_replacement_buffer replaced by a scripted stub",
    "harness/core.py cases-file generation and output parsing",
]
ASSUMPTIONS = [
    "random.random() returns r with 0 <= r < 1 and random.randint(a, b) returns a value in [a, b] (ops_ok in the theorem)",
    "pickle round-trips lists/deques of ints and dicts",
    "for non-dyadic probabilities (survival-length constructor) the queue size is compared up to 1 (float division rounding)",
]

CAPS = [1, 2, 3, 5, 8]
PROBS = [[0, 1], [1, 1], [1, 2], [1, 4], [3, 4], [1, 8], [5, 8], [0, 1], [1, 1]]
DRAWS = [[0, 1], [1, 8], [1, 4], [1, 2], [3, 4], [5, 8], [7, 8], [1023, 1024], [1, 1024]]


def gen_one(rng):
    kind = rng.choice(["seq", "rr", "rr"])
    is_dict = rng.random() < 0.5
    cap = rng.choice(CAPS)
    K = sorted(rng.sample(range(0, 6), rng.randint(1, 3))) if is_dict else [0]
    case = {"kind": kind, "dict": is_dict, "cap": cap, "keys": K, "p": rng.choice(PROBS), "survival": None}
    if kind == "rr" and rng.random() < 0.15:
        case["survival"] = rng.choice([1, 2, 5, 10, 50, 200, 10000])
    ops, cur, nid = [], cap, 1
    for _ in range(rng.randint(1, 60)):
        r = rng.random()
        if r < 0.62:
            ks = K
            if is_dict and rng.random() < 0.12:
                alt = sorted(rng.sample(range(0, 7), rng.randint(1, 3)))
                ks = alt
            ident = nid if rng.random() < 0.85 else rng.randint(1, max(1, nid))
            nid += 1
            ops.append(["add", ident, ks, rng.choice(DRAWS), rng.randint(0, cur - 1)])
        elif r < 0.76:
            ops.append(["get"])
        elif r < 0.84:
            ops.append(["len"])
        elif r < 0.92:
            ops.append(["mutget"])
        else:
            cur = rng.choice([cur, cur, max(1, cur - 1), cur + 2, rng.choice(CAPS)])
            # load into a fresh buffer, or into one that already holds a few (other) samples
            ops.append(["saveload", cur, rng.choice([0, 0, 1, 2, cur]), rng.random() < 0.5])   # ..., the target buffer has been read before the load
    case["ops"] = ops
    return case


def gen(rng, tier):
    n = {"quick": 1500, "thorough": 40000, "search": 6000}[tier]
    cases = [gen_one(rng) for _ in range(n)]
    for _ in range(12):  # malformed stream
        c = gen_one(rng); c["kind"] = "rr"; c["survival"] = None; c["ops"] = []
        c["p"] = rng.choice([[-1, 4], [5, 4], [2, 1], [-1, 1024]])
        cases.append(c)
        c2 = gen_one(rng); c2["kind"] = "rr"; c2["survival"] = None; c2["ops"] = []; c2["both"] = True
        cases.append(c2)
    return cases


def precheck(case, obs):
    if "crash" in obs or "error" in obs:
        return {"agree": False, "prop_ok": False, "hard": True}
    if case.get("both"):
        ok = obs["ctor"] == ["ValueError"]
        return {"agree": ok, "prop_ok": ok}
    return None


def _p(case, obs):
    if case["kind"] == "rr" and case.get("survival") is not None and obs and obs.get("p"):
        return Fraction(obs["p"][0], obs["p"][1])
    return Fraction(case["p"][0], case["p"][1])


def _op(o):
    if o[0] == "add":
        return f"(BAdd {cz(o[1])} {cl(cn(k) for k in o[2])} {cq(Fraction(o[3][0], o[3][1]))} {cn(o[4])})"
    if o[0] == "get":
        return "BGet"
    if o[0] == "len":
        return "BLen"
    if o[0] == "mutget":
        return "BMutGet"
    return f"(BSaveLoad {cn(o[1])})"


def _view(v):
    return cl(f"({cn(k)}, {cl(cz(x) for x in vals)})" for k, vals in v)


def _out(o):
    if o[0] == "add":
        b = "None" if o[3] is None else f"(Some ({cz(o[3][0])}, {cz(o[3][1])}))"
        return f"(RAdd {cb(o[1])} {cb(o[2])} {b})"
    if o[0] == "get":
        return f"(RGet {_view(o[1])})"
    if o[0] == "len":
        return f"(RLen {cn(o[1])})"
    return "RSaveLoad"


def coq_input(case, obs):
    kind = "KSeq" if case["kind"] == "seq" else "KRR"
    exact = not (case["kind"] == "rr" and case.get("survival") is not None)
    return ("{| i_kind := %s; i_cap := %s; i_prob := %s; i_keys := %s; i_ops := %s; i_qexact := %s |}"
            % (kind, cn(case["cap"]), cq(_p(case, obs)), cl(cn(k) for k in case["keys"]), cl(_op(o) for o in case["ops"]), cb(exact)))


def coq_case(case, obs):
    c = obs["ctor"]
    ctor = f"(CtorOk {cz(c[1])})" if c[0] == "ok" else ("CtorValueError" if c[0] == "ValueError" else "CtorZeroDivision")
    o = cl(f"({_out(x[0])}, {_view(x[1])})" for x in obs["obs"])
    return f"({coq_input(case, obs)}, {{| o_ctor := {ctor}; o_obs := {o} |}})"


def coq_expected(case, obs):
    return f"model_observed false {coq_input(case, obs)}"


def nontrivial(case, obs):
    n, full_add, get = 0, False, False
    cap = case["cap"]
    for o in case["ops"]:
        if o[0] == "add":
            if n >= cap:
                full_add = True
            n += 1
        elif o[0] == "saveload":
            cap = o[1]; n = min(n, cap)
        elif o[0] in ("get", "mutget"):
            get = True
    return full_add and get and "obs" in obs


def signature(case, obs):
    if "error" in obs or "crash" in obs:
        return f"{case['kind']}-raises"
    if obs.get("ctor", ["?"])[0] != "ok":
        p = _p(case, obs)
        if 0 <= p <= 1 and not case.get("both"):
            return f"{case['kind']}-ctor-refuses-documented-range:{obs['ctor'][0]}:p={'0' if p == 0 else 'pos'}"
        return f"{case['kind']}-ctor-malformed"
    if case.get("both") or not (0 <= _p(case, obs) <= 1):
        return f"{case['kind']}-ctor-accepts-invalid"
    if case["kind"] == "rr" and _p(case, obs) == 0:
        return "rr-p0-behaviour"
    return f"{case['kind']}{'-dict' if case['dict'] else ''}-contract"


def shrink(case):
    out = []
    ops = case["ops"]
    for i in range(len(ops) - 1, -1, -1):
        c = dict(case); c["ops"] = ops[:i] + ops[i + 1:]
        # keep randint answers within the capacity in force
        out.append(c)
    if case["dict"] and len(case["keys"]) > 1:
        K = case["keys"][:1]
        c = dict(case); c["keys"] = K
        c["ops"] = [[o[0], o[1], (K if o[2] == case["keys"] else o[2]), o[3], o[4]] if o[0] == "add" else o for o in ops]
        out.append(c)
    return out


def describe(case, obs):
    return {"input": case, "ctor": obs.get("ctor"), "first_observations": (obs.get("obs") or [])[:6]}


def distribution(cases, obs):
    d = {"class": {}, "cap": {}, "p": {}, "ops": {"add": 0, "get": 0, "len": 0, "mutget": 0, "saveload": 0},
         "adds_on_full": 0, "wrong_key_adds": 0, "ctor": {}}
    for c, o in zip(cases, obs):
        k = c["kind"] + ("-dict" if c["dict"] else "")
        d["class"][k] = d["class"].get(k, 0) + 1
        d["cap"][str(c["cap"])] = d["cap"].get(str(c["cap"]), 0) + 1
        pk = "survival" if c.get("survival") is not None else f"{c['p'][0]}/{c['p'][1]}"
        d["p"][pk] = d["p"].get(pk, 0) + 1
        ck = (o.get("ctor") or ["error"])[0]
        d["ctor"][ck] = d["ctor"].get(ck, 0) + 1
        n, cap = 0, c["cap"]
        for op in c["ops"]:
            d["ops"][op[0]] += 1
            if op[0] == "add":
                if op[2] != c["keys"]:
                    d["wrong_key_adds"] += 1
                else:
                    if n >= cap:
                        d["adds_on_full"] += 1
                    n += 1
            elif op[0] == "saveload":
                cap = op[1]; n = min(n, cap)
    return d

TECHNIQUE = 'Coq theorems over an executable buffer model (random draws as oracle arguments) + black-box contract oracle proved on the model and evaluated on the real buffers'
LEVEL_TEXT = 'Machine-checked proof that for every buffer class (plain / dict, any non-empty key set), capacity >= 1, rational probability, and every sequence of add/get/len/mutate-returned/save+load with any admissible random draws, the model obeys the contract oracle (sequential = last max_size in order; random-replacement: bound, fill order, at most one slot changes to the added sample, replaced when draw < p, kept when draw > p and always when p = 0, only added samples, keys aligned, wrong keys rejected unchanged, copies returned, len = data, save/load keeps content, whole documented parameter range accepted). Tied to /repo by running the four public classes with scripted random on generated cases; outputs compared with the model and checked by the same oracle inside Coq.'
LEVEL_NOTE = "Trusted: Coq kernel + vm_compute; coq/Model/Buffers.v; the runner's scripted `random` stub and view canonicalisation; pickle round trip. Theorems are about the model."
DESIGN_REF = 'DESIGN.md §4 C11'
