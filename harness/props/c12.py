"""C12 — composite components are transparent for events, state and data."""
from harness.core import cb, cl, cn

ID = "C12"
IMPL = "c12"
THEOREM_FILE = "Properties/C12.v"
COQ_IMPORT = "From Pamiq Require Import Model.Composite Proofs.CompositeProofs Check.C12."
COQ_CASE_TYPE = "case"
COQ_AGREE = "agree"
COQ_PROP_OK = "prop_ok"
RULE = ("seeded random trees built from the public classes: agents nested up to depth 4 (fan-out <= 3), environments from leaf / ModularEnvironment (also via from_dict) / "
        "EnvironmentWrapper, sensors and actuators from leaves / dictionaries / wrappers (wrapper objects or plain functions) up to depth 4, an action value shaped like the actuator tree; in 30% of the trees distinct components of one class compare equal and hash alike (value-like objects); "
        "the dictionary composites of the trees are user subclasses with callbacks and a state of their own (in the model: a pseudo-child visited last) and a data hook (counted on the harness side: once per observation / action). "
        "every leaf reading is a new value and a second observation is taken at the end: the first one must still hold what it held (harness-side clause). "
        "every mapping handed to a constructor is emptied (and, for agents, given a stranger) right afterwards: the composite must have its own. "
        "in 30% of the trees one leaf of the action is None (in the model: the reserved value 4999): every wrapper on its path is applied to it all the same. "
        "all eight root events are issued. Non-trivial = depth >= 3 somewhere and at least one dictionary and one wrapper; distinct = canonical JSON.")
TRUSTED = [
    "Coq 8.16.1 kernel incl. vm_compute",
    "hand-written model coq/Model/Composite.v (one rose tree with a kind per node) of agent.py, interactions.py, modular_env.py, wrappers.py, launcher attach lines",
    "harness/impl/c12.py: recording leaf subclasses; symbolic values (wrappers produce App(w, v), indexable through)",
]
ASSUMPTIONS = ["sibling names are pairwise distinct (dictionaries guarantee it)", "user leaves write only at/under the path they are given (recording leaves write path + '.leaf')"]


class G:
    def __init__(self, rng):
        self.rng = rng
        self.n = 0
        self.depth = 0
        self.has_dict = False
        self.has_wrap = False

    def nid(self):
        self.n += 1
        return self.n

    def wrapper(self):
        self.has_wrap = True
        return {"t": self.rng.choice(["wobj", "wobj", "wfn"]), "id": self.nid()}

    def agent(self, d):
        self.depth = max(self.depth, d)
        k = 0 if d >= 4 else self.rng.choice([0, 0, 1, 2, 3])
        names = self.rng.sample(range(20), k)
        return {"t": "agent", "id": self.nid(), "children": [[nm, self.agent(d + 1)] for nm in names]}

    def sensor(self, d):
        self.depth = max(self.depth, d)
        r = self.rng.random()
        if d >= 4 or r < 0.4:
            return {"t": "sensor", "id": self.nid()}
        if r < 0.7:
            self.has_dict = True
            names = self.rng.sample(range(20), self.rng.randint(0, 3))
            return {"t": "sdict", "sid": self.nid(), "children": [[nm, self.sensor(d + 1)] for nm in names]}
        return {"t": "swrap", "sensor": self.sensor(d + 1), "wrapper": self.wrapper()}

    def actuator(self, d):
        self.depth = max(self.depth, d)
        r = self.rng.random()
        if d >= 4 or r < 0.4:
            return {"t": "actuator", "id": self.nid()}
        if r < 0.7:
            self.has_dict = True
            names = self.rng.sample(range(20), self.rng.randint(0, 3))
            return {"t": "adict", "sid": self.nid(), "children": [[nm, self.actuator(d + 1)] for nm in names]}
        return {"t": "awrap", "actuator": self.actuator(d + 1), "wrapper": self.wrapper()}

    def env(self, d):
        self.depth = max(self.depth, d)
        r = self.rng.random()
        if d >= 3 or r < 0.15:
            return {"t": "leafenv", "id": self.nid()}
        if r < 0.55:
            return {"t": "modenv", "sensor": self.sensor(d + 1), "actuator": self.actuator(d + 1)}
        if r < 0.7:
            self.has_dict = True
            sn = self.rng.sample(range(20), self.rng.randint(0, 3)); an = self.rng.sample(range(20), self.rng.randint(0, 3))
            return {"t": "modenv_from_dict", "sensors": [[k, self.sensor(d + 2)] for k in sn], "actuators": [[k, self.actuator(d + 2)] for k in an]}
        return {"t": "envwrap", "env": self.env(d + 1), "obs": self.wrapper(), "act": self.wrapper()}


def action_for(s, g):
    t = s["t"]
    if t in ("actuator", "leafenv"):
        return ["raw", 5000 + g.nid()]
    if t == "adict":
        return ["dict", [[k, action_for(c, g)] for k, c in s["children"]]]
    if t == "awrap":
        return action_for(s["actuator"], g)
    if t == "modenv":
        return action_for(s["actuator"], g)
    if t == "modenv_from_dict":
        return ["dict", [[k, action_for(c, g)] for k, c in s["actuators"]]]
    if t == "envwrap":
        return action_for(s["env"], g)
    raise ValueError(t)


NONE_VALUE = 4999      # stands for Python's None in the model's values (harness/impl/c12.py)


def _leaves(a, out):
    if a[0] == "dict":
        for _, v in a[1]:
            _leaves(v, out)
    else:
        out.append(a)
    return out


def gen_one(rng):
    g = G(rng)
    ag = g.agent(1)
    en = g.env(1)
    act = action_for(en, g)
    lv = _leaves(act, [])
    if rng.random() < 0.3 and lv:
        # one leaf of the action is None: a value like any other, every wrapper on its path is applied to it
        rng.choice(lv)[1] = NONE_VALUE
    return {"agent": ag, "env": en, "action": act, "fixed_root": rng.random() < 0.4,
            "eq_all": rng.random() < 0.3,     # components of one class compare equal and hash alike (value-like objects); still distinct components
            "meta": {"depth": g.depth, "dict": g.has_dict, "wrap": g.has_wrap, "n": g.n}}


def gen(rng, tier):
    n = {"quick": 600, "thorough": 20000, "search": 3000}[tier]
    return [gen_one(rng) for _ in range(n)]


def precheck(case, obs):
    if "crash" in obs:
        return {"agree": False, "prop_ok": False, "hard": True}
    if "error" in obs:
        return {"agree": False, "prop_ok": False}
    if any(-1 in e for e in obs["events"]):
        return {"agree": False, "prop_ok": False}
    if composite_bypassed(obs) or obs.get("first_observation_kept") is False:
        return {"agree": False, "prop_ok": False}
    return None


def composite_bypassed(obs):
    """the data hook (read / operate) of a user subclass of SensorsDict / ActuatorsDict placed in the tree is called exactly once
    per observation / action (harness-side clause; its callbacks and its state are in the Coq model as a pseudo-child)"""
    return any(c != 1 for c in obs.get("composites") or [])


N = {"agent": "n_agent", "environment": "n_environment", "sensor": "n_sensor", "actuator": "n_actuator", "wrapper": "n_wrapper",
     "env": "n_env", "obs": "n_obs_wrapper", "act": "n_act_wrapper"}


def _w(s):
    return f"(Leaf {'LWrapObj' if s['t'] == 'wobj' else 'LWrapFn'} {cn(s['id'])})"


def _node(s):
    t = s["t"]
    if t == "agent":
        return f"(Node NAgent {cn(s['id'])} {cl(f'({cn(k)}, {_node(c)})' for k, c in s['children'])})"
    if t == "sensor":
        return f"(Leaf LSensor {cn(s['id'])})"
    if t == "actuator":
        return f"(Leaf LActuator {cn(s['id'])})"
    if t == "leafenv":
        return f"(Leaf LEnv {cn(s['id'])})"
    if t in ("sdict", "adict"):
        # a dictionary built by the harness is a user subclass: its own callbacks and state are a pseudo-child visited last
        kind = "NSensorsDict" if t == "sdict" else "NActuatorsDict"
        kids = [f"({cn(k)}, {_node(c)})" for k, c in s["children"]]
        if "sid" in s:
            kids.append(f"(n_self, Leaf LSelf {cn(s['sid'])})")
        return f"(Node {kind} 0%nat {cl(kids)})"
    if t == "swrap":
        return f"(Node NSensorWrap 0%nat [(n_sensor, {_node(s['sensor'])}); (n_wrapper, {_w(s['wrapper'])})])"
    if t == "awrap":
        return f"(Node NActWrap 0%nat [(n_actuator, {_node(s['actuator'])}); (n_wrapper, {_w(s['wrapper'])})])"
    if t == "modenv":
        return f"(Node NModEnv 0%nat [(n_sensor, {_node(s['sensor'])}); (n_actuator, {_node(s['actuator'])})])"
    if t == "modenv_from_dict":
        sd = {"t": "sdict", "children": s["sensors"]}
        ad = {"t": "adict", "children": s["actuators"]}
        return f"(Node NModEnv 0%nat [(n_sensor, {_node(sd)}); (n_actuator, {_node(ad)})])"
    if t == "envwrap":
        return f"(Node NEnvWrap 0%nat [(n_env, {_node(s['env'])}); (n_obs_wrapper, {_w(s['obs'])}); (n_act_wrapper, {_w(s['act'])})])"
    raise ValueError(t)


def _val(v):
    if v[0] == "raw":
        return f"(Raw {cn(v[1])})"
    if v[0] == "app":
        return f"(App {cn(v[1])} {_val(v[2])})"
    if v[0] == "dict":
        return f"(Dict {cl(f'({cn(k)}, {_val(x)})' for k, x in v[1])})"
    return "Bad"


def _ips(l):
    return cl(f"({cn(i)}, {cl(cn(x) for x in p)})" for i, p in l)


def coq_input(case):
    return "{| i_agent := %s; i_env := %s; i_action := %s |}" % (_node(case["agent"]), _node(case["env"]), _val(case["action"]))


def coq_case(case, obs):
    o = ("{| o_events := %s; o_saved := %s; o_loaded := %s; o_read_back_own := %s; o_no_error := %s; o_observation := %s; o_delivered := %s |}"
         % (cl(cl(cn(i) for i in e) for e in obs["events"]), _ips(obs["saved"]), _ips(obs["loaded"]), cb(obs["own"]), cb(obs["ok"]),
            _val(obs["obs"]), cl(f"({cn(i)}, {_val(v)})" for i, v in obs["delivered"])))
    return f"({coq_input(case)}, {o})"


def coq_expected(case, obs):
    return f"model_observed {coq_input(case)}"


def nontrivial(case, obs):
    m = case["meta"]
    return m["depth"] >= 3 and m["dict"] and m["wrap"]


def _signature0(case, obs):
    if "error" in obs:
        return "raises:" + obs["error"].split(":")[0]
    if "crash" in obs:
        return "crash"
    return "composite-transparency"


def signature(case, obs):
    if "error" not in obs and "crash" not in obs and composite_bypassed(obs):
        return "composite-subclass-bypassed"
    if obs.get("first_observation_kept") is False:
        return "observation-rewritten-by-a-later-one"
    return _signature0(case, obs)


def describe(case, obs):
    return {"input": {k: case[k] for k in ("agent", "env", "action")}, "observed": obs}


def distribution(cases, obs):
    d = {"depth": {}, "components": {}, "with_dict": 0, "with_wrapper": 0}
    for c in cases:
        m = c["meta"]
        d["depth"][str(m["depth"])] = d["depth"].get(str(m["depth"]), 0) + 1
        b = str(m["n"] // 5 * 5)
        d["components"][b] = d["components"].get(b, 0) + 1
        d["with_dict"] += int(m["dict"]); d["with_wrapper"] += int(m["wrap"])
    return d


TECHNIQUE = "Coq structural-induction proofs over one rose-tree model of all composite classes (unbounded depth/fan-out) + oracle evaluated on randomly built real trees with recording leaves"
LEVEL_TEXT = ("Machine-checked proofs, by induction over trees of any depth and fan-out: every root event reaches exactly the components it applies to (same multiplicity; attachment only the agent subtree), "
              "save and load visit the same (component, path) pairs, paths are pairwise distinct, every save finds its parent directory, observations contain every leaf sensor's reading once in order, actions reach every leaf actuator once, "
              "dictionaries route action[k] to child k, each wrapper is applied exactly once. Tied to /repo by building random trees from the public classes with recording leaves, issuing all eight events, and comparing logs, paths and symbolic data inside Coq.")
LEVEL_NOTE = "Trusted: Coq kernel + vm_compute; coq/Model/Composite.v; recording leaves and symbolic wrapper values in the runner. Hypothesis: distinct sibling names."
DESIGN_REF = "DESIGN.md §4 C12"
