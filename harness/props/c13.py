"""C13 — every trainer gets its turn and trains only when its data condition holds."""
from harness.core import cb, cl, cn, cz

ID = "C13"
IMPL = "c13"
THEOREM_FILE = "Properties/C13.v"
COQ_IMPORT = "From Pamiq Require Import Model.Trainer Check.C13."
COQ_CASE_TYPE = "case2"
COQ_AGREE = "agree2"
COQ_PROP_OK = "prop_ok2"
RULE = ("seeded histories of sample arrivals (non-decreasing timestamps with ties) interleaved with training-thread ticks over 0-4 recording trainers "
        "with random thresholds (min size 0-6, min new 0-4) or no condition; queue size in {None,0,1,2,3,5}; buffer capacity None/2/5; up to 50 operations. "
        "Non-trivial = some conditioned trainer both ran and was refused at least once; distinct = canonical JSON.")
TRUSTED = [
    "Coq 8.16.1 kernel incl. vm_compute",
    "hand-written models coq/Model/Trainer.v (trainer/base.py is_trainable/run, threads/training.py on_tick) over coq/Model/DataPipe.v",
    "harness/impl/c13.py: recording Trainer / DataBuffer / TrainingModel subclasses; pamiq_core.time.time scripted; TrainingThread.on_tick called directly",
]
ASSUMPTIONS = ["the agreement test uses the boundary probed on the implementation; the oracle itself demands that a sample stamped exactly at the previous training time is not counted as new",
               "thread-level behaviour (pause, hooks) of the training thread is covered by C01/C09, not here"]


def gen_one(rng):
    n = rng.choice([0, 1, 2, 2, 3, 4])
    conds = [None if rng.random() < 0.25 else [rng.randint(0, 6), rng.randint(0, 4)] for _ in range(n)]
    q = rng.choice([None, 0, 1, 2, 3, 5])
    bcap = rng.choice([None, None, 2, 5])
    ops, t, nid = [], rng.randint(0, 20), 1
    for _ in range(rng.randint(1, 50)):
        if rng.random() < 0.5:
            t += rng.choice([0, 0, 1, 2, 5])
            ops.append(["collect", nid, t]); nid += 1
        else:
            t += rng.choice([0, 0, 1, 3])
            ops.append(["tick", t])
    return {"q": q, "bcap": bcap, "conds": conds, "ops": ops}


def gen_line(rng):
    """a collecting and a deciding thread at source-line granularity (trainer/base.py, data/interface.py), logical clock"""
    k = rng.choice([1, 2, 2, 3, 4])
    return {"kind": "line", "min_size": rng.choice([0, 1, 2]), "min_new": rng.choice([1, 2, 2, 3]), "q": rng.choice([None, None, 2, 5]),
            "collects": rng.randint(1, 6), "runs": rng.randint(2, 6), "yield_between": rng.random() < 0.5,
            "preempt_frac": sorted(round(rng.random(), 3) for _ in range(k)), "pick": rng.randrange(1000)}


def systematic_line_cases(points):
    """every pair (early switch, later point) of one fixed program: puts an arrival at every point of a decision"""
    out = []
    base = {"kind": "line", "min_size": 1, "min_new": 2, "q": None, "collects": 4, "runs": 5, "yield_between": False}
    for pk in (0, 1):
        for i in range(points):
            out.append(dict(base, preempt_frac=[i / points], pick=pk))
            out.append(dict(base, preempt_frac=[0.02, i / points], pick=pk))
    return out


def gen(rng, tier):
    n, nl = {"quick": (2000, 300), "thorough": (40000, 6000), "search": (6000, 1500)}[tier]
    return [gen_one(rng) for _ in range(n)] + [gen_line(rng) for _ in range(nl)] + systematic_line_cases(100 if tier == "quick" else 300)


def precheck(case, obs):
    if "crash" in obs or "error" in obs:
        return {"agree": False, "prop_ok": False, "hard": True}
    if case.get("kind") == "line":
        return None
    for o in obs["outs"]:
        if o[0] == "junk" or (o[0] == "tick" and len(o[1]) > 1):
            return {"agree": False, "prop_ok": False}
    return None


def _opt(x):
    return "None" if x is None else f"(Some {cn(x)})"


def _op(o):
    return f"(TCollect {cz(o[1])} {cz(o[2])})" if o[0] == "collect" else f"(TTick {cz(o[1])})"


EV = {"setup": "ESetup", "train": "ETrain", "sync": "ESync", "teardown": "ETeardown"}


def _out(o):
    if o[0] == "none":
        return "TNone"
    offered = o[1][0] if o[1] else None
    ran = "train" in o[2] or "setup" in o[2] or "teardown" in o[2] or "sync" in o[2]
    return f"(TTickOut {_opt(offered)} {cb(ran)} {cl(EV[e] for e in o[2])})"


def coq_input(case, incl):
    conds = cl("None" if c is None else f"(Some ({cn(c[0])}, {cn(c[1])}))" for c in case["conds"])
    return ("{| i_incl := %s; i_q := %s; i_bcap := %s; i_conds := %s; i_ops := %s |}"
            % (cb(incl), _opt(case["q"]), _opt(case["bcap"]), conds, cl(_op(o) for o in case["ops"])))


def coq_case(case, obs):
    if case.get("kind") == "line":
        evs = cl("ACollect" if e[0] == "collect" else f"(ARun {cb(e[1])})" for e in obs["events"])
        return f"(CLine {cn(case['min_new'])} {evs})"
    return f"(CSeq ({coq_input(case, obs['incl'])}, {cl(_out(o) for o in obs['outs'])}))"


def coq_expected(case, obs):
    if case.get("kind") == "line":
        return "tt"
    return f"model_outs {coq_input(case, obs.get('incl', False))}"


def nontrivial(case, obs):
    if case.get("kind") == "line":
        return obs.get("switches", 0) >= 3 and any(e[0] == "run" and e[1] for e in obs.get("events", []))
    ran, refused = set(), set()
    for o in obs.get("outs", []):
        if o[0] == "tick" and o[1]:
            i = o[1][0]
            if i < len(case["conds"]) and case["conds"][i] is not None:
                (ran if o[2] else refused).add(i)
    return bool(ran & refused)


def signature(case, obs):
    if "error" in obs or "crash" in obs:
        return "raises"
    if case.get("kind") == "line":
        return "an-arrival-counted-for-two-runs"
    return "trainer-turns-and-conditions"


def shrink(case):
    out = []
    if case.get("kind") == "line":
        pf = case.get("preempt_frac") or []
        for i in range(len(pf)):
            c = dict(case); c["preempt_frac"] = pf[:i] + pf[i + 1:]; out.append(c)
        for key in ("collects", "runs"):
            if case[key] > 1:
                c = dict(case); c[key] = case[key] - 1; out.append(c)
        return out
    ops = case["ops"]
    for i in range(len(ops) - 1, -1, -1):
        c = dict(case); c["ops"] = ops[:i] + ops[i + 1:]; out.append(c)
    if len(case["conds"]) > 1:
        c = dict(case); c["conds"] = case["conds"][:-1]; out.append(c)
    return out


def describe(case, obs):
    if case.get("kind") == "line":
        return {"input": case, "events": obs.get("events"), "preempt_used": obs.get("preempt_used"), "error": obs.get("error")}
    return {"input": case, "observed": (obs.get("outs") or [])[:20]}


def distribution(cases, obs):
    d = {"trainers": {}, "q": {}, "ticks": 0, "collects": 0, "runs": 0, "refusals": 0,
         "line_level_cases": sum(1 for c in cases if c.get("kind") == "line"),
         "line_level_runs": sum(1 for c, o in zip(cases, obs) if c.get("kind") == "line" for e in o.get("events", []) if e[0] == "run" and e[1])}
    for c, o in zip(cases, obs):
        if c.get("kind") == "line":
            continue
        d["trainers"][str(len(c["conds"]))] = d["trainers"].get(str(len(c["conds"])), 0) + 1
        d["q"][str(c["q"])] = d["q"].get(str(c["q"]), 0) + 1
        for op, y in zip(c["ops"], o.get("outs", [])):
            if op[0] == "tick":
                d["ticks"] += 1
                if y[0] == "tick" and y[2]:
                    d["runs"] += 1
                elif y[0] == "tick" and y[1]:
                    d["refusals"] += 1
            else:
                d["collects"] += 1
    return d

TECHNIQUE = 'Coq theorems over an executable trainer/round-robin model on top of the pipe model (tick oracle; counting law: every arrival supports at most one run) + oracle evaluated on the real TrainingThread.on_tick, and the counting law on two-thread line-level interleavings of arrivals with decisions'
LEVEL_TEXT = 'Machine-checked proof that for every number of trainers, thresholds, queue size, buffer capacity and every interleaving of arrivals and ticks: the k-th tick offers trainer k mod n regardless of the others, a conditioned trainer runs iff buffer length >= min size and fresh deliveries (newer than its previous positive decision, within the last queue-size deliveries) >= min new, a run is exactly setup/train/sync/teardown, the marker moves only on a run. Tied to /repo by driving the real Trainer/TrainersDict/TrainingThread.on_tick with recording subclasses and a scripted clock.'
LEVEL_NOTE = "Trusted: Coq kernel + vm_compute; coq/Model/Trainer.v, DataPipe.v; recording subclasses; scripted clock. Boundary 'timestamp == marker' is a probed policy parameter."
DESIGN_REF = 'DESIGN.md §4 C13'
