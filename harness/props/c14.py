"""C14 — each side sees only its own models, and trained parameters reach inference."""
from harness.core import cb, cl, cn

ID = "C14"
IMPL = "c14"
THEOREM_FILE = "Properties/C14.v"
COQ_IMPORT = "From Pamiq Require Import Model.Models Check.C14."
COQ_CASE_TYPE = "case"
COQ_AGREE = "agree"
COQ_PROP_OK = "prop_ok"
RULE = ("seeded configurations of 1-5 versioned harness models over the three valid flag combinations (and the invalid one, which must be refused), histories of up to 15 "
        "trainer runs (30% of the inference models are falsy objects; each trainer requesting a random multiset of names incl. hidden and unknown ones; also two persistent trainers that run repeatedly and retrieve further models lazily inside train()) and state loads with random versions; exhaustive over flag "
        "combinations for <= 3 models in the thorough tier. Non-trivial = at least one run that synchronises some but not all retrieved models, and one load; distinct = canonical JSON.")
TRUSTED = [
    "Coq 8.16.1 kernel incl. vm_compute",
    "hand-written model coq/Model/Models.v of model/interface.py, model/container.py, Trainer.get_training_model/sync_models, Agent.get_inference_model",
    "harness/impl/c14.py: versioned TrainingModel/InferenceModel subclasses, recording Agent and Trainer subclasses",
]
ASSUMPTIONS = ["an inference-thread-only model shares its parameters with its inference model (as the torch wrapper does); the harness models are written that way"]

VALID = [[True, False], [True, True], [False, False]]


def gen_one(rng):
    n = rng.randint(1, 5)
    flags = [rng.choice(VALID) for _ in range(n)]
    ops = []
    for _ in range(rng.randint(1, 15)):
        r = rng.random()
        if r < 0.5:
            ops.append(["run", [rng.randint(0, n) for _ in range(rng.randint(0, 4))]])
        elif r < 0.75:
            # one of two persistent trainers runs again and retrieves further models lazily, inside train()
            ops.append(["runt", rng.randint(0, 1), [rng.randint(0, n) for _ in range(rng.randint(0, 2))]])
        else:
            ops.append(["load", [rng.randint(0, 50) for _ in range(n)]])
    # some inference models are falsy objects (they define __len__ and are empty): still inference models
    return {"flags": flags, "ops": ops, "falsy": [rng.random() < 0.3 for _ in range(n)]}


def gen(rng, tier):
    n = {"quick": 1500, "thorough": 30000, "search": 5000}[tier]
    cases = [gen_one(rng) for _ in range(n)]
    if tier == "thorough":
        import itertools
        for k in (1, 2, 3):
            for fl in itertools.product(VALID, repeat=k):
                for reqs in itertools.product(range(k + 1), repeat=2):
                    for fz in (False, True):
                        cases.append({"flags": [list(f) for f in fl], "falsy": [fz] * k, "ops": [["run", list(reqs)], ["load", list(range(3, 3 + k))], ["run", list(reqs)]]})
    for _ in range(5):
        c = gen_one(rng); c["flags"][rng.randrange(len(c["flags"]))] = [False, True]; c["ops"] = []; c["expect_ctor_error"] = True
        cases.append(c)
    return cases


def precheck(case, obs):
    if "crash" in obs or "error" in obs:
        return {"agree": False, "prop_ok": False, "hard": True}
    if case.get("expect_ctor_error"):
        ok = "ctor_error" in obs
        return {"agree": ok, "prop_ok": ok}
    if "ctor_error" in obs:
        return {"agree": False, "prop_ok": False}
    return None


def _op(o):
    return f"(MRun {cl(cn(n) for n in o[1])})" if o[0] == "run" else f"(MLoad {cl(cn(v) for v in o[1])})"


def _ops(case):
    """a persistent trainer's run is, for the model, a run of a trainer that has retrieved everything it asked for so far"""
    acc, out = {}, []
    for o in case["ops"]:
        if o[0] == "runt":
            acc[o[1]] = acc.get(o[1], []) + list(o[2])
            out.append(["run", list(acc[o[1]])])
        else:
            out.append(o)
    return out


def _opt(v):
    return "None" if v is None else f"(Some {cn(v)})"


def coq_input(case):
    return "{| i_flags := %s; i_ops := %s |}" % (cl(f"({cb(a)}, {cb(b)})" for a, b in case["flags"]), cl(_op(o) for o in _ops(case)))


def coq_case(case, obs):
    ops = cl(f"({cl(cn(n) for n in s)}, {cl(_opt(v) for v in vis)}, {cb(same)})" for s, vis, same in obs["obs"])
    o = "{| o_agent_view := %s; o_trainer_view := %s; o_ops := %s |}" % (cl(cb(b) for b in obs["agent_view"]), cl(cb(b) for b in obs["trainer_view"]), ops)
    return f"({coq_input(case)}, {o})"


def coq_expected(case, obs):
    return f"model_observed {coq_input(case)}"


def nontrivial(case, obs):
    has_load = any(o[0] == "load" for o in case["ops"])
    partial = False
    for op, y in zip(case["ops"], obs.get("obs", [])):
        if op[0] == "run":
            got = {n for n in op[1] if n < len(case["flags"]) and not case["flags"][n][1]}
            if y[0] and len(y[0]) < len(got):
                partial = True
    return has_load and partial


def signature(case, obs):
    if "error" in obs or "crash" in obs:
        return "raises"
    return "model-views-and-sync"


def shrink(case):
    out = []
    ops = case["ops"]
    for i in range(len(ops) - 1, -1, -1):
        c = dict(case); c["ops"] = ops[:i] + ops[i + 1:]; out.append(c)
    for i, o in enumerate(ops):
        if o[0] == "run" and len(o[1]) > 1:
            for j in range(len(o[1])):
                c = dict(case); c["ops"] = [list(x) for x in ops]; c["ops"][i] = ["run", o[1][:j] + o[1][j + 1:]]; out.append(c)
    return out


def describe(case, obs):
    return {"input": case, "observed": obs}


def distribution(cases, obs):
    d = {"models": {}, "flag_combos": {}, "falsy_inference_models": sum(sum(1 for f in (c.get("falsy") or []) if f) for c in cases), "runs": 0, "loads": 0, "sync_calls": 0, "keyerror_requests": 0}
    for c, o in zip(cases, obs):
        d["models"][str(len(c["flags"]))] = d["models"].get(str(len(c["flags"])), 0) + 1
        for f in c["flags"]:
            k = f"{int(f[0])}{int(f[1])}"
            d["flag_combos"][k] = d["flag_combos"].get(k, 0) + 1
        for op, y in zip(c["ops"], o.get("obs", [])):
            d["runs" if op[0] == "run" else "loads"] += 1
            d["sync_calls"] += len(y[0])
            if op[0] == "run":
                d["keyerror_requests"] += sum(1 for n in op[1] if n >= len(c["flags"]) or c["flags"][n][1])
    return d


TECHNIQUE = "Coq invariant proof (inference side always equals training side where a separate inference model exists) over an executable model of the model containers + visibility/sync oracle proved on the model and evaluated on the real containers"
LEVEL_TEXT = ("Machine-checked proof that for every set of models and flag combinations, every assignment of requested names to trainers and every history of trainer runs and state loads: the agent can fetch exactly models with an "
              "inference model, trainers exactly those not inference-only, a run synchronises exactly the retrieved models needing it, a load all of them, sync targets the object the agent holds, and the version visible to the agent "
              "is always the latest trained or loaded one. Tied to /repo by running the real TrainingModelsDict / Trainer / Agent with versioned harness models and comparing inside Coq.")
LEVEL_NOTE = "Trusted: Coq kernel + vm_compute; coq/Model/Models.v; the versioned harness models (an inference-thread-only model shares parameters with its inference model)."
DESIGN_REF = "DESIGN.md §4 C14"
