"""C15 — periodic triggers fire when due and never skip an interval silently."""
from harness.core import cb, cl, cn, cz

ID = "C15"
IMPL = "c15"
THEOREM_FILE = "Properties/C15.v"
COQ_IMPORT = "From Pamiq Require Import Model.Sched Check.C15."
COQ_CASE_TYPE = "case"
COQ_AGREE = "agree"
COQ_PROP_OK = "prop_ok"
RULE = ("seeded generator: kind in {time scheduler, step scheduler, periodic save condition}; interval in ticks of 2^-6 s "
        "(incl. 0); 0-3 callbacks each reading the clock 0-2 times; operation lists of update/register/remove (down to no callback at all, and registering again later), some updates with a callback that raises; a scripted "
        "clock that advances on every single read by amounts clustered around the threshold; the list handed to the constructor is emptied and given a stranger right afterwards (the scheduler must have its own).  Non-trivial = the trace "
        "contains at least one firing and at least one non-firing update; distinct = different canonical JSON input.")
TRUSTED = [
    "Coq 8.16.1 kernel incl. vm_compute (no native_compute)",
    "hand-written model coq/Model/Sched.v of utils/schedulers.py and PeriodicSaveCondition",
    "harness/impl/c15.py: replaces the module attribute pamiq_core.time.time by a scripted clock; callbacks are recording closures",
    "harness/core.py: generation of the cases files and parsing of the printed id lists",
    "float arithmetic on multiples of 2^-6 below 2^20 is exact (so ticks in Z model it exactly)",
]
ASSUMPTIONS = [
    "the implementation is observed only through pamiq_core.time.time() reads and callback invocations per public call",
    "boundary elapsed == interval is a policy parameter probed on the implementation (theorems hold for both)",
]


def _clock(rng, n, ivl):
    """non-decreasing reads; increments are small, or land around the interval threshold"""
    t, out = 0, []
    for _ in range(n):
        r = rng.random()
        if r < 0.35:
            d = 0
        elif r < 0.6:
            d = rng.randint(0, 3)
        elif r < 0.9:
            d = max(0, ivl + rng.randint(-2, 2))
        else:
            d = rng.randint(0, 2 * ivl + 3)
        t += d
        out.append(t)
    return out


def gen_one(rng):
    kind = rng.choice(["time", "time", "time", "step", "cond", "cond"])
    ivl = rng.choice([0, 1, 2, 5, 10, 50, 64, 100])
    n = rng.choice([1, 1, 2, 3, 4, 7])
    ncb = rng.choice([0, 1, 1, 2, 3])      # also none at first: callbacks may be registered later
    cbs = [[i + 1, rng.choice([0, 0, 0, 1, 2])] for i in range(ncb)]
    nops = rng.randint(1, 14)
    ops, live, nxt = [], [c[0] for c in cbs], ncb + 1
    for _ in range(nops):
        r = rng.random()
        if kind == "time" and r < 0.12:
            ops.append(["ur", rng.choice(live + [99])])     # a callback raises during this update (99: none is hit)
        elif r < 0.75 or kind == "cond":
            ops.append(["u"])
        elif r < 0.88:
            ops.append(["reg", nxt, rng.choice([0, 0, 1])]); live.append(nxt); nxt += 1
        elif live:                             # down to none: the schedule goes on all the same
            i = rng.choice(live); live.remove(i); ops.append(["rm", i])
        else:
            ops.append(["u"])
    calls = rng.randint(1, 12)
    reads = _clock(rng, 4 * (nops + calls) + 4, ivl)
    if kind == "cond":
        return {"kind": kind, "ivl": ivl, "n": 1, "cbs": [], "reads": reads, "ops": [], "calls": calls}
    return {"kind": kind, "ivl": ivl, "n": n, "cbs": cbs, "reads": reads, "ops": ops, "calls": 0}


def gen(rng, tier):
    n = {"quick": 1500, "thorough": 30000, "search": 6000}[tier]
    cases = [gen_one(rng) for _ in range(n)]
    # malformed stream: constructor arguments the code documents as rejected
    for _ in range(10):
        cases.append({"kind": "time", "ivl": -rng.randint(1, 9), "n": 1, "cbs": [[1, 0]], "reads": [0], "ops": [], "calls": 0, "expect": "ValueError"})
        cases.append({"kind": "step", "ivl": 1, "n": -rng.randint(0, 3), "cbs": [[1, 0]], "reads": [0], "ops": [], "calls": 0, "expect": "ValueError"})
    return cases


def precheck(case, obs):
    if "crash" in obs:
        return {"agree": False, "prop_ok": False, "hard": True}
    if case.get("expect"):
        ok = obs.get("ctor_error") == case["expect"]
        return {"agree": ok, "prop_ok": ok}
    if "ctor_error" in obs or "error" in obs:
        return {"agree": False, "prop_ok": False}
    return None


def _cbrec(c):
    return f"{{| cb_id := {cn(c[0])}; cb_reads := {cn(c[1])} |}}"


def _op(o):
    if o[0] == "u":
        return "OUpdate"
    if o[0] == "ur":
        return f"(OUpdateRaise {cn(o[1])})"
    if o[0] == "reg":
        return f"(ORegister {_cbrec([o[1], o[2]])})"
    return f"(ORemove {cn(o[1])})"


def _ev(e):
    if e[0] == "r":
        return f"(ERead {cz(e[1])})"
    if e[0] == "c":
        return f"(ECb {cn(e[1])})"
    if e[0] == "raise":
        return "ERaise"
    return f"(ERet {cb(e[1])})"


def coq_input(case, strict):
    kind = {"time": "KTime", "step": "KStep", "cond": "KCond"}[case["kind"]]
    return ("{| i_kind := %s; i_strict := %s; i_ivl := %s; i_n := %s; i_cbs := %s; i_reads := %s; i_ops := %s; i_calls := %s |}"
            % (kind, cb(strict), cz(case["ivl"]), cn(max(case["n"], 0)), cl(_cbrec(c) for c in case["cbs"]),
               cl(cz(v) for v in case["reads"]), cl(_op(o) for o in case["ops"]), cn(case["calls"])))


def coq_case(case, obs):
    segs = cl(cl(_ev(e) for e in s) for s in obs["segs"])
    return f"({coq_input(case, obs['strict'])}, {segs})"


def coq_expected(case, obs):
    return f"model_trace {coq_input(case, obs.get('strict', True))}"


def nontrivial(case, obs):
    segs = obs.get("segs") or []
    fired = [any(e[0] == "c" or (e[0] == "ret" and e[1]) for e in s) for s in segs[1:]]
    return any(fired) and not all(fired)


def signature(case, obs):
    if case.get("expect"):
        return f"ctor-accepts-invalid-{case['kind']}"
    if "ctor_error" in obs or "error" in obs or "crash" in obs:
        return f"raises-{case['kind']}"
    # what kind of obligation fails: restart without firing shows as three reads and no callback
    for s in obs.get("segs", [])[1:]:
        reads = [e for e in s if e[0] == "r"]
        fired = any(e[0] == "c" or (e[0] == "ret" and e[1]) for e in s)
        if case["kind"] in ("time", "cond") and not fired and len(reads) >= 2:
            return f"{case['kind']}-interval-restarted-without-firing"
    return f"{case['kind']}-firing-rule"


def shrink(case):
    out = []
    if case.get("expect"):
        return out
    ops = case["ops"]
    for i in range(len(ops)):
        if ops[i][0] in ("u", "ur") or ops[i][0] == "reg" and not any(o[0] == "rm" and o[1] == ops[i][1] for o in ops):
            c = dict(case); c["ops"] = ops[:i] + ops[i + 1:]; out.append(c)
    if case["calls"] > 1:
        c = dict(case); c["calls"] = case["calls"] - 1; out.append(c)
    if len(case["cbs"]) > 1:
        keep = [k for k in case["cbs"] if any(o[0] == "rm" and o[1] == k[0] for o in ops)] or case["cbs"][:1]
        if len(keep) < len(case["cbs"]):
            c = dict(case); c["cbs"] = keep; out.append(c)
    for i in range(len(case["cbs"])):
        if case["cbs"][i][1] > 0:
            c = dict(case); c["cbs"] = [list(k) for k in case["cbs"]]; c["cbs"][i][1] = 0; out.append(c)
    if len(case["reads"]) > 1:
        c = dict(case); c["reads"] = case["reads"][:-1]; out.append(c)
        for i in range(len(case["reads"]) - 1):
            c = dict(case); c["reads"] = case["reads"][:i] + case["reads"][i + 1:]; out.append(c)
    return out


def describe(case, obs):
    return {"input": case, "observed_segments": obs.get("segs"), "boundary_strict": obs.get("strict")}


def distribution(cases, obs):
    d = {"kind": {}, "interval": {}, "ops_len": {}, "fired_updates": 0, "silent_updates": 0, "boundary_hits": 0, "malformed": 0}
    for c, o in zip(cases, obs):
        d["kind"][c["kind"]] = d["kind"].get(c["kind"], 0) + 1
        d["interval"][str(c["ivl"])] = d["interval"].get(str(c["ivl"]), 0) + 1
        k = str(min(len(c["ops"]) + c["calls"], 15))
        d["ops_len"][k] = d["ops_len"].get(k, 0) + 1
        if c.get("expect"):
            d["malformed"] += 1
        for s in (o.get("segs") or [])[1:]:
            f = any(e[0] == "c" or (e[0] == "ret" and e[1]) for e in s)
            d["fired_updates" if f else "silent_updates"] += 1
    return d

TECHNIQUE = 'Coq theorems over an executable scheduler model with an adversarial clock stream + differential correspondence (vm_compute) against the real schedulers'
LEVEL_TEXT = "Machine-checked proof (Coq 8.16.1) that, for every interval, callback list, operation sequence and every clock behaviour between any two reads, the model's trace satisfies the firing oracle (fires only when >= interval elapsed, fires when > interval elapsed, never restarts without running every callback once in order; step schedulers fire on exactly every n-th update; the save condition answers true iff its scheduler fired). The model is tied to /repo by running the real TimeIntervalScheduler / StepIntervalScheduler / PeriodicSaveCondition under a scripted clock on generated cases and comparing traces inside Coq; the same oracle is evaluated on the implementation's traces."
LEVEL_NOTE = 'Trusted: Coq kernel + vm_compute; the hand-written model (coq/Model/Sched.v); the scripted-clock runner; exact float arithmetic on dyadic ticks. The theorem is about the model; the code is tied to it only on the sampled cases.'
DESIGN_REF = 'DESIGN.md §4 C15'
