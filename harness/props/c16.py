"""C16 — fixed-interval interaction paces steps in system time."""
from fractions import Fraction

from harness.core import cl, cq

ID = "C16"
IMPL = "c16"
THEOREM_FILE = "Properties/C16.v"
COQ_IMPORT = "From Pamiq Require Import Model.Interval Check.C16."
COQ_CASE_TYPE = "case"
COQ_AGREE = "agree"
COQ_PROP_OK = "prop_ok"
RULE = ("seeded configurations: time scale in {1/4,1/2,1,2,4}, interval and offset dyadic (offset sometimes >= interval), up to 25 ticks each with a loop overhead, a step "
        "duration chosen below / exactly at / above the interval (in system time), and a pause of random real length at the loop guard before some ticks (half of them the pause of a state save: the clock's state is exported in the middle). "
        "Step starts are taken from the library's clock and from the reference system time kept by the harness. "
        "Every adjustor-level case ends with twelve steps on a raw clock that moves on every single read, each ending within a few such ticks of its deadline: pacing them must not raise (harness-side clause). Plus whole-system runs: launch() with a fixed-interval interaction under the deterministic scheduler, time scale 1/2, 1, 2 or 4, dyadic durations, two thirds of them with pause / resume / save commands on the way; the step starts, step durations and loop overheads of the inference thread are read off the run and go through the same model and oracle. "
        "Non-trivial = contains a step shorter than, one longer than the interval, and a pause; distinct = canonical JSON.")
TRUSTED = [
    "Coq 8.16.1 kernel incl. vm_compute",
    "hand-written model coq/Model/Interval.v of interval_adjustors.py and FixedIntervalInteraction on the abstract clock (C06 ties the abstract clock to time.py)",
    "harness/impl/c16.py: public functions of module pamiq_core.time pointed at a TimeController on a virtual raw clock; ticks driven by the runner, pauses applied at the guard as the thread loop does",
    "float arithmetic exact on the generated dyadic values",
    "whole-system runs: harness/sim (deterministic scheduler, virtual time) as for C01; the interaction's setup and the adjustor's adjust wrapped at instance level to record instants",
]
ASSUMPTIONS = ["system pauses take effect at the loop guard (C01); a raw pamiq_core.time.pause() issued by user code during the adjustor's sleep is outside the property",
               "in a launched system the overhead between two steps is the loop delay plus the guard; the thread-level run is exercised by the C01/C02 harness"]


def dy(rng, hi, den):
    return [rng.randint(0, hi), den]


def gen_one(rng):
    k = rng.choice([[1, 4], [1, 2], [1, 1], [2, 1], [4, 1]])
    kf = Fraction(k[0], k[1])
    interval = [rng.randint(1, 64), 64]
    offset = rng.choice([[0, 1], [0, 1], [1, 256], [1, 64], [rng.randint(0, 80), 64]])
    W = Fraction(*interval) - Fraction(*offset)
    ticks = []
    for _ in range(rng.randint(1, 25)):
        eps = rng.choice([[1, 1024], [1, 1024], [0, 1], [3, 1024]])
        r = rng.random()
        # real duration so that k*(eps+dur) is below / at / above W
        target = max(W, 0) / kf
        if r < 0.45:
            d = target * Fraction(rng.randint(0, 3), 4)
        elif r < 0.6:
            d = max(target - Fraction(*eps), 0)
        else:
            d = target * Fraction(rng.randint(5, 12), 4) + Fraction(rng.randint(0, 8), 256)
        d = Fraction(int(d * 4096), 4096)
        p = [0, 1] if rng.random() < 0.7 else [rng.randint(1, 5000), rng.choice([1, 16, 1024])]
        ticks.append({"pause": p, "eps": eps, "dur": [d.numerator, d.denominator], "save": p[0] > 0 and rng.random() < 0.5})
    # setting up the components takes real time too (none, short, longer than one interval)
    setup = rng.choice([[0, 1], [0, 1], [1, 64], [rng.randint(1, 200), 64]])
    return {"k": k, "interval": interval, "offset": offset, "ticks": ticks, "setup_dur": setup}


def gen_sys(rng):
    """whole system: launch() with a fixed-interval interaction, a time scale and dyadic durations (so that every instant of
    the run is an exact float): the inference thread's step starts go through the same model and oracle"""
    interval = rng.choice([16, 24, 32, 64]) / 1024
    return {"kind": "sys", "k": rng.choice([[1, 2], [1, 2], [2, 1], [4, 1], [1, 1]]), "interval": [int(interval * 1024), 1024], "offset": [0, 1],
            "spec": {"seed": rng.randrange(10**9), "step_dur": rng.choice([0, 1, 4, 40]) / 1024, "train_dur": 1 / 512, "hook_dur": 0, "pause_timeout": 1.0,
                     "attempts": 1, "queue_size": 1, "loop_delay": 1 / 1024, "chooser": rng.choice(["random", "pct"]), "pct_depth": 3, "max_events": 20000, "budget": 30.0,
                     "fixed_interval": [interval, 0.0], "time_scale": None,
                     # some runs are paused, resumed and saved on the way (dyadic instants): time spent paused does not count
                     "cmds": rng.choice([[["sleep", 0.5]], [["sleep", 0.125], ["pause", "retry"], ["sleep", 0.25], ["resume", "retry"], ["sleep", 0.125]],
                                         [["sleep", 0.0625], ["save", "retry"], ["sleep", 0.125], ["pause", "retry"], ["sleep", 0.0625], ["save", "retry"], ["sleep", 0.0625], ["resume", "retry"], ["sleep", 0.125]]])
                             + [["shutdown", "retry"]]}}


def gen(rng, tier):
    n, ns = {"quick": (1500, 30), "thorough": (40000, 600), "search": (5000, 150)}[tier]
    cases = [gen_one(rng) for _ in range(n)]
    for _ in range(ns):
        c = gen_sys(rng); c["spec"]["time_scale"] = c["k"][0] / c["k"][1]
        if rng.random() < 0.5:
            # the inference thread gets the processor whenever it can for the first choices: it is through its set-up
            # and first step before the launching thread goes on
            c["spec"]["schedule"] = ["bg0"] * rng.randint(30, 400)
        cases.append(c)
    return cases


def precheck(case, obs):
    if "crash" in obs or "error" in obs:
        return {"agree": False, "prop_ok": False, "hard": True}
    if obs.get("edge_error"):
        # on a raw clock that moves on every read, pacing a step that ends next to its deadline raised (harness-side clause)
        return {"agree": False, "prop_ok": False}
    return None


def _q(p):
    return cq(Fraction(p[0], p[1]))


def coq_input(case, obs):
    W = Fraction(*case["interval"]) - Fraction(*case["offset"])
    tk = obs["derived_ticks"] if case.get("kind") == "sys" else case["ticks"]      # whole-system runs: read off the run
    ticks = cl("{| pause_len := %s; eps := %s; dur := %s |}" % (_q(t["pause"]), _q(t["eps"]), _q(t["dur"])) for t in tk)
    return "{| i_k := %s; i_W := %s; i_t0 := %s; i_ticks := %s |}" % (_q(case["k"]), cq(W), _q(obs["t0"]), ticks)


def coq_case(case, obs):
    # the step starts as the library's clock reports them, and as the reference system time (scale x raw un-paused time,
    # kept by the harness) reports them: the pacing must hold for both
    return [f"({coq_input(case, obs)}, {cl(_q(s) for s in obs['starts'])})",
            f"({coq_input(case, obs)}, {cl(_q(s) for s in obs['ref_starts'])})"]


def coq_expected(case, obs):
    return f"model_starts {coq_input(case, obs)}"


def nontrivial(case, obs):
    if case.get("kind") == "sys":
        return len(obs.get("starts") or []) >= 5 and case["k"] != [1, 1] and obs.get("pauses", 0) > 0
    k = Fraction(*case["k"])
    W = Fraction(*case["interval"]) - Fraction(*case["offset"])
    short = any(k * (Fraction(*t["eps"]) + Fraction(*t["dur"])) < W for t in case["ticks"])
    long_ = any(k * (Fraction(*t["eps"]) + Fraction(*t["dur"])) > W for t in case["ticks"])
    paused = any(t["pause"][0] > 0 for t in case["ticks"])
    return short and long_ and paused


def signature(case, obs):
    if "error" in obs or "crash" in obs:
        return "raises"
    if obs.get("edge_error"):
        return "pacing-raises-next-to-the-deadline:" + obs["edge_error"].split(":")[0]
    return "pacing"


def shrink(case):
    out = []
    if case.get("kind") == "sys":
        return out
    ts = case["ticks"]
    for i in range(len(ts) - 1, -1, -1):
        c = dict(case); c["ticks"] = ts[:i] + ts[i + 1:]; out.append(c)
    for i, t in enumerate(ts):
        if t["pause"][0]:
            c = dict(case); c["ticks"] = [dict(x) for x in ts]; c["ticks"][i]["pause"] = [0, 1]; out.append(c)
    return out


def describe(case, obs):
    return {"input": case, "starts": (obs.get("starts") or [])[:10]}


def distribution(cases, obs):
    d = {"scale": {}, "ticks": 0, "short": 0, "exact": 0, "long": 0, "paused_ticks": 0, "nonpositive_W": 0}
    d["whole_system_runs"] = sum(1 for c in cases if c.get("kind") == "sys")
    for c in cases:
        if c.get("kind") == "sys":
            continue
        k = Fraction(*c["k"]); W = Fraction(*c["interval"]) - Fraction(*c["offset"])
        d["scale"][f"{c['k'][0]}/{c['k'][1]}"] = d["scale"].get(f"{c['k'][0]}/{c['k'][1]}", 0) + 1
        d["nonpositive_W"] += int(W <= 0)
        for t in c["ticks"]:
            d["ticks"] += 1
            b = k * (Fraction(*t["eps"]) + Fraction(*t["dur"]))
            d["short" if b < W else "exact" if b == W else "long"] += 1
            d["paused_ticks"] += int(t["pause"][0] > 0)
    return d


TECHNIQUE = "Coq proof of the spacing law over an executable model of the sleep adjustor on the abstract clock (rationals) + the same law evaluated on step-start instants of the real FixedIntervalInteraction on a virtual clock"
LEVEL_TEXT = ("Machine-checked proof that for every interval, offset, time scale, sequence of overheads and step durations and pauses of any length at the loop guard, consecutive step starts are "
              "max(W, scaled overhead+duration) apart (plus the change in overhead): hence at least W apart, exactly W when the step fits, and paused real time never enters. Tied to /repo by driving the real "
              "FixedIntervalInteraction / SleepIntervalAdjustor / TimeController on a virtual raw clock and comparing start instants exactly inside Coq.")
LEVEL_NOTE = "Trusted: Coq kernel + vm_compute; coq/Model/Interval.v; faketime substitution and the patched public functions of module pamiq_core.time; exact dyadic floats. Pauses are applied at the guard (C01)."
DESIGN_REF = "DESIGN.md §4 C16"
