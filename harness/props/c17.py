"""C17 — remote commands are executed once, in order; status is truthful."""
import itertools

from harness.core import cb, cl
from harness.props.sysbase import *  # noqa: F401,F403
from harness.props import sysbase as B

ID = "C17"
THEOREM_FILE = "Properties/C17.v"
COQ_CASE_TYPE = "c17case"
COQ_AGREE = "c17_agree"
COQ_PROP_OK = "c17_prop_ok"
RULE = ("(a) seeded whole-system runs in which a scripted client issues in-process HTTP requests against the real Starlette app while the real control loop consumes: valid commands, bursts above the "
        "queue size (503), unknown paths (404), wrong methods (405), status requests at random instants, and as many runs in which status requests are issued right behind back-to-back resume/pause commands (so that the flags change while they are read); (b) the status decision table exhaustively for 0-4 threads. Checked: HTTP status per request against the "
        "queue operation it caused, commands taken once / in acceptance order / none after shutdown (Coq monitor), every status answer equals the table applied to the flag values read during that request. "
        "Non-trivial = a run with at least one 503, one 404/405 and three executed commands; distinct = canonical JSON.")
TRUSTED = B.TRUSTED_SYS + ["Starlette routing is exercised, not modelled (404/405 come from the real app)"]
ASSUMPTIONS = B.ASSUMPTIONS_SYS + ["the status request reads the flags one after the other: the answer must be the table's value for the values it read AND must have been true at some instant between the beginning and the end of the request (computed from the flag operations of the trace); the unchanged tree violates the second clause in one known way (open known finding D10)"]

STATUS = {"active": "StActive", "pausing": "StPausing", "paused": "StPaused", "resuming": "StResuming", "shutting down": "StShuttingDown"}
STATUS_ENUM = {1: "active", 2: "pausing", 3: "paused", 4: "resuming", 5: "shutting down", 6: "offline"}


def gen_one(rng, seed):
    sp = B.base_spec(rng, seed)
    sp["queue_size"] = rng.choice([1, 1, 2, 3])
    cmds = []
    for _ in range(rng.randint(2, 12)):
        r = rng.random()
        if r < 0.25:
            cmds.append(["sleep", rng.choice([0.0, 0.0005, 0.002, 0.006])])
        elif r < 0.5:
            cmds.append(["status"])
        elif r < 0.6:
            cmds.append(["raw", rng.choice(["GET", "POST", "DELETE"]), rng.choice(["/api/nope", "/api/pause/x", "/", "/api/status", "/api/pause", "/api/shutdown2"])])
        else:
            k = rng.choice(["pause", "resume", "save", "pause", "resume"])
            cmds += [[k]] * rng.choice([1, 1, 2, 4])   # bursts
            if rng.random() < 0.12:
                cmds.append(["shutdown"])              # a shutdown right behind a burst: the queue may be full
    cmds += [["sleep", 0.004], ["shutdown", "retry"], ["pause"], ["status"]]
    sp["cmds"] = cmds
    return sp


def gen_status_race(rng, seed):
    """status requests in flight while queued commands take effect: a resume and a pause (or two of each) are accepted
    back to back, so the control loop executes them - and the threads react - while the flags are being read"""
    sp = B.base_spec(rng, seed)
    sp["queue_size"] = rng.choice([2, 3, 5])
    sp["step_dur"] = rng.choice([0, 0, 0.0005])
    sp["train_dur"] = rng.choice([0, 0.001])
    sp["hook_dur"] = 0
    sp["pause_timeout"] = rng.choice([0.05, 1.0])
    sp.pop("save_at_ticks", None)
    cmds = [["pause", "retry"], ["sleep", rng.choice([0.002, 0.004, 0.008])]]
    for _ in range(rng.randint(2, 5)):
        block = rng.choice([[["resume"], ["pause"]], [["resume"], ["pause"]], [["pause"], ["resume"]], [["resume"], ["pause"], ["resume"]], [["resume"]], [["pause"]]])
        cmds += [list(c) for c in block]
        cmds += [["status"]] * rng.choice([1, 2, 3])
        if rng.random() < 0.6:
            cmds.append(["sleep", rng.choice([0.0, 0.0005, 0.002, 0.006])])
    cmds += [["sleep", 0.004], ["shutdown", "retry"], ["status"]]
    sp["cmds"] = cmds
    return sp


def gen(rng, tier):
    n, nr = {"quick": (250, 250), "thorough": (8000, 8000), "search": (300, 300)}[tier]      # whole-system runs make large cases files: a search round must stay affordable
    cases = [gen_one(rng, rng.randrange(10**9)) for _ in range(n)] + [gen_status_race(rng, rng.randrange(10**9)) for _ in range(nr)]
    for k in range(0, 5):
        for flags in itertools.product([False, True], repeat=k):
            for sh in (False, True):
                for rs in (False, True):
                    cases.append({"kind": "table", "shutdown": sh, "resume": rs, "flags": list(flags)})
    return cases


def table(st):
    if st["shutdown"]:
        return "shutting down"
    if not st["resume"]:
        return "paused" if (st["paused0"] and st["paused1"]) else "pausing"
    return "resuming" if (st["paused0"] or st["paused1"]) else "active"


def status_windows(obs):
    """for every status request: the answer, the flags in the order they were read, and the set of statuses that were
    TRUE at some instant between the beginning and the end of the request (from the flag operations of the whole trace)"""
    tr = obs.get("trace") or []
    st = {"resume": False, "shutdown": False, "paused0": False, "paused1": False}
    out, cur = [], None
    for e in tr:
        if e[1] in ("set", "clear") and e[2] in st:
            st[e[2]] = (e[1] == "set")
            if cur is not None:
                cur["true"].add(table(st))
        elif e[0] == "client" and e[1] == "status_b":
            cur = {"true": {table(st)}, "order": []}
        elif e[0] == "client" and e[1] == "is_set" and cur is not None:
            cur["order"].append(e[2])
        elif e[0] == "client" and e[1] == "status_e" and cur is not None:
            cur["answer"] = STATUS_ENUM.get(e[3])
            out.append(cur)
            cur = None
    return out


FLAG = {"shutdown": "FShutdown", "resume": "FResume", "paused0": "(FPaused 0)", "paused1": "(FPaused 1)"}
ST_COQ = {1: "StActive", 2: "StPausing", 3: "StPaused", 4: "StResuming", 5: "StShuttingDown"}


def status_events(obs):
    """the run as the Coq oracle [truthful] sees it: every write of a controller / thread flag, and for every status request
    its beginning, the flags it read with the values it got, and its answer"""
    out, inside = [], False
    for e in obs.get("trace") or []:
        if e[1] in ("set", "clear") and e[2] in FLAG:
            out.append(f"SWrite {FLAG[e[2]]} {cb(e[1] == 'set')}")
        elif e[0] == "client" and e[1] == "status_b":
            out.append("SBegin"); inside = True
        elif e[0] == "client" and e[1] == "is_set" and inside and e[2] in FLAG:
            out.append(f"SRead {FLAG[e[2]]} {cb(bool(e[3]))}")
        elif e[0] == "client" and e[1] == "status_e" and inside:
            inside = False
            if e[3] in ST_COQ:
                out.append(f"SEnd {ST_COQ[e[3]]}")
            else:
                return None          # an answer outside the table ('offline', an error): judged by http_consistent
    return out


def instant_inconsistency(obs):
    """the answer of a status request that was true at NO instant during the request, with the order of its flag reads"""
    for w in status_windows(obs):
        if w["answer"] not in w["true"]:
            order = list(dict.fromkeys(w["order"]))
            canonical = ["shutdown", "resume", "paused0", "paused1"]
            # the unchanged provider reads the controller first and then the thread flags (all() / any() may stop early)
            if len(order) >= 2 and order == canonical[:len(order)]:
                return "status-true-at-no-instant:reads=controller-then-threads"
            return "status-true-at-no-instant:reads=" + ",".join(order)
    return None


def http_consistent(obs):
    """every request: 200 <-> accepted put, 503 <-> refused put, 404/405 <-> no put; status answers follow the table"""
    tr = obs.get("trace") or []
    last_put = None
    reads = None
    for e in tr:
        if e[0] != "client":
            continue
        if e[1] == "q_put":
            last_put = e
        elif e[1] == "http":
            method, path, st = e[2], e[3], e[4]
            valid = method == "POST" and path in ("/api/pause", "/api/resume", "/api/save-state", "/api/shutdown")
            if valid:
                if last_put is None or (st == 200) != bool(last_put[3]) or st not in (200, 503):
                    return "http-status-vs-queue"
            else:
                expect = 200 if (method == "GET" and path == "/api/status") else (405 if path in ("/api/pause", "/api/resume", "/api/save-state", "/api/shutdown", "/api/status") else 404)
                if last_put is not None or st != expect:
                    return "invalid-request-had-effect"
            last_put = None
        elif e[1] == "status_b":
            reads = {}
        elif e[1] == "is_set" and reads is not None:
            reads.setdefault(e[2], e[3])
        elif e[1] == "status_e":
            if e[2] != 200:
                return "status-endpoint-error"
            sh, rs = reads.get("shutdown", False), reads.get("resume", True)
            flags = [reads[k] for k in sorted(reads) if k.startswith("paused")]
            if sh:
                exp = "shutting down"
            elif not rs:
                exp = "paused" if all(reads.get(f"paused{i}", False) for i in range(2)) else "pausing"
            else:
                exp = "resuming" if any(flags) else "active"
            if STATUS_ENUM.get(e[3]) != exp:
                return "status-not-truthful"
            reads = None
    return None


def precheck(case, obs):
    if case.get("kind") == "table":
        if "crash" in obs or "error" in obs:
            return {"agree": False, "prop_ok": False, "hard": True}
        return None
    v = B.precheck_common(case, obs)
    if v:
        return v
    if http_consistent(obs):
        return {"agree": True, "prop_ok": False}
    return None


def coq_case(case, obs):
    if case.get("kind") == "table":
        return f"(C17Table {cb(case['shutdown'])} {cb(case['resume'])} {cl(cb(f) for f in case['flags'])} {STATUS.get(obs['status'], 'StActive')})"
    run = f"(C17Run {B.coq_sysin(case, obs)} {B.coq_trace(obs['trace'])})"
    evs = status_events(obs)
    # the second case is the status half: the Coq oracle [truthful] decides whether every answer was true at some instant
    return [run, f"(C17Status 2 {cl('(' + e + ')' if ' ' in e else e for e in evs)})"] if evs is not None else run


def coq_expected(case, obs):
    if case.get("kind") == "table":
        return f"status_of {cb(case['shutdown'])} {cb(case['resume'])} {cl(cb(f) for f in case['flags'])}"
    return B.coq_expected(case, obs)


def nontrivial(case, obs):
    if case.get("kind") == "table":
        return False
    tr = obs.get("trace") or []
    st = [e[4] for e in tr if e[0] == "client" and e[1] == "http"]
    gets = sum(1 for e in tr if e[1] == "q_get")
    return 503 in st and (404 in st or 405 in st) and gets >= 3


def signature(case, obs):
    if case.get("kind") == "table":
        return "status-table"
    if "error" in obs or "crash" in obs:
        return "harness-error"
    return http_consistent(obs) or instant_inconsistency(obs) or "command-order"


def shrink(case):
    return [] if case.get("kind") == "table" else B.shrink(case)


def describe(case, obs):
    if case.get("kind") == "table":
        return {"table_row": case, "status": obs.get("status")}
    return B.describe(case, obs)


def distribution(cases, obs):
    runs = [(c, o) for c, o in zip(cases, obs) if c.get("kind") != "table"]
    d = B.distribution([c for c, _ in runs], [o for _, o in runs])
    d["table_rows"] = len(cases) - len(runs)
    d["http"] = {}
    for _, o in runs:
        for e in o.get("trace") or []:
            if e[0] == "client" and e[1] == "http":
                d["http"][str(e[4])] = d["http"].get(str(e[4]), 0) + 1
    d["status_requests"] = sum(1 for _, o in runs for e in (o.get("trace") or []) if e[1] == "status_e")
    return d


TECHNIQUE = "Coq simulation proof: the command-queue monitor holds on every trace accepted by the thread model M6; status table theorem; a Coq oracle for 'the answer was true at some instant of the request' over the interleaved flag writes and reads, proved to accept every snapshot provider and to reject the recorded sequential-read histories; whole-system runs with an in-process HTTP client and exhaustive table rows compared inside Coq"
LEVEL_TEXT = ("Machine-checked for any number of threads and queue size and every accepted trace: each accepted command is taken exactly once in acceptance order, a refused one never, nothing after a shutdown command, and no accepted command is still waiting when the second control tick after its acceptance begins; "
              "the status table yields 'paused' iff not shutting down, resume cleared and every flag set. Tied to /repo by runs of the real launch() with a scripted client issuing in-process ASGI requests (valid, bursts above the "
              "queue size, unknown paths, wrong methods, status) against the real Starlette app while the real control loop consumes, and by all rows of the status table for 0-4 threads on the real SystemStatusProvider.")
LEVEL_NOTE = ("Partial for the status clause: 'the answer was true at some instant of the request' is the Coq function truthful (Check/Sys.v), evaluated on the flag writes / reads / answers of every observed run; proved: it accepts every "
              "history of a provider that takes its readings at one instant (C17_snapshot_provider_is_truthful) and rejects the history recorded on the pinned tree and a retried-pause one (C17_sequential_reads_refuted). The real provider reads the flags "
              "one after the other, so the positive theorem does not apply to it: open known finding D10, see DESIGN.md 10.3. The table itself and the command-queue clause are theorems. Trusted: as C01, plus the in-process ASGI client; Starlette's routing is exercised, not modelled.")
DESIGN_REF = "DESIGN.md §4 C17"
