"""C18 — state retention keeps the newest states and deletes nothing else."""
from harness.core import cb, cl, cn

ID = "C18"
IMPL = "c18"
THEOREM_FILE = "Properties/C18.v"
COQ_IMPORT = "From Pamiq Require Import Model.Keeper Check.C18."
COQ_CASE_TYPE = "case"
COQ_AGREE = "agree"
COQ_PROP_OK = "prop_ok"
RULE = ("seeded histories on real directories: max_keep 0-4, 0-5 pre-existing state directories with distinct shuffled mtimes, 0-3 unrelated files, then up to 25 "
        "operations: save+append (directory created, or already gone), cleanup (several appends per cleanup, cleanups with nothing to do), removal of any entry by "
        "someone else, creation of unrelated files; plus max_keep < 0; plus whole-system relaunches (a first launch() leaves 2-5 states with shuffled mtimes, a second one resumes from any of them "
        "with a keeper on the same directory and saves more: what was saved is taken from the StateStore, deletions and listings from the keeper). Non-trivial = at least two cleanups that removed something; distinct = canonical JSON.")
TRUSTED = [
    "Coq 8.16.1 kernel incl. vm_compute",
    "hand-written model coq/Model/Keeper.v of StatesKeeper.cleanup / LatestStatesKeeper",
    "harness/impl/c18.py: real directories in a temp dir, os.utime for mtimes, directory listing after each operation",
]
ASSUMPTIONS = ["state directory names are pairwise distinct and nobody else creates an entry with the name of a state (names_ok of the theorem; the generator obeys it)",
               "shutil.rmtree removes exactly the subtree; Path.glob('*.state') returns exactly the matching entries"]


def gen_one(rng):
    mk = rng.choice([0, 1, 2, 2, 3, 4])
    matching = sorted(rng.sample(range(1, 7), rng.randint(0, 5)))
    mts = rng.sample(range(1, 50), len(matching))
    foreign = sorted(rng.sample(range(90, 94), rng.randint(0, 3)))
    ops, nxt, alive, fnew = [], 10, set(matching) | set(foreign), 94
    for _ in range(rng.randint(1, 25)):
        r = rng.random()
        if r < 0.45:
            create = rng.random() < 0.85
            ops.append(["append", nxt, create])
            if create:
                alive.add(nxt)
            nxt += 1
        elif r < 0.78:
            ops.append(["cleanup"])
        elif r < 0.92 and alive:
            p = rng.choice(sorted(alive)); ops.append(["extrm", p]); alive.discard(p)
        elif fnew < 99:
            ops.append(["extmk", fnew]); alive.add(fnew); fnew += 1
        else:
            ops.append(["cleanup"])
    return {"mk": mk, "matching": matching, "mtimes": [[i, m] for i, m in zip(matching, mts)], "foreign": foreign, "ops": ops}


def gen_sys(rng):
    """whole system: a first launch leaves 2-5 states behind, a second one resumes from one of them (any of them) with a
    LatestStatesKeeper on the same directory and saves some more"""
    from harness.props import sysbase as B
    r1 = B.base_spec(rng, rng.randrange(10**9))
    r1.update(step_dur=0.0005, train_dur=0.001, hook_dur=0, pause_timeout=1.0, chooser="random")
    r1["save_at_ticks"] = sorted(rng.sample(range(2, 30), rng.randint(1, 4)))
    r1["cmds"] = [["sleep", 0.06], ["shutdown", "retry"]]
    r2 = dict(r1, seed=rng.randrange(10**9))
    r2["save_at_ticks"] = sorted(rng.sample(range(2, 30), rng.randint(0, 3)))
    r2["cmds"] = [["sleep", 0.06], ["shutdown", "retry"]]
    return {"kind": "sys", "mk": rng.choice([0, 1, 2, 2, 3]), "mt_perm": rng.sample(range(8), 8), "load": rng.randrange(8), "run1": r1, "run2": r2}


def _d(case, obs):
    """the keeper-level case: generated, or (whole-system runs) derived from what the run actually saved"""
    return obs["derived"] if case.get("kind") == "sys" else case


def gen(rng, tier):
    n, ns = {"quick": (1200, 24), "thorough": (25000, 400), "search": (5000, 100)}[tier]
    cases = [gen_one(rng) for _ in range(n)] + [gen_sys(rng) for _ in range(ns)]
    for _ in range(5):
        c = gen_one(rng); c["mk"] = -rng.randint(1, 3); c["ops"] = []; cases.append(c)
    return cases


def precheck(case, obs):
    if "crash" in obs or "error" in obs:
        return {"agree": False, "prop_ok": False, "hard": True}
    if case["mk"] < 0:
        ok = obs.get("ctor") == "ValueError"
        return {"agree": ok, "prop_ok": ok}
    if "ctor" in obs:
        return {"agree": False, "prop_ok": False}
    if any(-1 in o[0] or -1 in o[1] for o in obs["obs"]):
        return {"agree": False, "prop_ok": False}
    return None


def _op(o):
    if o[0] == "append":
        return f"(KAppend {cn(o[1])} {cb(o[2])})"
    if o[0] == "cleanup":
        return "KCleanup"
    if o[0] == "extrm":
        return f"(KExtRemove {cn(o[1])})"
    return f"(KExtCreate {cn(o[1])})"


def coq_input(case):
    return ("{| i_mk := %s; i_matching := %s; i_mtimes := %s; i_foreign := %s; i_ops := %s |}"
            % (cn(case["mk"]), cl(cn(i) for i in case["matching"]), cl(f"({cn(i)}, {cn(m)})" for i, m in case["mtimes"]),
               cl(cn(i) for i in case["foreign"]), cl(_op(o) for o in case["ops"])))


def coq_case(case, obs):
    o = cl(f"({cl(cn(x) for x in r)}, {cl(cn(x) for x in f)})" for r, f in obs["obs"])
    return f"({coq_input(_d(case, obs))}, {o})"


def coq_expected(case, obs):
    return f"model_obs {coq_input(_d(case, obs))}"


def nontrivial(case, obs):
    return sum(1 for o in obs.get("obs", []) if o[0]) >= 2


def signature(case, obs):
    if "error" in obs or "crash" in obs:
        return "raises"
    return "retention"


def shrink(case):
    out = []
    if case.get("kind") == "sys":
        for key in ("run1", "run2"):
            t = case[key].get("save_at_ticks") or []
            for i in range(len(t)):
                c = dict(case); c[key] = dict(case[key], save_at_ticks=t[:i] + t[i + 1:]); out.append(c)
        return out
    ops = case["ops"]
    for i in range(len(ops) - 1, -1, -1):
        c = dict(case); c["ops"] = ops[:i] + ops[i + 1:]; out.append(c)
    if case["foreign"]:
        gone = case["foreign"][-1]
        if not any(o[0] == "extrm" and o[1] == gone for o in ops):
            c = dict(case); c["foreign"] = case["foreign"][:-1]; out.append(c)
    return out


def describe(case, obs):
    if case.get("kind") == "sys":
        return {"input": case, "keeper_level_case": obs.get("derived"), "resumed_from": obs.get("resumed_from"), "observed": (obs.get("obs") or [])[:12], "error": obs.get("error")}
    return {"input": case, "observed": (obs.get("obs") or [])[:12]}


def distribution(cases, obs):
    d = {"max_keep": {}, "preexisting": {}, "ops": {}, "cleanups_removing": 0, "cleanups_idle": 0}
    d["whole_system_relaunches"] = sum(1 for c in cases if c.get("kind") == "sys")
    for c, o in zip(cases, obs):
        if c.get("kind") == "sys":
            c = o.get("derived") or {"mk": c["mk"], "matching": [], "ops": []}
        d["max_keep"][str(c["mk"])] = d["max_keep"].get(str(c["mk"]), 0) + 1
        d["preexisting"][str(len(c["matching"]))] = d["preexisting"].get(str(len(c["matching"])), 0) + 1
        for op, y in zip(c["ops"], o.get("obs", [])):
            d["ops"][op[0]] = d["ops"].get(op[0], 0) + 1
            if op[0] == "cleanup":
                d["cleanups_removing" if y[0] else "cleanups_idle"] += 1
    return d


TECHNIQUE = "Coq invariant proof over an executable keeper + directory model; three-clause retention oracle proved on the model and evaluated on a real LatestStatesKeeper over real directories"
LEVEL_TEXT = ("Machine-checked proof that for every max_keep, every set of pre-existing states (any distinct mtimes), unrelated entries and every history of appends / cleanups / foreign removals and creations "
              "(with pairwise distinct state names), after each cleanup none of the max_keep most recently saved states was deleted, every older tracked state is gone, and nothing else was touched; the start-up scan is a permutation of the matching entries sorted oldest first and, with distinct mtimes, "
              "independent of the listing order; one cleanup leaves exactly the max_keep newest tracked states, reports only older tracked states that existed and are gone, and an untracked entry survives every keeper operation. "
              "Tied to /repo by running the real keeper on real directories with controlled mtimes and comparing listings and return values inside Coq; the same oracle is evaluated on the implementation's listings.")
LEVEL_NOTE = "Trusted: Coq kernel + vm_compute; coq/Model/Keeper.v; directory listing and os.utime in the runner; shutil.rmtree / glob semantics. Hypothesis names_ok (distinct state names, no foreign entry with a state's name)."
DESIGN_REF = "DESIGN.md §4 C18"
