"""C19 — PyTorch synchronisation is atomic for inference and never shares a module."""
from harness.core import cb, cl, cn, copt, cz

ID = "C19"
IMPL = "c19"
IMPL_CHUNK = 40
THEOREM_FILE = "Properties/C19.v"
COQ_IMPORT = "From Pamiq Require Import Model.TorchSync Check.C19."
COQ_CASE_TYPE = "case"
COQ_AGREE = "agree"
COQ_PROP_OK = "prop_ok"
RULE = ("the real pamiq_core/torch/model.py over a stand-in torch package; one inferring sim thread running 1-4 sections (infer() or 'with unwrap() as m') that read every parameter, one training sim thread running 1-6 operations "
        "(a step that rewrites every parameter and every grad in place, or sync()); 1-3 parameters, in 30% of the runs all frozen (requires_grad=False, updated in place by the trainer all the same); the inference procedure is the default one or a method given by name; every source line of torch/model.py, every lock operation and every tensor operation is a scheduling point and the schedule switches "
        "threads at 0-4 chosen points (quick: seeded random points; thorough: every single point and random pairs / triples). The observed event sequence must be accepted by the model, satisfy the monitor "
        "(no training write to the module a locked section reads; one module per section), and after a final sync both sides hold equal values, training mode restored, different objects. "
        "A third of the runs drive the training side through a real TorchTrainer (run() = setup with fresh optimizers, train with grads / optimizer step / zero_grad, sync, teardown; with or without a second, train-only model) and let the inference thread back-propagate through the module it holds. "
        "Around every completed synchronisation the training model's gradients are read silently: they must be the same before and after (clause of prop_ok). "
        "Non-trivial = at least one switch falls between an unwrap()/infer() call and its lock release while a sync is in flight; distinct = canonical JSON.")
TRUSTED = [
    "Coq 8.16.1 kernel incl. vm_compute",
    "hand-written acceptor coq/Model/TorchSync.v (M7) of TorchInferenceModel.infer / unwrap / _raw_model, UnwrappedContextManager and TorchTrainingModel.sync_impl",
    "harness/stubs/torch: stand-in for torch (real torch cannot be installed here): nn.Module with integer parameter tensors; state_dict returns references, load_state_dict copies parameter by parameter, deepcopy duplicates - the copy semantics of PyTorch, assumed",
    "harness/sim/sched.py (deterministic scheduler, sim RLock) and harness/sim/boot.py; line events by sys.settrace",
    "harness/impl/c19.py: harness Net module, training steps and inference procedure; the projection of module ids to 0 / 1",
]
ASSUMPTIONS = [
    "the stand-in's copy semantics equal PyTorch's (state_dict shares storage, load_state_dict copies in place, element by element)",
    "preemption happens between source lines / at tensor operations, not inside one tensor operation",
    "torch.inference_mode and devices / dtypes do not interact with the reference swapping (they are no-ops in the stand-in)",
]


def gen_one(rng, tier):
    n = rng.choice([1, 2, 2, 3])
    inf = [[rng.choice(["infer", "unwrap", "unwrap"])] for _ in range(rng.randint(1, 4))]
    train = []
    for _ in range(rng.randint(1, 6)):
        train.append([rng.choice(["step", "sync", "sync"])])
    if rng.random() < 0.7:
        train.append(["sync"])
    k = rng.choice([0, 1, 2, 2, 3, 4])
    # preemption points as fractions of the length of the un-preempted run (measured by the runner)
    return {"nparams": n, "inf": inf, "train": train, "preempt": [], "preempt_frac": sorted(round(rng.random(), 3) for _ in range(k)), "distinct": rng.random() < 0.5,
            "named_proc": rng.random() < 0.4,     # the inference procedure given as the NAME of a method of the module class
            "frozen": rng.random() < 0.3}         # every parameter has requires_grad=False (a frozen / target network that the trainer updates in place)


def gen_trainer(rng):
    """the training side is a real TorchTrainer: run() = setup (optimizers), train (grads, optimizer step, maybe zero_grad),
    sync, teardown; the inference thread may also back-propagate through the module it holds"""
    n = rng.choice([1, 2, 2, 3])
    inf = [[rng.choice(["infer", "unwrap", "backprop", "backprop"])] for _ in range(rng.randint(1, 4))]
    k = rng.choice([0, 1, 2, 2, 3, 4])
    return {"nparams": n, "inf": inf, "train": [["run"] for _ in range(rng.randint(1, 4))], "preempt": [], "preempt_frac": sorted(round(rng.random(), 3) for _ in range(k)),
            "distinct": True, "named_proc": rng.random() < 0.3, "frozen": False, "via_trainer": True, "critic": rng.random() < 0.5, "zero_grad": rng.random() < 0.6}


def gen(rng, tier):
    if tier == "thorough":
        cases = []
        base = {"nparams": 2, "inf": [["unwrap"], ["infer"]], "train": [["step"], ["sync"], ["step"], ["sync"]], "distinct": True}
        for a in range(0, 200):
            cases.append(dict(base, preempt=[a]))
            cases.append(dict(base, preempt=[a], frozen=True))
        for a in range(0, 200, 2):
            for b in range(a + 1, 200, 7):
                cases.append(dict(base, preempt=[a, b]))
        for _ in range(6000):
            cases.append(gen_one(rng, tier))
        for _ in range(3000):
            cases.append(gen_trainer(rng))
        return cases
    n, nt = {"quick": (600, 300), "search": (3000, 1500)}[tier]
    return [gen_one(rng, tier) for _ in range(n)] + [gen_trainer(rng) for _ in range(nt)]


def precheck(case, obs):
    if "crash" in obs or "error" in obs:
        return {"agree": False, "prop_ok": False, "hard": True}
    return None


WHO = {"inf": "WInf", "train": "WTrain"}


def lab(e):
    k = e[1]
    if k == "sec_b":
        return f"(LSecB {cb(e[2] == 'unwrap')})"
    if k == "sec_e":
        return "LSecE"
    if k == "acquire":
        return "LAcq"
    if k == "release":
        return "LRel"
    if k == "read":
        return f"(LRead {cn(e[2])} {cn(e[3])} {cz(e[4])})"
    if k == "write":
        return f"(LWrite {cn(e[2])} {cn(e[3])} {cz(e[4])})"
    if k == "copy":
        return f"(LCopy {cn(e[2])} {cn(e[3])} {cz(e[4])})"
    if k == "mode":
        return f"(LMode {cn(e[2])} {cb(e[3])})"
    if k == "grad":
        return f"(LGrad {cn(e[2])} {cn(e[3])} {copt(None if e[4] is None else cz(e[4]))})"
    raise ValueError(e)


def coq_trace(obs):
    return cl(f"({WHO[e[0]]}, {lab(e)})" for e in obs["events"])


def coq_input(case):
    return "{| i_n := %s; i_v0 := %s |}" % (cn(case["nparams"]), cl(cz(0) for _ in range(case["nparams"])))


def coq_case(case, obs):
    f = obs["final"]
    fin = "{| f_tref := %s; f_iref := %s; f_tparams := %s; f_iparams := %s; f_tgrads := %s; f_tmode := %s; f_imode := %s |}" % (
        cn(f["train_ref"]), cn(f["inf_ref"]), cl(cz(x) for x in f["train_params"]), cl(cz(x) for x in f["inf_params"]),
        cl(copt(None if g is None else cz(g)) for g in f["train_grads"]), cb(f["train_mode"]), cb(f["inf_mode"]))
    synced = bool(case["train"]) and case["train"][-1][0] in ("sync", "run")
    og = lambda l: cl(copt(None if g is None else cz(g)) for g in l)
    syncs = cl(f"({og(b)}, {og(a)})" for b, a in obs.get("sync_grads") or [])
    return "{| c_in := %s; c_tr := %s; c_fin := %s; c_synced := %s; c_syncs := %s |}" % (coq_input(case), coq_trace(obs), fin, cb(synced), syncs)


def coq_expected(case, obs):
    return f"(first_reject {cn(case['nparams'])} false (init (v0_of {cl(cz(0) for _ in range(case['nparams']))})) {coq_trace(obs)} 0, C19_ok {coq_trace(obs)})"


def nontrivial(case, obs):
    ev = obs.get("events", [])
    insec, sync = False, False
    for a, b in zip(ev, ev[1:]):
        if a[0] == "inf" and a[1] == "sec_b":
            insec = True
        if a[0] == "inf" and a[1] == "release":
            insec = False
        if a[0] == "train" and a[1] == "mode" and a[3] is False:
            sync = True
        if a[0] == "train" and a[1] == "mode" and a[3] is True:
            sync = False
        if insec and sync and a[0] != b[0]:
            return True
    return False


def torn(obs):
    for s in obs.get("sections", []):
        base = [v - (i if True else 0) for i, v in enumerate(s)]
        if len({v // 10 for v in s}) > 1:
            return True
    return False


def signature(case, obs):
    if "error" in obs or "crash" in obs:
        return "harness-error"
    ev = obs.get("events", [])
    # which kind of section read a module that was written meanwhile?
    kind, insec, mod, ws = None, False, None, set()
    for e in ev:
        if e[0] == "inf" and e[1] == "sec_b":
            kind = e[2]
        elif e[0] == "inf" and e[1] == "acquire":
            insec, mod, ws = True, None, set()
        elif e[0] == "inf" and e[1] == "release":
            insec = False
        elif e[0] == "inf" and e[1] == "read" and insec:
            if e[2] in ws or (mod is not None and mod != e[2]):
                return f"section-{kind}-reads-a-module-being-written"
            mod = e[2]
        elif e[0] == "train" and e[1] in ("write", "copy") and insec:
            if mod == e[2]:
                return f"section-{kind}-reads-a-module-being-written"
            ws.add(e[2])
    if any(b != a for b, a in obs.get("sync_grads") or []):
        return "sync-changes-the-training-model's-gradients"
    return "sync-effect-or-trace"


def shrink(case):
    out = []
    for key in ("inf", "train"):
        for i in range(len(case[key])):
            c = dict(case); c[key] = case[key][:i] + case[key][i + 1:]
            if c[key]:
                out.append(c)
    for i in range(len(case["preempt"])):
        c = dict(case); c["preempt"] = case["preempt"][:i] + case["preempt"][i + 1:]; out.append(c)
    pf = case.get("preempt_frac") or []
    for i in range(len(pf)):
        c = dict(case); c["preempt_frac"] = pf[:i] + pf[i + 1:]; out.append(c)
    if case["nparams"] > 2:
        c = dict(case); c["nparams"] = 2; out.append(c)
    return out


def describe(case, obs):
    return {"scenario": case, "sections_read": obs.get("sections"), "final": obs.get("final"), "events": obs.get("events"), "error": obs.get("error")}


def distribution(cases, obs):
    d = {"runs": len(cases), "events": 0, "sections": {"infer": 0, "unwrap": 0, "backprop": 0}, "syncs": 0, "steps": 0, "switches": 0, "preempt_points": {}, "frozen_models": sum(1 for c in cases if c.get("frozen"))}
    for c, o in zip(cases, obs):
        ev = o.get("events", [])
        d["events"] += len(ev)
        d["switches"] += sum(1 for a, b in zip(ev, ev[1:]) if a[0] != b[0])
        for s in c["inf"]:
            d["sections"][s[0]] += 1
        d["syncs"] += sum(1 for t in c["train"] if t[0] in ("sync", "run"))
        d["trainer_runs"] = d.get("trainer_runs", 0) + sum(1 for t in c["train"] if t[0] == "run")
        d["steps"] += sum(1 for t in c["train"] if t[0] == "step")
        k = str(len(c.get("preempt_frac") or c["preempt"])); d["preempt_points"][k] = d["preempt_points"].get(k, 0) + 1
    return d


TECHNIQUE = "Coq invariant proof over an acceptor of single parameter reads / writes, lock operations and sync micro-steps (M7) + trace inclusion of the real torch/model.py running on a stand-in torch under line-level deterministic interleavings"
LEVEL_TEXT = ("Machine-checked for any number of parameters, any contents and every accepted trace (every interleaving at the granularity of single parameter reads and writes): inside a locked inference section all reads name one module, "
              "that module is the inference-side reference, the training-side reference is a different module and no training write - a step's in-place update or the copy of a sync - targets it, so a section sees the old or the new "
              "parameters in full; a completed sync leaves equal values on both sides, the stashed grads and training mode on the training model, eval mode on the inference module, two different objects. The pinned unwrap() is refuted (D9). "
              "Tied to /repo by running the real torch/model.py on a stand-in torch package under line-level interleavings: event sequences accepted by the model, monitor and final facts evaluated in Coq.")
LEVEL_NOTE = "Real torch is absent from this sandbox: what is verified is the wrapper logic of torch/model.py; the stand-in's copy semantics (shared storage of state_dict, in-place element-wise load_state_dict) are an assumption named in trusted_base. TorchTrainer / TorchAgent are import-checked only."
DESIGN_REF = "DESIGN.md §4 C19"
