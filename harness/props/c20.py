"""C20 — the Gymnasium adapter respects the episode protocol."""
from harness.core import cb, cl, cn

ID = "C20"
IMPL = "c20"
THEOREM_FILE = "Properties/C20.v"
COQ_IMPORT = "From Pamiq Require Import Model.Gym Check.C20."
COQ_CASE_TYPE = "case"
COQ_AGREE = "agree"
COQ_PROP_OK = "prop_ok"
RULE = ("seeded histories of up to 40 interaction steps: per step the stand-in env's (terminated, truncated) flags (episode ends with probability ~0.25) and whether the "
        "agent's on_step / on_reset request a reset (incl. on the terminal step and inside on_reset); env given as instance or through gymnasium.make; every callback checks that the info dictionary and the reward are the ones produced with its observation (harness-side clause). "
        "Non-trivial = at least two episode ends and one reset request honoured on a non-terminal step; distinct = canonical JSON.")
TRUSTED = [
    "Coq 8.16.1 kernel incl. vm_compute",
    "hand-written model coq/Model/Gym.v of gym/env.py, gym/agent.py, gym/types.py and Interaction.step",
    "harness/stubs/gymnasium: minimal stand-in for the gymnasium package (Env, make) - real gymnasium is not installable offline",
    "harness/impl/c20.py: scripted Env and recording GymAgent subclass",
]
ASSUMPTIONS = ["the stand-in gymnasium.Env has the call signature of the real one (reset(seed, options) -> (obs, info); step(action) -> 5-tuple)"]


def gen_one(rng):
    pe = rng.choice([0.1, 0.25, 0.5])
    pr = rng.choice([0.0, 0.1, 0.3])
    steps = []
    for _ in range(rng.randint(1, 40)):
        end = rng.random() < pe
        t = end and rng.random() < 0.6
        u = end and (not t or rng.random() < 0.3)
        steps.append({"sreq": rng.random() < pr, "rreq": rng.random() < pr / 2, "term": t, "trunc": u})
    return {"steps": steps, "via_make": rng.random() < 0.2}


def gen(rng, tier):
    n = {"quick": 2000, "thorough": 40000, "search": 6000}[tier]
    return [gen_one(rng) for _ in range(n)]


def precheck(case, obs):
    if "crash" in obs or "error" in obs:
        return {"agree": False, "prop_ok": False, "hard": True}
    if any(e[0] in ("onreset", "onstep") and e[1] < 0 for e in obs["log"]):
        return {"agree": False, "prop_ok": False}
    if any(e[0] == "gstep" and not isinstance(e[1], int) for e in obs["log"]):
        return {"agree": False, "prop_ok": False}
    if obs.get("mixups"):
        # a callback got an info dictionary (or a reward) that did not come with its observation (harness-side clause)
        return {"agree": False, "prop_ok": False}
    return None


def _ev(e):
    k = e[0]
    if k == "greset":
        return "GReset"
    if k == "gstep":
        return f"(GStep {cn(e[1])} {cb(e[2])} {cb(e[3])})"
    if k == "onreset":
        return f"(AOnReset {cn(e[1])})"
    if k == "onstep":
        return f"(AOnStep {cn(e[1])} {cb(e[2])} {cb(e[3])})"
    if k == "req":
        return "AReq"
    return f"(ARet {cn(e[1])})"


def coq_input(case):
    return cl("{| step_req := %s; reset_req := %s; e_term := %s; e_trunc := %s |}" % (cb(s["sreq"]), cb(s["rreq"]), cb(s["term"]), cb(s["trunc"]))
              for s in case["steps"])


def coq_case(case, obs):
    return f"({coq_input(case)}, {cl(_ev(e) for e in obs['log'])})"


def coq_expected(case, obs):
    return f"glog {coq_input(case)}"


def nontrivial(case, obs):
    ends = sum(1 for s in case["steps"] if s["term"] or s["trunc"])
    req = any((s["sreq"] or s["rreq"]) and not (s["term"] or s["trunc"]) for s in case["steps"])
    return ends >= 2 and req


def signature(case, obs):
    if "error" in obs or "crash" in obs:
        return "raises"
    if obs.get("mixups"):
        return "result-delivered-with-the-wrong-info"
    return "episode-protocol"


def shrink(case):
    out = []
    st = case["steps"]
    for i in range(len(st) - 1, -1, -1):
        c = dict(case); c["steps"] = st[:i] + st[i + 1:]; out.append(c)
    for i in range(len(st)):
        for k in ("sreq", "rreq", "term", "trunc"):
            if st[i][k]:
                c = dict(case); c["steps"] = [dict(x) for x in st]; c["steps"][i][k] = False; out.append(c)
    return out


def describe(case, obs):
    return {"input": case, "log": (obs.get("log") or [])[:40]}


def distribution(cases, obs):
    d = {"steps": 0, "episode_ends": 0, "step_requests": 0, "reset_cb_requests": 0, "via_make": 0, "resets": 0}
    for c, o in zip(cases, obs):
        d["steps"] += len(c["steps"])
        d["via_make"] += int(c["via_make"])
        for s in c["steps"]:
            d["episode_ends"] += int(s["term"] or s["trunc"]); d["step_requests"] += int(s["sreq"]); d["reset_cb_requests"] += int(s["rreq"])
        d["resets"] += sum(1 for e in o.get("log", []) if e[0] == "greset")
    return d


TECHNIQUE = "Coq proof that every run of an executable model of the adapter is accepted by a protocol automaton + the same automaton evaluated on call logs of the real adapter over a stand-in gymnasium"
LEVEL_TEXT = ("Machine-checked proof that for every sequence of terminated/truncated flags and every pattern of reset requests (in on_step, on the terminal step, inside on_reset), over any number of steps, "
              "the model's call log is accepted by the episode-protocol automaton (reset at setup and exactly after an episode end or pending request, never a step while a reset is due, the step gets the latest "
              "callback's action, every environment output delivered once and in order). Tied to /repo by running the real GymEnvironment/GymAgent/Interaction over a scripted stand-in gymnasium.Env with a recording agent; "
              "logs are compared with the model and checked by the same automaton inside Coq.")
LEVEL_NOTE = "Trusted: Coq kernel + vm_compute; coq/Model/Gym.v; the stand-in gymnasium package (real gymnasium is absent); the recording agent. The theorem is about the model."
DESIGN_REF = "DESIGN.md §4 C20"
