"""Shared pieces of the system-level property modules (C01 C02 C03 C04 C09 C17): scenario generation,
conversion of traces, evidence helpers.  Each property module picks its monitor and its generator mix."""
from harness.core import cb, cl, cn
from harness.simtrace import coq_trace, project

IMPL = "sys"
IMPL_CHUNK = 25
COQ_IMPORT = "From Pamiq Require Import Model.Threads Check.Sys."
COQ_CASE_TYPE = "(sysin * trace)%type"
COQ_AGREE = "(fun c => accepted (fst c) (snd c))"

TRUSTED_SYS = [
    "Coq 8.16.1 kernel incl. vm_compute",
    "hand-written acceptor coq/Model/Threads.v (M6) of thread_control.py, threads/base.py, inference.py, training.py, control.py and launcher.launch",
    "harness/sim/sched.py: deterministic scheduler; sim Event / RLock / Thread / Queue / ThreadPoolExecutor / time mirror CPython (Event.wait: a set() during the wait wakes the waiter; a timeout may be reported although a set() came just after it fired)",
    "harness/sim/boot.py: pamiq_core imported on top of sim threading/time; ThreadPoolExecutor, web API Queue, uvicorn.run, StateStore's datetime rebound on pamiq_core modules",
    "harness/sim/system.py: recording / fault-injecting Agent, Environment, Trainer; module attributes pamiq_core.time.pause/resume/set_time_scale and StateStore.save_state wrapped to emit labels; in-process ASGI client",
]
ASSUMPTIONS_SYS = [
    "one sim thread runs at a time and switches only at operations of the sync primitives, callback boundaries and sleeps (the property's preemption points); data races inside a stretch of pure Python are not explored here",
    "time is abstracted in the model: a timed wait may time out at any moment",
    "user callbacks terminate (they end or raise)",
]


def gen_cmds(rng, kinds, nmax=7, shutdown=True):
    cmds = []
    for _ in range(rng.randint(0, nmax)):
        if rng.random() < 0.7:
            cmds.append(["sleep", rng.choice([0.0, 0.0005, 0.001, 0.003, 0.01])])
        cmds.append([rng.choice(kinds)])
    if shutdown:
        cmds += [["sleep", rng.choice([0.0, 0.002, 0.008])], ["shutdown", "retry"]]
    return cmds


def base_spec(rng, seed):
    sp = {"seed": seed, "step_dur": rng.choice([0, 0, 0.0005, 0.002, 0.02]), "train_dur": rng.choice([0, 0.001, 0.004, 0.03]),
          "hook_dur": rng.choice([0, 0, 0.001, 0.01]), "pause_timeout": rng.choice([0.001, 0.005, 0.05, 1.0]),
          "attempts": rng.choice([1, 2, 3]), "queue_size": rng.choice([1, 1, 2, 5]), "loop_delay": rng.choice([0.0005, 0.001, 0.003]),
          "chooser": rng.choice(["random", "random", "pct"]), "pct_depth": rng.choice([2, 4, 8]), "max_events": 6000, "budget": 30.0}
    if rng.random() < 0.3:
        sp["train_cond"] = [rng.randint(0, 3), rng.randint(0, 2)]
    if rng.random() < 0.3:
        sp["save_at_ticks"] = sorted(rng.sample(range(1, 40), rng.randint(1, 3)))
    return sp


def complete(obs):
    return bool(obs.get("trace")) and obs.get("deadlock") is None and obs["trace"][-1][0] == "main" and obs["trace"][-1][1] == "exit"


def coq_sysin(case, obs):
    return "{| s_attempts := %s; s_qmax := %s; s_complete := %s |}" % (cn(case["attempts"]), cn(case["queue_size"]), cb(complete(obs)))


def coq_case(case, obs):
    return f"({coq_sysin(case, obs)}, {coq_trace(obs['trace'])})"


def coq_expected(case, obs):
    return f"first_reject 2 kind2 {cn(case['attempts'])} {cn(case['queue_size'])} true init {coq_trace(obs['trace'])} 0"


def precheck_common(case, obs):
    if "crash" in obs or "error" in obs:
        return {"agree": False, "prop_ok": False, "hard": True}
    return None


def clock_moved_while_paused(obs):
    """the system clock read at the pause, at the beginning / end of every save inside it and just before the resume:
    once a pause has been acknowledged the clock does not advance (C01), and a state written meanwhile carries that
    value (C04).  Returns a description of the first change, or None."""
    frozen = None
    for e in obs.get("timeline") or []:
        if e[0] == "pause" and len(e) > 3:
            frozen = e[3]
        elif e[0] in ("save_b", "save_e", "resume") and len(e) > 3 and frozen is not None:
            if e[3] != frozen:
                return f"clock {frozen!r} at the pause, {e[3]!r} at {e[0]}"
            if e[0] == "resume":
                frozen = None
        elif e[0] == "resume":
            frozen = None
    return None


def shrink(case):
    out = []
    cmds = case.get("cmds", [])
    for i in range(len(cmds) - 1, -1, -1):
        if cmds[i][0] != "shutdown":
            c = dict(case); c["cmds"] = cmds[:i] + cmds[i + 1:]; out.append(c)
    for key in ("step_dur", "train_dur", "hook_dur"):
        if case.get(key):
            c = dict(case); c[key] = 0; out.append(c)
    if case.get("faults"):
        for i in range(len(case["faults"])):
            c = dict(case); c["faults"] = case["faults"][:i] + case["faults"][i + 1:]; out.append(c)
    if case.get("save_at_ticks"):
        c = dict(case); c["save_at_ticks"] = case["save_at_ticks"][:-1]; out.append(c)
    if case.get("chooser") == "pct":
        c = dict(case); c["chooser"] = "random"; out.append(c)
    return out


def describe(case, obs):
    tr = obs.get("trace") or []
    return {"scenario": case, "outcome": obs.get("outcome"), "deadlock": obs.get("deadlock"), "virtual_seconds": obs.get("vtime"),
            "events": len(tr), "trace_head": tr[:25]}


def distribution(cases, obs):
    d = {"events": 0, "context_switches": 0, "acknowledged_pauses": 0, "failed_attempts": 0, "runtime_saves": 0, "faults": 0,
         "outcomes": {}, "deadlocks": 0, "commands": {}, "timeouts": 0,
         "interrupts_delivered": {"at_a_tick": 0, "inside_a_shutdown": 0, "before_another_operation": 0}}
    for c, o in zip(cases, obs):
        tr = o.get("trace") or []
        if any(e[1] == "interrupt" for e in tr):
            k = "at_a_tick" if c.get("interrupt_at") is not None else ("inside_a_shutdown" if c.get("interrupt_in_shutdown") is not None else "before_another_operation")
            d["interrupts_delivered"][k] += 1
        d["events"] += len(tr)
        d["context_switches"] += sum(1 for a, b in zip(tr, tr[1:]) if a[0] != b[0])
        d["acknowledged_pauses"] += sum(1 for e in tr if e[1] == "clock_pause")
        d["timeouts"] += sum(1 for e in tr if e[1] == "wait_ret" and e[0].startswith("pool") and not e[3])
        d["runtime_saves"] += max(0, sum(1 for e in tr if e[1] == "save_b") - 1)
        d["faults"] += sum(1 for e in tr if e[1] in ("cb_raise", "save_raise", "savecond_raise", "interrupt"))
        k = str(o.get("outcome"))[:24]
        d["outcomes"][k] = d["outcomes"].get(k, 0) + 1
        d["deadlocks"] += int(o.get("deadlock") is not None)
        for cmd in c.get("cmds", []):
            d["commands"][cmd[0]] = d["commands"].get(cmd[0], 0) + 1
    return d
