"""Imports pamiq_core on top of the sim `threading` / `time` modules (nothing in /repo is edited).

1. pamiq_core is imported once normally, so that every third-party / stdlib dependency is loaded with
   the real primitives and stays that way.
2. All pamiq_core modules are dropped from sys.modules and imported again while sys.modules['threading']
   and sys.modules['time'] point at the sim modules: `import threading`, `from threading import RLock`,
   `import time`, `import time as _original_time` inside pamiq_core now bind sim objects.
3. Names that pamiq_core imported from other packages and that create threads or block are rebound on the
   pamiq_core modules (module globals, the seams the existing tests patch as well): ThreadPoolExecutor,
   queue.Queue of the web API, uvicorn.run, datetime of the state store.
"""
import importlib
import sys

from harness.sim import sched as S

_booted = None


class _FakeUvicorn:
    @staticmethod
    def run(*a, **k):
        return None


class _FakeDatetime:
    """datetime.now() of StateStore: strictly increasing instants, independent of the wall clock"""
    _n = 0

    @classmethod
    def now(cls):
        import datetime as _dt
        cls._n += 1
        return _dt.datetime(2030, 1, 1) + _dt.timedelta(seconds=cls._n)


def boot():
    global _booted
    if _booted:
        return _booted
    import pamiq_core  # noqa: F401  step 1
    import pamiq_core.launcher  # noqa: F401
    import pamiq_core.console  # noqa: F401
    import pamiq_core.testing  # noqa: F401
    for name in [m for m in sys.modules if m == "pamiq_core" or m.startswith("pamiq_core.")]:
        del sys.modules[name]
    simthreading = S.SimThreadingModule()
    simtime = S.SimTimeModule()
    saved = sys.modules["threading"], sys.modules["time"]
    sys.modules["threading"], sys.modules["time"] = simthreading, simtime
    try:
        pc = importlib.import_module("pamiq_core")
        importlib.import_module("pamiq_core.launcher")
        importlib.import_module("pamiq_core.console")
    finally:
        sys.modules["threading"], sys.modules["time"] = saved
    tc = importlib.import_module("pamiq_core.thread.thread_control")
    tc.ThreadPoolExecutor = S.ThreadPoolExecutor
    wa = importlib.import_module("pamiq_core.console.web_api")
    wa.Queue = S.Queue
    wa.uvicorn = _FakeUvicorn
    sp = importlib.import_module("pamiq_core.state_persistence")
    sp.datetime = _FakeDatetime
    _booted = {"pamiq_core": pc, "simtime": simtime, "simthreading": simthreading}
    return _booted
