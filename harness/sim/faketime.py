"""A virtual stdlib `time` module and the way it is put underneath pamiq_core.time.

pamiq_core/time.py does `import time as _original_time`; the module is re-executed with
sys.modules['time'] temporarily pointing at the fake, so that every raw clock read and raw sleep of
TimeController goes to the virtual clock.  Nothing in /repo is edited."""
import importlib
import sys
import time as _real
import types

OFF_TIME, OFF_PERF, OFF_MONO = 1000.0, 5.0, 7.0


class FakeTime(types.ModuleType):
    def __init__(self):
        super().__init__("time")
        self.now = 0.0
        self.sleeps = []
        self.on_read = None  # optional hook(kind)

    def time(self):
        if self.on_read:
            self.on_read("time")
        return OFF_TIME + self.now

    def perf_counter(self):
        if self.on_read:
            self.on_read("perf_counter")
        return OFF_PERF + self.now

    def monotonic(self):
        if self.on_read:
            self.on_read("monotonic")
        return OFF_MONO + self.now

    def sleep(self, d):
        if d < 0:
            raise ValueError("sleep length must be non-negative")      # as the real time.sleep does
        self.sleeps.append(d)
        self.now += d

    def __getattr__(self, name):  # everything else: the real module
        return getattr(_real, name)


def fresh_pamiq_time(fake):
    """pamiq_core.time re-executed on top of `fake`; returns the new module object."""
    import pamiq_core  # noqa: F401  (loads every dependency with the real clock first)
    import pamiq_core.time as old
    saved = sys.modules["time"]
    sys.modules["time"] = fake
    try:
        sys.modules.pop("pamiq_core.time", None)
        mod = importlib.import_module("pamiq_core.time")
    finally:
        sys.modules["time"] = saved
        sys.modules["pamiq_core.time"] = old
        import pamiq_core as pc
        pc.time = old
    return mod
