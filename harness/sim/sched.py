"""Deterministic cooperative scheduler for the real (unmodified) thread code of pamiq_core.

Real OS threads are used, but exactly one of them runs at any time (baton = one semaphore per
thread).  Every operation of a sim primitive is ONE atomic, labelled step: the thread first
yields (the chooser picks who goes next), and when it is chosen again it performs the operation
and appends `(thread, label...)` to the global trace.  Blocking operations register a wake
condition and an optional virtual deadline; virtual time only advances when nothing is runnable
(it jumps to the earliest deadline).  Nothing runnable and no deadline = deadlock, reported.

Primitives mirror CPython: Event.wait returns True when a set() happened while waiting even if
the flag was cleared again before the waiter ran (Condition.notify_all semantics).
"""
from __future__ import annotations

import threading as _rt
import time as _real_time
import types

OFF_TIME, OFF_PERF, OFF_MONO = 1000.0, 5.0, 7.0


from harness.stub_incomplete import StubIncomplete


class _StandIn:
    """base of the virtual primitives: using a part of the real API they do not provide is reported as such"""

    def __getattr__(self, name):
        if name.startswith("__"):
            raise AttributeError(name)
        raise StubIncomplete(f"virtual {type(self).__name__} has no attribute {name!r}")


class Deadlock(Exception):
    pass


class Abort(BaseException):
    """raised inside sim threads when the run is being torn down"""


class SimThread:
    def __init__(self, name):
        self.name = name
        self.sem = _rt.Semaphore(0)
        self.status = "runnable"   # runnable | blocked | done
        self.wake_pred = None
        self.deadline = None
        self.woken = None
        self.real = None
        self.exc = None
        self.inject = None         # exception instance to raise at the next yield of this thread


class Sched:
    def __init__(self, chooser, budget=60.0, max_events=200000):
        self.chooser = chooser
        self.times = []
        self.pre_op = None         # callable(sim thread) -> exception to raise before its next operation, or None
        self.threads: list[SimThread] = []
        self.by_ident: dict[int, SimThread] = {}
        self.cur: SimThread | None = None
        self.now = 0.0
        self.trace: list = []
        self.budget = budget
        self.max_events = max_events
        self.aborting = False
        self.deadlock = None
        self.done_evt = _rt.Event()
        self.n_choices = 0
        self.choices: list[str] = []
        self.unnamed = 0

    # ---------------------------------------------------------------- threads
    def spawn(self, fn, name):
        st = SimThread(name)

        def body():
            st.sem.acquire()
            self.by_ident[_rt.get_ident()] = st
            try:
                if not self.aborting:
                    fn()
            except Abort:
                pass
            except BaseException as e:  # noqa: BLE001
                st.exc = e
            finally:
                st.status = "done"
                if not self.aborting:
                    self.trace.append([st.name, "exit", "raised" if st.exc is not None else "ok"])
                    self.times.append(self.now)
                self._handoff(None)

        st.real = _rt.Thread(target=body, name="sim-" + name, daemon=True)
        self.threads.append(st)
        st.real.start()
        return st

    def me(self) -> SimThread | None:
        return self.by_ident.get(_rt.get_ident())

    def log(self, *label):
        self.trace.append([self.cur.name if self.cur else "?", *label])
        self.times.append(self.now)          # the virtual raw instant of every event (parallel to the trace)
        if len(self.trace) > self.max_events:
            self._abort(Deadlock("event budget exceeded"))

    # ---------------------------------------------------------------- scheduling
    def _pick(self):
        while True:
            for t in self.threads:
                if t.status == "blocked" and t.wake_pred is not None and t.wake_pred():
                    t.status = "runnable"
                    t.woken = True
            r = [t for t in self.threads if t.status == "runnable"]
            if r:
                self.n_choices += 1
                c = self.chooser(self, r)
                self.choices.append(c.name)
                return c
            waiting = [t for t in self.threads if t.status == "blocked" and t.deadline is not None]
            if not waiting:
                if all(t.status == "done" for t in self.threads):
                    return None
                raise Deadlock([(t.name, t.status) for t in self.threads if t.status != "done"])
            d = min(t.deadline for t in waiting)
            self.now = max(self.now, d)
            if self.now > self.budget:
                raise Deadlock("virtual time budget exceeded")
            for t in waiting:
                if t.deadline <= self.now:
                    t.status = "runnable"
                    t.woken = False
                    t.deadline = None

    def _abort(self, why):
        self.deadlock = why
        self.aborting = True
        self.done_evt.set()
        for t in self.threads:
            t.sem.release()
        raise Abort()

    def _handoff(self, me):
        if self.aborting:
            if me is not None:
                raise Abort()
            return
        try:
            nxt = self._pick()
        except Deadlock as e:
            self.deadlock = e
            self.aborting = True
            self.done_evt.set()
            for t in self.threads:
                t.sem.release()
            if me is not None:
                raise Abort() from None
            return
        if nxt is None:
            self.done_evt.set()
            return
        if nxt is me:
            return
        self.cur = nxt
        nxt.sem.release()
        if me is not None and me.status != "done":
            me.sem.acquire()
            if self.aborting:
                raise Abort()

    def yield_point(self):
        """give the scheduler a chance to run somebody else before the next atomic operation"""
        me = self.me()
        if me is None:
            return
        self._handoff(me)
        if me.inject is not None:
            e, me.inject = me.inject, None
            self.log("interrupt")
            raise e
        if self.pre_op is not None:
            e = self.pre_op(me)      # the harness may deliver an asynchronous exception before this operation
            if e is not None:
                self.log("interrupt")
                raise e

    def block(self, pred, timeout):
        """block the calling sim thread until pred() or the virtual deadline; returns True if woken by pred"""
        me = self.me()
        if me is None:
            return bool(pred())
        me.status = "blocked"
        me.wake_pred = pred
        me.deadline = None if timeout is None else self.now + max(timeout, 0.0)
        me.woken = None
        self._handoff(me)
        me.wake_pred = None
        me.deadline = None
        return bool(me.woken)

    def run(self, main, name="main", wall_timeout=120.0):
        st = self.spawn(main, name)
        self.cur = st
        st.sem.release()
        if not self.done_evt.wait(wall_timeout):
            self.deadlock = Deadlock("wall-clock timeout of the harness")
            self.aborting = True
            for t in self.threads:
                t.sem.release()
        self.trace = [[(x.name or "ev?") if isinstance(x, Event) else x for x in e] for e in self.trace]
        return self.trace


SCHED: Sched | None = None


def set_sched(s):
    global SCHED
    SCHED = s


# -------------------------------------------------------------------------- primitives
class Event(_StandIn):
    _names = []

    def __init__(self):
        self.flag = False
        self.gen = 0
        self.name = None   # assigned by the harness after construction (by role)

    def _n(self):
        return self            # resolved to self.name when the trace is finalised

    def is_set(self):
        if SCHED and SCHED.me():
            SCHED.yield_point()
            SCHED.log("is_set", self._n(), self.flag)
        return self.flag

    def set(self):
        if SCHED and SCHED.me():
            SCHED.yield_point()
            self.flag = True
            self.gen += 1
            SCHED.log("set", self._n())
        else:
            self.flag = True
            self.gen += 1

    def clear(self):
        if SCHED and SCHED.me():
            SCHED.yield_point()
            self.flag = False
            SCHED.log("clear", self._n())
        else:
            self.flag = False

    def wait(self, timeout=None):
        if not (SCHED and SCHED.me()):
            return self.flag
        SCHED.yield_point()
        if self.flag:
            SCHED.log("wait_now", self._n())
            return True
        g = self.gen
        SCHED.log("wait_block", self._n(), timeout is not None)
        r = SCHED.block(lambda: self.gen != g, timeout)
        SCHED.log("wait_ret", self._n(), bool(r))
        return bool(r)


class RLock(_StandIn):
    """Re-entrant lock.  Acquire/release are yield points only in line-level mode (SCHED.lock_yields)."""

    def __init__(self):
        self.owner = None
        self.count = 0
        self.name = None

    def acquire(self, blocking=True, timeout=-1):
        me = (SCHED.me() if SCHED else None) or "outside"
        if self.owner is me:
            self.count += 1
            return True
        if SCHED and SCHED.me():
            if getattr(SCHED, "lock_yields", False):
                SCHED.yield_point()
            while self.owner is not None:      # woken when free, but somebody may have taken it before we run: look again
                SCHED.block(lambda: self.owner is None, None)
            if getattr(SCHED, "lock_yields", False):
                SCHED.log("acquire", self.name or "lock")
        self.owner = me
        self.count = 1
        return True

    def release(self):
        self.count -= 1
        if self.count == 0:
            self.owner = None
            if SCHED and SCHED.me() and getattr(SCHED, "lock_yields", False):
                SCHED.log("release", self.name or "lock")

    def __enter__(self):
        self.acquire()
        return self

    def __exit__(self, *a):
        self.release()


Lock = RLock


class Thread:
    def __init__(self, group=None, target=None, name=None, args=(), kwargs=None, *, daemon=None):
        self._target = target
        self._args = args
        self._kwargs = kwargs or {}
        if name is None:        # pamiq_core's background threads are unnamed: number them in creation order
            name = f"bg{SCHED.unnamed if SCHED else 0}"
            if SCHED:
                SCHED.unnamed += 1
        self.name = name
        self.daemon = daemon
        self._st = None

    def start(self):
        if SCHED and SCHED.me():
            SCHED.yield_point()
            self._st = SCHED.spawn(lambda: self._target(*self._args, **self._kwargs), self.name)
            SCHED.log("start", self.name)
        else:
            raise RuntimeError("sim Thread started outside a sim run")

    def join(self, timeout=None):
        if not (SCHED and SCHED.me()):
            return
        SCHED.yield_point()
        if self._st.status != "done":
            SCHED.block(lambda: self._st.status == "done", timeout)
        SCHED.log("join", self.name)

    def is_alive(self):
        return self._st is not None and self._st.status != "done"


class Future:
    def __init__(self):
        self._r = None
        self._e = None

    def result(self, timeout=None):
        if self._e is not None:
            raise self._e
        return self._r


class ThreadPoolExecutor:
    """submit() starts a sim worker thread at once; leaving the context joins all of them."""
    _count = 0

    def __init__(self, max_workers=None, **kw):
        self._ths = []

    def __enter__(self):
        return self

    def submit(self, fn, *a, **k):
        f = Future()
        owner = getattr(fn, "__self__", None)
        role = getattr(owner, "pool_role", None) if owner is not None else None

        def run():
            try:
                f._r = fn(*a, **k)
            except Exception as e:  # noqa: BLE001
                f._e = e

        t = Thread(target=run, name=f"pool:{role if role is not None else len(self._ths)}")
        self._ths.append(t)
        t.start()
        return f

    def shutdown(self, wait=True, **kw):
        if wait:
            for t in self._ths:
                t.join()

    def __exit__(self, *a):
        self.shutdown(True)
        return False


class Full(Exception):
    pass


class Empty(Exception):
    pass


class Queue(_StandIn):
    """queue.Queue restricted to the non-blocking operations pamiq_core uses; each is a yield point."""

    class _Cond:
        def notify(self, n=1):
            pass

        def notify_all(self):
            pass

    def __init__(self, maxsize=0):
        self.maxsize = maxsize
        self.items = []
        # the attributes of queue.Queue that code reaching into its internals expects (the container itself, its
        # mutex and condition variables): the container is the same list object, so such code acts on the real content
        self.queue = self.items
        self.mutex = RLock()
        self.not_empty = Queue._Cond()
        self.not_full = Queue._Cond()
        self.all_tasks_done = Queue._Cond()
        self.unfinished_tasks = 0

    def put_nowait(self, item):
        import queue as _q
        if SCHED and SCHED.me():
            SCHED.yield_point()
        if 0 < self.maxsize <= len(self.items):
            if SCHED and SCHED.me():
                SCHED.log("q_put", getattr(item, "name", str(item)), False)
            raise _q.Full
        self.items.append(item)
        if SCHED and SCHED.me():
            SCHED.log("q_put", getattr(item, "name", str(item)), True)

    def get_nowait(self):
        import queue as _q
        if SCHED and SCHED.me():
            SCHED.yield_point()
        if not self.items:
            if SCHED and SCHED.me():
                SCHED.log("q_get_empty")
            raise _q.Empty
        item = self.items.pop(0)
        if SCHED and SCHED.me():
            SCHED.log("q_get", getattr(item, "name", str(item)))
        return item

    def empty(self):
        if SCHED and SCHED.me():
            SCHED.yield_point()
            SCHED.log("q_empty", not self.items)
        return not self.items

    def qsize(self):
        return len(self.items)


class SimThreadingModule(types.ModuleType):
    def __init__(self):
        super().__init__("threading")
        self.Event = Event
        self.RLock = RLock
        self.Lock = Lock
        self.Thread = Thread

    def __getattr__(self, name):
        if name in ("Condition", "Semaphore", "BoundedSemaphore", "Barrier", "Timer"):
            # the real ones would block the OS thread without yielding to the virtual scheduler
            raise StubIncomplete(f"virtual threading has no {name}")
        return getattr(_rt, name)


class SimTimeModule(types.ModuleType):
    """virtual stdlib time: clock = offsets + SCHED.now; sleep blocks the sim thread until a virtual deadline"""

    def __init__(self):
        super().__init__("time")
        self.base = 0.0   # used when no sim run is active

    def _now(self):
        return SCHED.now if SCHED is not None else self.base

    def time(self):
        return OFF_TIME + self._now()

    def perf_counter(self):
        return OFF_PERF + self._now()

    def monotonic(self):
        return OFF_MONO + self._now()

    def sleep(self, d):
        if d < 0:
            raise ValueError("sleep length must be non-negative")      # as the real time.sleep does
        if SCHED and SCHED.me():
            SCHED.yield_point()
            SCHED.log("sleep")
            SCHED.block(lambda: False, d)
        # outside a sim run: nothing to wait for

    def __getattr__(self, name):
        return getattr(_real_time, name)


def sim_sleep(d):
    """for harness callbacks: let d virtual seconds pass (a yield point labelled 'sleep')"""
    if SCHED and SCHED.me():
        SCHED.yield_point()
        SCHED.log("sleep")
        SCHED.block(lambda: False, d)


def mark(*label):
    """for harness components: an atomic labelled step (a yield point)"""
    if SCHED and SCHED.me():
        SCHED.yield_point()
        SCHED.log(*label)


# -------------------------------------------------------------------------- choosers
def chooser_random(rng):
    def ch(s, runnable):
        return rng.choice(runnable)
    return ch


def chooser_pct(rng, depth, est_len=400):
    """PCT-style: random priorities; at `depth` random change points the running thread's priority drops"""
    prio: dict[str, float] = {}
    change = sorted(rng.randrange(1, est_len) for _ in range(depth))
    state = {"k": 0}

    def ch(s, runnable):
        for t in runnable:
            if t.name not in prio:
                prio[t.name] = rng.random() + 1.0
        state["k"] += 1
        best = max(runnable, key=lambda t: prio[t.name])
        if change and state["k"] >= change[0]:
            change.pop(0)
            prio[best.name] = rng.random() * 0.5
            best = max(runnable, key=lambda t: prio[t.name])
        return best
    return ch


def chooser_explicit(names, then=None):
    """replay a recorded list of thread names; afterwards fall back to `then` (or first runnable)"""
    it = iter(names)

    def ch(s, runnable):
        for n in it:
            for t in runnable:
                if t.name == n:
                    return t
            # recorded choice not runnable here: the replay has diverged; fall through to the fallback
            break
        return then(s, runnable) if then else runnable[0]
    return ch
